import Prom.Lemmas.C10Aux
import Prom.Lemmas.C10RealTime
import Prom.Lemmas.C01Mono

namespace Prom.C10
open Prom Prom.Conc Prom.RT Prom.C01

/-- states reachable by accepting items of a real trace: any number of threads, any programs
    (`with`, `remove`, `reset`, `collect`, updates through handles), any interleaving of their
    critical sections -/
inductive VReach (prog : List (List String)) : VSt → Prop
  | init : VReach prog { ths := prog.map fun ops => { ops := ops } }
  | step {s s' it} : VReach prog s → vItem s it = .ok s' → VReach prog s'

/-- **vec_linearizable** — for every accepted run: the vector's content (label value ↦ child, child ↦
    value) is exactly what the sequential specification `VSpec.apply` yields when the committed
    operations are run one at a time in commit order, and every committed operation returned what the
    specification returns at its place. Each operation commits at one step of its own call — the
    lookup of a hit under the read lock; the get-or-create under the write lock after a miss (where
    the key is looked up AGAIN); the remove / reset under the write lock (a remove may look the key up
    under the read lock first: an absent key commits there, a present one at the write lock, where it
    is looked up AGAIN - `remove_precheck_accepted`; a reset may check under the read lock first whether
    the map is empty: an empty map commits there, a non-empty one at the write lock, where whatever the
    map holds then is cleared - `reset_precheck_accepted`); a collect's key set at its
    read lock and each child value at its load; an update through a handle at its fetch_add, or - when
    the increment is written as a load + compare-exchange loop - at its SUCCESSFUL compare-exchange (the
    loads and the failed exchanges of the loop commit nothing: `child_inc_as_cas_loop_accepted`) — so the
    order is consistent with real time. -/
theorem vec_linearizable {prog : List (List String)} {s : VSt} (h : VReach prog s) :
    specRunV {} s.lin = some s.spec := by
  induction h with
  | init => simp [specRunV]
  | step _ hs ih => exact vTrans_linInv ih (vItem_trans hs)

/-- the machine changes the vector's content only by performing recorded operations of the
    specification, and the commit order is never revised -/
theorem only_recorded_effects {s s' : VSt} {it : Item} (h : vItem s it = .ok s') :
    VTrans s s' ∧ s.lin <+: s'.lin :=
  ⟨vItem_trans h, vTrans_lin_mono (vItem_trans h)⟩

/-- **no label values twice** — in every reachable state the keys of the vector are pairwise
    distinct (so a collection never shows the same label values twice) and every key maps to a child
    that exists -/
theorem keys_distinct {prog : List (List String)} {s : VSt} (h : VReach prog s) : SpecInv s.spec := by
  induction h with
  | init => exact ⟨by simp, by simp⟩
  | step _ hs ih =>
    cases vItem_trans hs with
    | frame hsp _ => rw [hsp]; exact ih
    | eff t i op hsp _ => rw [hsp]; exact apply_specInv _ op ih

/-! ### the commit order is consistent with real time -/

/-- the states of accepted runs are the continuations (`VRun`) of the initial state -/
theorem vReach_iff_vRun {prog : List (List String)} {s : VSt} : VReach prog s ↔ VRun (vInit prog) s := by
  constructor
  · intro h
    induction h with
    | init => exact .init
    | step _ hs ih => exact .step ih hs
  · intro h
    induction h with
    | init => exact .init
    | step _ hs ih => exact .step ih hs

/-- **vec_commits_within_call** — every entry of the commit log was appended by a step of its own
    call, between that call's call mark and its return mark: an accepted item that changes the log is
    an EVENT of a thread whose call is open (`pc ≠ none`: the call mark has been accepted, the return
    mark has not), it appends exactly one entry `x`, and `x` carries this thread and the index of that
    open call (which the step leaves open or complete, but does not close: `idx` unchanged). Call
    marks, return marks and the other events leave the log as it is. (The update through a handle
    reported as sub-call `<i>u` after call `i` returned is such an open call too; it runs under the
    thread's current index `i + 1`.) -/
theorem vec_commits_within_call {s s' : VSt} {it : Item} (h : vItem s it = .ok s') :
    s'.lin = s.lin ∨
    ∃ e th x, it = .ev e ∧ s.ths[e.tid]? = some th ∧ th.pc.isSome = true ∧
      s'.lin = s.lin ++ [x] ∧ x.tid = e.tid ∧ x.idx = th.idx ∧
      ∃ th', s'.ths[e.tid]? = some th' ∧ th'.idx = th.idx ∧ th'.ops = th.ops :=
  vItem_commit_within_call h

/-- **vec_log_index_bound** (the invariant behind the real-time theorem) — in every state of an
    accepted run every entry of the commit log belongs to an existing thread and to a call that this
    thread has at least reached: no entry is tagged with a call of the future -/
theorem vec_log_index_bound {prog : List (List String)} {s : VSt} (h : VReach prog s) :
    ∀ e ∈ s.lin, ∃ th, s.ths[e.tid]? = some th ∧ e.idx ≤ th.idx :=
  vRun_bound (vReach_iff_vRun.1 h)

/-- **vec_returned_call_is_final** — once a call `(t, i)` has returned (state `s`), no later step
    commits anything for it: in every continuation `s'`, all its log entries lie inside the log of
    `s` (which is a prefix of the log of `s'`) -/
theorem vec_returned_call_is_final {s s' : VSt} (h' : VRun s s') {t i : Nat} {th : Th VPc}
    (hth : s.ths[t]? = some th) (hret : i < th.idx) {p : Nat} {x : VLin}
    (hx : s'.lin[p]? = some x) (hxt : x.tid = t ∧ x.idx = i) : p < s.lin.length ∧ s.lin <+: s'.lin :=
  ⟨vRun_returned_pos h' hth hret hx hxt, vRun_lin_prefix h'⟩

/-- **vec_real_time_order** — the commit order of the vector machine is consistent with real time.
    Take any state `s` of an accepted run and any continuation to `s'`. A call (`t`, `i`) that has
    RETURNED in `s` (`i <` the call index of thread `t`) and a call (`t'`, `i'`) that in `s` has not
    started - thread `t'` has not reached it yet (`idx < i'`), or, more generally, nothing has been
    committed for it yet (no entry of the log of `s` is tagged `(t', i')`): wherever entries of the
    two calls appear in the later commit log, EVERY entry of the first is before EVERY entry of the
    second (a `collect`, a `with` that misses … may commit more than once; the statement is about all
    their entries).

    The second alternative replaces "`i' = th'.idx ∧ th'.pc = none ∧ th'.retv = none`" (thread `t'` is
    idle and `i'` is its next call), which is NOT sufficient for this machine: the update through a
    handle is reported as a sub-call `<i>u` AFTER call `i` has returned, it commits under the thread's
    current index `i + 1`, and the thread is idle again afterwards with `idx = i + 1` - see
    `vec_idle_thread_may_have_committed` for an accepted run in which a call that returned later is
    therefore logged after an entry tagged with the idle thread's next call. -/
theorem vec_real_time_order {prog : List (List String)} {s s' : VSt}
    (h : VReach prog s) (h' : VRun s s')
    {t t' : Nat} {th th' : Th VPc} (hth : s.ths[t]? = some th) (hth' : s.ths[t']? = some th')
    {i i' : Nat} (hret : i < th.idx)
    (hnot : th'.idx < i' ∨ ∀ e ∈ s.lin, ¬ (e.tid = t' ∧ e.idx = i'))
    {p q : Nat} {x y : VLin} (hx : s'.lin[p]? = some x) (hy : s'.lin[q]? = some y)
    (hxt : x.tid = t ∧ x.idx = i) (hyt : y.tid = t' ∧ y.idx = i') : p < q := by
  have hno : ∀ e ∈ s.lin, ¬ (e.tid = t' ∧ e.idx = i') := by
    rcases hnot with hn | hn
    · exact vRun_no_entry_future (vReach_iff_vRun.1 h) hth' hn
    · exact hn
  exact vRun_real_time h' hth hret hno hx hy hxt hyt

/-- **vec_idle_thread_may_have_committed** — why "not started" cannot be "`i' = idx` of an idle
    thread" for this machine: `subcallTrace` is an accepted run of the programs `with:a` | `reset`
    after which call (1, 0) has RETURNED (`0 < idx` of thread 1), thread 0 is idle with call index 1
    (`pc = none`, `retv = none`: by that reading call (0, 1) "has not started"), and yet the commit log
    is `(0,0) getOrCreate, (0,1) inc, (1,0) reset`: the entry of the returned call (1, 0), at position
    2, comes AFTER the entry tagged (0, 1), at position 1 - the handle update of sub-call `0u`, made
    under thread 0's current index 1 before call (1, 0) began. With `s' = s` this refutes the
    real-time statement in that formulation; `vec_real_time_order` excludes it by asking that
    nothing be committed yet for (`t'`, `i'`). -/
theorem vec_idle_thread_may_have_committed :
    ∃ s, VReach [["with:a"], ["reset"]] s ∧ VRun s s ∧
      ∃ th th' x y, s.ths[1]? = some th ∧ s.ths[0]? = some th' ∧ 0 < th.idx ∧
        (1 = th'.idx ∧ th'.pc = none ∧ th'.retv = none) ∧
        s.lin[2]? = some x ∧ s.lin[1]? = some y ∧ (x.tid = 1 ∧ x.idx = 0) ∧ (y.tid = 0 ∧ y.idx = 1) ∧
        ¬ (2 < 1) := by
  have r0 : Nat.repr 0 = "0" := by decide +kernel
  have og : ordGe "Relaxed" "Relaxed" = true := by decide +kernel
  have h : ∃ s, runItems vItem (vInit [["with:a"], ["reset"]]) subcallTrace 0 = .ok s ∧
      ∃ th th' x y, s.ths[1]? = some th ∧ s.ths[0]? = some th' ∧ 0 < th.idx ∧
        (1 = th'.idx ∧ th'.pc = none ∧ th'.retv = none) ∧
        s.lin[2]? = some x ∧ s.lin[1]? = some y ∧ (x.tid = 1 ∧ x.idx = 0) ∧ (y.tid = 0 ∧ y.idx = 1) := by
    simp [runItems, subcallTrace, vInit, vItem, vStep, vIncAdd, bindChild, vEff, setHandle, Conc.guard, openCall, closeCall, r0, og,
      opName_with_a, opArg_with_a, opName_reset, endsWith_0u, endsWith_0, VSpec.lookup, VSpec.apply]
  obtain ⟨s, hr, th, th', x, y, h1, h2, h3, h4, h5, h6, h7, h8⟩ := h
  exact ⟨s, vReach_iff_vRun.2 (runItems_vRun hr), .init, th, th', x, y, h1, h2, h3, h4, h5, h6, h7, h8, by omega⟩

/-! ### the pre-checked remove: a read-locked lookup before the write-locked remove -/

/-- **remove_precheck_accepted** — the machine accepts a `remove` that first looks the key up under the
    READ lock, and both outcomes of that lookup are reachable:
    (1) `rmAbsentTrace`: the key is absent; the call commits `.remove "a"` with result `.err` at its read
        lock, completes at the read unlock and returns "err" - the whole run contains no write lock; the
        program is finished (`allDone`), the lock is free, the log is that one entry;
    (2) `rmPresentTrace`: the key is present; after the read-locked section (the first 9 items) NOTHING
        has been committed for the remove (the log is the `with`'s get-or-create alone) and the thread
        expects the write lock (`rmNeedW`); the write-locked section then commits `.remove "a"` with
        result `.ok`, the call returns "ok", the key is gone;
    (3) `rmGapTrace`: as (2), but another thread's `reset` runs between the read-locked lookup and the
        write-locked remove: the remove commits AFTER the reset, with result `.err`, and returns "err".
    All three end states are `VReach`able, so `vec_linearizable`, `keys_distinct`, `vec_real_time_order`
    … apply to them. -/
theorem remove_precheck_accepted :
    (∃ s, runItems vItem (vInit [["rm:a"]]) rmAbsentTrace 0 = .ok s ∧ VReach [["rm:a"]] s ∧
      allDone s.ths = true ∧ s.lin = [⟨0, 0, .remove "a", .err⟩] ∧ s.spec.map = [] ∧
      s.lockW = none ∧ s.lockR = []) ∧
    (∃ s1 s, runItems vItem (vInit [["with:a", "rm:a"]]) (rmPresentTrace.take 9) 0 = .ok s1 ∧
      s1.lin = [⟨0, 0, .getOrCreate "a", .child 0⟩] ∧ s1.spec.map = [("a", 0)] ∧
      s1.ths.map (·.pc) = [some (.rmNeedW "rm:a")] ∧ s1.lockW = none ∧ s1.lockR = [] ∧
      runItems vItem (vInit [["with:a", "rm:a"]]) rmPresentTrace 0 = .ok s ∧ VReach [["with:a", "rm:a"]] s ∧
      allDone s.ths = true ∧
      s.lin = [⟨0, 0, .getOrCreate "a", .child 0⟩, ⟨0, 1, .remove "a", .ok⟩] ∧ s.spec.map = [] ∧
      s.lockW = none ∧ s.lockR = []) ∧
    (∃ s, runItems vItem (vInit [["with:a", "rm:a"], ["reset"]]) rmGapTrace 0 = .ok s ∧
      VReach [["with:a", "rm:a"], ["reset"]] s ∧ allDone s.ths = true ∧
      s.lin = [⟨0, 0, .getOrCreate "a", .child 0⟩, ⟨1, 0, .reset, .unit⟩, ⟨0, 1, .remove "a", .err⟩] ∧
      s.spec.map = [] ∧ s.lockW = none ∧ s.lockR = []) := by
  have r0 : Nat.repr 0 = "0" := by decide +kernel
  have r1 : Nat.repr 1 = "1" := by decide +kernel
  have reach : ∀ {prog tr s}, runItems vItem (vInit prog) tr 0 = .ok s → VReach prog s :=
    fun hr => vReach_iff_vRun.2 (runItems_vRun hr)
  refine ⟨?_, ?_, ?_⟩
  · have h : ∃ s, runItems vItem (vInit [["rm:a"]]) rmAbsentTrace 0 = .ok s ∧
        allDone s.ths = true ∧ s.lin = [⟨0, 0, .remove "a", .err⟩] ∧ s.spec.map = [] ∧
        s.lockW = none ∧ s.lockR = [] := by
      simp [runItems, rmAbsentTrace, vInit, vItem, vStep, vEff, Conc.guard, openCall, closeCall, allDone, r0,
        opName_rm_a, opArg_rm_a, endsWith_0, VSpec.lookup, VSpec.apply]
    obtain ⟨s, hr, h1⟩ := h
    exact ⟨s, hr, reach hr, h1⟩
  · have h : ∃ s1 s, runItems vItem (vInit [["with:a", "rm:a"]]) (rmPresentTrace.take 9) 0 = .ok s1 ∧
        s1.lin = [⟨0, 0, .getOrCreate "a", .child 0⟩] ∧ s1.spec.map = [("a", 0)] ∧
        s1.ths.map (·.pc) = [some (.rmNeedW "rm:a")] ∧ s1.lockW = none ∧ s1.lockR = [] ∧
        runItems vItem (vInit [["with:a", "rm:a"]]) rmPresentTrace 0 = .ok s ∧
        allDone s.ths = true ∧
        s.lin = [⟨0, 0, .getOrCreate "a", .child 0⟩, ⟨0, 1, .remove "a", .ok⟩] ∧ s.spec.map = [] ∧
        s.lockW = none ∧ s.lockR = [] := by
      simp [runItems, rmPresentTrace, vInit, vItem, vStep, vEff, setHandle, Conc.guard, openCall, closeCall, allDone,
        r0, r1, opName_with_a, opArg_with_a, opName_rm_a, opArg_rm_a, endsWith_0, endsWith_1, VSpec.lookup, VSpec.apply]
    obtain ⟨s1, s, h1, h2, h3, h4, h5, h6, hr, h7⟩ := h
    exact ⟨s1, s, h1, h2, h3, h4, h5, h6, hr, reach hr, h7⟩
  · have h : ∃ s, runItems vItem (vInit [["with:a", "rm:a"], ["reset"]]) rmGapTrace 0 = .ok s ∧
        allDone s.ths = true ∧
        s.lin = [⟨0, 0, .getOrCreate "a", .child 0⟩, ⟨1, 0, .reset, .unit⟩, ⟨0, 1, .remove "a", .err⟩] ∧
        s.spec.map = [] ∧ s.lockW = none ∧ s.lockR = [] := by
      simp [runItems, rmGapTrace, vInit, vItem, vStep, vEff, setHandle, Conc.guard, openCall, closeCall, allDone,
        r0, r1, opName_with_a, opArg_with_a, opName_rm_a, opArg_rm_a, opName_reset, endsWith_0, endsWith_1,
        VSpec.lookup, VSpec.apply]
    obtain ⟨s, hr, h1⟩ := h
    exact ⟨s, hr, reach hr, h1⟩

/-! ### the pre-checked reset: a read-locked emptiness check before the write-locked clear -/

/-- **reset_at_read_lock_keeps_content** — whatever a `reset` does at a READ lock (the first event of
    the call is "R"), the vector's content is the same afterwards: either the map was empty and the
    committed `.reset` left it as it was (`reset_empty`), or nothing was committed. A read-locked
    section of `reset` never clears anything. -/
theorem reset_at_read_lock_keeps_content {s s' : VSt} {e : Ev} {th : Th VPc} {op : String}
    (hth : s.ths[e.tid]? = some th) (hpc : th.pc = some (.start op)) (hn : opName op = "reset")
    (hk : e.k = "R") (h : vStep s e = .ok s') : s'.spec = s.spec := by
  have hw : ("reset" == "with") = false := by decide +kernel
  have hc : ("reset" == "collect") = false := by decide +kernel
  have hr : ("reset" == "rm") = false := by decide +kernel
  unfold vStep at h
  simp only [hth, hpc, hn, hk, hw, hc, hr, beq_self_eq_true, Bool.false_and, Bool.and_self, Bool.false_eq_true,
    if_false, if_true] at h
  rw [guard_ok] at h; obtain ⟨_, h⟩ := h
  rw [guard_ok] at h; obtain ⟨_, h⟩ := h
  split at h
  · next hem => cases h; simp only [vEff, reset_empty _ hem]
  · cases h; rfl

/-- **reset_precheck_accepted** — the machine accepts a `reset` that first checks under the READ lock
    whether the map is empty (besides the unchanged form that takes the write lock at once, as in
    `subcallTrace` / `rmGapTrace`), and both outcomes of that check are reachable:
    (1) `resetEmptyTrace`: the map is empty; the call commits `.reset` with result `.unit` at its read
        lock - by `reset_empty` this leaves the content as it is -, completes at the read unlock and
        returns ""; the whole run contains no write lock; the program is finished (`allDone`), the lock
        is free, the log is that one entry;
    (2) `resetNonEmptyTrace`: the map is not empty; after the read-locked section (the first 9 items)
        NOTHING has been committed for the reset (the log is the `with`'s get-or-create alone, the key
        is still there) and the thread expects the write lock (`rmNeedW`); the write-locked section
        then commits `.reset`, the call returns "", the map is empty;
    (3) `resetGapTrace`: as (2), but another thread's `with:b` creates a second child between the
        read-locked check and the write-locked section: the reset commits AFTER that get-or-create and
        clears whatever the map holds then - both keys;
    (4) `resetSkippedTrace` is REJECTED: a reset that returns after its read-locked check although the map
        was not empty has not completed its steps - the return mark (item 9) is refused with exactly
        this message.
    The end states of (1)-(3) are `VReach`able, so `vec_linearizable`, `keys_distinct`,
    `vec_real_time_order` … apply to them. -/
theorem reset_precheck_accepted :
    (∃ s, runItems vItem (vInit [["reset"]]) resetEmptyTrace 0 = .ok s ∧ VReach [["reset"]] s ∧
      allDone s.ths = true ∧ s.lin = [⟨0, 0, .reset, .unit⟩] ∧ s.spec.map = [] ∧
      s.lockW = none ∧ s.lockR = []) ∧
    (∃ s1 s, runItems vItem (vInit [["with:a", "reset"]]) (resetNonEmptyTrace.take 9) 0 = .ok s1 ∧
      s1.lin = [⟨0, 0, .getOrCreate "a", .child 0⟩] ∧ s1.spec.map = [("a", 0)] ∧
      s1.ths.map (·.pc) = [some (.rmNeedW "reset")] ∧ s1.lockW = none ∧ s1.lockR = [] ∧
      runItems vItem (vInit [["with:a", "reset"]]) resetNonEmptyTrace 0 = .ok s ∧ VReach [["with:a", "reset"]] s ∧
      allDone s.ths = true ∧
      s.lin = [⟨0, 0, .getOrCreate "a", .child 0⟩, ⟨0, 1, .reset, .unit⟩] ∧ s.spec.map = [] ∧
      s.lockW = none ∧ s.lockR = []) ∧
    (∃ s, runItems vItem (vInit [["with:a", "reset"], ["with:b"]]) resetGapTrace 0 = .ok s ∧
      VReach [["with:a", "reset"], ["with:b"]] s ∧ allDone s.ths = true ∧
      s.lin = [⟨0, 0, .getOrCreate "a", .child 0⟩, ⟨1, 0, .getOrCreate "b", .child 1⟩, ⟨0, 1, .reset, .unit⟩] ∧
      s.spec.map = [] ∧ s.lockW = none ∧ s.lockR = []) ∧
    runItems vItem (vInit [["with:a", "reset"]]) resetSkippedTrace 0 =
      .error "diverge@9: return before the call's steps are complete (op reset)" := by
  have r0 : Nat.repr 0 = "0" := by decide +kernel
  have r1 : Nat.repr 1 = "1" := by decide +kernel
  have reach : ∀ {prog tr s}, runItems vItem (vInit prog) tr 0 = .ok s → VReach prog s :=
    fun hr => vReach_iff_vRun.2 (runItems_vRun hr)
  refine ⟨?_, ?_, ?_, ?_⟩
  · have h : ∃ s, runItems vItem (vInit [["reset"]]) resetEmptyTrace 0 = .ok s ∧
        allDone s.ths = true ∧ s.lin = [⟨0, 0, .reset, .unit⟩] ∧ s.spec.map = [] ∧
        s.lockW = none ∧ s.lockR = [] := by
      simp [runItems, resetEmptyTrace, vInit, vItem, vStep, vEff, Conc.guard, openCall, closeCall, allDone, r0,
        opName_reset, endsWith_0, VSpec.apply]
    obtain ⟨s, hr, h1⟩ := h
    exact ⟨s, hr, reach hr, h1⟩
  · have h : ∃ s1 s, runItems vItem (vInit [["with:a", "reset"]]) (resetNonEmptyTrace.take 9) 0 = .ok s1 ∧
        s1.lin = [⟨0, 0, .getOrCreate "a", .child 0⟩] ∧ s1.spec.map = [("a", 0)] ∧
        s1.ths.map (·.pc) = [some (.rmNeedW "reset")] ∧ s1.lockW = none ∧ s1.lockR = [] ∧
        runItems vItem (vInit [["with:a", "reset"]]) resetNonEmptyTrace 0 = .ok s ∧
        allDone s.ths = true ∧
        s.lin = [⟨0, 0, .getOrCreate "a", .child 0⟩, ⟨0, 1, .reset, .unit⟩] ∧ s.spec.map = [] ∧
        s.lockW = none ∧ s.lockR = [] := by
      simp [runItems, resetNonEmptyTrace, vInit, vItem, vStep, vEff, setHandle, Conc.guard, openCall, closeCall, allDone,
        r0, r1, opName_with_a, opArg_with_a, opName_reset, endsWith_0, endsWith_1, VSpec.lookup, VSpec.apply]
    obtain ⟨s1, s, h1, h2, h3, h4, h5, h6, hr, h7⟩ := h
    exact ⟨s1, s, h1, h2, h3, h4, h5, h6, hr, reach hr, h7⟩
  · have h : ∃ s, runItems vItem (vInit [["with:a", "reset"], ["with:b"]]) resetGapTrace 0 = .ok s ∧
        allDone s.ths = true ∧
        s.lin = [⟨0, 0, .getOrCreate "a", .child 0⟩, ⟨1, 0, .getOrCreate "b", .child 1⟩, ⟨0, 1, .reset, .unit⟩] ∧
        s.spec.map = [] ∧ s.lockW = none ∧ s.lockR = [] := by
      simp [runItems, resetGapTrace, vInit, vItem, vStep, vEff, setHandle, Conc.guard, openCall, closeCall, allDone,
        r0, r1, opName_with_a, opArg_with_a, opName_with_b, opArg_with_b, opName_reset, endsWith_0, endsWith_1,
        VSpec.lookup, VSpec.apply]
    exact (let ⟨s, hr, h1⟩ := h; ⟨s, hr, reach hr, h1⟩)
  · simp [runItems, resetSkippedTrace, vInit, vItem, vStep, vEff, setHandle, Conc.guard, openCall, closeCall,
      r0, r1, opName_with_a, opArg_with_a, opName_reset, endsWith_0, endsWith_1, VSpec.lookup, VSpec.apply]
    decide +kernel

/-! ### the handle update written as a load + compare-exchange loop -/

/-- **child_inc_step_cases** — what the machine accepts from a thread whose update of child `c` through a handle
    is open (`incChild c`: no step yet; `incCas c cur`: loaded `cur`; `incRetry c cur`: a failed exchange
    reported `cur`), and what each accepted event does:
    * a `fetch_add` ("A") is accepted only before any other step of the call, has operand 1 and returns the
      child's current value; it commits `.inc c` (through `vEff`) and completes the call;
    * a load ("L") is accepted before any step or after a failed exchange, returns the child's current value
      `v`, commits NOTHING (content and log unchanged) and leaves the thread at `incCas c v`;
    * a compare-exchange ("C") is accepted after a load or a failed exchange, expects the value `cur` loaded /
      reported and installs `cur + 1`; if it succeeds, the child's CURRENT value is `cur` (= the value found) and it
      commits `.inc c` (through `vEff`) and completes the call - no update is lost; if it fails, it reports the
      child's current value `v`, commits NOTHING and leaves the thread at `incRetry c v`.
    No other event is accepted, every ordering is at least Relaxed, and all three identify `e.loc` as the
    cell of child `c` by the same `bindChild`. -/
theorem child_inc_step_cases {s s' : VSt} {e : Ev} {th : Th VPc} {pc : VPc} {c : Nat}
    (hth : s.ths[e.tid]? = some th) (hpc : th.pc = some pc)
    (hc : pc = .incChild c ∨ ∃ cur, pc = .incCas c cur ∨ pc = .incRetry c cur)
    (h : vStep s e = .ok s') :
    ordGe e.ord "Relaxed" = true ∧ (∃ s1, bindChild s e.loc c = .ok s1) ∧
    ((e.k = "A" ∧ pc = .incChild c ∧ e.a = 1 ∧ e.res = s.spec.vals.getD c 0 ∧
        s'.spec = (s.spec.apply (.inc c)).1 ∧ s'.lin = s.lin ++ [⟨e.tid, th.idx, .inc c, .unit⟩] ∧
        s'.ths = s.ths.set e.tid { th with pc := none, retv := some "" }) ∨
     (e.k = "L" ∧ (pc = .incChild c ∨ ∃ cur, pc = .incRetry c cur) ∧ e.res = s.spec.vals.getD c 0 ∧
        s'.spec = s.spec ∧ s'.lin = s.lin ∧
        s'.ths = s.ths.set e.tid { th with pc := some (.incCas c e.res) }) ∨
     (e.k = "C" ∧ ∃ cur, (pc = .incCas c cur ∨ pc = .incRetry c cur) ∧ e.a = cur ∧ e.b = cur + 1 ∧
        ((e.ok = true ∧ s.spec.vals.getD c 0 = cur ∧ e.res = cur ∧
            s'.spec = (s.spec.apply (.inc c)).1 ∧ s'.lin = s.lin ++ [⟨e.tid, th.idx, .inc c, .unit⟩] ∧
            s'.ths = s.ths.set e.tid { th with pc := none, retv := some "" }) ∨
         (e.ok = false ∧ e.res = s.spec.vals.getD c 0 ∧ s'.spec = s.spec ∧ s'.lin = s.lin ∧
            s'.ths = s.ths.set e.tid { th with pc := some (.incRetry c e.res) })))) := by
  unfold vStep at h
  rw [hth] at h
  simp only [hpc] at h
  rcases hc with rfl | ⟨cur, rfl | rfl⟩
  · simp only at h
    split at h
    · obtain ⟨h1, h2, h3, h4, h5, h6, h7⟩ := vIncLoad_spec h
      exact ⟨h2, h4, .inr (.inl ⟨h1, .inl rfl, h3, h5, h6, h7⟩)⟩
    · obtain ⟨h1, h2, h3, h4, h5, h6, h7, h8⟩ := vIncAdd_spec h
      exact ⟨h2, h5, .inl ⟨h1, rfl, h3, h4, h6, h7, h8⟩⟩
  · simp only at h
    obtain ⟨h1, h2, h3, h4, h5, h6⟩ := vIncCas_spec h
    exact ⟨h2, h5, .inr (.inr ⟨h1, cur, .inl rfl, h3, h4, h6⟩)⟩
  · simp only at h
    split at h
    · obtain ⟨h1, h2, h3, h4, h5, h6, h7⟩ := vIncLoad_spec h
      exact ⟨h2, h4, .inr (.inl ⟨h1, .inr ⟨cur, rfl⟩, h3, h5, h6, h7⟩)⟩
    · obtain ⟨h1, h2, h3, h4, h5, h6⟩ := vIncCas_spec h
      exact ⟨h2, h5, .inr (.inr ⟨h1, cur, .inr rfl, h3, h4, h6⟩)⟩

/-- **child_inc_as_cas_loop_accepted** — the machine accepts an update through a handle written as
    `load` + `compare_exchange(cur, cur + 1)` (besides the single `fetch_add`, which stays accepted:
    `subcallTrace` in `vec_idle_thread_may_have_committed`):
    (1) `casIncTrace`, uncontended: after the load (the first 8 items) NOTHING has been committed for the
        update (the log is the `with`'s get-or-create alone, the child still holds 0), the thread expects the
        exchange from the value it loaded (`incCas 0 0`) and the location `c0` has been identified as child 0's
        cell; the successful exchange 0 -> 1 then commits `.inc 0`, the sub-call returns, the child holds 1;
    (2) `casIncRetryTrace`, two threads increment the same child: both load 0, thread 1's exchange 0 -> 1
        succeeds; thread 0's exchange 0 -> 1 FAILS and reports 1 - after that failure (`casIncRacePrefix`) only
        thread 1's increment is in the log, the child holds 1 and thread 0 is at `incRetry 0 1` -; thread 0
        goes on at once with the reported value, its exchange 1 -> 2 succeeds. Both increments are committed,
        thread 1's first, each exactly once, and the child holds 2 in the specification;
    (3) `casIncReloadTrace`: as (2), but thread 0 loads again (1; with stronger orderings than needed: SeqCst
        load, AcqRel exchange) before the exchange 1 -> 2: same log, same content;
    (4) REJECTED, each at the offending event (item 16 resp. 8) with the message that says why:
        `casIncStaleTrace` - thread 0's exchange 0 -> 1 claims success although the child holds 1 by then (a lost
        update); `casIncWrongNewTrace` - the exchange installs 2 instead of 0 + 1; `casIncWrongReportTrace` - the
        failed exchange reports 0 although the child holds 1.
    The end states of (1)-(3) are `VReach`able, so `vec_linearizable`, `keys_distinct`,
    `vec_real_time_order` … apply to them. -/
theorem child_inc_as_cas_loop_accepted :
    (∃ s1 s, runItems vItem (vInit [["with:a"]]) (casIncTrace.take 8) 0 = .ok s1 ∧
      s1.lin = [⟨0, 0, .getOrCreate "a", .child 0⟩] ∧ s1.spec.vals = [0] ∧
      s1.ths.map (·.pc) = [some (.incCas 0 0)] ∧ s1.binding = [("c0", 0)] ∧
      runItems vItem (vInit [["with:a"]]) casIncTrace 0 = .ok s ∧ VReach [["with:a"]] s ∧
      allDone s.ths = true ∧
      s.lin = [⟨0, 0, .getOrCreate "a", .child 0⟩, ⟨0, 1, .inc 0, .unit⟩] ∧
      s.spec.map = [("a", 0)] ∧ s.spec.vals = [1] ∧ s.binding = [("c0", 0)]) ∧
    (∃ s1 s, runItems vItem (vInit [["with:a"], ["with:a"]]) casIncRacePrefix 0 = .ok s1 ∧
      s1.lin = [⟨0, 0, .getOrCreate "a", .child 0⟩, ⟨1, 0, .getOrCreate "a", .child 0⟩, ⟨1, 1, .inc 0, .unit⟩] ∧
      s1.spec.vals = [1] ∧ s1.ths.map (·.pc) = [some (.incRetry 0 1), none] ∧
      runItems vItem (vInit [["with:a"], ["with:a"]]) casIncRetryTrace 0 = .ok s ∧
      VReach [["with:a"], ["with:a"]] s ∧ allDone s.ths = true ∧
      s.lin = [⟨0, 0, .getOrCreate "a", .child 0⟩, ⟨1, 0, .getOrCreate "a", .child 0⟩,
               ⟨1, 1, .inc 0, .unit⟩, ⟨0, 1, .inc 0, .unit⟩] ∧
      s.spec.map = [("a", 0)] ∧ s.spec.vals = [2] ∧ s.binding = [("c0", 0)]) ∧
    (∃ s, runItems vItem (vInit [["with:a"], ["with:a"]]) casIncReloadTrace 0 = .ok s ∧
      VReach [["with:a"], ["with:a"]] s ∧ allDone s.ths = true ∧
      s.lin = [⟨0, 0, .getOrCreate "a", .child 0⟩, ⟨1, 0, .getOrCreate "a", .child 0⟩,
               ⟨1, 1, .inc 0, .unit⟩, ⟨0, 1, .inc 0, .unit⟩] ∧
      s.spec.map = [("a", 0)] ∧ s.spec.vals = [2] ∧ s.binding = [("c0", 0)]) ∧
    (runItems vItem (vInit [["with:a"], ["with:a"]]) casIncStaleTrace 0 =
        .error "diverge@16: inc: cas succeeded although the child no longer holds the expected value" ∧
     runItems vItem (vInit [["with:a"]]) casIncWrongNewTrace 0 =
        .error "diverge@8: inc: expected cas Relaxed 0 -> 1" ∧
     runItems vItem (vInit [["with:a"], ["with:a"]]) casIncWrongReportTrace 0 =
        .error "diverge@16: inc: failed cas reports a wrong current value") := by
  have r0 : Nat.repr 0 = "0" := by decide +kernel
  have og : ordGe "Relaxed" "Relaxed" = true := by decide +kernel
  have og2 : ordGe "SeqCst" "Relaxed" = true := by decide +kernel
  have og3 : ordGe "AcqRel" "Relaxed" = true := by decide +kernel
  have reach : ∀ {prog tr s}, runItems vItem (vInit prog) tr 0 = .ok s → VReach prog s :=
    fun hr => vReach_iff_vRun.2 (runItems_vRun hr)
  refine ⟨?_, ?_, ?_, ?_, ?_, ?_⟩
  · have h : ∃ s1 s, runItems vItem (vInit [["with:a"]]) (casIncTrace.take 8) 0 = .ok s1 ∧
        s1.lin = [⟨0, 0, .getOrCreate "a", .child 0⟩] ∧ s1.spec.vals = [0] ∧
        s1.ths.map (·.pc) = [some (.incCas 0 0)] ∧ s1.binding = [("c0", 0)] ∧
        runItems vItem (vInit [["with:a"]]) casIncTrace 0 = .ok s ∧
        allDone s.ths = true ∧
        s.lin = [⟨0, 0, .getOrCreate "a", .child 0⟩, ⟨0, 1, .inc 0, .unit⟩] ∧
        s.spec.map = [("a", 0)] ∧ s.spec.vals = [1] ∧ s.binding = [("c0", 0)] := by
      simp [runItems, casIncTrace, vInit, vItem, vStep, vIncLoad, vIncCas, bindChild, vEff, setHandle, Conc.guard,
        openCall, closeCall, allDone, r0, og, opName_with_a, opArg_with_a, endsWith_0u, endsWith_0,
        VSpec.lookup, VSpec.apply]
    obtain ⟨s1, s, h1, h2, h3, h4, h5, hr, h6⟩ := h
    exact ⟨s1, s, h1, h2, h3, h4, h5, hr, reach hr, h6⟩
  · have h : ∃ s1 s, runItems vItem (vInit [["with:a"], ["with:a"]]) casIncRacePrefix 0 = .ok s1 ∧
        s1.lin = [⟨0, 0, .getOrCreate "a", .child 0⟩, ⟨1, 0, .getOrCreate "a", .child 0⟩, ⟨1, 1, .inc 0, .unit⟩] ∧
        s1.spec.vals = [1] ∧ s1.ths.map (·.pc) = [some (.incRetry 0 1), none] ∧
        runItems vItem (vInit [["with:a"], ["with:a"]]) casIncRetryTrace 0 = .ok s ∧
        allDone s.ths = true ∧
        s.lin = [⟨0, 0, .getOrCreate "a", .child 0⟩, ⟨1, 0, .getOrCreate "a", .child 0⟩,
                 ⟨1, 1, .inc 0, .unit⟩, ⟨0, 1, .inc 0, .unit⟩] ∧
        s.spec.map = [("a", 0)] ∧ s.spec.vals = [2] ∧ s.binding = [("c0", 0)] := by
      simp [runItems, casIncRetryTrace, casIncRacePrefix, vInit, vItem, vStep, vIncLoad, vIncCas, bindChild, vEff, setHandle, Conc.guard,
        openCall, closeCall, allDone, r0, og, opName_with_a, opArg_with_a, endsWith_0u, endsWith_0,
        VSpec.lookup, VSpec.apply]
    obtain ⟨s1, s, h1, h2, h3, h4, hr, h5⟩ := h
    exact ⟨s1, s, h1, h2, h3, h4, hr, reach hr, h5⟩
  · have h : ∃ s, runItems vItem (vInit [["with:a"], ["with:a"]]) casIncReloadTrace 0 = .ok s ∧
        allDone s.ths = true ∧
        s.lin = [⟨0, 0, .getOrCreate "a", .child 0⟩, ⟨1, 0, .getOrCreate "a", .child 0⟩,
                 ⟨1, 1, .inc 0, .unit⟩, ⟨0, 1, .inc 0, .unit⟩] ∧
        s.spec.map = [("a", 0)] ∧ s.spec.vals = [2] ∧ s.binding = [("c0", 0)] := by
      simp [runItems, casIncReloadTrace, casIncRacePrefix, vInit, vItem, vStep, vIncLoad, vIncCas, bindChild, vEff, setHandle, Conc.guard,
        openCall, closeCall, allDone, r0, og, og2, og3, opName_with_a, opArg_with_a, endsWith_0u, endsWith_0,
        VSpec.lookup, VSpec.apply]
    obtain ⟨s, hr, h1⟩ := h
    exact ⟨s, hr, reach hr, h1⟩
  · simp [runItems, casIncStaleTrace, casIncRacePrefix, vInit, vItem, vStep, vIncLoad, vIncCas, bindChild, vEff, setHandle, Conc.guard,
      openCall, closeCall, r0, og, opName_with_a, opArg_with_a, endsWith_0u, endsWith_0, VSpec.lookup, VSpec.apply]
    decide +kernel
  · simp [runItems, casIncWrongNewTrace, casIncTrace, vInit, vItem, vStep, vIncLoad, vIncCas, bindChild, vEff, setHandle, Conc.guard,
      openCall, closeCall, r0, og, opName_with_a, opArg_with_a, endsWith_0, VSpec.lookup, VSpec.apply]
    decide +kernel
  · simp [runItems, casIncWrongReportTrace, casIncRacePrefix, vInit, vItem, vStep, vIncLoad, vIncCas, bindChild, vEff, setHandle, Conc.guard,
      openCall, closeCall, r0, og, opName_with_a, opArg_with_a, endsWith_0u, endsWith_0, VSpec.lookup, VSpec.apply]
    decide +kernel

/-! ### consequences of the sequential specification (what "behaves like a map" means) -/

/-- simultaneous first requests: whoever commits second finds the first one's child — two
    get-or-create operations for equal label values with nothing in between return the same child,
    so no update is lost -/
theorem same_values_same_child (s : VSpec) (k : String) :
    ((s.apply (.getOrCreate k)).1.apply (.getOrCreate k)).2 = (s.apply (.getOrCreate k)).2 ∧
    ((s.apply (.getOrCreate k)).1.apply (.getOrCreate k)).1 = (s.apply (.getOrCreate k)).1 := by
  cases hl : s.lookup k with
  | some c => simp [VSpec.apply, hl]
  | none =>
    have : ({ map := s.map ++ [(k, s.vals.length)], vals := s.vals ++ [0] } : VSpec).lookup k = some s.vals.length := by
      unfold VSpec.lookup at hl ⊢
      simp only [Option.map_eq_none_iff] at hl
      simp [List.find?_append, hl]
    simp [VSpec.apply, hl, this]

/-- a removed child no longer appears in collections … -/
theorem removed_is_absent (s : VSpec) (k : String) (hi : SpecInv s) :
    ∀ p ∈ ((s.apply (.remove k)).1.apply .keys).1.map, p.1 ≠ k := by
  intro p hp
  simp only [VSpec.apply] at hp
  split at hp
  · simp only [List.mem_filter, bne_iff_ne, ne_eq] at hp; exact hp.2
  · next hl => exact lookup_none hl p hp

/-- … while handles to it stay usable: an update through a handle touches only that child's value,
    never the map -/
theorem handle_update_touches_only_child (s : VSpec) (c : Nat) :
    (s.apply (.inc c)).1.map = s.map ∧ (s.apply (.inc c)).1.vals = s.vals.set c (s.vals.getD c 0 + 1) :=
  ⟨rfl, rfl⟩

/-- a child requested again after removal is a fresh one and starts from zero -/
theorem recreated_starts_from_zero (s : VSpec) (k : String) (hi : SpecInv s) :
    let s1 := (s.apply (.remove k)).1
    (s1.apply (.getOrCreate k)).2 = .child s1.vals.length ∧
    ((s1.apply (.getOrCreate k)).1.apply (.read s1.vals.length)).2 = .val 0 := by
  intro s1
  have hnone : s1.lookup k = none := by
    have habs := removed_is_absent s k hi
    simp only [VSpec.apply] at habs
    cases hl : s1.lookup k with
    | none => rfl
    | some c =>
      have := lookup_some hl
      exact absurd rfl (habs (k, c) (by simpa [s1, VSpec.apply] using this))
  refine ⟨by simp [VSpec.apply, hnone], ?_⟩
  simp [VSpec.apply, hnone]

/-- **recheck_needed** — without the second lookup under the write lock the property fails: the
    "insert whatever the read section saw" variant applied twice for one key (two threads that both
    missed under the read lock) leaves the key twice in the map -/
def blindInsert (s : VSpec) (k : String) : VSpec := { map := s.map ++ [(k, s.vals.length)], vals := s.vals ++ [0] }

theorem recheck_needed : ¬ SpecInv (blindInsert (blindInsert {} "a") "a") := by
  intro h
  have := h.1
  simp [blindInsert] at this

/-- non-vacuity: a two-thread program's initial state is reachable -/
example : VReach [["with:a"], ["with:a"]] { ths := [["with:a"], ["with:a"]].map fun ops => { ops := ops } } := .init

end Prom.C10
