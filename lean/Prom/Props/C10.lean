import Prom.Lemmas.C10Aux

namespace Prom.C10
open Prom Prom.Conc

/-- states reachable by accepting items of a real trace: any number of threads, any programs
    (`with`, `remove`, `reset`, `collect`, updates through handles), any interleaving of their
    critical sections -/
inductive VReach (prog : List (List String)) : VSt → Prop
  | init : VReach prog { ths := prog.map fun ops => { ops := ops } }
  | step {s s' it} : VReach prog s → vItem s it = .ok s' → VReach prog s'

/-- **vec_linearizable** — for every accepted run: the vector's content (label value ↦ child, child ↦
    value) is exactly what the sequential specification `VSpec.apply` yields when the committed
    operations are run one at a time in commit order, and every committed operation returned what the
    specification returns at its place. Each operation commits at one step of its own call — the
    lookup of a hit under the read lock; the get-or-create under the write lock after a miss (where
    the key is looked up AGAIN); the remove / reset under the write lock; a collect's key set at its
    read lock and each child value at its load; an update through a handle at its fetch_add — so the
    order is consistent with real time. -/
theorem vec_linearizable {prog : List (List String)} {s : VSt} (h : VReach prog s) :
    specRunV {} s.lin = some s.spec := by
  induction h with
  | init => simp [specRunV]
  | step _ hs ih => exact vTrans_linInv ih (vItem_trans hs)

/-- the machine changes the vector's content only by performing recorded operations of the
    specification, and the commit order is never revised -/
theorem only_recorded_effects {s s' : VSt} {it : Item} (h : vItem s it = .ok s') :
    VTrans s s' ∧ s.lin <+: s'.lin :=
  ⟨vItem_trans h, vTrans_lin_mono (vItem_trans h)⟩

/-- **no label values twice** — in every reachable state the keys of the vector are pairwise
    distinct (so a collection never shows the same label values twice) and every key maps to a child
    that exists -/
theorem keys_distinct {prog : List (List String)} {s : VSt} (h : VReach prog s) : SpecInv s.spec := by
  induction h with
  | init => exact ⟨by simp, by simp⟩
  | step _ hs ih =>
    cases vItem_trans hs with
    | frame hsp _ => rw [hsp]; exact ih
    | eff t op hsp _ => rw [hsp]; exact apply_specInv _ op ih

/-! ### consequences of the sequential specification (what "behaves like a map" means) -/

/-- simultaneous first requests: whoever commits second finds the first one's child — two
    get-or-create operations for equal label values with nothing in between return the same child,
    so no update is lost -/
theorem same_values_same_child (s : VSpec) (k : String) :
    ((s.apply (.getOrCreate k)).1.apply (.getOrCreate k)).2 = (s.apply (.getOrCreate k)).2 ∧
    ((s.apply (.getOrCreate k)).1.apply (.getOrCreate k)).1 = (s.apply (.getOrCreate k)).1 := by
  cases hl : s.lookup k with
  | some c => simp [VSpec.apply, hl]
  | none =>
    have : ({ map := s.map ++ [(k, s.vals.length)], vals := s.vals ++ [0] } : VSpec).lookup k = some s.vals.length := by
      unfold VSpec.lookup at hl ⊢
      simp only [Option.map_eq_none_iff] at hl
      simp [List.find?_append, hl]
    simp [VSpec.apply, hl, this]

/-- a removed child no longer appears in collections … -/
theorem removed_is_absent (s : VSpec) (k : String) (hi : SpecInv s) :
    ∀ p ∈ ((s.apply (.remove k)).1.apply .keys).1.map, p.1 ≠ k := by
  intro p hp
  simp only [VSpec.apply] at hp
  split at hp
  · simp only [List.mem_filter, bne_iff_ne, ne_eq] at hp; exact hp.2
  · next hl => exact lookup_none hl p hp

/-- … while handles to it stay usable: an update through a handle touches only that child's value,
    never the map -/
theorem handle_update_touches_only_child (s : VSpec) (c : Nat) :
    (s.apply (.inc c)).1.map = s.map ∧ (s.apply (.inc c)).1.vals = s.vals.set c (s.vals.getD c 0 + 1) :=
  ⟨rfl, rfl⟩

/-- a child requested again after removal is a fresh one and starts from zero -/
theorem recreated_starts_from_zero (s : VSpec) (k : String) (hi : SpecInv s) :
    let s1 := (s.apply (.remove k)).1
    (s1.apply (.getOrCreate k)).2 = .child s1.vals.length ∧
    ((s1.apply (.getOrCreate k)).1.apply (.read s1.vals.length)).2 = .val 0 := by
  intro s1
  have hnone : s1.lookup k = none := by
    have habs := removed_is_absent s k hi
    simp only [VSpec.apply] at habs
    cases hl : s1.lookup k with
    | none => rfl
    | some c =>
      have := lookup_some hl
      exact absurd rfl (habs (k, c) (by simpa [s1, VSpec.apply] using this))
  refine ⟨by simp [VSpec.apply, hnone], ?_⟩
  simp [VSpec.apply, hnone]

/-- **recheck_needed** — without the second lookup under the write lock the property fails: the
    "insert whatever the read section saw" variant applied twice for one key (two threads that both
    missed under the read lock) leaves the key twice in the map -/
def blindInsert (s : VSpec) (k : String) : VSpec := { map := s.map ++ [(k, s.vals.length)], vals := s.vals ++ [0] }

theorem recheck_needed : ¬ SpecInv (blindInsert (blindInsert {} "a") "a") := by
  intro h
  have := h.1
  simp [blindInsert] at this

/-- non-vacuity: a two-thread program's initial state is reachable -/
example : VReach [["with:a"], ["with:a"]] { ths := [["with:a"], ["with:a"]].map fun ops => { ops := ops } } := .init

end Prom.C10
