import Prom.Lemmas.C10Aux

namespace Prom.C10
open Prom Prom.Conc
/-- the write-lock step of a get-or-create after a miss: the key is looked up AGAIN; if another
    thread inserted it meanwhile its child is returned and nothing is inserted; otherwise a fresh
    child (new id, value 0) is inserted — in both cases keys stay pairwise distinct -/
theorem recheck_keeps_inv (s s' : VSt) (e : Ev) (th : Th VPc) (op : String)
    (hth : s.ths[e.tid]? = some th) (hpc : th.pc = some (.needW op)) (hi : VInv s)
    (h : vStep s e = .ok s') : VInv s' := by
  unfold vStep at h
  simp only [hth, hpc] at h
  split at h
  · cases h
  · split at h
    · cases h
    · cases hl : vLookup s (opArg op) with
      | some c =>
        rw [hl] at h
        simp only [Except.ok.injEq] at h
        subst h
        exact hi
      | none =>
        rw [hl] at h
        simp only [Except.ok.injEq] at h
        subst h
        obtain ⟨h1, h2⟩ := hi
        refine ⟨?_, ?_⟩
        · simp only [List.map_append, List.map_cons, List.map_nil]
          rw [List.nodup_append]
          refine ⟨h1, by simp, ?_⟩
          intro a ha b hb hab
          simp at hb
          subst hb
          obtain ⟨p, hp, hpa⟩ := List.mem_map.1 ha
          exact vLookup_none hl p hp (hpa.trans hab)
        · intro p hp
          simp only [List.length_append, List.length_cons, List.length_nil]
          rcases List.mem_append.1 hp with hp | hp
          · have := h2 p hp; omega
          · simp at hp; subst hp; simp

/-- a remove / reset under the write lock only deletes entries: keys stay distinct -/
theorem filter_keeps_inv (s : VSt) (k : String) (hi : VInv s) :
    VInv { s with children := s.children.filter (·.1 != k) } := by
  obtain ⟨h1, h2⟩ := hi
  refine ⟨?_, fun p hp => h2 p (List.mem_filter.1 hp).1⟩
  exact List.Nodup.sublist (List.Sublist.map _ List.filter_sublist) h1

/-- an update through a handle (attached or detached) is one `fetch_add` on that child's own cell and
    touches neither the map nor any other child -/
theorem inc_touches_only_its_child (s s' : VSt) (e : Ev) (th : Th VPc) (c : Nat)
    (hth : s.ths[e.tid]? = some th) (hpc : th.pc = some (.incChild c)) (h : vStep s e = .ok s') :
    s'.children = s.children ∧ s'.vals = s.vals.set c (s.vals.getD c 0 + 1) := by
  unfold vStep at h
  simp only [hth, hpc] at h
  split at h
  · cases h
  · repeat' split at h
    all_goals first
      | (simp only [Except.ok.injEq] at h; subst h; exact ⟨rfl, rfl⟩)
      | cases h

/-- a reader never enters while a writer holds the lock and a writer never enters while anyone holds
    it: the machine refuses such a trace (so an accepted real trace proves the exclusion held) -/
theorem write_lock_exclusive (s s' : VSt) (e : Ev) (th : Th VPc) (op : String)
    (hth : s.ths[e.tid]? = some th) (hpc : th.pc = some (.needW op)) (h : vStep s e = .ok s') :
    s.lockW = none ∧ s.lockR = [] ∧ s'.lockW = some e.tid := by
  unfold vStep at h
  simp only [hth, hpc] at h
  split at h
  · cases h
  · split at h
    · cases h
    · rename_i hl
      simp only [Bool.or_eq_true, Bool.not_eq_true', not_or, Bool.not_eq_true] at hl
      have hw : s.lockW = none := by cases hw : s.lockW <;> simp_all
      have hr : s.lockR = [] := by cases hr : s.lockR <;> simp_all
      cases hk : vLookup s (opArg op) <;> (rw [hk] at h; simp only [Except.ok.injEq] at h; subst h; exact ⟨hw, hr, rfl⟩)

end Prom.C10
