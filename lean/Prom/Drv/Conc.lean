import Prom.Model.Conc
import Prom.Model.HistMachine
import Prom.Model.RegMachine
import Prom.Drv.Reg
/- line-protocol handlers: areas `catom` (C01, C11), `cvec` (C10), `chist` (C02, C03) -/
namespace Prom.Drv
open Prom Prom.Conc

def concHandle (area : String) (fs : List String) : String :=
  match field fs "prog", field fs "trace" with
  | some prog, some tr =>
    let cregDefs := (((field fs "defs").getD "").splitOn "@").map fun d => defColl (d.splitOn "/")
    if area == "creg" && (cregDefs.mapM id).isNone then "bad-def" else
    if tr == "-" && area != "catom" then "stuck" else
    let prog := parseProg prog
    let trace := parseTrace tr
    if area == "creg" then
      -- defs=<def>@<def>@… with a definition's fields separated by '/'
      let defs := (((field fs "defs").getD "").splitOn "@").map fun d => defColl (d.splitOn "/")
      match defs.mapM id with
      | some colls => RM.regReplay colls prog trace
      | none => "bad-def"
    else if area == "catom" then atomReplay ((field fs "kind").getD "") prog trace
    else if area == "cvec" then vecReplay prog trace
    else
      let bounds := (((field fs "bounds").getD "").splitOn ",").map fun x => f64OfInt (parseIntArg x)
      HM.histReplay bounds prog trace
  | _, _ => "bad-op"

end Prom.Drv
