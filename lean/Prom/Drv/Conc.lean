import Prom.Model.Conc
import Prom.Model.HistMachine
/- line-protocol handlers: areas `catom` (C01, C11), `cvec` (C10), `chist` (C02, C03) -/
namespace Prom.Drv
open Prom Prom.Conc

def concHandle (area : String) (fs : List String) : String :=
  match field fs "prog", field fs "trace" with
  | some prog, some tr =>
    if tr == "-" && area != "catom" then "stuck" else
    let prog := parseProg prog
    let trace := parseTrace tr
    if area == "catom" then atomReplay ((field fs "kind").getD "") prog trace
    else if area == "cvec" then vecReplay prog trace
    else
      let bounds := (((field fs "bounds").getD "").splitOn ",").map fun x => f64OfInt (parseIntArg x)
      HM.histReplay bounds prog trace
  | _, _ => "bad-op"

end Prom.Drv
