import Prom.Base.Wire
import Prom.Model.Desc
import Prom.Gen.Consts
/- line-protocol handlers: area `desc` (C09, C15) -/
namespace Prom.Drv
open Prom

def showDesc (d : Desc) : String :=
  s!"ok fq={showHexElem d.fqName} id={showU64Hex d.id} dim={showU64Hex d.dimHash} pairs={showHexPairs (d.constPairs.map fun p => (p.name, p.value))} vars={showHexList d.varLabels}"

def bucketLabelBytes : Str := strOfString Gen.bucketLabel

/-- constructor glue per metric kind: describe, (histograms: `le` check), make_label_pairs with no values -/
def descForKind (kind : String) (ns sub name help : Str) (vars : List Str) (consts : List (Str × Str)) : String :=
  let d? := if kind == "desc" then Desc.new name help vars consts else describe ns sub name help vars consts
  match d? with
  | none => "err:Msg"
  | some d =>
    let isHist := kind == "histogram" || kind == "histogramvec"
    let isVec := kind.endsWith "vec"
    if kind == "desc" then showDesc d
    else if isVec then
      -- MetricVec::create only describes; the `le` check happens when a child is built
      showDesc d
    else
      if isHist && (d.varLabels.contains bucketLabelBytes || d.constPairs.any (·.name == bucketLabelBytes)) then "err:Msg" else
      match makeLabelPairs d [] with
      | .error (.card e g) => s!"err:Card({e},{g})"
      | .ok _ => showDesc d

def descHandle (args : List String) : String :=
  match args with
  | "new" :: fs =>
    match field fs "kind", (field fs "ns").bind parseHexList, (field fs "name").bind parseHexList,
          (field fs "help").bind parseHexList, (field fs "vars").bind parseHexList, (field fs "consts").bind parseHexPairs with
    | some kind, some [ns, sub], some [name], some [help], some vars, some consts =>
      descForKind kind ns sub name help vars consts
    | _, _, _, _, _, _ => "bad-op"
  | ["ident", s] =>
    match parseHexList s with
    | some [x] => s!"metric={isValidMetricName x} label={isValidLabelName x}"
    | _ => "bad-op"
  | _ => "bad-op"

end Prom.Drv
