import Prom.Drv.Reg
import Prom.Drv.Text
import Prom.Model.DataModel
/- `reg gathertext fmt=<table>` (C16): gather() of the model registry + the text encoder model -/
namespace Prom.Drv
open Prom

def gatherTextHandle (st : RegSt) (fs : List String) : String :=
  match st.r, (field fs "fmt").bind parseFmtTable with
  | none, _ => "no-reg"
  | some r, some tbl =>
    let fams := r.gather
    let (txt, ok) := Text.encode (fmtOf tbl) fams
    s!"{joinWith " | " (fams.map showFamily)} text={if ok then showHexBytes txt else "err"}"
  | _, none => "bad-op"

/-- `reg raw …` (C16): a family built by hand with some fields left unset. It is built in the model of
    the protobuf-generated types (`DM.PFamily`: optional fields) by the same setter calls, read through
    the abstraction `DM.absFamily` (default on read = the plain model), and then shown / text-encoded
    like a gathered family. Both builds of the real crate must give this one answer. -/
def rawHandle (fs : List String) : String :=
  let optS (k : String) : Option (Option Str) :=
    match field fs k with
    | none | some "none" => some none
    | some v => match parseHexList v with | some [x] => some (some x) | _ => none
  let optF (k : String) : Option (Option UInt64) :=
    match field fs k with
    | none | some "none" => some none
    | some v => (parseF64 v).map some
  match optS "name", optS "help", optS "lname", optS "lval", optF "cv", optF "gv", (field fs "fmt").bind parseFmtTable with
  | some name, some help, some lname, some lval, some cv, some gv, some tbl =>
    let ty : Option MType := match field fs "type" with | some "counter" => some .counter | some "gauge" => some .gauge | _ => none
    let ts : Option Int := (field fs "ts").bind String.toInt?
    let mops : List DM.MetricOp :=
      (if field fs "label" == some "yes" then [DM.MetricOp.setLabel [{ name := lname, value := lval }]] else []) ++
      (match cv with | some v => [DM.MetricOp.setCounterValue v] | none => []) ++
      (match gv with | some v => [DM.MetricOp.setGaugeValue v] | none => []) ++
      (match ts with | some t => [DM.MetricOp.setTimestamp t] | none => [])
    let fops : List DM.FamilyOp :=
      (match name with | some n => [DM.FamilyOp.setName n] | none => []) ++
      (match help with | some h => [DM.FamilyOp.setHelp h] | none => []) ++
      (match ty with | some t => [DM.FamilyOp.setType t] | none => []) ++ [DM.FamilyOp.setMetric [mops]]
    let p : DM.PFamily := fops.foldl DM.PFamily.apply {}
    let q := DM.absFamily p
    let fam : Family :=
      { name := q.name, help := q.help, ty := q.type,
        samples := q.metric.map fun m =>
          { labels := m.label.map fun l => ⟨l.name, l.value⟩,
            val := (match q.type with | .counter => MVal.counter m.counter.value | .gauge => MVal.gauge m.gauge.value | _ => MVal.untyped 0),
            ts := m.timestampMs } }
    let (txt, ok) := Text.encode (fmtOf tbl) [fam]
    s!"{showFamily fam} text={if ok then showHexBytes txt else "err"}"
  | _, _, _, _, _, _, _ => "bad-op"

end Prom.Drv
