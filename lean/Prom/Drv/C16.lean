import Prom.Drv.Reg
import Prom.Drv.Text
/- `reg gathertext fmt=<table>` (C16): gather() of the model registry + the text encoder model -/
namespace Prom.Drv
open Prom

def gatherTextHandle (st : RegSt) (fs : List String) : String :=
  match st.r, (field fs "fmt").bind parseFmtTable with
  | none, _ => "no-reg"
  | some r, some tbl =>
    let fams := r.gather
    let (txt, ok) := Text.encode (fmtOf tbl) fams
    s!"{joinWith " | " (fams.map showFamily)} text={if ok then showHexBytes txt else "err"}"
  | _, none => "bad-op"

end Prom.Drv
