import Prom.Base.Wire
import Prom.Model.Fallible
import Prom.Model.Registry
import Prom.Drv.Desc
import Prom.Drv.Vec
/- line-protocol handlers: area `fall` (C17): outcome class ok / err / panic -/
namespace Prom.Drv
open Prom

def cls {α} : Outcome α → String | .ok _ => "ok" | .err => "err" | .panic => "panic"
def clsOfText (s : String) : String := if s.startsWith "ok" then "ok" else if s.startsWith "err" then "err" else s

def parseType (s : String) : Option MType :=
  match s with
  | "counter" => some .counter | "gauge" => some .gauge | "summary" => some .summary
  | "untyped" => some .untyped | "histogram" => some .histogram | _ => none

def parseFam (s : String) : Option Family :=
  match s.splitOn "/" with
  | [ty, name, n] => match parseType ty, parseHexList name, n.toNat? with
    | some ty, some [name], some n => some { name := name, help := [], ty := ty, samples := List.replicate n { labels := [], val := .counter 0 } }
    | _, _, _ => none
  | _ => none

def fallHandle (args : List String) : String :=
  match args with
  | ["buckets", bs] => match parseF64List bs with
    | some bs => cls (checkAndAdjustP Gen.defaultBuckets bs)
    | none => "bad-op"
  | "ctor" :: fs => clsOfText (descHandle ("new" :: fs))
  | "vec" :: fs =>
    match field fs "op", (field fs "names").bind parseHexList, field fs "arg" with
    | some op, some names, some arg =>
      let v0 : MVec := { names := names, consts := [], buildFails := false, children := [], store := [] }
      -- `pre=<list>/<list>/…`: children created (by well-formed lookups) before the call under test
      let pre : List (List Str) := match field fs "pre" with
        | some p => (p.splitOn "/").filterMap parseHexList
        | none => []
      let v : MVec := pre.foldl (fun v a => (withLabelValues v a).1) v0
      let r1 (r : MVec × Except VErr Nat) : String := match r.2 with | .ok _ => "ok" | .error _ => "err"
      let r2 (r : MVec × Except VErr Unit) : String := match r.2 with | .ok _ => "ok" | .error _ => "err"
      if op == "with" then match parseHexList arg with | some a => r1 (withLabelValues v a) | none => "bad-op"
      else if op == "withmap" then match parseHexPairs arg with | some a => r1 (withMap v a) | none => "bad-op"
      else if op == "rm" then match parseHexList arg with | some a => r2 (removeLabelValues v a) | none => "bad-op"
      else if op == "rmmap" then match parseHexPairs arg with | some a => r2 (removeMap v a) | none => "bad-op"
      else "bad-op"
    | _, _, _ => "bad-op"
  | "newcustom" :: fs =>
    match (field fs "prefix"), (field fs "labels") with
    | some p, some l =>
      let p' : Option (Option Str) := if p == "none" then some none else match parseHexList p with | some [x] => some (some x) | _ => none
      let l' : Option (Option (List (Str × Str))) := if l == "none" then some none else (parseHexPairs l).map some
      match p', l' with
      | some p, some l => match Reg.newCustom p l with | some _ => "ok" | none => "err"
      | _, _ => "bad-op"
    | _, _ => "bad-op"
  | ["escape", q, s] =>
    match parseHexList s with
    | some [bytes] => match String.fromUTF8? (ByteArray.mk bytes.toArray) with
      | some str => cls (escapeSliceP str.toList (q == "1"))
      | none => "bad-utf8"
    | _ => "bad-op"
  | "encode" :: fs =>
    match field fs "kind", field fs "writer", field fs "fams" with
    | some k, some w, some fams =>
      match (if fams == "-" then some [] else (fams.splitOn ";").mapM parseFam) with
      | some fl => cls (encodeOutcome (if k == "text" then .text else .pb) (w == "fail") fl)
      | none => "bad-op"
    | _, _, _ => "bad-op"
  | _ => "bad-op"

end Prom.Drv
