import Prom.Base.Wire
import Prom.Model.Text
import Prom.Model.TextParse
/- line-protocol handlers: area `text` (C04) -/
namespace Prom.Drv
open Prom Prom.Text

def splitOn1 (s : String) (sep : String) : List String := s.splitOn sep

def parseOptHex (s : String) : Option Str := if s == "~" then some [] else parseHexBytes s

def parseU64 (s : String) : Option UInt64 := (parseHexNat s).map (·.toUInt64)

def parseList {α} (s : String) (sep : String) (f : String → Option α) : Option (List α) :=
  if s == "-" then some [] else (s.splitOn sep).mapM f

def parseVal (s : String) : Option MVal :=
  match s.splitOn ":" with
  | ["c", b] => (parseU64 b).map .counter
  | ["g", b] => (parseU64 b).map .gauge
  | ["u", b] => (parseU64 b).map .untyped
  | ["h", rest] => match rest.splitOn "/" with
    | [c, sum, bks] => match c.toNat?, parseU64 sum, parseList bks "," (fun x => match x.splitOn "~" with
        | [ub, n] => match parseU64 ub, n.toNat? with | some ub, some n => some (ub, n) | _, _ => none
        | _ => none) with
      | some c, some sum, some bks => some (.hist c sum bks)
      | _, _, _ => none
    | _ => none
  | ["s", rest] => match rest.splitOn "/" with
    | [c, sum, qs] => match c.toNat?, parseU64 sum, parseList qs "," (fun x => match x.splitOn "~" with
        | [q, v] => match parseU64 q, parseU64 v with | some q, some v => some (q, v) | _, _ => none
        | _ => none) with
      | some c, some sum, some qs => some (.summary c sum qs)
      | _, _, _ => none
    | _ => none
  | _ => none

/-- `pairs=VAL@ts`; the pairs use ':' and ',', VAL may contain ':' '/' '~' ',' -/
def parseSampleW (s : String) : Option Sample :=
  match s.splitOn "=" with
  | [ps, rest] => match rest.splitOn "@" with
    | [v, ts] => match parseHexPairs ps, (if v == "n:" then some (MVal.untyped 0) else parseVal v), ts.toInt? with
      | some ps, some v, some ts => some { labels := ps.map fun p => ⟨p.1, p.2⟩, val := v, ts := ts }
      | _, _, _ => none
    | _ => none
  | _ => none

def parseFamilyW (s : String) : Option Family :=
  match s.splitOn "^" with
  | [n, h, t, ss] => match parseOptHex n, parseOptHex h, parseType t, parseList ss ";" parseSampleW with
    | some n, some h, some t, some ss => some { name := n, help := h, ty := t, samples := ss }
    | _, _, _, _ => none
  | _ => none
where parseType (s : String) : Option MType :=
  match s with
  | "counter" => some .counter | "gauge" => some .gauge | "summary" => some .summary
  | "untyped" => some .untyped | "histogram" => some .histogram
  | "unset" => some .counter   -- the field was never written: proto2 default on read (MetricType::COUNTER, value 0)
  | _ => none

def showVal : MVal → String
  | .counter v => "c:" ++ f64Show v
  | .gauge v => "g:" ++ f64Show v
  | .untyped v => "u:" ++ f64Show v
  | .hist c s bks => s!"h:{c}/{f64Show s}/{joinWith "," (bks.map fun b => f64Show b.1 ++ "~" ++ toString b.2)}"
  | .summary c s qs => s!"s:{c}/{f64Show s}/{joinWith "," (qs.map fun q => f64Show q.1 ++ "~" ++ f64Show q.2)}"

def showSampleW (s : Sample) : String :=
  showHexPairs (s.labels.map fun p => (p.name, p.value)) ++ "=" ++ showVal s.val ++ "@" ++ toString s.ts

def showFamilyW (f : Family) : String :=
  showHexElem f.name ++ "^" ++ showHexElem f.help ++ "^" ++ showTy f.ty ++ "^" ++ joinWith ";" (f.samples.map showSampleW)
where showTy : MType → String
  | .counter => "counter" | .gauge => "gauge" | .summary => "summary" | .untyped => "untyped" | .histogram => "histogram"

def showFamiliesW (fs : List Family) : String := joinWith "|" (fs.map showFamilyW)

def parseFmtTable (s : String) : Option (List (UInt64 × Str)) :=
  parseList s "," fun x => match x.splitOn ":" with
    | [b, t] => match parseU64 b, parseOptHex t with | some b, some t => some (b, t) | _, _ => none
    | _ => none

def fmtOf (tbl : List (UInt64 × Str)) (v : UInt64) : Str :=
  match tbl.find? (·.1 == v) with
  | some (_, t) => t
  | none => if f64IsNaN v then (match tbl.find? (fun e => f64IsNaN e.1) with | some (_, t) => t | none => bs "?") else bs "?"

/-- the hypothesis about `f64::to_string` the round-trip theorem needs, checked for every value of this request -/
def fmtHypothesisOk (tbl : List (UInt64 × Str)) : Bool :=
  tbl.all fun (b, t) =>
    (match TextParse.parseFloat t with | some r => r == TextParse.canonF64 b | none => false) &&   -- exactly `RT.FmtOk.reads`
    t.all (fun c => c != 32 && c != 10 && c != 34 && c != 92) && !t.isEmpty

def textHandle (args : List String) : String :=
  match args with
  | "enc" :: fs =>
    match (field fs "pre").bind parseOptHex, (field fs "fams").bind (fun s => parseList s "|" parseFamilyW), (field fs "fmt").bind parseFmtTable with
    | some pre, some fams, some tbl =>
      let (out, ok) := Text.encode (fmtOf tbl) fams
      s!"{if ok then "ok" else "err"} {showHexBytes (pre ++ out)} fmt={if fmtHypothesisOk tbl then "ok" else "VIOLATED"}"
    | _, _, _ => "bad-op"
  | ["parse", bytes] =>
    match parseOptHex bytes with
    | some b => match TextParse.parse b with
      | some fams => showFamiliesW (TextParse.canon fams)
      | none => "parse-error"
    | none => "bad-op"
  | ["float", t] =>
    match parseOptHex t with
    | some t => match TextParse.parseFloat t with | some b => f64Show b | none => "none"
    | none => "bad-op"
  | _ => "bad-op"

end Prom.Drv
