import Prom.Base.Wire
import Prom.Model.Vec
import Prom.Gen.Consts
/- line-protocol handlers: area `vec` (C05, sequential part of C10) -/
namespace Prom.Drv
open Prom

structure VecSt where
  v : Option MVec := none
  handles : List Nat := []      -- child ids in order of acquisition

def showVErr : VErr → String
  | .card e g => s!"err:Card({e},{g})"
  | .msg => "err:Msg"

def showAll (st : VecSt) (v : MVec) : String := joinWith "," (st.handles.map fun h => toString (v.valOf h))

def showChild (c : Child) : String :=
  showHexPairs (c.labels.map fun p => (p.name, p.value)) ++ "=" ++ toString c.val

def sortStrings (l : List String) : List String := stableSortBy (fun a b => decide (a ≤ b)) l

def leBytes : Str := strOfString Gen.bucketLabel

def vecHandle (st : VecSt) (args : List String) : VecSt × String :=
  match args with
  | "new" :: fs =>
    match field fs "kind", (field fs "names").bind parseHexList, (field fs "consts").bind parseHexPairs with
    | some kind, some names, some consts =>
      match describe [] [] (strOfString "v") (strOfString "h") names consts with
      | none => ({}, "err:Msg")
      | some d =>
        let hist := kind == "histogramvec"
        let bf := hist && (d.varLabels.contains leBytes || d.constPairs.any (·.name == leBytes))
        ({ v := some { names := d.varLabels, consts := d.constPairs, buildFails := bf, children := [], store := [] }, handles := [] }, "ok")
    | _, _, _ => (st, "bad-op")
  | _ =>
  match st.v with
  | none => (st, "no-vec")
  | some v =>
    let getLike (r : MVec × Except VErr Nat) : VecSt × String :=
      match r with
      | (v', .ok id) =>
        let v'' := v'.bump id 1
        let st' : VecSt := { v := some v'', handles := st.handles ++ [id] }
        (st', s!"ok val={v''.valOf id} all={showAll st' v''}")
      | (v', .error e) => ({ st with v := some v' }, showVErr e)
    let rmLike (r : MVec × Except VErr Unit) : VecSt × String :=
      match r with
      | (v', .ok _) => ({ st with v := some v' }, "ok")
      | (v', .error e) => ({ st with v := some v' }, showVErr e)
    match args with
    | ["with", vals] => match parseHexList vals with
      | some vals => getLike (withLabelValues v vals)
      | none => (st, "bad-op")
    | ["withmap", m] => match parseHexPairs m with
      | some m => getLike (withMap v m)
      | none => (st, "bad-op")
    | ["rm", vals] => match parseHexList vals with
      | some vals => rmLike (removeLabelValues v vals)
      | none => (st, "bad-op")
    | ["rmmap", m] => match parseHexPairs m with
      | some m => rmLike (removeMap v m)
      | none => (st, "bad-op")
    | ["reset"] => ({ st with v := some v.reset }, "ok")
    | ["inc", h] => match h.toNat?.bind (st.handles[·]?) with
      | some id => let v' := v.bump id 1; ({ st with v := some v' }, s!"ok all={showAll st v'}")
      | none => (st, "no-handle")
    | ["collect"] =>
      let cs := sortStrings (v.collect.map showChild)
      (st, s!"n={cs.length} {joinWith ";" cs}")
    | ["key", vals] => match parseHexList vals with
      | some vals => (st, match hashLabelValues v vals with | .ok k => showU64Hex k | .error e => showVErr e)
      | none => (st, "bad-op")
    | _ => (st, "bad-op")

end Prom.Drv
