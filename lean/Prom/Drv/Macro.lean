import Prom.Base.Wire
import Prom.Model.Macros
import Prom.Model.Desc
import Prom.Model.Histogram
import Prom.Gen.Consts
import Prom.Drv.Hist
/- line-protocol handlers: area `macro` (C20): the expected result of a call site is computed from
   the SPECIFICATION term of that form (`Macros.spec`), interpreted with the request's arguments. -/
namespace Prom.Drv
open Prom Prom.Macros

structure SiteFlags where
  withReg : Bool
  tyName : String
  passedOpts : Bool       -- the options value is an argument (built by the harness with opts!/histogram_opts!)
  usesBuckets : Bool
  isVec : Bool

def containsBuckets : MExpr → Bool
  | .setBuckets _ _ => true
  | _ => false

def flagsOf (e : MExpr) : Option SiteFlags :=
  let go (withReg : Bool) (m : MExpr) : Option SiteFlags :=
    match m with
    | .construct (.ident t) (o :: rest) =>
      let passed := match o with | .var _ => true | _ => false
      some { withReg := withReg, tyName := t, passedOpts := passed, usesBuckets := containsBuckets o, isVec := !rest.isEmpty }
    | _ => none
  match e with
  | .registerDefault m => go false m
  | .registerIn _ m => go true m
  | _ => none

/-- merge of label maps in order: later maps override earlier ones (`HashMap::extend`) -/
def mergeMaps (ms : List (List (Str × Str))) : List (Str × Str) :=
  ms.foldl (fun acc m => m.foldl (fun a kv => a.filter (·.1 != kv.1) ++ [kv]) acc) []

def sortPairs (l : List (Str × Str)) : List (Str × Str) := stableSortBy (fun a b => strLe a.1 b.1) l

def macroHandle (fs : List String) : String :=
  match field fs "site", (field fs "name").bind parseHexList, (field fs "help").bind parseHexList,
        (field fs "c1").bind parseHexPairs, (field fs "c2").bind parseHexPairs, (field fs "lnames").bind parseHexList,
        (field fs "buckets").bind parseF64List with
  | some site, some [name], some [help], some c1, some c2, some lnames, some buckets =>
    match site.splitOn "/" with
    | [mac, ar] =>
      if mac == "labels" then
        s!"ok labels={showHexPairs [(strOfString "k1", name), (strOfString "k2", name)]}"
      else
      match ar.toNat? with
      | none => "bad-op"
      | some arity =>
        if mac == "opts" then
          let maps := if arity == 2 then [] else if arity == 3 then [c1] else [c1, c2]
          s!"ok name={showHexElem name} help={showHexElem help} pairs={showHexPairs (sortPairs (mergeMaps maps))}"
        else if mac == "histogram_opts" then
          let bk := if arity ≥ 3 then buckets else Gen.defaultBuckets
          let cs := if arity ≥ 4 then c1 else []
          s!"ok name={showHexElem name} help={showHexElem help} pairs={showHexPairs (sortPairs (mergeMaps [cs]))} buckets={showF64List bk}"
        else
        match (spec mac arity).bind flagsOf with
        | none => "no-spec"
        | some fl =>
          let isHist := fl.tyName == "Histogram" || fl.tyName == "HistogramVec"
          let consts := if fl.passedOpts then (if isHist then mergeMaps [c1] else mergeMaps [c1, c2]) else []
          let vars := if fl.isVec then lnames else []
          match describe [] [] name help vars consts with
          | none => "panic"                                   -- the constructor's `unwrap`
          | some d =>
            let bkIn := if fl.usesBuckets || (isHist && fl.passedOpts) then buckets else Gen.defaultBuckets
            let bk : Option String :=
              if !isHist then some "-" else
              match checkAndAdjust Gen.defaultBuckets bkIn with
              | some r => some (showF64List r)
              | none => if fl.isVec then some "child-err" else none
            match bk with
            | none => "panic"
            | some b =>
              s!"ok fq={showHexElem d.fqName} help={showHexElem d.help} pairs={showHexPairs (d.constPairs.map fun p => (p.name, p.value))} vars={showHexList d.varLabels} buckets={b} named={if fl.withReg then 1 else 0} default={if fl.withReg then 0 else 1}"
    | _ => "bad-op"
  | _, _, _, _, _, _, _ => "bad-op"

end Prom.Drv
