import Prom.Base.Wire
import Prom.Model.StaticMetric
import Prom.Model.StaticFlush
/- line-protocol handlers: area `sm` (C19) -/
namespace Prom.Drv
open Prom Prom.SM

def parseDecl (s : String) : Option Decl :=
  (s.splitOn ";").mapM fun l => match l.splitOn ":" with
    | [k, vs] => match (if k == "~" then some [] else parseHexBytes k), (vs.splitOn ",").mapM (fun fv => match fv.splitOn "=" with
        | [f, v] => match (if f == "~" then some [] else parseHexBytes f), (if v == "~" then some [] else parseHexBytes v) with
          | some f, some v => some (f, v)
          | _, _ => none
        | _ => none) with
      | some k, some vs => some { key := k, values := vs }
      | _, _ => none
    | _ => none

def sortByKey (m : List (Str × Str)) : List (Str × Str) := stableSortBy (fun a b => strLe a.1 b.1) m

/-- `sm decl=<decl> ops=<op>,<op>,…` with `op` = `f` (flush) or `i:<f1.f2.…>:<n>` (inc_by n through a
    field path): runs the generated LOCAL struct tree (`Model/StaticFlush.lean`) and prints, for every
    distinct child in leaf order, `k:v,…=<value>+<pending over all its leaves>` -/
def smFlushHandle (d : Decl) (ops : String) : String :=
  let parseOp (o : String) : Option TOp :=
    match o.splitOn ":" with
    | ["f"] => some .flush
    | ["i", path, n] =>
      match (path.splitOn ".").mapM (fun x => if x == "~" then some [] else parseHexBytes x), n.toNat? with
      | some p, some n => some (.inc p n)
      | _, _ => none
    | _ => none
  match (ops.splitOn ",").mapM parseOp with
  | none => "bad-op"
  | some ops =>
    let t := (LocalTree.init d (fun _ => 0)).run ops
    let children := (t.leaves.map (·.child)).eraseDups
    "ok " ++ ";".intercalate (children.map fun c =>
      ",".intercalate ((sortByKey c).map fun kv => showHexElem kv.1 ++ ":" ++ showHexElem kv.2)
        ++ "=" ++ toString (t.store c) ++ "+"
        ++ toString (((t.leaves.filter (·.child == c)).map (·.pending)).sum))

def smHandle (fs : List String) : String :=
  match (field fs "decl").bind parseDecl, field fs "ops" with
  | some d, some ops => smFlushHandle d ops
  | _, _ =>
    match (field fs "decl").bind parseDecl, field fs "acc", field fs "path", (field fs "order") with
    | some d, some acc, some path, some order =>
      match (path.splitOn ".").mapM (fun x => if x == "~" then some [] else parseHexBytes x), (order.splitOn ",").mapM (fun x => if x == "~" then some [] else parseHexBytes x) with
      | some p, some backing =>
        let fieldPath : Option (List Str) :=
          if acc == "tryget" then tryGetPath d p
          else if acc == "get" then (d.zip p).mapM fun (l, v) => getField l v
          else some p
        match fieldPath.bind (resolve d []) with
        | none => "none"
        | some m =>
          -- the vector resolves the map through ITS declared names
          match childValues backing m with
          | some _ => "ok " ++ ",".intercalate ((sortByKey m).map fun kv => showHexElem kv.1 ++ ":" ++ showHexElem kv.2)
          | none => "panic"
      | _, _ => "bad-op"
    | _, _, _, _ => "bad-op"

end Prom.Drv
