import Prom.Base.Wire
import Prom.Model.StaticMetric
/- line-protocol handlers: area `sm` (C19) -/
namespace Prom.Drv
open Prom Prom.SM

def parseDecl (s : String) : Option Decl :=
  (s.splitOn ";").mapM fun l => match l.splitOn ":" with
    | [k, vs] => match (if k == "~" then some [] else parseHexBytes k), (vs.splitOn ",").mapM (fun fv => match fv.splitOn "=" with
        | [f, v] => match (if f == "~" then some [] else parseHexBytes f), (if v == "~" then some [] else parseHexBytes v) with
          | some f, some v => some (f, v)
          | _, _ => none
        | _ => none) with
      | some k, some vs => some { key := k, values := vs }
      | _, _ => none
    | _ => none

def sortByKey (m : List (Str × Str)) : List (Str × Str) := stableSortBy (fun a b => strLe a.1 b.1) m

def smHandle (fs : List String) : String :=
  match (field fs "decl").bind parseDecl, field fs "acc", field fs "path", (field fs "order") with
  | some d, some acc, some path, some order =>
    match (path.splitOn ".").mapM (fun x => if x == "~" then some [] else parseHexBytes x), (order.splitOn ",").mapM (fun x => if x == "~" then some [] else parseHexBytes x) with
    | some p, some backing =>
      let fieldPath : Option (List Str) :=
        if acc == "tryget" then tryGetPath d p
        else if acc == "get" then (d.zip p).mapM fun (l, v) => getField l v
        else some p
      match fieldPath.bind (resolve d []) with
      | none => "none"
      | some m =>
        -- the vector resolves the map through ITS declared names
        match childValues backing m with
        | some _ => "ok " ++ ",".intercalate ((sortByKey m).map fun kv => showHexElem kv.1 ++ ":" ++ showHexElem kv.2)
        | none => "panic"
    | _, _ => "bad-op"
  | _, _, _, _ => "bad-op"

end Prom.Drv
