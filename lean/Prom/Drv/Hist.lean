import Prom.Base.Wire
import Prom.Model.Histogram
import Prom.Gen.Consts
/- line-protocol handlers: area `hist` (C08) -/
namespace Prom.Drv
open Prom

def showF64List (l : List UInt64) : String := joinWith "," (l.map f64Show)
def showNatList (l : List Nat) : String := joinWith "," (l.map toString)

def showSnap (s : Snap) : String :=
  s!"count={s.count} sum={f64Show s.sum} cum={showNatList s.cum}"

def histHandle (args : List String) : String :=
  match args with
  | ["check", bs] =>
    match parseF64List bs with
    | some bs => match checkAndAdjust Gen.defaultBuckets bs with
      | some r => "ok " ++ showF64List r
      | none => "err:Msg"
    | none => "bad-op"
  | "run" :: bs :: obs :: rest =>
    match parseF64List bs, parseF64List obs with
    | some bs, some obs => match checkAndAdjust Gen.defaultBuckets bs with
      | some r =>
        let all := ((Hist.new r).observeAll f64Add obs).snap
        if rest.contains "via=local2" then
          -- one local histogram, two batches: counts add up; the shared sum is (sum of batch 1) + (sum of batch 2), each folded from 0
          let k := obs.length / 2
          let s1 := ((Hist.new r).observeAll f64Add (obs.take k)).snap.sum
          let s2 := ((Hist.new r).observeAll f64Add (obs.drop k)).snap.sum
          "ok " ++ showSnap { all with sum := f64Add s1 s2 }
        else "ok " ++ showSnap all
      | none => "err:Msg"
    | _, _ => "bad-op"
  | ["lin", s, w, c] =>
    match parseF64 s, parseF64 w, c.toNat? with
    | some s, some w, some c => match linearBuckets s w c with
      | some r => "ok " ++ showF64List r
      | none => "err:Msg"
    | _, _, _ => "bad-op"
  | ["exp", s, f, c] =>
    match parseF64 s, parseF64 f, c.toNat? with
    | some s, some f, some c => match exponentialBuckets s f c with
      | some r => "ok " ++ showF64List r
      | none => "err:Msg"
    | _, _, _ => "bad-op"
  | ["le", a, b] =>
    match parseF64 a, parseF64 b with
    | some a, some b => s!"le={f64Le a b} lt={f64Lt a b} nan={f64IsNaN a}"
    | _, _ => "bad-op"
  | ["add", a, b] =>
    match parseF64 a, parseF64 b with
    | some a, some b => f64Show (f64Add a b)
    | _, _ => "bad-op"
  | _ => "bad-op"

end Prom.Drv
