import Prom.Model.Timer
/- line-protocol handlers: area `timer` (C18) -/
namespace Prom.Drv
open Prom

def timerHandle (w : TW) (args : List String) : TW × String :=
  let show' (w : TW) : String := s!"shared={w.shared} parent={w.parent}"
  match args with
  | ["new"] => ({}, "ok")
  | ["new", "tiny"] => ({}, "ok")   -- another bucket layout of the real histogram; the contribution count does not depend on it
  | ["start", k] =>
    let w' := w.step (.start (if k == "local" then .local else .shared))
    (w', s!"ok t={w'.timers.length - 1}")
  | "record" :: i :: _ => match i.toNat? with
    | some i => let w' := w.step (.record i); (w', show' w')
    | none => (w, "bad-op")
  | "observe" :: i :: _ => match i.toNat? with
    | some i => let w' := w.step (.record i); (w', show' w')
    | none => (w, "bad-op")
  | "discard" :: i :: _ => match i.toNat? with
    | some i => let w' := w.step (.discard i); (w', show' w')
    | none => (w, "bad-op")
  | "drop" :: i :: _ => match i.toNat? with
    | some i => let w' := w.step (.drop i); (w', show' w')
    | none => (w, "bad-op")
  | "pdrop" :: i :: _ => match i.toNat? with   -- dropped while its thread unwinds from a panic: still a drop
    | some i => let w' := w.step (.drop i); (w', show' w')
    | none => (w, "bad-op")
  | ["closure"] => let w' := w.step .closure; (w', show' w')
  | ["pobs"] => let w' := w.step .pobs; (w', show' w')
  | ["pflush"] => let w' := w.step .pflush; (w', show' w')
  | ["get"] => (w, show' w)
  | _ => (w, "bad-op")

end Prom.Drv
