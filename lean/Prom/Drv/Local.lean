import Prom.Base.Wire
import Prom.Model.Local
import Prom.Drv.Hist
import Prom.Drv.Vec
/- line-protocol handlers: area `local` (C12) -/
namespace Prom.Drv
open Prom

structure LocalSt where
  cw : CW := {}
  hw : Option HW := none
  vw : Option VW := none

def showLH : Option LH → String
  | some l => s!"{l.count}/{f64Show l.sum}"
  | none => "x"

def localHandle (st : LocalSt) (args : List String) : LocalSt × String :=
  match args with
  | "cnew" :: _ => ({ st with cw := {} }, "ok")
  | ["lnew"] => let w := st.cw.step .lnew; ({ st with cw := w }, s!"ok h={w.locals.length - 1}")
  | ["linc", h, d] => match h.toNat?, d.toNat? with
    | some h, some d => ({ st with cw := st.cw.step (.linc h d) }, "ok")
    | _, _ => (st, "bad-op")
  | ["lflush", h] => match h.toNat? with
    | some h => ({ st with cw := st.cw.step (.lflush h) }, "ok")
    | none => (st, "bad-op")
  | ["lreset", h] => match h.toNat? with
    | some h => ({ st with cw := st.cw.step (.lreset h) }, "ok")
    | none => (st, "bad-op")
  | ["lclone", h] => match h.toNat? with
    | some h => let w := st.cw.step (.lclone h); ({ st with cw := w }, s!"ok h={w.locals.length - 1}")
    | none => (st, "bad-op")
  | ["sinc", d] => match d.toNat? with
    | some d => ({ st with cw := st.cw.step (.sinc d) }, "ok")
    | none => (st, "bad-op")
  | ["sreset"] => ({ st with cw := st.cw.step .sreset }, "ok")
  | ["cget"] => (st, s!"shared={st.cw.shared} locals={showNatList st.cw.locals}")
  | ["hnew", bs] => match parseF64List bs with
    | some bs => ({ st with hw := some { shared := Hist.new bs, locals := [] } }, "ok")
    | none => (st, "bad-op")
  | "vnew" :: fs =>
    match field fs "kind", (field fs "names").bind parseHexList with
    | some kind, some names =>
      ({ st with vw := some { v := { names := names, consts := [], buildFails := false, children := [], store := [] },
                              locals := [], flushOnDrop := kind == "histogramvec" } }, "ok")
    | _, _ => (st, "bad-op")
  | _ =>
  match args with
  | "hget" :: _ | "hlnew" :: _ | "hlobs" :: _ | "hlflush" :: _ | "hlclear" :: _ | "hlclone" :: _ | "hldrop" :: _ | "hsobs" :: _ =>
    match st.hw with
    | none => (st, "no-hist")
    | some w =>
      let upd (w' : HW) (o : String) : LocalSt × String := ({ st with hw := some w' }, o)
      match args with
      | ["hlnew"] => let w' := w.step f64Add .lnew; upd w' s!"ok h={w'.locals.length - 1}"
      | ["hlobs", h, v] => match h.toNat?, parseF64 v with
        | some h, some v => upd (w.step f64Add (.lobs h v)) "ok"
        | _, _ => (st, "bad-op")
      | ["hlflush", h] => match h.toNat? with | some h => upd (w.step f64Add (.lflush h)) "ok" | none => (st, "bad-op")
      | ["hlclear", h] => match h.toNat? with | some h => upd (w.step f64Add (.lclear h)) "ok" | none => (st, "bad-op")
      | ["hlclone", h] => match h.toNat? with
        | some h => let w' := w.step f64Add (.lclone h); upd w' s!"ok h={w'.locals.length - 1}"
        | none => (st, "bad-op")
      | ["hldrop", h] => match h.toNat? with | some h => upd (w.step f64Add (.ldrop h)) "ok" | none => (st, "bad-op")
      | ["hsobs", v] => match parseF64 v with | some v => upd (w.step f64Add (.sobs v)) "ok" | none => (st, "bad-op")
      | ["hget"] => (st, s!"{showSnap w.shared.snap} locals={joinWith ";" (w.locals.map showLH)}")
      | _ => (st, "bad-op")
  | _ =>
    match st.vw with
    | none => (st, "no-vec")
    | some w =>
      let upd (w' : VW) (o : String) : LocalSt × String := ({ st with vw := some w' }, o)
      match args with
      | ["vlnew"] => let w' := { w with locals := w.locals ++ [some {}] }; upd w' s!"ok h={w'.locals.length - 1}"
      | ["vlwith", h, vals, d] => match h.toNat?, parseHexList vals, d.toNat? with
        | some h, some vals, some d => match w.lwith h vals d with
          | some w' => upd w' "ok"
          | none => (st, "panic")
        | _, _, _ => (st, "bad-op")
      | ["vlflush", h] => match h.toNat? with | some h => upd (w.lflush h) "ok" | none => (st, "bad-op")
      | ["vlrm", h, vals] => match h.toNat?, parseHexList vals with
        | some h, some vals => match w.lremove h vals with
          | (w', .ok _) => upd w' "ok"
          | (w', .error e) => upd w' (showVErr e)
        | _, _ => (st, "bad-op")
      | ["vlclone", h] => match h.toNat? with
        | some h => let w' := w.lclone h; upd w' s!"ok h={w'.locals.length - 1}"
        | none => (st, "bad-op")
      | ["vldrop", h] => match h.toNat? with | some h => upd (w.ldrop h) "ok" | none => (st, "bad-op")
      | ["vget"] =>
        let cs := sortStrings (w.v.collect.map showChild)
        (st, s!"n={cs.length} {joinWith ";" cs}")
      | _ => (st, "bad-op")

end Prom.Drv
