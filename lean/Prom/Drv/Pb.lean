import Prom.Drv.Text
import Prom.Model.Pb
import Prom.Model.PbDecode
import Prom.Gen.PbTables
/- line-protocol handlers: area `pb` (C13) -/
namespace Prom.Drv
open Prom Prom.Pb

def pbHandle (args : List String) : String :=
  match args with
  | "enc" :: fs =>
    match (field fs "pre").bind parseOptHex, (field fs "fams").bind (fun s => parseList s "|" parseFamilyW) with
    | some pre, some fams =>
      let (out, ok) := encodeStream Gen.writerTable fams
      s!"{if ok then "ok" else "err"} {showHexBytes (pre ++ out)}"
    | _, _ => "bad-op"
  | ["dec", bytes] =>
    match parseOptHex bytes with
    | some b => match decodeFamilies Gen.schema b with
      | some fams => showFamiliesW fams
      | none => "decode-error"
    | none => "bad-op"
  | _ => "bad-op"

end Prom.Drv
