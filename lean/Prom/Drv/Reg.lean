import Prom.Base.Wire
import Prom.Model.Registry
import Prom.Model.Vec
import Prom.Model.Histogram
import Prom.Drv.Hist
/- line-protocol handlers: area `reg` (C06, C07, C14, gather part of C09) -/
namespace Prom.Drv
open Prom

structure RegSt where
  r : Option Reg := none
  colls : List (String × Coll) := []
  registered : List (String × Coll) := []   -- harness-side bookkeeping mirror (for mixed-kind detection)

def showRErr : RErr → String
  | .alreadyReg => "err:AlreadyReg"
  | .msg => "err:Msg"

def showType : MType → String
  | .counter => "counter" | .gauge => "gauge" | .summary => "summary" | .untyped => "untyped" | .histogram => "histogram"

def showSampleVal (ty : MType) (s : Sample) : String :=
  match ty with
  | .counter => "c:" ++ f64Show s.counterVal
  | .gauge => "g:" ++ f64Show s.gaugeVal
  | .histogram => match s.val with
    | .hist c sum bs => s!"h:{c}/{f64Show sum}/{joinWith "," (bs.map fun b => f64Show b.1 ++ "~" ++ toString b.2)}"
    | _ => "h:0/0000000000000000/-"
  | _ => "?"

def showSample (ty : MType) (s : Sample) : String :=
  showHexPairs (s.labels.map fun p => (p.name, p.value)) ++ "=" ++ showSampleVal ty s ++ "@" ++ toString s.ts

def showFamily (f : Family) : String :=
  showHexElem f.name ++ "^" ++ showHexElem f.help ++ "^" ++ showType f.ty ++ "^" ++ joinWith ";" (f.samples.map (showSample f.ty))

def histBounds : List UInt64 := [0x3FE0000000000000, 0x4000000000000000]  -- [0.5, 2.0]

/-- the single-metric family a library collector returns -/
def mkFam (d : Desc) (ty : MType) (samples : List Sample) : Family :=
  { name := d.fqName, help := d.help, ty := ty, samples := samples }

def parseOptStr (s : String) : Option (Option Str) :=
  if s == "none" then some none else match parseHexList s with
    | some [x] => some (some x)
    | _ => none

def parseOptPairs (s : String) : Option (Option (List (Str × Str))) :=
  if s == "none" then some none else (parseHexPairs s).map some

def labelsOf (d : Desc) (vals : List Str) : List LabelPair :=
  childLabels { names := d.varLabels, consts := d.constPairs, buildFails := false, children := [], store := [] } vals

/-- build the model of a collector from its definition line -/
def defColl (fs : List String) : Option Coll :=
  match field fs "kind", (field fs "name").bind parseHexList, (field fs "help").bind parseHexList,
        (field fs "consts").bind parseHexPairs, (field fs "vars").bind parseHexList with
  | some kind, some [name], some [help], some consts, some vars =>
    let val := ((field fs "val").bind parseF64).getD 0
    if kind == "custom" then
      -- sub=<name>/<help>/<pairs>/<val> repeated: one counter per sub-metric
      let subs := fs.filterMap fun f => if f.startsWith "sub=" then some ((f.drop 4).toString.splitOn "/") else none
      let built := subs.mapM fun s => match s with
        | [n, h, ps, v] => match parseHexList n, parseHexList h, parseHexPairs ps, parseF64 v with
          | some [n], some [h], some ps, some v => (Desc.new n h [] ps).map fun d => (d, mkFam d .counter [{ labels := d.constPairs, val := .counter v }])
          | _, _, _, _ => none
        -- a fifth field: the sample's timestamp (`none` = never set, reads as 0)
        | [n, h, ps, v, ts] => match parseHexList n, parseHexList h, parseHexPairs ps, parseF64 v, (if ts == "none" then some 0 else ts.toInt?) with
          | some [n], some [h], some ps, some v, some ts => (Desc.new n h [] ps).map fun d => (d, mkFam d .counter [{ labels := d.constPairs, val := .counter v, ts := ts }])
          | _, _, _, _, _ => none
        | _ => none
      -- `nodesc=1`: the collector describes nothing (collector id 0) but still collects its samples
      built.map fun l => { descs := if fs.contains "nodesc=1" then [] else l.map (·.1), fams := l.map (·.2) }
    else
    let d? := if kind == "pulling" then Desc.new name help [] [] else describe [] [] name help vars consts
    match d? with
    | none => none
    | some d =>
      if kind == "counter" || kind == "intcounter" then
        -- a counter starts at +0.0 and the definition adds `val` to it (so a `val` of -0.0 leaves +0.0)
        if !vars.isEmpty then none else some { descs := [d], fams := [mkFam d .counter [{ labels := d.constPairs, val := .counter (f64Add f64Zero val) }]] }
      else if kind == "gauge" || kind == "intgauge" || kind == "pulling" then
        if !vars.isEmpty then none else
        some { descs := [d], fams := [mkFam d .gauge [{ labels := if kind == "pulling" then [] else d.constPairs, val := .gauge val }]] }
      else if kind == "histogram" then
        if !vars.isEmpty then none else
        if d.constPairs.any (·.name == leBytesR) then none else
        let obs := ((field fs "obs").bind parseF64List).getD []
        let s := ((Hist.new histBounds).observeAll f64Add obs).snap
        some { descs := [d], fams := [mkFam d .histogram [{ labels := d.constPairs, val := .hist s.count s.sum (histBounds.zip s.cum) }]] }
      else if kind == "histogramvec" then
        if d.varLabels.contains leBytesR || d.constPairs.any (·.name == leBytesR) then none else
        let children := ((field fs "children").map fun c => if c == "none" then [] else (c.splitOn ";").filterMap parseHexList).getD []
        let samples := (children.zipIdx).map fun (vals, i) =>
          let s := ((Hist.new histBounds).observeAll f64Add (List.replicate (i + 1) 0x3FF0000000000000)).snap
          ({ labels := labelsOf d vals, val := .hist s.count s.sum (histBounds.zip s.cum) } : Sample)
        some { descs := [d], fams := [mkFam d .histogram samples] }
      else if kind == "countervec" || kind == "gaugevec" then
        let children := ((field fs "children").map fun c => if c == "none" then [] else (c.splitOn ";").filterMap parseHexList).getD []
        let ty := if kind == "countervec" then MType.counter else MType.gauge
        let samples := (children.zipIdx).map fun (vals, i) =>
          let v := f64OfNat (i + 1)
          ({ labels := labelsOf d vals, val := if kind == "countervec" then .counter v else .gauge v } : Sample)
        some { descs := [d], fams := [mkFam d ty samples] }
      else none
  | _, _, _, _, _ => none
where leBytesR : Str := strOfString "le"

def mixedTypes (r : Reg) : Bool :=
  let fams := r.collectors.flatMap (·.2.fams)
  fams.any fun f => fams.any fun g => f.name == g.name && f.ty != g.ty && !f.samples.isEmpty && !g.samples.isEmpty

def regHandle (st : RegSt) (args : List String) : RegSt × String :=
  match args with
  | "new" :: fs =>
    match (field fs "prefix").bind parseOptStr, (field fs "labels").bind parseOptPairs with
    | some p, some l => match Reg.newCustom p l with
      | some r => ({ r := some r }, "ok")
      | none => ({}, "err:Msg")
    | _, _ => (st, "bad-op")
  | "def" :: cid :: fs =>
    match defColl fs with
    | some c => ({ st with colls := (cid, c) :: st.colls.filter (·.1 != cid) }, "ok")
    | none => ({ st with colls := st.colls.filter (·.1 != cid) }, "err")
  | ["register", cid] =>
    match st.r, st.colls.find? (·.1 == cid) with
    | some r, some (_, c) => match r.register c with
      | (r', .ok _) => ({ st with r := some r' }, "ok")
      | (r', .error e) => ({ st with r := some r' }, showRErr e)
    | _, _ => (st, "no-coll")
  | ["unregister", cid] =>
    match st.r, st.colls.find? (·.1 == cid) with
    | some r, some (_, c) => match r.unregister c with
      | (r', .ok _) => ({ st with r := some r' }, "ok")
      | (r', .error e) => ({ st with r := some r' }, showRErr e)
    | _, _ => (st, "no-coll")
  | ["gather"] =>
    match st.r with
    | none => (st, "no-reg")
    | some r =>
      if mixedTypes r then (st, "mixed-types") else
      (st, joinWith " | " (r.gather.map showFamily))
  | _ => (st, "bad-op")

end Prom.Drv
