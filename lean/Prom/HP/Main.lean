import Prom.HP.Pres2
namespace Hp

/-- applying the HEAD entry of a running observation's list keeps the invariant -/
theorem step_apply_head {k : Nat} {s : St} (pre post : List Task) (o : Obs) (b : Bool) (c : Nat) (a : Int)
    (rest : List (Nat × Int))
    (ht : s.tasks = pre ++ Task.obsRun o b ((c, a) :: rest) :: post)
    (I : Inv k s) : Inv k { s with
        tasks := pre ++ Task.obsRun o b rest :: post
        sh := modSh s.sh b (fun x => { x with cell := setCell x.cell c (x.cell c + a) }) } := by
  obtain ⟨hot, n, sh, lock, tasks, claimed, asg, snaps⟩ := s
  simp only at ht; subst ht
  have owf := I.twf (Task.obsRun o b ((c, a) :: rest)) (by simp)
  simp only [TaskWf, WfUpd] at owf
  have hck : c ≤ k := owf.2 (c, a) (by simp)
  refine ⟨?_, I.awf, ?_, ?_, ?_, ?_, I.snapsOk⟩
  · intro t h
    simp only [List.mem_append, List.mem_cons] at h
    rcases h with h | rfl | h
    · exact I.twf t (by simp [h])
    · exact ⟨owf.1, fun p hp => owf.2 p (by simp [hp])⟩
    · exact I.twf t (by simp [h])
  · intro b' c' hkc
    have := I.zero b' c' hkc
    have hne : c' ≠ c := by omega
    simp only [modSh]; split
    · simpa [setCell, hne] using this
    · exact this
  · have := I.act; simp [active] at this ⊢; exact this
  · intro hl
    exact apply_phase (k := k) hot n sh lock pre post claimed asg snaps o b c a rest owf.1
      Task.colLocked (I.normal hl)
  · intro t h
    simp only [List.mem_append, List.mem_cons] at h
    rcases h with h | rfl | h
    · exact apply_phase _ _ _ _ _ _ _ _ _ _ _ _ _ _ owf.1 t (I.phase t (by simp [h]))
    · trivial
    · exact apply_phase _ _ _ _ _ _ _ _ _ _ _ _ _ _ owf.1 t (I.phase t (by simp [h]))

/-- the invariant does not look at the ORDER of the updates a running observation still has to
    apply: replacing its list by one with the same contributions keeps `Inv` -/
theorem inv_obsRun_congr {k : Nat} {s : St} (pre post : List Task) (o : Obs) (b : Bool)
    (l l' : List (Nat × Int))
    (ht : s.tasks = pre ++ Task.obsRun o b l :: post)
    (hwf : WfUpd k l → WfUpd k l') (hc : ∀ c, contribL l' c = contribL l c)
    (I : Inv k s) : Inv k { s with tasks := pre ++ Task.obsRun o b l' :: post } := by
  have hW : ∀ b', pendW b' (pre ++ Task.obsRun o b l' :: post) = pendW b' s.tasks := by
    intro b'; simp [ht, tw]
  have hC : ∀ b' c, pend b' c (pre ++ Task.obsRun o b l' :: post) = pend b' c s.tasks := by
    intro b' c; simp [ht, tc, hc]
  have owf := I.twf (Task.obsRun o b l) (by simp [ht])
  refine ⟨?_, I.awf, I.zero, ?_, ?_, ?_, I.snapsOk⟩
  · intro t h
    simp only [List.mem_append, List.mem_cons] at h
    rcases h with h | rfl | h
    · exact I.twf t (by simp [ht, h])
    · exact ⟨owf.1, hwf owf.2⟩
    · exact I.twf t (by simp [ht, h])
  · have := I.act; simp [ht, active] at this ⊢; exact this
  · intro hl
    exact normal_congr s _ s.lock hW hC (I.normal hl)
  · intro t h
    simp only [List.mem_append, List.mem_cons] at h
    rcases h with h | rfl | h
    · exact phase_congr s _ s.lock hW hC t (I.phase t (by simp [ht, h]))
    · trivial
    · exact phase_congr s _ s.lock hW hC t (I.phase t (by simp [ht, h]))

/-- applying ANY entry of the list: move it to the front (`inv_obsRun_congr`), then `step_apply_head` -/
theorem step_apply {k : Nat} {s : St} (pre post : List Task) (o : Obs) (b : Bool) (c : Nat) (a : Int)
    (l1 l2 : List (Nat × Int))
    (ht : s.tasks = pre ++ Task.obsRun o b (l1 ++ (c, a) :: l2) :: post)
    (I : Inv k s) : Inv k { s with
        tasks := pre ++ Task.obsRun o b (l1 ++ l2) :: post
        sh := modSh s.sh b (fun x => { x with cell := setCell x.cell c (x.cell c + a) }) } := by
  have I' := inv_obsRun_congr pre post o b (l1 ++ (c, a) :: l2) ((c, a) :: (l1 ++ l2)) ht
    (fun h p hp => h p (by
      simp only [List.mem_cons, List.mem_append] at hp ⊢
      rcases hp with hp | hp | hp
      · exact .inr (.inl hp)
      · exact .inl hp
      · exact .inr (.inr hp)))
    (fun c' => (contribL_middle l1 l2 (c, a) c').symm) I
  exact step_apply_head (s := { s with tasks := pre ++ Task.obsRun o b ((c, a) :: (l1 ++ l2)) :: post })
    pre post o b c a (l1 ++ l2) rfl I'

theorem publish_phase {k : Nat} (hot : Bool) (n : Nat) (sh : Bool → Shard) (lock : Bool)
    (pre post : List Task) (claimed : List Obs) (asg : Bool → List Obs)
    (snaps : List (Snap × List Obs)) (o : Obs) (b : Bool) (hw : 1 ≤ o.w) (t : Task)
    (h : PhaseInv k ⟨hot, n, sh, lock, pre ++ Task.obsRun o b [] :: post, claimed, asg, snaps⟩ t) :
    PhaseInv k ⟨hot, n, modSh sh b (fun x => { x with count := x.count + o.w }), lock,
      pre ++ post, claimed, asg, snaps⟩ t := by
  cases t <;> try trivial
  · -- colLocked
    simp only [PhaseInv, Normal, Quiet, EqN] at h ⊢
    obtain ⟨⟨q1, q2, q3, q4⟩, ⟨e1, e2⟩, hn, c1, c2⟩ := h
    by_cases hb : b = hot
    · subst hb
      simp [tw, tc, modSh_same, modSh_not] at *
      exact ⟨⟨q1, q2, q3, q4⟩, ⟨by omega, e2⟩, hn, c1, c2⟩
    · have hb' : b = !hot := by cases b <;> cases hot <;> simp_all
      subst hb'
      simp [tw] at q2
      omega
  · -- colSpin
    rename_i cold ov S
    simp only [PhaseInv, SpinInv, Frozen, EqN] at h ⊢
    obtain ⟨⟨hh, f1, f2, f3, f4, f5, f6⟩, ⟨a1, a2⟩, ⟨b1, b2⟩⟩ := h
    subst hh
    by_cases hb : b = cold
    · subst hb
      simp [tw, tc, modSh_same, modSh_not] at *
      exact ⟨⟨f1, f2, f3, f4, f5, f6⟩, ⟨by omega, a2⟩, ⟨b1, b2⟩⟩
    · have hb' : b = !cold := by cases b <;> cases cold <;> simp_all
      subst hb'
      simp [tw, tc, modSh_same, modSh_not'] at *
      exact ⟨⟨f1, f2, f3, f4, f5, f6⟩, ⟨a1, a2⟩, ⟨by omega, b2⟩⟩
  · -- colMove
    rename_i cold ov todo taken S
    simp only [PhaseInv, MoveInv, Frozen] at h ⊢
    obtain ⟨⟨hh, f1, f2, f3, f4, f5, f6⟩, m1, m2, m3, m4, m5, m6, m7, m8⟩ := h
    subst hh
    by_cases hb : b = cold
    · subst hb
      simp [tw] at m1
      omega
    · have hb' : b = !cold := by cases b <;> cases cold <;> simp_all
      subst hb'
      simp [tw, tc, modSh_same, modSh_not'] at *
      exact ⟨⟨f1, f2, f3, f4, f5, f6⟩, m1, m2, m3, m4, m5, m6, m7, by omega⟩

theorem step_publish {k : Nat} {s : St} (pre post : List Task) (o : Obs) (b : Bool)
    (ht : s.tasks = pre ++ Task.obsRun o b [] :: post)
    (I : Inv k s) : Inv k { s with
        tasks := pre ++ post
        sh := modSh s.sh b (fun x => { x with count := x.count + o.w }) } := by
  obtain ⟨hot, n, sh, lock, tasks, claimed, asg, snaps⟩ := s
  simp only at ht; subst ht
  have owf := I.twf (Task.obsRun o b []) (by simp)
  simp only [TaskWf] at owf
  refine ⟨?_, I.awf, ?_, ?_, ?_, ?_, I.snapsOk⟩
  · intro t h
    simp only [List.mem_append] at h
    rcases h with h | h
    · exact I.twf t (by simp [h])
    · exact I.twf t (by simp [h])
  · intro b' c' hkc
    have := I.zero b' c' hkc
    simp only [modSh]; split <;> simpa using this
  · have := I.act; simp [active] at this ⊢; exact this
  · intro hl
    exact publish_phase (k := k) hot n sh lock pre post claimed asg snaps o b owf.1
      Task.colLocked (I.normal hl)
  · intro t h
    simp only [List.mem_append] at h
    rcases h with h | h
    · exact publish_phase _ _ _ _ _ _ _ _ _ _ _ owf.1 t (I.phase t (by simp [h]))
    · exact publish_phase _ _ _ _ _ _ _ _ _ _ _ owf.1 t (I.phase t (by simp [h]))

/-- the invariant does not look at the ORDER of the steps a collector still has to take: replacing
    its list by a duplicate-free one with the same elements keeps `Inv` -/
theorem inv_todo_congr {k : Nat} {s : St} (pre post : List Task) (cold : Bool) (ov : Nat)
    (todo todo' : List CStep) (taken : Cells) (S : List Obs)
    (ht : s.tasks = pre ++ Task.colMove cold ov todo taken S :: post)
    (hn : todo'.Nodup) (hm : ∀ x, x ∈ todo' ↔ x ∈ todo)
    (I : Inv k s) : Inv k { s with tasks := pre ++ Task.colMove cold ov todo' taken S :: post } := by
  have hW : ∀ b', pendW b' (pre ++ Task.colMove cold ov todo' taken S :: post) = pendW b' s.tasks := by
    intro b'; simp [ht, tw]
  have hC : ∀ b' c, pend b' c (pre ++ Task.colMove cold ov todo' taken S :: post) = pend b' c s.tasks := by
    intro b' c; simp [ht, tc]
  refine ⟨?_, I.awf, I.zero, ?_, ?_, ?_, I.snapsOk⟩
  · intro t h
    simp only [List.mem_append, List.mem_cons] at h
    rcases h with h | rfl | h
    · exact I.twf t (by simp [ht, h])
    · trivial
    · exact I.twf t (by simp [ht, h])
  · have := I.act; simp [ht, active] at this ⊢; exact this
  · intro hl
    exact normal_congr s _ s.lock hW hC (I.normal hl)
  · intro t h
    simp only [List.mem_append, List.mem_cons] at h
    rcases h with h | rfl | h
    · exact phase_congr s _ s.lock hW hC t (I.phase t (by simp [ht, h]))
    · have h0 := phase_congr (k := k) s (pre ++ Task.colMove cold ov todo' taken S :: post) s.lock hW hC _
        (I.phase (Task.colMove cold ov todo taken S) (by simp [ht]))
      simp only [PhaseInv, MoveInv] at h0 ⊢
      obtain ⟨f, m1, m2, m3, m4, m5, m6, m7, m8⟩ := h0
      refine ⟨f, m1, m2, m3.of_mem_iff hn hm, m4, ?_, ?_, ?_, ?_⟩
      · intro c hc; exact m5 c ((hm _).1 hc)
      · intro c hc; exact m6 c (fun h => hc ((hm _).2 h))
      · intro c; rw [m7 c]; simp only [hm]
      · rw [m8]; simp only [hm]
    · exact phase_congr s _ s.lock hW hC t (I.phase t (by simp [ht, h]))

/-- the well-formedness of a collector's remaining steps, from the invariant -/
theorem todoWf_of_inv {k : Nat} {s : St} {pre post : List Task} {cold : Bool} {ov : Nat}
    {todo : List CStep} {taken : Cells} {S : List Obs}
    (ht : s.tasks = pre ++ Task.colMove cold ov todo taken S :: post) (I : Inv k s) : TodoWf todo := by
  have := I.phase (Task.colMove cold ov todo taken S) (by simp [ht])
  simp only [PhaseInv, MoveInv] at this
  exact this.2.2.2.1

/-- taking ANY step `x` of the list: move it to the front (`inv_todo_congr`) -/
theorem inv_todo_front {k : Nat} {s : St} (pre post : List Task) (cold : Bool) (ov : Nat)
    (l1 l2 : List CStep) (x : CStep) (taken : Cells) (S : List Obs)
    (ht : s.tasks = pre ++ Task.colMove cold ov (l1 ++ x :: l2) taken S :: post)
    (I : Inv k s) : Inv k { s with tasks := pre ++ Task.colMove cold ov (x :: (l1 ++ l2)) taken S :: post } :=
  inv_todo_congr pre post cold ov (l1 ++ x :: l2) (x :: (l1 ++ l2)) taken S ht
    (List.perm_middle.nodup_iff.mp (todoWf_of_inv ht I).1)
    (fun _ => List.perm_middle.mem_iff.symm) I

/-- a `swap` taken from anywhere in the list keeps the invariant -/
theorem step_swap_any {k : Nat} {s : St} (pre post : List Task) (cold : Bool) (ov : Nat) (c : Nat)
    (l1 l2 : List CStep) (taken : Cells) (S : List Obs)
    (ht : s.tasks = pre ++ Task.colMove cold ov (l1 ++ CStep.swap c :: l2) taken S :: post)
    (I : Inv k s) : Inv k { s with
        tasks := pre ++ Task.colMove cold ov (l1 ++ l2) (setCell taken c ((s.sh cold).cell c)) S :: post
        sh := modSh s.sh cold (fun x => { x with cell := setCell x.cell c 0 }) } :=
  step_swap (s := { s with tasks := pre ++ Task.colMove cold ov (CStep.swap c :: (l1 ++ l2)) taken S :: post })
    pre post cold ov c (l1 ++ l2) taken S rfl (inv_todo_front pre post cold ov l1 l2 _ taken S ht I)

/-- an `addHot c` taken from anywhere in the list, once `swap c` is done, keeps the invariant -/
theorem step_addHot_any {k : Nat} {s : St} (pre post : List Task) (cold : Bool) (ov : Nat) (c : Nat)
    (l1 l2 : List CStep) (taken : Cells) (S : List Obs)
    (ht : s.tasks = pre ++ Task.colMove cold ov (l1 ++ CStep.addHot c :: l2) taken S :: post)
    (hs : CStep.swap c ∉ l1 ++ l2)
    (I : Inv k s) : Inv k { s with
        tasks := pre ++ Task.colMove cold ov (l1 ++ l2) taken S :: post
        sh := modSh s.sh (!cold) (fun x => { x with cell := setCell x.cell c (x.cell c + taken c) }) } :=
  step_addHot (s := { s with tasks := pre ++ Task.colMove cold ov (CStep.addHot c :: (l1 ++ l2)) taken S :: post })
    pre post cold ov c (l1 ++ l2) taken S rfl hs (inv_todo_front pre post cold ov l1 l2 _ taken S ht I)

/-- the `addCount` taken from anywhere in the list keeps the invariant -/
theorem step_addCount_any {k : Nat} {s : St} (pre post : List Task) (cold : Bool) (ov : Nat)
    (l1 l2 : List CStep) (taken : Cells) (S : List Obs)
    (ht : s.tasks = pre ++ Task.colMove cold ov (l1 ++ CStep.addCount :: l2) taken S :: post)
    (I : Inv k s) : Inv k { s with
        tasks := pre ++ Task.colMove cold ov (l1 ++ l2) taken S :: post
        sh := modSh s.sh (!cold) (fun x => { x with count := x.count + ov }) } :=
  step_addCount (s := { s with tasks := pre ++ Task.colMove cold ov (CStep.addCount :: (l1 ++ l2)) taken S :: post })
    pre post cold ov (l1 ++ l2) taken S rfl (inv_todo_front pre post cold ov l1 l2 _ taken S ht I)

/-- the old fixed order is one admissible order: taking the HEAD step of the list is an instance of the
    any-order steps (`l1 = []`) -/
theorem Step.swap_head {k : Nat} (s : St) (pre post : List Task) (cold : Bool) (ov c : Nat)
    (todo : List CStep) (taken : Cells) (S : List Obs)
    (ht : s.tasks = pre ++ Task.colMove cold ov (CStep.swap c :: todo) taken S :: post) :
    Step k s { s with
      tasks := pre ++ Task.colMove cold ov todo (setCell taken c ((s.sh cold).cell c)) S :: post
      sh := modSh s.sh cold (fun x => { x with cell := setCell x.cell c 0 }) } :=
  Step.swap s pre post cold ov c [] todo taken S ht

/-- … for `addHot c` at the head, provided `swap c` is not behind it (in `prog k` it stands before it) -/
theorem Step.addHot_head {k : Nat} (s : St) (pre post : List Task) (cold : Bool) (ov c : Nat)
    (todo : List CStep) (taken : Cells) (S : List Obs)
    (ht : s.tasks = pre ++ Task.colMove cold ov (CStep.addHot c :: todo) taken S :: post)
    (hs : CStep.swap c ∉ todo) :
    Step k s { s with
      tasks := pre ++ Task.colMove cold ov todo taken S :: post
      sh := modSh s.sh (!cold) (fun x => { x with cell := setCell x.cell c (x.cell c + taken c) }) } :=
  Step.addHot s pre post cold ov c [] todo taken S ht hs

/-- … and for `addCount` at the head -/
theorem Step.addCount_head {k : Nat} (s : St) (pre post : List Task) (cold : Bool) (ov : Nat)
    (todo : List CStep) (taken : Cells) (S : List Obs)
    (ht : s.tasks = pre ++ Task.colMove cold ov (CStep.addCount :: todo) taken S :: post) :
    Step k s { s with
      tasks := pre ++ Task.colMove cold ov todo taken S :: post
      sh := modSh s.sh (!cold) (fun x => { x with count := x.count + ov }) } :=
  Step.addCount s pre post cold ov [] todo taken S ht

theorem inv_step {k : Nat} {s s' : St} (I : Inv k s) (h : Step k s s') : Inv k s' := by
  cases h with
  | spawnObs pre post o hw hu ht => exact step_spawnObs pre post o hw hu ht I
  | spawnCol pre post ht => exact step_spawnCol pre post ht I
  | release pre post ht => exact step_release pre post ht I
  | claim pre post o ht => exact step_claim pre post o ht I
  | apply pre post o b c a l1 l2 ht => exact step_apply pre post o b c a l1 l2 ht I
  | publish pre post o b ht => exact step_publish pre post o b ht I
  | acquire pre post ht hl => exact step_acquire pre post ht hl I
  | flip pre post ht => exact step_flip pre post ht I
  | spinOk pre post cold ov S ht hc => exact step_spinOk pre post cold ov S ht hc I
  | swap pre post cold ov c l1 l2 taken S ht => exact step_swap_any pre post cold ov c l1 l2 taken S ht I
  | addHot pre post cold ov c l1 l2 taken S ht hs => exact step_addHot_any pre post cold ov c l1 l2 taken S ht hs I
  | addCount pre post cold ov l1 l2 taken S ht => exact step_addCount_any pre post cold ov l1 l2 taken S ht I
  | unlock pre post cold ov taken S ht => exact step_unlock pre post cold ov taken S ht I

theorem inv_reach {k : Nat} {s : St} (h : Reach k s) : Inv k s := by
  induction h with
  | init => exact inv_init k
  | step _ hs ih => exact inv_step ih hs

/-- in every reachable state the list of steps a collector still has to take is well-formed: no step occurs
    twice (so no cold cell is swapped twice, no drained value added twice), and every cell that is still to be
    swapped out is still to be added back -/
theorem reach_todoWf {k : Nat} {s : St} (h : Reach k s) {cold : Bool} {ov : Nat} {todo : List CStep}
    {taken : Cells} {S : List Obs} (ht : Task.colMove cold ov todo taken S ∈ s.tasks) : TodoWf todo := by
  have := (inv_reach h).phase _ ht
  simp only [PhaseInv, MoveInv] at this
  exact this.2.2.2.1

/-- C02 core: every snapshot ever returned equals the statistics of the list of
observations claimed before that collector's flip (the ghost `S` recorded at the flip). -/
theorem snapshot_is_prefix {k : Nat} {s : St} (h : Reach k s) :
    ∀ p ∈ s.snaps, p.1.count = totW p.2 ∧ ∀ c, p.1.cell c = tot p.2 c :=
  (inv_reach h).snapsOk

/-- C03 core: whenever no collector is between flip and unlock, the hot shard accounts for
every claimed observation and the cold shard is empty. -/
theorem quiescent_total {k : Nat} {s : St} (h : Reach k s) (hl : s.lock = false) :
    s.n = totW s.claimed ∧
    (pendW s.hot s.tasks = 0 → (s.sh s.hot).count = totW s.claimed ∧
      ∀ c, (s.sh s.hot).cell c = tot s.claimed c) := by
  have N := (inv_reach h).normal hl
  obtain ⟨_, ⟨e1, e2⟩, hn, c1, c2⟩ := N
  refine ⟨by omega, fun hp => ?_⟩
  have hz := pend_zero_of_pendW_zero (inv_reach h).twf hp
  exact ⟨by omega, fun c => by have := e2 c; have := hz c; have := c2 c; omega⟩

end Hp
