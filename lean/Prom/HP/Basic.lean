/-
Hot/cold histogram protocol (C02/C03): relational step model with a list of in-flight tasks
("most general client": tasks are spawned at any time, anywhere in the list), ghost assignment lists.
A task that holds the collect lock without having flipped (`colLocked`) may also `release` it again:
that is `get_sample_sum`, which reads the hot shard's sum under the lock.
A collector past its spin (`colMove cold ov todo taken S`) takes the steps of `todo` in ANY order such that
`addHot c` comes after `swap c` and `unlock` comes last; an observer applies its cell updates in any order.
-/
namespace Hp


abbrev Cells := Nat → Int

def setCell (f : Cells) (c : Nat) (v : Int) : Cells := fun x => if x = c then v else f x

@[simp] theorem setCell_same (f : Cells) (c v) : setCell f c v c = v := by simp [setCell]
theorem setCell_other (f : Cells) {c x : Nat} (v) (h : x ≠ c) : setCell f c v x = f x := by
  simp [setCell, h]

structure Obs where
  w : Nat
  upd : List (Nat × Int)

/-- contribution of an update list to cell `c` -/
def contribL (l : List (Nat × Int)) (c : Nat) : Int :=
  (l.map (fun p => if p.1 = c then p.2 else 0)).sum

@[simp] theorem contribL_nil (c) : contribL [] c = 0 := rfl
@[simp] theorem contribL_cons (p l c) :
    contribL (p :: l) c = (if p.1 = c then p.2 else 0) + contribL l c := by
  simp [contribL]
/-- the contribution of a concatenation is the sum of the contributions -/
theorem contribL_app (l1 l2 c) : contribL (l1 ++ l2) c = contribL l1 c + contribL l2 c := by
  simp [contribL]
/-- the contribution of a list does not depend on where one entry stands -/
theorem contribL_middle (l1 l2 : List (Nat × Int)) (p : Nat × Int) (c : Nat) :
    contribL (l1 ++ p :: l2) c = contribL (p :: (l1 ++ l2)) c := by
  simp only [contribL_app, contribL_cons]; omega

def totW (D : List Obs) : Nat := (D.map (·.w)).sum
def tot (D : List Obs) (c : Nat) : Int := (D.map (fun o => contribL o.upd c)).sum

@[simp] theorem totW_nil : totW [] = 0 := rfl
@[simp] theorem tot_nil (c) : tot [] c = 0 := rfl
@[simp] theorem totW_append (a b) : totW (a ++ b) = totW a + totW b := by simp [totW]
@[simp] theorem tot_append (a b c) : tot (a ++ b) c = tot a c + tot b c := by simp [tot]
@[simp] theorem totW_single (o) : totW [o] = o.w := by simp [totW]
@[simp] theorem tot_single (o c) : tot [o] c = contribL o.upd c := by simp [tot]

structure Shard where
  count : Nat
  cell : Cells

inductive CStep
  | swap (c : Nat) | addHot (c : Nat) | addCount | unlock
  deriving DecidableEq

inductive Task
  | obsStart (o : Obs)
  | obsRun (o : Obs) (s : Bool) (rest : List (Nat × Int))
  | colWant
  | colLocked
  | colSpin (cold : Bool) (overall : Nat) (S : List Obs)
  | colMove (cold : Bool) (overall : Nat) (todo : List CStep) (taken : Cells) (S : List Obs)

structure Snap where
  count : Nat
  cell : Cells

structure St where
  hot : Bool
  n : Nat
  sh : Bool → Shard
  lock : Bool
  tasks : List Task
  claimed : List Obs
  asg : Bool → List Obs
  snaps : List (Snap × List Obs)

def init : St :=
  { hot := false, n := 0, sh := fun _ => ⟨0, fun _ => 0⟩, lock := false, tasks := [],
    claimed := [], asg := fun _ => [], snaps := [] }

/-- the steps a collector has to take after its spin, for `k` bucket cells (0..k-1) and the sum cell `k`:
    the order of this list is ONE admissible order (the original code's); `Step.swap / addHot / addCount`
    take the steps in any order in which `addHot c` comes after `swap c`, and `Step.unlock` comes last -/
def bucketSteps : Nat → List CStep
  | 0 => []
  | j + 1 => bucketSteps j ++ [CStep.swap j, CStep.addHot j]

def prog (k : Nat) : List CStep :=
  CStep.swap k :: (bucketSteps k ++ [CStep.addCount, CStep.addHot k, CStep.unlock])

def WfUpd (k : Nat) (l : List (Nat × Int)) : Prop := ∀ p ∈ l, p.1 ≤ k

def modSh (sh : Bool → Shard) (s : Bool) (f : Shard → Shard) : Bool → Shard :=
  fun b => if b = s then f (sh b) else sh b

def modAsg (a : Bool → List Obs) (s : Bool) (f : List Obs → List Obs) : Bool → List Obs :=
  fun b => if b = s then f (a b) else a b

inductive Step (k : Nat) : St → St → Prop
  | spawnObs (s : St) (pre post : List Task) (o : Obs) (hw : 1 ≤ o.w) (hu : WfUpd k o.upd)
      (ht : s.tasks = pre ++ post) :
      Step k s { s with tasks := pre ++ Task.obsStart o :: post }
  | spawnCol (s : St) (pre post : List Task) (ht : s.tasks = pre ++ post) :
      Step k s { s with tasks := pre ++ Task.colWant :: post }
  | claim (s : St) (pre post : List Task) (o : Obs)
      (ht : s.tasks = pre ++ Task.obsStart o :: post) :
      Step k s { s with
        tasks := pre ++ Task.obsRun o s.hot o.upd :: post
        n := s.n + o.w
        claimed := s.claimed ++ [o]
        asg := modAsg s.asg s.hot (· ++ [o]) }
  /- the cell updates of one observation may be applied in ANY order: the task applies any one
     entry `(c, a)` of the list it still has to apply (`l1 ++ (c, a) :: l2` becomes `l1 ++ l2`) -/
  | apply (s : St) (pre post : List Task) (o : Obs) (b : Bool) (c : Nat) (a : Int)
      (l1 l2 : List (Nat × Int))
      (ht : s.tasks = pre ++ Task.obsRun o b (l1 ++ (c, a) :: l2) :: post) :
      Step k s { s with
        tasks := pre ++ Task.obsRun o b (l1 ++ l2) :: post
        sh := modSh s.sh b (fun x => { x with cell := setCell x.cell c (x.cell c + a) }) }
  | publish (s : St) (pre post : List Task) (o : Obs) (b : Bool)
      (ht : s.tasks = pre ++ Task.obsRun o b [] :: post) :
      Step k s { s with
        tasks := pre ++ post
        sh := modSh s.sh b (fun x => { x with count := x.count + o.w }) }
  | acquire (s : St) (pre post : List Task)
      (ht : s.tasks = pre ++ Task.colWant :: post) (hl : s.lock = false) :
      Step k s { s with tasks := pre ++ Task.colLocked :: post, lock := true }
  | release (s : St) (pre post : List Task)
      (ht : s.tasks = pre ++ Task.colLocked :: post) :
      Step k s { s with tasks := pre ++ post, lock := false }
  | flip (s : St) (pre post : List Task)
      (ht : s.tasks = pre ++ Task.colLocked :: post) :
      Step k s { s with
        tasks := pre ++ Task.colSpin s.hot s.n s.claimed :: post
        hot := !s.hot }
  | spinOk (s : St) (pre post : List Task) (cold : Bool) (ov : Nat) (S : List Obs)
      (ht : s.tasks = pre ++ Task.colSpin cold ov S :: post)
      (hc : (s.sh cold).count = ov) :
      Step k s { s with
        tasks := pre ++ Task.colMove cold ov (prog k) (fun _ => 0) S :: post
        sh := modSh s.sh cold (fun x => { x with count := 0 }) }
  /- the collector's drain: the steps of `todo` may be taken in ANY order (the task takes any one
     element of the list: `l1 ++ step :: l2` becomes `l1 ++ l2`), subject to: `addHot c` only once
     `swap c` has been done (it is no longer in the list), `unlock` last (nothing else is left) -/
  | swap (s : St) (pre post : List Task) (cold : Bool) (ov : Nat) (c : Nat)
      (l1 l2 : List CStep) (taken : Cells) (S : List Obs)
      (ht : s.tasks = pre ++ Task.colMove cold ov (l1 ++ CStep.swap c :: l2) taken S :: post) :
      Step k s { s with
        tasks := pre ++ Task.colMove cold ov (l1 ++ l2) (setCell taken c ((s.sh cold).cell c)) S :: post
        sh := modSh s.sh cold (fun x => { x with cell := setCell x.cell c 0 }) }
  | addHot (s : St) (pre post : List Task) (cold : Bool) (ov : Nat) (c : Nat)
      (l1 l2 : List CStep) (taken : Cells) (S : List Obs)
      (ht : s.tasks = pre ++ Task.colMove cold ov (l1 ++ CStep.addHot c :: l2) taken S :: post)
      (hs : CStep.swap c ∉ l1 ++ l2) :
      Step k s { s with
        tasks := pre ++ Task.colMove cold ov (l1 ++ l2) taken S :: post
        sh := modSh s.sh (!cold) (fun x => { x with cell := setCell x.cell c (x.cell c + taken c) }) }
  | addCount (s : St) (pre post : List Task) (cold : Bool) (ov : Nat)
      (l1 l2 : List CStep) (taken : Cells) (S : List Obs)
      (ht : s.tasks = pre ++ Task.colMove cold ov (l1 ++ CStep.addCount :: l2) taken S :: post) :
      Step k s { s with
        tasks := pre ++ Task.colMove cold ov (l1 ++ l2) taken S :: post
        sh := modSh s.sh (!cold) (fun x => { x with count := x.count + ov }) }
  | unlock (s : St) (pre post : List Task) (cold : Bool) (ov : Nat)
      (taken : Cells) (S : List Obs)
      (ht : s.tasks = pre ++ Task.colMove cold ov [CStep.unlock] taken S :: post) :
      Step k s { s with
        tasks := pre ++ post
        lock := false
        snaps := s.snaps ++ [(⟨ov, taken⟩, S)]
        asg := fun b => if b = cold then [] else s.asg (!cold) ++ s.asg cold }

inductive Reach (k : Nat) : St → Prop
  | init : Reach k init
  | step {s s'} : Reach k s → Step k s s' → Reach k s'

end Hp
