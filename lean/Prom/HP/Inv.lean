import Prom.HP.Basic
namespace Hp

def tw (b : Bool) : Task → Nat
  | .obsRun o s _ => if s = b then o.w else 0
  | _ => 0

def tc (b : Bool) (c : Nat) : Task → Int
  | .obsRun _ s rest => if s = b then contribL rest c else 0
  | _ => 0

def active : Task → Nat
  | .colLocked => 1
  | .colSpin .. => 1
  | .colMove .. => 1
  | _ => 0

def pendW (b : Bool) (ts : List Task) : Nat := (ts.map (tw b)).sum
def pend (b : Bool) (c : Nat) (ts : List Task) : Int := (ts.map (tc b c)).sum
def nActive (ts : List Task) : Nat := (ts.map active).sum

@[simp] theorem pendW_nil (b) : pendW b [] = 0 := rfl
@[simp] theorem pend_nil (b c) : pend b c [] = 0 := rfl
@[simp] theorem nActive_nil : nActive [] = 0 := rfl
@[simp] theorem pendW_append (b x y) : pendW b (x ++ y) = pendW b x + pendW b y := by simp [pendW]
@[simp] theorem pend_append (b c x y) : pend b c (x ++ y) = pend b c x + pend b c y := by simp [pend]
@[simp] theorem nActive_append (x y) : nActive (x ++ y) = nActive x + nActive y := by simp [nActive]
@[simp] theorem pendW_cons (b t x) : pendW b (t :: x) = tw b t + pendW b x := by simp [pendW]
@[simp] theorem pend_cons (b c t x) : pend b c (t :: x) = tc b c t + pend b c x := by simp [pend]
@[simp] theorem nActive_cons (t x) : nActive (t :: x) = active t + nActive x := by simp [nActive]

def TaskWf (k : Nat) : Task → Prop
  | .obsStart o => 1 ≤ o.w ∧ WfUpd k o.upd
  | .obsRun o _ rest => 1 ≤ o.w ∧ WfUpd k rest
  | _ => True

theorem contribL_zero_of_wf {k : Nat} {l : List (Nat × Int)} (h : WfUpd k l) {c : Nat}
    (hc : k < c) : contribL l c = 0 := by
  induction l with
  | nil => rfl
  | cons p l ih =>
    have hp : p.1 ≤ k := h p (by simp)
    have : p.1 ≠ c := by omega
    simp [this, ih (fun q hq => h q (by simp [hq]))]

/-- no weight pending on shard `b` means nothing pending at all -/
theorem pend_zero_of_pendW_zero {k : Nat} {b : Bool} {ts : List Task}
    (hwf : ∀ t ∈ ts, TaskWf k t) (h : pendW b ts = 0) (c : Nat) : pend b c ts = 0 := by
  induction ts with
  | nil => rfl
  | cons t ts ih =>
    simp only [pendW_cons] at h
    have h1 : tw b t = 0 := by omega
    have h2 : pendW b ts = 0 := by omega
    have iht := ih (fun t' ht' => hwf t' (by simp [ht'])) h2
    simp only [pend_cons, iht]
    have hw := hwf t (by simp)
    cases t <;> simp [tc, tw, TaskWf] at *
    next o s rest =>
      intro hs
      have := h1 hs
      omega

def EqN (s : St) (b : Bool) : Prop :=
  (s.sh b).count + pendW b s.tasks = totW (s.asg b) ∧
  ∀ c, (s.sh b).cell c + pend b c s.tasks = tot (s.asg b) c

def Quiet (s : St) (b : Bool) : Prop :=
  s.asg b = [] ∧ pendW b s.tasks = 0 ∧ (s.sh b).count = 0 ∧ ∀ c, (s.sh b).cell c = 0

def Normal (s : St) : Prop :=
  Quiet s (!s.hot) ∧ EqN s s.hot ∧ s.n = totW (s.asg s.hot) ∧
  totW s.claimed = totW (s.asg s.hot) ∧ ∀ c, tot s.claimed c = tot (s.asg s.hot) c

/-- facts shared by the spin and move phases -/
def Frozen (s : St) (cold : Bool) (ov : Nat) (S : List Obs) : Prop :=
  s.hot = !cold ∧ ov = totW (s.asg cold) ∧
  s.n = totW (s.asg cold) + totW (s.asg (!cold)) ∧
  totW S = totW (s.asg cold) ∧ (∀ c, tot S c = tot (s.asg cold) c) ∧
  totW s.claimed = totW (s.asg cold) + totW (s.asg (!cold)) ∧
  ∀ c, tot s.claimed c = tot (s.asg cold) c + tot (s.asg (!cold)) c

def SpinInv (s : St) (cold : Bool) (ov : Nat) (S : List Obs) : Prop :=
  Frozen s cold ov S ∧ EqN s cold ∧ EqN s (!cold)

/-- well-formedness of what a collector still has to do, independent of the ORDER of the list: no step
    occurs twice, and a cell that still has to be swapped out still has to be added back -/
def TodoWf (todo : List CStep) : Prop :=
  todo.Nodup ∧ ∀ c, CStep.swap c ∈ todo → CStep.addHot c ∈ todo

/-- membership in a list from which one element was taken out -/
theorem mem_remove_of_ne {α} {l1 l2 : List α} {x y : α} (h : y ≠ x) :
    y ∈ l1 ++ x :: l2 ↔ y ∈ l1 ++ l2 := by
  simp only [List.mem_append, List.mem_cons]
  constructor
  · rintro (h1 | h1 | h1)
    · exact .inl h1
    · exact absurd h1 h
    · exact .inr h1
  · rintro (h1 | h1)
    · exact .inl h1
    · exact .inr (.inr h1)

/-- an element taken out of a duplicate-free list is not in what remains -/
theorem nodup_remove {α} {l1 l2 : List α} {x : α} (h : (l1 ++ x :: l2).Nodup) :
    (l1 ++ l2).Nodup ∧ x ∉ l1 ++ l2 := by
  have hp : (l1 ++ x :: l2).Perm (x :: (l1 ++ l2)) := List.perm_middle
  have h' := hp.nodup_iff.mp h
  rw [List.nodup_cons] at h'
  exact ⟨h'.2, h'.1⟩

/-- `TodoWf` does not depend on the order: it is kept when the list is replaced by one with the same
    elements that is duplicate-free -/
theorem TodoWf.of_mem_iff {l l' : List CStep} (h : TodoWf l) (hn : l'.Nodup) (hm : ∀ x, x ∈ l' ↔ x ∈ l) :
    TodoWf l' :=
  ⟨hn, fun c hc => (hm _).2 (h.2 c ((hm _).1 hc))⟩

/-- taking a `swap` out of a well-formed list -/
theorem TodoWf.remove_swap {l1 l2 : List CStep} {c : Nat} (h : TodoWf (l1 ++ CStep.swap c :: l2)) :
    CStep.addHot c ∈ l1 ++ l2 ∧ CStep.swap c ∉ l1 ++ l2 ∧ TodoWf (l1 ++ l2) := by
  obtain ⟨hn, hnot⟩ := nodup_remove h.1
  have ha := h.2 c (by simp)
  refine ⟨(mem_remove_of_ne (by simp)).1 ha, hnot, hn, fun c' hc' => ?_⟩
  have := h.2 c' (by
    simp only [List.mem_append, List.mem_cons] at hc' ⊢
    rcases hc' with h1 | h1
    · exact .inl h1
    · exact .inr (.inr h1))
  exact (mem_remove_of_ne (by simp)).1 this

/-- taking an `addHot` whose `swap` has been done out of a well-formed list -/
theorem TodoWf.remove_addHot {l1 l2 : List CStep} {c : Nat} (h : TodoWf (l1 ++ CStep.addHot c :: l2))
    (hs : CStep.swap c ∉ l1 ++ l2) :
    CStep.addHot c ∉ l1 ++ l2 ∧ TodoWf (l1 ++ l2) := by
  obtain ⟨hn, hnot⟩ := nodup_remove h.1
  refine ⟨hnot, hn, fun c' hc' => ?_⟩
  have hne : c' ≠ c := by rintro rfl; exact hs hc'
  have := h.2 c' (by
    simp only [List.mem_append, List.mem_cons] at hc' ⊢
    rcases hc' with h1 | h1
    · exact .inl h1
    · exact .inr (.inr h1))
  exact (mem_remove_of_ne (by simp [hne])).1 this

/-- taking the `addCount` out of a well-formed list -/
theorem TodoWf.remove_addCount {l1 l2 : List CStep} (h : TodoWf (l1 ++ CStep.addCount :: l2)) :
    CStep.addCount ∉ l1 ++ l2 ∧ TodoWf (l1 ++ l2) := by
  obtain ⟨hn, hnot⟩ := nodup_remove h.1
  refine ⟨hnot, hn, fun c' hc' => ?_⟩
  have := h.2 c' (by
    simp only [List.mem_append, List.mem_cons] at hc' ⊢
    rcases hc' with h1 | h1
    · exact .inl h1
    · exact .inr (.inr h1))
  exact (mem_remove_of_ne (by simp)).1 this

def MoveInv (k : Nat) (s : St) (cold : Bool) (ov : Nat) (todo : List CStep) (taken : Cells)
    (S : List Obs) : Prop :=
  Frozen s cold ov S ∧ pendW cold s.tasks = 0 ∧ (s.sh cold).count = 0 ∧ TodoWf todo ∧
  (∀ c, k < c → taken c = 0) ∧
  (∀ c, CStep.swap c ∈ todo → (s.sh cold).cell c = tot (s.asg cold) c) ∧
  (∀ c, CStep.swap c ∉ todo → (s.sh cold).cell c = 0 ∧ taken c = tot (s.asg cold) c) ∧
  (∀ c, (s.sh (!cold)).cell c + pend (!cold) c s.tasks =
      tot (s.asg (!cold)) c +
        (if CStep.swap c ∉ todo ∧ CStep.addHot c ∉ todo then tot (s.asg cold) c else 0)) ∧
  ((s.sh (!cold)).count + pendW (!cold) s.tasks =
      totW (s.asg (!cold)) + (if CStep.addCount ∉ todo then ov else 0))

def PhaseInv (k : Nat) (s : St) : Task → Prop
  | .colLocked => Normal s
  | .colSpin cold ov S => SpinInv s cold ov S
  | .colMove cold ov todo taken S => MoveInv k s cold ov todo taken S
  | _ => True

structure Inv (k : Nat) (s : St) : Prop where
  twf : ∀ t ∈ s.tasks, TaskWf k t
  awf : ∀ b, ∀ o ∈ s.asg b, WfUpd k o.upd
  zero : ∀ b c, k < c → (s.sh b).cell c = 0
  act : nActive s.tasks = if s.lock then 1 else 0
  normal : s.lock = false → Normal s
  phase : ∀ t ∈ s.tasks, PhaseInv k s t
  snapsOk : ∀ p ∈ s.snaps, p.1.count = totW p.2 ∧ ∀ c, p.1.cell c = tot p.2 c

theorem inv_init (k : Nat) : Inv k init := by
  refine ⟨?_, ?_, ?_, ?_, ?_, ?_, ?_⟩ <;> simp [init, Normal, Quiet, EqN]

theorem tot_zero_of_wf {k : Nat} {D : List Obs} (h : ∀ o ∈ D, WfUpd k o.upd) {c : Nat} (hc : k < c) :
    tot D c = 0 := by
  induction D with
  | nil => rfl
  | cons o D ih =>
    have h1 := contribL_zero_of_wf (h o (by simp)) hc
    have h2 := ih (fun o' ho' => h o' (by simp [ho']))
    simp [tot] at h2 ⊢
    omega

theorem active_zero_phase {k : Nat} (s : St) {t : Task} (h : active t = 0) : PhaseInv k s t := by
  cases t <;> simp [active] at h <;> trivial

theorem nActive_zero {ts : List Task} (h : nActive ts = 0) : ∀ t ∈ ts, active t = 0 := by
  induction ts with
  | nil => intro t ht; cases ht
  | cons a ts ih =>
    simp only [nActive_cons] at h
    intro t ht
    simp only [List.mem_cons] at ht
    rcases ht with rfl | ht
    · omega
    · exact ih (by omega) t ht

-- membership facts about the collector program
theorem mem_bucketSteps_swap {j c : Nat} : CStep.swap c ∈ bucketSteps j ↔ c < j := by
  induction j with
  | zero => simp [bucketSteps]
  | succ j ih => simp [bucketSteps, ih]; omega

theorem mem_bucketSteps_addHot {j c : Nat} : CStep.addHot c ∈ bucketSteps j ↔ c < j := by
  induction j with
  | zero => simp [bucketSteps]
  | succ j ih => simp [bucketSteps, ih]; omega

theorem not_mem_bucketSteps_addCount {j : Nat} : CStep.addCount ∉ bucketSteps j := by
  induction j with
  | zero => simp [bucketSteps]
  | succ j ih => simp [bucketSteps, ih]

theorem not_mem_bucketSteps_unlock {j : Nat} : CStep.unlock ∉ bucketSteps j := by
  induction j with
  | zero => simp [bucketSteps]
  | succ j ih => simp [bucketSteps, ih]

theorem swap_mem_prog {k c : Nat} : CStep.swap c ∈ prog k ↔ c ≤ k := by
  simp [prog, mem_bucketSteps_swap]; omega

theorem addHot_mem_prog {k c : Nat} : CStep.addHot c ∈ prog k ↔ c ≤ k := by
  simp [prog, mem_bucketSteps_addHot]; omega

theorem addCount_mem_prog {k : Nat} : CStep.addCount ∈ prog k := by simp [prog]

end Hp
