import Prom.HP.Inv
namespace Hp

/-- PhaseInv only looks at the "view" of the state. -/
theorem phase_congr {k : Nat} (s : St) (ts' : List Task) (l : Bool)
    (hw : ∀ b, pendW b ts' = pendW b s.tasks)
    (hc : ∀ b c, pend b c ts' = pend b c s.tasks) :
    ∀ t, PhaseInv k s t → PhaseInv k { s with tasks := ts', lock := l } t := by
  intro t h
  cases t <;> simp only [PhaseInv, Normal, Quiet, EqN, SpinInv, MoveInv, Frozen, hw, hc] at * <;>
    exact h

theorem normal_congr (s : St) (ts' : List Task) (l : Bool)
    (hw : ∀ b, pendW b ts' = pendW b s.tasks)
    (hc : ∀ b c, pend b c ts' = pend b c s.tasks) :
    Normal s → Normal { s with tasks := ts', lock := l } := by
  intro h
  simp only [Normal, Quiet, EqN, hw, hc] at *
  exact h

theorem step_spawnObs {k : Nat} {s : St} (pre post : List Task) (o : Obs) (hw : 1 ≤ o.w) (hu : WfUpd k o.upd)
    (ht : s.tasks = pre ++ post)
    (I : Inv k s) : Inv k { s with tasks := pre ++ Task.obsStart o :: post } := by
  have hW : ∀ b, pendW b (pre ++ Task.obsStart o :: post) = pendW b s.tasks := by
    intro b; simp [ht, tw]
  have hC : ∀ b c, pend b c (pre ++ Task.obsStart o :: post) = pend b c s.tasks := by
    intro b c; simp [ht, tc]
  refine ⟨?_, I.awf, I.zero, ?_, ?_, ?_, I.snapsOk⟩
  · intro t h
    simp only [List.mem_append, List.mem_cons] at h
    rcases h with h | rfl | h
    · exact I.twf t (by simp [ht, h])
    · exact ⟨hw, hu⟩
    · exact I.twf t (by simp [ht, h])
  · have := I.act; simp [ht, active] at this ⊢; exact this
  · intro hl
    exact normal_congr s _ s.lock hW hC (I.normal hl)
  · intro t h
    simp only [List.mem_append, List.mem_cons] at h
    rcases h with h | rfl | h
    · exact phase_congr s _ s.lock hW hC t (I.phase t (by simp [ht, h]))
    · trivial
    · exact phase_congr s _ s.lock hW hC t (I.phase t (by simp [ht, h]))

theorem step_spawnCol {k : Nat} {s : St} (pre post : List Task) (ht : s.tasks = pre ++ post)
    (I : Inv k s) : Inv k { s with tasks := pre ++ Task.colWant :: post } := by
  have hW : ∀ b, pendW b (pre ++ Task.colWant :: post) = pendW b s.tasks := by
    intro b; simp [ht, tw]
  have hC : ∀ b c, pend b c (pre ++ Task.colWant :: post) = pend b c s.tasks := by
    intro b c; simp [ht, tc]
  refine ⟨?_, I.awf, I.zero, ?_, ?_, ?_, I.snapsOk⟩
  · intro t h
    simp only [List.mem_append, List.mem_cons] at h
    rcases h with h | rfl | h
    · exact I.twf t (by simp [ht, h])
    · trivial
    · exact I.twf t (by simp [ht, h])
  · have := I.act; simp [ht, active] at this ⊢; exact this
  · intro hl
    exact normal_congr s _ s.lock hW hC (I.normal hl)
  · intro t h
    simp only [List.mem_append, List.mem_cons] at h
    rcases h with h | rfl | h
    · exact phase_congr s _ s.lock hW hC t (I.phase t (by simp [ht, h]))
    · trivial
    · exact phase_congr s _ s.lock hW hC t (I.phase t (by simp [ht, h]))

/-- `get_sample_sum`: a task that took the lock but did not flip gives it back -/
theorem step_release {k : Nat} {s : St} (pre post : List Task)
    (ht : s.tasks = pre ++ Task.colLocked :: post)
    (I : Inv k s) : Inv k { s with tasks := pre ++ post, lock := false } := by
  have hW : ∀ b, pendW b (pre ++ post) = pendW b s.tasks := by
    intro b; simp [ht, tw]
  have hC : ∀ b c, pend b c (pre ++ post) = pend b c s.tasks := by
    intro b c; simp [ht, tc]
  have hN : Normal s := I.phase Task.colLocked (by simp [ht])
  have hact := I.act
  simp only [ht, nActive_append, nActive_cons, active] at hact
  have hz : nActive pre + nActive post = 0 := by split at hact <;> omega
  refine ⟨?_, I.awf, I.zero, ?_, ?_, ?_, I.snapsOk⟩
  · intro t h
    simp only [List.mem_append] at h
    rcases h with h | h
    · exact I.twf t (by simp [ht, h])
    · exact I.twf t (by simp [ht, h])
  · simp only [nActive_append]; simp; omega
  · intro _
    exact normal_congr s _ false hW hC hN
  · intro t h
    simp only [List.mem_append] at h
    rcases h with h | h
    · exact phase_congr s _ false hW hC t (I.phase t (by simp [ht, h]))
    · exact phase_congr s _ false hW hC t (I.phase t (by simp [ht, h]))

theorem step_acquire {k : Nat} {s : St} (pre post : List Task)
    (ht : s.tasks = pre ++ Task.colWant :: post) (hl : s.lock = false)
    (I : Inv k s) : Inv k { s with tasks := pre ++ Task.colLocked :: post, lock := true } := by
  have hW : ∀ b, pendW b (pre ++ Task.colLocked :: post) = pendW b s.tasks := by
    intro b; simp [ht, tw]
  have hC : ∀ b c, pend b c (pre ++ Task.colLocked :: post) = pend b c s.tasks := by
    intro b c; simp [ht, tc]
  have hact := I.act
  simp only [ht, hl, nActive_append, nActive_cons, active] at hact
  refine ⟨?_, I.awf, I.zero, ?_, ?_, ?_, I.snapsOk⟩
  · intro t h
    simp only [List.mem_append, List.mem_cons] at h
    rcases h with h | rfl | h
    · exact I.twf t (by simp [ht, h])
    · trivial
    · exact I.twf t (by simp [ht, h])
  · simp only [nActive_append, nActive_cons, active]; simp at hact ⊢; omega
  · intro h; simp at h
  · intro t h
    simp only [List.mem_append, List.mem_cons] at h
    rcases h with h | rfl | h
    · exact phase_congr s _ true hW hC t (I.phase t (by simp [ht, h]))
    · exact normal_congr s _ true hW hC (I.normal hl)
    · exact phase_congr s _ true hW hC t (I.phase t (by simp [ht, h]))

theorem claim_phase {k : Nat} (hot : Bool) (n : Nat) (sh : Bool → Shard) (lock : Bool)
    (pre post : List Task) (claimed : List Obs) (asg : Bool → List Obs)
    (snaps : List (Snap × List Obs)) (o : Obs) (t : Task)
    (h : PhaseInv k ⟨hot, n, sh, lock, pre ++ Task.obsStart o :: post, claimed, asg, snaps⟩ t) :
    PhaseInv k ⟨hot, n + o.w, sh, lock, pre ++ Task.obsRun o hot o.upd :: post,
      claimed ++ [o], modAsg asg hot (· ++ [o]), snaps⟩ t := by
  cases t <;> try trivial
  · -- colLocked
    simp only [PhaseInv, Normal, Quiet, EqN, modAsg] at h ⊢
    simp [tw, tc] at h ⊢
    obtain ⟨⟨q1, q2, q3, q4⟩, ⟨e1, e2⟩, hn, c1, c2⟩ := h
    refine ⟨⟨q1, q2, q3, q4⟩, ⟨by omega, fun c => by have := e2 c; omega⟩, by omega, by omega,
      fun c => by have := c2 c; omega⟩
  · -- colSpin
    rename_i cold ov S
    simp only [PhaseInv, SpinInv, Frozen, EqN, modAsg] at h ⊢
    obtain ⟨⟨hh, f1, f2, f3, f4, f5, f6⟩, ⟨a1, a2⟩, ⟨b1, b2⟩⟩ := h
    subst hh
    simp [tw, tc] at *
    refine ⟨⟨f1, by omega, f3, f4, by omega, fun c => by have := f6 c; omega⟩, ⟨a1, a2⟩,
      ⟨by omega, fun c => by have := b2 c; omega⟩⟩
  · -- colMove
    rename_i cold ov todo taken S
    simp only [PhaseInv, MoveInv, Frozen, modAsg] at h ⊢
    obtain ⟨⟨hh, f1, f2, f3, f4, f5, f6⟩, m1, m2, m3, m4, m5, m6, m7, m8⟩ := h
    subst hh
    simp [tw, tc] at *
    refine ⟨⟨f1, by omega, f3, f4, by omega, fun c => by have := f6 c; omega⟩, m1, m2, m3, m4, m5, m6,
      fun c => by have := m7 c; omega, by omega⟩

theorem step_claim {k : Nat} {s : St} (pre post : List Task) (o : Obs)
    (ht : s.tasks = pre ++ Task.obsStart o :: post)
    (I : Inv k s) : Inv k { s with
        tasks := pre ++ Task.obsRun o s.hot o.upd :: post
        n := s.n + o.w
        claimed := s.claimed ++ [o]
        asg := modAsg s.asg s.hot (· ++ [o]) } := by
  obtain ⟨hot, n, sh, lock, tasks, claimed, asg, snaps⟩ := s
  simp only at ht; subst ht
  have owf := I.twf (Task.obsStart o) (by simp)
  refine ⟨?_, ?_, I.zero, ?_, ?_, ?_, I.snapsOk⟩
  · intro t h
    simp only [List.mem_append, List.mem_cons] at h
    rcases h with h | rfl | h
    · exact I.twf t (by simp [h])
    · exact owf
    · exact I.twf t (by simp [h])
  · intro b o' h
    simp only [modAsg] at h
    split at h
    · simp only [List.mem_append, List.mem_singleton] at h
      rcases h with h | rfl
      · exact I.awf b o' h
      · exact owf.2
    · exact I.awf b o' h
  · have := I.act; simp [active] at this ⊢; exact this
  · intro hl
    have N := I.normal hl
    simp only [Normal, Quiet, EqN, modAsg] at N ⊢
    simp [tw, tc] at N ⊢
    obtain ⟨⟨q1, q2, q3, q4⟩, ⟨e1, e2⟩, hn, c1, c2⟩ := N
    refine ⟨⟨q1, q2, q3, q4⟩, ⟨by omega, fun c => by have := e2 c; omega⟩, by omega, by omega,
      fun c => by have := c2 c; omega⟩
  · intro t h
    simp only [List.mem_append, List.mem_cons] at h
    rcases h with h | rfl | h
    · exact claim_phase _ _ _ _ _ _ _ _ _ _ t (I.phase t (by simp [h]))
    · trivial
    · exact claim_phase _ _ _ _ _ _ _ _ _ _ t (I.phase t (by simp [h]))

theorem modSh_same (sh : Bool → Shard) (b : Bool) (f : Shard → Shard) : modSh sh b f b = f (sh b) := by
  simp [modSh]
theorem modSh_not (sh : Bool → Shard) (b : Bool) (f : Shard → Shard) : modSh sh b f (!b) = sh (!b) := by
  simp [modSh]
theorem modSh_not' (sh : Bool → Shard) (b : Bool) (f : Shard → Shard) : modSh sh (!b) f b = sh b := by
  simp [modSh]

theorem apply_phase {k : Nat} (hot : Bool) (n : Nat) (sh : Bool → Shard) (lock : Bool)
    (pre post : List Task) (claimed : List Obs) (asg : Bool → List Obs)
    (snaps : List (Snap × List Obs)) (o : Obs) (b : Bool) (c : Nat) (a : Int)
    (rest : List (Nat × Int)) (hw : 1 ≤ o.w) (t : Task)
    (h : PhaseInv k ⟨hot, n, sh, lock, pre ++ Task.obsRun o b ((c, a) :: rest) :: post, claimed, asg, snaps⟩ t) :
    PhaseInv k ⟨hot, n, modSh sh b (fun x => { x with cell := setCell x.cell c (x.cell c + a) }), lock,
      pre ++ Task.obsRun o b rest :: post, claimed, asg, snaps⟩ t := by
  cases t <;> try trivial
  · -- colLocked
    simp only [PhaseInv, Normal, Quiet, EqN] at h ⊢
    obtain ⟨⟨q1, q2, q3, q4⟩, ⟨e1, e2⟩, hn, c1, c2⟩ := h
    by_cases hb : b = hot
    · subst hb
      simp [tw, tc, modSh_same, modSh_not] at *
      refine ⟨⟨q1, q2, q3, q4⟩, ⟨by omega, fun c' => ?_⟩, hn, c1, c2⟩
      have := e2 c'
      by_cases hc : c' = c
      · subst hc; simp; omega
      · have hc' : ¬ c = c' := fun h => hc h.symm
        simp [setCell, hc, hc'] at *; omega
    · have hb' : b = !hot := by cases b <;> cases hot <;> simp_all
      subst hb'
      simp [tw] at q2
      omega
  · -- colSpin
    rename_i cold ov S
    simp only [PhaseInv, SpinInv, Frozen, EqN] at h ⊢
    obtain ⟨⟨hh, f1, f2, f3, f4, f5, f6⟩, ⟨a1, a2⟩, ⟨b1, b2⟩⟩ := h
    subst hh
    by_cases hb : b = cold
    · subst hb
      simp [tw, tc, modSh_same, modSh_not] at *
      refine ⟨⟨f1, f2, f3, f4, f5, f6⟩, ⟨by omega, fun c' => ?_⟩, ⟨b1, b2⟩⟩
      have := a2 c'
      by_cases hc : c' = c
      · subst hc; simp; omega
      · have hc' : ¬ c = c' := fun h => hc h.symm
        simp [setCell, hc, hc'] at *; omega
    · have hb' : b = !cold := by cases b <;> cases cold <;> simp_all
      subst hb'
      simp [tw, tc, modSh_same, modSh_not'] at *
      refine ⟨⟨f1, f2, f3, f4, f5, f6⟩, ⟨a1, a2⟩, ⟨by omega, fun c' => ?_⟩⟩
      have := b2 c'
      by_cases hc : c' = c
      · subst hc; simp; omega
      · have hc' : ¬ c = c' := fun h => hc h.symm
        simp [setCell, hc, hc'] at *; omega
  · -- colMove
    rename_i cold ov todo taken S
    simp only [PhaseInv, MoveInv, Frozen] at h ⊢
    obtain ⟨⟨hh, f1, f2, f3, f4, f5, f6⟩, m1, m2, m3, m4, m5, m6, m7, m8⟩ := h
    subst hh
    by_cases hb : b = cold
    · subst hb
      simp [tw] at m1
      omega
    · have hb' : b = !cold := by cases b <;> cases cold <;> simp_all
      subst hb'
      simp [tw, tc, modSh_same, modSh_not'] at *
      refine ⟨⟨f1, f2, f3, f4, f5, f6⟩, m1, m2, m3, m4, m5, m6, fun c' => ?_, by omega⟩
      have := m7 c'
      by_cases hc : c' = c
      · subst hc; simp; omega
      · have hc' : ¬ c = c' := fun h => hc h.symm
        simp [setCell, hc, hc'] at *; omega

end Hp
