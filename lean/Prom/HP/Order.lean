import Prom.HP.Main
/-
Order side of the hot/cold protocol (C02 "never contains a later observation without the earlier
ones", C03 "snapshots taken one after another describe growing sets").

`claimed` is the list of observations in the order of their claim steps (the modification order of
`shard_and_count`). It only grows, by appending. A collector records `claimed` at its flip; the
invariant below says that every cut ever recorded — returned already or still being carried by a
collector between flip and unlock — is a *prefix* of `claimed`, and that they are nested in the
order in which the collections return.
-/
namespace Hp

/-- the cut a task carries (collectors past their flip) -/
def cutOf : Task → Option (List Obs)
  | .colSpin _ _ S => some S
  | .colMove _ _ _ _ S => some S
  | _ => none

structure Ord (s : St) : Prop where
  snapsPre : ∀ p ∈ s.snaps, p.2 <+: s.claimed
  taskPre : ∀ t ∈ s.tasks, ∀ S, cutOf t = some S → S <+: s.claimed ∧ ∀ p ∈ s.snaps, p.2 <+: S
  chain : s.snaps.Pairwise (fun p q => p.2 <+: q.2)

theorem ord_init : Ord init := by
  refine ⟨?_, ?_, ?_⟩ <;> simp [init]

theorem cutOf_active {t : Task} {S} (h : cutOf t = some S) : active t = 1 := by
  cases t <;> simp [cutOf] at h <;> rfl

/-- with one active task at `pre ++ t :: post`, no other task carries a cut -/
theorem no_other_cut {pre post : List Task} {t : Task} (ha : active t = 1)
    (hact : nActive (pre ++ t :: post) ≤ 1) :
    ∀ t' ∈ pre ++ post, cutOf t' = none := by
  intro t' ht'
  simp only [nActive_append, nActive_cons] at hact
  have hp : nActive pre = 0 := by omega
  have hq : nActive post = 0 := by omega
  have h0 : active t' = 0 := by
    simp only [List.mem_append] at ht'
    rcases ht' with h | h
    · exact nActive_zero hp t' h
    · exact nActive_zero hq t' h
  cases hc : cutOf t' with
  | none => rfl
  | some S => have := cutOf_active hc; omega

/-- replacing one task by one that carries the same cut (or none where there was none) -/
theorem ord_replace {s : St} (pre post : List Task) (t t' : Task) (sh' : Bool → Shard) (l' : Bool)
    (ht : s.tasks = pre ++ t :: post) (hc : cutOf t' = cutOf t) (O : Ord s) :
    Ord { s with tasks := pre ++ t' :: post, sh := sh', lock := l' } := by
  refine ⟨O.snapsPre, ?_, O.chain⟩
  intro x hx S hS
  simp only [List.mem_append, List.mem_cons] at hx
  rcases hx with h | rfl | h
  · exact O.taskPre x (by simp [ht, h]) S hS
  · exact O.taskPre t (by simp [ht]) S (by rw [← hc]; exact hS)
  · exact O.taskPre x (by simp [ht, h]) S hS

theorem ord_step {k : Nat} {s s' : St} (I : Inv k s) (O : Ord s) (h : Step k s s') : Ord s' := by
  cases h with
  | spawnObs pre post o hw hu ht =>
    refine ⟨O.snapsPre, ?_, O.chain⟩
    intro x hx S hS
    simp only [List.mem_append, List.mem_cons] at hx
    rcases hx with h | rfl | h
    · exact O.taskPre x (by simp [ht, h]) S hS
    · simp [cutOf] at hS
    · exact O.taskPre x (by simp [ht, h]) S hS
  | spawnCol pre post ht =>
    refine ⟨O.snapsPre, ?_, O.chain⟩
    intro x hx S hS
    simp only [List.mem_append, List.mem_cons] at hx
    rcases hx with h | rfl | h
    · exact O.taskPre x (by simp [ht, h]) S hS
    · simp [cutOf] at hS
    · exact O.taskPre x (by simp [ht, h]) S hS
  | release pre post ht =>
    refine ⟨O.snapsPre, ?_, O.chain⟩
    intro x hx S hS
    simp only [List.mem_append] at hx
    rcases hx with h | h
    · exact O.taskPre x (by simp [ht, h]) S hS
    · exact O.taskPre x (by simp [ht, h]) S hS
  | claim pre post o ht =>
    refine ⟨?_, ?_, O.chain⟩
    · intro p hp; exact (O.snapsPre p hp).trans (List.prefix_append _ _)
    · intro x hx S hS
      simp only [List.mem_append, List.mem_cons] at hx
      have key : ∀ y ∈ s.tasks, cutOf y = some S → S <+: s.claimed ++ [o] ∧ ∀ p ∈ s.snaps, p.2 <+: S :=
        fun y hy hyS => ⟨((O.taskPre y hy S hyS).1).trans (List.prefix_append _ _), (O.taskPre y hy S hyS).2⟩
      rcases hx with h | rfl | h
      · exact key x (by simp [ht, h]) hS
      · simp [cutOf] at hS
      · exact key x (by simp [ht, h]) hS
  | apply pre post o b c a l1 l2 ht => exact ord_replace pre post _ _ _ _ ht rfl O
  | publish pre post o b ht =>
    refine ⟨O.snapsPre, ?_, O.chain⟩
    intro x hx S hS
    simp only [List.mem_append] at hx
    rcases hx with h | h
    · exact O.taskPre x (by simp [ht, h]) S hS
    · exact O.taskPre x (by simp [ht, h]) S hS
  | acquire pre post ht hl => exact ord_replace pre post _ _ _ _ ht rfl O
  | flip pre post ht =>
    refine ⟨O.snapsPre, ?_, O.chain⟩
    intro x hx S hS
    simp only [List.mem_append, List.mem_cons] at hx
    rcases hx with h | rfl | h
    · exact O.taskPre x (by simp [ht, h]) S hS
    · simp only [cutOf, Option.some.injEq] at hS; subst hS
      exact ⟨List.prefix_refl _, O.snapsPre⟩
    · exact O.taskPre x (by simp [ht, h]) S hS
  | spinOk pre post cold ov S ht hc => exact ord_replace pre post _ _ _ _ ht rfl O
  | swap pre post cold ov c l1 l2 taken S ht => exact ord_replace pre post _ _ _ _ ht rfl O
  | addHot pre post cold ov c l1 l2 taken S ht hs => exact ord_replace pre post _ _ _ _ ht rfl O
  | addCount pre post cold ov l1 l2 taken S ht => exact ord_replace pre post _ _ _ _ ht rfl O
  | unlock pre post cold ov taken S ht =>
    have hmine := O.taskPre (Task.colMove cold ov [CStep.unlock] taken S) (by simp [ht]) S rfl
    have hact : nActive (pre ++ Task.colMove cold ov [CStep.unlock] taken S :: post) ≤ 1 := by
      have := I.act; rw [ht] at this; split at this <;> omega
    have hno := no_other_cut (t := Task.colMove cold ov [CStep.unlock] taken S) rfl hact
    refine ⟨?_, ?_, ?_⟩
    · intro p hp
      simp only [List.mem_append, List.mem_singleton] at hp
      rcases hp with hp | rfl
      · exact O.snapsPre p hp
      · exact hmine.1
    · intro x hx S' hS'
      have := hno x hx
      rw [this] at hS'; cases hS'
    · rw [List.pairwise_append]
      refine ⟨O.chain, List.pairwise_singleton _ _, ?_⟩
      intro p hp q hq
      simp only [List.mem_singleton] at hq; subst hq
      exact hmine.2 p hp

theorem ord_reach {k : Nat} {s : St} (h : Reach k s) : Ord s := by
  induction h with
  | init => exact ord_init
  | step hr hs ih => exact ord_step (inv_reach hr) ih hs

/-- `claimed` only grows, by appending: the claim order is never revised -/
theorem claimed_mono {k : Nat} {s s' : St} (h : Step k s s') : s.claimed <+: s'.claimed := by
  cases h <;> first | exact List.prefix_refl _ | exact List.prefix_append _ _

end Hp
