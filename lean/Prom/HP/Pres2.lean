import Prom.HP.Pres
namespace Hp

/-- the bucket part of the collector's program consists of `swap c` / `addHot c` for `c < j` -/
theorem mem_bucketSteps {j : Nat} {x : CStep} (h : x ∈ bucketSteps j) :
    ∃ c, c < j ∧ (x = CStep.swap c ∨ x = CStep.addHot c) := by
  induction j with
  | zero => simp [bucketSteps] at h
  | succ j ih =>
    simp only [bucketSteps, List.mem_append, List.mem_cons, List.not_mem_nil, or_false] at h
    rcases h with h | rfl | rfl
    · obtain ⟨c, hc, hx⟩ := ih h
      exact ⟨c, by omega, hx⟩
    · exact ⟨j, by omega, .inl rfl⟩
    · exact ⟨j, by omega, .inr rfl⟩

theorem nodup_bucketSteps (j : Nat) : (bucketSteps j).Nodup := by
  induction j with
  | zero => simp [bucketSteps]
  | succ j ih =>
    simp only [bucketSteps]
    rw [List.nodup_append]
    refine ⟨ih, by simp, ?_⟩
    intro a ha b hb
    obtain ⟨c, hc, hx⟩ := mem_bucketSteps ha
    simp only [List.mem_cons, List.not_mem_nil, or_false] at hb
    rcases hx with rfl | rfl <;> rcases hb with rfl | rfl <;> simp <;> omega

theorem nodup_prog (k : Nat) : (prog k).Nodup := by
  simp only [prog]
  rw [List.nodup_cons]
  refine ⟨by simp [mem_bucketSteps_swap], ?_⟩
  rw [List.nodup_append]
  refine ⟨nodup_bucketSteps k, by simp, ?_⟩
  intro a ha b hb
  obtain ⟨c, hc, hx⟩ := mem_bucketSteps ha
  simp only [List.mem_cons, List.not_mem_nil, or_false] at hb
  rcases hx with rfl | rfl <;> rcases hb with rfl | rfl | rfl <;> simp <;> omega

/-- the steps a collector starts with are well-formed -/
theorem wf_prog (k : Nat) : TodoWf (prog k) :=
  ⟨nodup_prog k, fun _ hc => addHot_mem_prog.2 (swap_mem_prog.1 hc)⟩

/-- unique active collector: everything else is inactive -/
theorem others_inactive {s : St} {k : Nat} (I : Inv k s) {pre post : List Task} {t : Task}
    (ht : s.tasks = pre ++ t :: post) (ha : active t = 1) :
    (∀ t' ∈ pre, active t' = 0) ∧ (∀ t' ∈ post, active t' = 0) ∧ s.lock = true := by
  have h := I.act
  simp only [ht, nActive_append, nActive_cons, ha] at h
  have hl : s.lock = true := by
    cases hlk : s.lock
    · simp [hlk] at h
    · rfl
  simp only [hl, if_true] at h
  exact ⟨nActive_zero (by omega), nActive_zero (by omega), hl⟩

theorem step_spinOk {k : Nat} {s : St} (pre post : List Task) (cold : Bool) (ov : Nat) (S : List Obs)
    (ht : s.tasks = pre ++ Task.colSpin cold ov S :: post)
    (hc : (s.sh cold).count = ov)
    (I : Inv k s) : Inv k { s with
        tasks := pre ++ Task.colMove cold ov (prog k) (fun _ => 0) S :: post
        sh := modSh s.sh cold (fun x => { x with count := 0 }) } := by
  obtain ⟨hpre, hpost, hl⟩ := others_inactive I ht (by simp [active])
  have hspin := I.phase (Task.colSpin cold ov S) (by simp [ht])
  have htwf := I.twf
  have hawf := I.awf
  have hzero := I.zero
  have hact := I.act
  obtain ⟨hot, n, sh, lock, tasks, claimed, asg, snaps⟩ := s
  simp only at ht hl hc hspin htwf hawf hzero hact; subst ht
  simp only [PhaseInv, SpinInv, Frozen, EqN] at hspin
  obtain ⟨⟨hh, f1, f2, f3, f4, f5, f6⟩, ⟨a1, a2⟩, ⟨b1, b2⟩⟩ := hspin
  subst hh
  have hpw : pendW cold (pre ++ Task.colSpin cold ov S :: post) = 0 := by omega
  have hpz := pend_zero_of_pendW_zero htwf hpw
  refine ⟨?_, hawf, ?_, ?_, ?_, ?_, I.snapsOk⟩
  · intro t h
    simp only [List.mem_append, List.mem_cons] at h
    rcases h with h | rfl | h
    · exact htwf t (by simp [h])
    · trivial
    · exact htwf t (by simp [h])
  · intro b c hkc
    have := hzero b c hkc
    simp only [modSh]; split <;> simpa using this
  · simpa [active] using hact
  · intro h; simp [hl] at h
  · intro t h
    simp only [List.mem_append, List.mem_cons] at h
    rcases h with h | rfl | h
    · exact active_zero_phase _ (hpre t h)
    · simp only [PhaseInv, MoveInv, Frozen]
      have hzc := hzero cold
      have hwc := hawf cold
      clear hzero hawf htwf
      simp [tw, tc, modSh_same, modSh_not] at *
      refine ⟨⟨f1, f2, f3, f4, f5, f6⟩, hpw, wf_prog k, ?_, ?_, ?_, ?_⟩
      · intro c hc'
        have := a2 c; have := hpz c; omega
      · intro c hc'
        rw [swap_mem_prog] at hc'
        have hkc : k < c := by omega
        exact ⟨hzc c hkc, (tot_zero_of_wf hwc hkc).symm⟩
      · intro c
        have := b2 c
        by_cases hck : c ≤ k
        · simp [swap_mem_prog, hck]; omega
        · have hkc : k < c := by omega
          have hz := tot_zero_of_wf hwc hkc
          simp [swap_mem_prog, addHot_mem_prog, hck, hz]; omega
      · simp [addCount_mem_prog]; omega
    · exact active_zero_phase _ (hpost t h)

theorem step_swap {k : Nat} {s : St} (pre post : List Task) (cold : Bool) (ov : Nat) (c : Nat)
    (todo : List CStep) (taken : Cells) (S : List Obs)
    (ht : s.tasks = pre ++ Task.colMove cold ov (CStep.swap c :: todo) taken S :: post)
    (I : Inv k s) : Inv k { s with
        tasks := pre ++ Task.colMove cold ov todo (setCell taken c ((s.sh cold).cell c)) S :: post
        sh := modSh s.sh cold (fun x => { x with cell := setCell x.cell c 0 }) } := by
  obtain ⟨hpre, hpost, hl⟩ := others_inactive I ht (by simp [active])
  have hmove := I.phase _ (by simp [ht] : Task.colMove cold ov (CStep.swap c :: todo) taken S ∈ s.tasks)
  have htwf := I.twf
  have hawf := I.awf
  have hzero := I.zero
  have hact := I.act
  obtain ⟨hot, n, sh, lock, tasks, claimed, asg, snaps⟩ := s
  simp only at ht hl hmove htwf hawf hzero hact; subst ht
  simp only [PhaseInv, MoveInv, Frozen] at hmove
  obtain ⟨⟨hh, f1, f2, f3, f4, f5, f6⟩, m1, m2, m3, m4, m5, m6, m7, m8⟩ := hmove
  subst hh
  have m3' := TodoWf.remove_swap (l1 := []) m3
  simp only [List.nil_append] at m3'
  obtain ⟨w1, w2, w3⟩ := m3'
  clear m3
  refine ⟨?_, hawf, ?_, ?_, ?_, ?_, I.snapsOk⟩
  · intro t h
    simp only [List.mem_append, List.mem_cons] at h
    rcases h with h | rfl | h
    · exact htwf t (by simp [h])
    · trivial
    · exact htwf t (by simp [h])
  · intro b c' hkc
    have := hzero b c' hkc
    simp only [modSh]; split
    · simp only [setCell]; split <;> simp_all
    · exact this
  · simpa [active] using hact
  · intro h; simp [hl] at h
  · intro t h
    simp only [List.mem_append, List.mem_cons] at h
    rcases h with h | rfl | h
    · exact active_zero_phase _ (hpre t h)
    · simp only [PhaseInv, MoveInv, Frozen]
      have hzc := hzero cold
      clear hzero hawf htwf
      simp [tw, tc, modSh_same, modSh_not] at *
      refine ⟨⟨f1, f2, f3, f4, f5, f6⟩, m1, m2, w3, ?_, ?_, ?_, ?_, ?_⟩
      · intro c' hc'
        by_cases e : c' = c
        · subst e; simpa using hzc c' hc'
        · simpa [setCell, e] using m4 c' hc'
      · intro c' hc'
        have e : c' ≠ c := by intro e; subst e; exact w2 hc'
        simpa [setCell, e] using m5.2 c' hc'
      · intro c' hc'
        by_cases e : c' = c
        · subst e; simpa using m5.1
        · have := m6 c' e hc'
          simpa [setCell, e] using this
      · intro c'
        have := m7 c'
        by_cases e : c' = c
        · subst e; simp [w1, w2] at this ⊢; exact this
        · simp [e] at this; exact this
      · exact m8
    · exact active_zero_phase _ (hpost t h)

theorem step_unlock {k : Nat} {s : St} (pre post : List Task) (cold : Bool) (ov : Nat)
    (taken : Cells) (S : List Obs)
    (ht : s.tasks = pre ++ Task.colMove cold ov [CStep.unlock] taken S :: post)
    (I : Inv k s) : Inv k { s with
        tasks := pre ++ post
        lock := false
        snaps := s.snaps ++ [(⟨ov, taken⟩, S)]
        asg := fun b => if b = cold then [] else s.asg (!cold) ++ s.asg cold } := by
  obtain ⟨hpre, hpost, hl⟩ := others_inactive I ht (by simp [active])
  have hmove := I.phase _ (by simp [ht] : Task.colMove cold ov [CStep.unlock] taken S ∈ s.tasks)
  have htwf := I.twf
  have hawf := I.awf
  have hzero := I.zero
  have hact := I.act
  have hsn := I.snapsOk
  obtain ⟨hot, n, sh, lock, tasks, claimed, asg, snaps⟩ := s
  simp only at ht hl hmove htwf hawf hzero hact hsn; subst ht
  simp only [PhaseInv, MoveInv, Frozen] at hmove
  obtain ⟨⟨hh, f1, f2, f3, f4, f5, f6⟩, m1, m2, m3, m4, m5, m6, m7, m8⟩ := hmove
  subst hh
  clear m3
  have hN : Normal ⟨!cold, n, sh, false, pre ++ post, claimed,
      fun b => if b = cold then [] else asg (!cold) ++ asg cold, snaps ++ [(⟨ov, taken⟩, S)]⟩ := by
    simp only [Normal, Quiet, EqN]
    simp [tw, tc] at *
    refine ⟨⟨by omega, m2, fun c => (m6 c).1⟩, ⟨by omega, fun c => by have := m7 c; omega⟩,
      by omega, by omega, fun c => by have := f6 c; omega⟩
  refine ⟨?_, ?_, hzero, ?_, fun _ => hN, ?_, ?_⟩
  · intro t h
    simp only [List.mem_append] at h
    rcases h with h | h
    · exact htwf t (by simp [h])
    · exact htwf t (by simp [h])
  · intro b o h
    simp only at h
    split at h
    · cases h
    · simp only [List.mem_append] at h
      rcases h with h | h
      · exact hawf _ o h
      · exact hawf _ o h
  · simp [active, hl] at hact ⊢; omega
  · intro t h
    simp only [List.mem_append] at h
    rcases h with h | h
    · exact active_zero_phase _ (hpre t h)
    · exact active_zero_phase _ (hpost t h)
  · intro p h
    simp only [List.mem_append, List.mem_singleton] at h
    rcases h with h | rfl
    · exact hsn p h
    · simp at *
      exact ⟨by omega, fun c => by have := (m6 c).2; have := f4 c; omega⟩

theorem step_addHot {k : Nat} {s : St} (pre post : List Task) (cold : Bool) (ov : Nat) (c : Nat)
    (todo : List CStep) (taken : Cells) (S : List Obs)
    (ht : s.tasks = pre ++ Task.colMove cold ov (CStep.addHot c :: todo) taken S :: post)
    (hs : CStep.swap c ∉ todo)
    (I : Inv k s) : Inv k { s with
        tasks := pre ++ Task.colMove cold ov todo taken S :: post
        sh := modSh s.sh (!cold) (fun x => { x with cell := setCell x.cell c (x.cell c + taken c) }) } := by
  obtain ⟨hpre, hpost, hl⟩ := others_inactive I ht (by simp [active])
  have hmove := I.phase _ (by simp [ht] : Task.colMove cold ov (CStep.addHot c :: todo) taken S ∈ s.tasks)
  have htwf := I.twf
  have hawf := I.awf
  have hzero := I.zero
  have hact := I.act
  obtain ⟨hot, n, sh, lock, tasks, claimed, asg, snaps⟩ := s
  simp only at ht hl hmove htwf hawf hzero hact; subst ht
  simp only [PhaseInv, MoveInv, Frozen] at hmove
  obtain ⟨⟨hh, f1, f2, f3, f4, f5, f6⟩, m1, m2, m3, m4, m5, m6, m7, m8⟩ := hmove
  subst hh
  have m3' := TodoWf.remove_addHot (l1 := []) m3 hs
  simp only [List.nil_append] at m3'
  obtain ⟨w2, w3⟩ := m3'
  have w1 := hs
  clear m3
  refine ⟨?_, hawf, ?_, ?_, ?_, ?_, I.snapsOk⟩
  · intro t h
    simp only [List.mem_append, List.mem_cons] at h
    rcases h with h | rfl | h
    · exact htwf t (by simp [h])
    · trivial
    · exact htwf t (by simp [h])
  · intro b c' hkc
    have := hzero b c' hkc
    simp only [modSh]; split
    · simp only [setCell]; split
      · rename_i e1 e2; subst e2
        have := m4 c' hkc
        simp_all
      · exact this
    · exact this
  · simpa [active] using hact
  · intro h; simp [hl] at h
  · intro t h
    simp only [List.mem_append, List.mem_cons] at h
    rcases h with h | rfl | h
    · exact active_zero_phase _ (hpre t h)
    · simp only [PhaseInv, MoveInv, Frozen]
      clear hzero hawf htwf
      simp [tw, tc, modSh_same, modSh_not, modSh_not'] at *
      refine ⟨⟨f1, f2, f3, f4, f5, f6⟩, m1, m2, w3, m4, m5, m6, ?_, m8⟩
      intro c'
      have := m7 c'
      by_cases e : c' = c
      · subst e
        have t6 := (m6 c' w1).2
        simp [w1, w2] at this ⊢; omega
      · have e' : ¬ c = c' := fun h => e h.symm
        simp [setCell, e, e'] at this ⊢; exact this
    · exact active_zero_phase _ (hpost t h)

theorem step_addCount {k : Nat} {s : St} (pre post : List Task) (cold : Bool) (ov : Nat)
    (todo : List CStep) (taken : Cells) (S : List Obs)
    (ht : s.tasks = pre ++ Task.colMove cold ov (CStep.addCount :: todo) taken S :: post)
    (I : Inv k s) : Inv k { s with
        tasks := pre ++ Task.colMove cold ov todo taken S :: post
        sh := modSh s.sh (!cold) (fun x => { x with count := x.count + ov }) } := by
  obtain ⟨hpre, hpost, hl⟩ := others_inactive I ht (by simp [active])
  have hmove := I.phase _ (by simp [ht] : Task.colMove cold ov (CStep.addCount :: todo) taken S ∈ s.tasks)
  have htwf := I.twf
  have hawf := I.awf
  have hzero := I.zero
  have hact := I.act
  obtain ⟨hot, n, sh, lock, tasks, claimed, asg, snaps⟩ := s
  simp only at ht hl hmove htwf hawf hzero hact; subst ht
  simp only [PhaseInv, MoveInv, Frozen] at hmove
  obtain ⟨⟨hh, f1, f2, f3, f4, f5, f6⟩, m1, m2, m3, m4, m5, m6, m7, m8⟩ := hmove
  subst hh
  have m3' := TodoWf.remove_addCount (l1 := []) m3
  simp only [List.nil_append] at m3'
  obtain ⟨w1, w3⟩ := m3'
  clear m3
  refine ⟨?_, hawf, ?_, ?_, ?_, ?_, I.snapsOk⟩
  · intro t h
    simp only [List.mem_append, List.mem_cons] at h
    rcases h with h | rfl | h
    · exact htwf t (by simp [h])
    · trivial
    · exact htwf t (by simp [h])
  · intro b c' hkc
    have := hzero b c' hkc
    simp only [modSh]; split <;> simpa using this
  · simpa [active] using hact
  · intro h; simp [hl] at h
  · intro t h
    simp only [List.mem_append, List.mem_cons] at h
    rcases h with h | rfl | h
    · exact active_zero_phase _ (hpre t h)
    · simp only [PhaseInv, MoveInv, Frozen]
      clear hzero hawf htwf
      simp [tw, tc, modSh_same, modSh_not, modSh_not'] at *
      refine ⟨⟨f1, f2, f3, f4, f5, f6⟩, m1, m2, w3, m4, m5, m6, m7, ?_⟩
      simp [w1]; omega
    · exact active_zero_phase _ (hpost t h)

theorem step_flip {k : Nat} {s : St} (pre post : List Task)
    (ht : s.tasks = pre ++ Task.colLocked :: post)
    (I : Inv k s) : Inv k { s with
        tasks := pre ++ Task.colSpin s.hot s.n s.claimed :: post
        hot := !s.hot } := by
  obtain ⟨hpre, hpost, hl⟩ := others_inactive I ht (by simp [active])
  have hN := I.phase _ (by simp [ht] : Task.colLocked ∈ s.tasks)
  have htwf := I.twf
  have hact := I.act
  obtain ⟨hot, n, sh, lock, tasks, claimed, asg, snaps⟩ := s
  simp only at ht hl hN htwf hact; subst ht
  simp only [PhaseInv, Normal, Quiet, EqN] at hN
  obtain ⟨⟨q1, q2, q3, q4⟩, ⟨e1, e2⟩, hn, c1, c2⟩ := hN
  refine ⟨?_, I.awf, I.zero, ?_, ?_, ?_, I.snapsOk⟩
  · intro t h
    simp only [List.mem_append, List.mem_cons] at h
    rcases h with h | rfl | h
    · exact htwf t (by simp [h])
    · trivial
    · exact htwf t (by simp [h])
  · simpa [active] using hact
  · intro h; simp [hl] at h
  · intro t h
    simp only [List.mem_append, List.mem_cons] at h
    rcases h with h | rfl | h
    · exact active_zero_phase _ (hpre t h)
    · simp only [PhaseInv, SpinInv, Frozen, EqN]
      have hz := pend_zero_of_pendW_zero htwf q2
      clear htwf hact hpre hpost
      simp [tw, tc, q1] at *
      repeat' apply And.intro
      all_goals first
        | omega
        | (intro c; have := c2 c; have := e2 c; have := q4 c; have := hz c; omega)
    · exact active_zero_phase _ (hpost t h)

end Hp
