import Prom.Model.Fallible
import Prom.Lemmas.Desc
import Prom.Lemmas.Histogram
import Prom.Gen.Consts
/-
C17 — Fallible APIs report bad input as Err and do not panic.
For every partial operation on the fallible paths the failure branch is proved unreachable,
for all arguments.
-/
/- Helper lemmas and auxiliary definitions for Props/C17.lean (kept apart from the property theorems). -/
namespace Prom.C17
open Prom

theorem bucketLoopP_no_panic (bs : List UInt64) (lenM1 : Nat) (hl : lenM1 + 1 = bs.length) :
    ∀ (rest : List UInt64) (i : Nat), i + rest.length = bs.length →
      (bucketLoopP bs lenM1 rest i).isPanic = false := by
  intro rest
  induction rest with
  | nil => intro i _; rfl
  | cons ub r ih =>
    intro i hi
    unfold bucketLoopP
    split
    · rfl
    · split
      · rename_i hlt
        have hidx : i + 1 < bs.length := by omega
        have : bs[i + 1]? = some bs[i + 1] := List.getElem?_eq_getElem hidx
        simp only [idxP, this, Outcome.unwrap, Outcome.bind]
        split
        · rfl
        · exact ih (i + 1) (by simp at hi; omega)
      · exact ih (i + 1) (by simp at hi; omega)

theorem pairLoopP_no_panic (vals : List Str) : ∀ (names : List Str) (i : Nat),
    i + names.length ≤ vals.length → (pairLoopP vals names i).isPanic = false := by
  intro names
  induction names with
  | nil => intro i _; rfl
  | cons n r ih =>
    intro i hi
    unfold pairLoopP
    have hidx : i < vals.length := by simp at hi; omega
    have : vals[i]? = some vals[i] := List.getElem?_eq_getElem hidx
    simp only [idxP, this, Outcome.unwrap, Outcome.bind]
    have := ih (i + 1) (by simp at hi; omega)
    cases hp : pairLoopP vals r (i + 1) with
    | panic => rw [hp] at this; simp [Outcome.isPanic] at this
    | err => rfl
    | ok t => rfl

theorem lookupAllP_no_panic (m : List (Str × Str)) : ∀ (ks : List Str), (∀ k ∈ ks, k ∈ m.map (·.1)) →
    (lookupAllP m ks).isPanic = false := by
  intro ks
  induction ks with
  | nil => intro _; rfl
  | cons k r ih =>
    intro h
    unfold lookupAllP
    have hk : k ∈ m.map (·.1) := h k (by simp)
    obtain ⟨p, hp, hpk⟩ := List.mem_map.1 hk
    have hfind : (m.find? (·.1 == k)).isSome = true := by
      rw [List.find?_isSome]
      exact ⟨p, hp, by simp [hpk]⟩
    cases hf : m.find? (·.1 == k) with
    | none => rw [hf] at hfind; simp at hfind
    | some q =>
      simp only [Option.map_some, Outcome.unwrap, Outcome.bind]
      have := ih (fun x hx => h x (by simp [hx]))
      cases hl : lookupAllP m r with
      | panic => rw [hl] at this; simp [Outcome.isPanic] at this
      | err => rfl
      | ok t => rfl

theorem isCharBoundary_zero (cs : List Char) : isCharBoundary cs 0 = true := by
  cases cs <;> simp [isCharBoundary]

end Prom.C17
