import Prom.Model.HistMachine
import Prom.Lemmas.Guard
import Prom.HP.Order
/-
Refinement: every item the replay machine `Prom.HM.item` accepts is a stutter, exactly one
`Hp.Step` of the abstraction `HM.abs`, or exactly two (only when a collector swapped 0 out of a cold bucket:
the swap, which leaves the shared state as it is, and the `addHot` of 0 of that bucket, whose
`fetch_add(0)` the code may skip). Hence every state the machine reaches while replaying a
trace of the real implementation is `Hp.Reach`able, and the C02 / C03 theorems hold of it.
-/
namespace Prom.HM
open Prom Prom.Conc Hp

theorem plainR_ok {cuts : Cuts} {r : Except String Res} {x : Res} {cuts' : Cuts} :
    plainR cuts r = .ok (x, cuts') ↔ r = .ok x ∧ cuts' = cuts := by
  unfold plainR; split <;> simp_all [eq_comm]

theorem filterMap_set_split {α β} (f : α → Option β) (l : List α) (i : Nat) (a a' : α) (h : l[i]? = some a) :
    ∃ pre post, l.filterMap f = pre ++ (f a).toList ++ post ∧
      (l.set i a').filterMap f = pre ++ (f a').toList ++ post := by
  induction l generalizing i with
  | nil => simp at h
  | cons x r ih =>
    cases i with
    | zero =>
      simp at h; subst h
      refine ⟨[], r.filterMap f, ?_, ?_⟩
      · cases hf : f x <;> simp [List.filterMap_cons, hf]
      · cases hf : f a' <;> simp [List.filterMap_cons, hf]
    | succ j =>
      simp at h
      obtain ⟨pre, post, h1, h2⟩ := ih j h
      cases hf : f x with
      | none => exact ⟨pre, post, by simp [List.filterMap_cons, hf, h1], by simp [List.filterMap_cons, hf, h2]⟩
      | some y => exact ⟨y :: pre, post, by simp [List.filterMap_cons, hf, h1], by simp [List.filterMap_cons, hf, h2]⟩

/-- a core state with its task list replaced -/
def withTasks (c : Hp.St) (ts : List Task) : Hp.St := { c with tasks := ts }

end Prom.HM

namespace Prom.HM
open Prom Prom.Conc Hp

theorem casLoop_cases {e : Ev} {c : Hp.St} {pc : Pc} {b : Bool} {cell : Nat} {a : Int} {onOk r : Res}
    (h : casLoop e c pc b cell a onOk = .ok r) :
    (r.1 = c ∧ r.2.1.task = pc.task ∧ r.2.2 = none) ∨ r = onOk := by
  unfold casLoop at h
  split at h
  · unfold casLoad at h
    rw [guard_ok] at h; obtain ⟨_, h⟩ := h; cases h; exact .inl ⟨rfl, rfl, rfl⟩
  · split at h
    · unfold casLoad at h
      rw [guard_ok] at h; obtain ⟨_, h⟩ := h; cases h; exact .inl ⟨rfl, rfl, rfl⟩
    · rw [guard_ok] at h; obtain ⟨_, h⟩ := h
      split at h
      · rw [guard_ok] at h; obtain ⟨_, h⟩ := h; cases h; exact .inr rfl
      · rw [guard_ok] at h; obtain ⟨_, h⟩ := h; cases h; exact .inl ⟨rfl, rfl, rfl⟩

/-- the sum loop never touches the ghost `c0` of the call, given that its step (`onOk`) does not -/
theorem casLoop_c0' {e : Ev} {c : Hp.St} {pc : Pc} {b : Bool} {cell : Nat} {a : Int} {onOk r : Res}
    (h : casLoop e c pc b cell a onOk = .ok r) :
    (r.2.1.c0 = pc.c0 ∧ r.1 = c ∧ r.2.1.task = pc.task ∧ r.2.2 = none) ∨ r = onOk := by
  unfold casLoop at h
  split at h
  · unfold casLoad at h
    rw [guard_ok] at h; obtain ⟨_, h⟩ := h; cases h; exact .inl ⟨rfl, rfl, rfl, rfl⟩
  · split at h
    · unfold casLoad at h
      rw [guard_ok] at h; obtain ⟨_, h⟩ := h; cases h; exact .inl ⟨rfl, rfl, rfl, rfl⟩
    · rw [guard_ok] at h; obtain ⟨_, h⟩ := h
      split at h
      · rw [guard_ok] at h; obtain ⟨_, h⟩ := h; cases h; exact .inr rfl
      · rw [guard_ok] at h; obtain ⟨_, h⟩ := h; cases h; exact .inl ⟨rfl, rfl, rfl, rfl⟩

/-- **both loops are accepted** — after a failed compare-exchange (`cur` is the value it reported and
    `failed` is set) the loop accepts a load exactly as a fresh load does (the reloading loop) and
    every other event exactly as the compare-exchange expecting the reported value does (the loop
    `Err(v) => cur = v`) -/
theorem casLoop_after_failure (e : Ev) (c : Hp.St) (pc : Pc) (b : Bool) (cell : Nat) (a : Int) (onOk : Res)
    (cur : Int) (hc : pc.cur = some cur) (hf : pc.failed = true) :
    casLoop e c pc b cell a onOk =
      if e.k = "L" then casLoop e c { pc with cur := none } b cell a onOk
      else casLoop e c { pc with failed := false } b cell a onOk := by
  unfold casLoop
  by_cases hk : e.k = "L"
  · simp [hc, hf, hk, casLoad]
  · simp [hc, hf, hk]

/-- a failed compare-exchange of the loop changes nothing and leaves the call with the reported value
    as `cur` and `failed` set (so that `casLoop_after_failure` applies to the next event) -/
theorem casLoop_failure {e : Ev} {c : Hp.St} {pc : Pc} {b : Bool} {cell : Nat} {a : Int} {onOk r : Res}
    (h : casLoop e c pc b cell a onOk = .ok r) (hk : e.k = "C") (hok : e.ok = false) :
    r = (c, { pc with cur := some ((c.sh b).cell cell), failed := true }, none) ∧
      e.res = f64OfInt ((c.sh b).cell cell) := by
  have hload : ∀ x, casLoad e c pc b x = .ok r → False := by
    intro x h
    unfold casLoad at h
    rw [guard_ok] at h
    simp [hk] at h
  unfold casLoop at h
  split at h
  · exact (hload _ h).elim
  · split at h
    · exact (hload _ h).elim
    · rw [guard_ok] at h; obtain ⟨_, h⟩ := h
      simp only [hok, Bool.false_eq_true, if_false] at h
      rw [guard_ok] at h; obtain ⟨hg, h⟩ := h
      simp only [Bool.and_eq_true, beq_iff_eq] at hg
      cases h
      exact ⟨rfl, hg.2⟩

/-! ### one `fetch_add` site: the single `fetch_add` or the compare-exchange loop -/

/-- the call state after the step of a `fetch_add` site: the loop state of the site is cleared -/
def faDone (onOk : Res) : Res := (onOk.1, { onOk.2.1 with icur := none, ifailed := false }, onOk.2.2)

/-- **what a `fetch_add` site accepts** — either a stutter: a load of the cell or a FAILED compare-exchange on
    it, which changes nothing but the loop state of the call (`icur`, `ifailed`); or THE step: the single
    `fetch_add` or a SUCCESSFUL compare-exchange on the cell, with the ordering the site needs, which read the
    cell's current pattern `x` and does what the site does (`onOk`), the site's side condition holding -/
theorem fetchAdd_cases {e : Ev} {c : Hp.St} {pc : Pc} {loc : Loc} {ord : String} {a x : UInt64} {ok : Bool}
    {msg : String} {onOk r : Res} (h : fetchAdd e c pc loc ord a x ok msg onOk = .ok r) :
    ((∃ ic f, r = (c, { pc with icur := ic, ifailed := f }, none)) ∧ parseLoc e.loc = loc ∧
        (e.k = "L" ∨ (e.k = "C" ∧ e.ok = false))) ∨
    (r = faDone onOk ∧ ok = true ∧ parseLoc e.loc = loc ∧ ordGe e.ord ord = true ∧ e.res = x ∧
        (e.k = "A" ∨ (e.k = "C" ∧ e.ok = true))) := by
  have hload : ∀ {x' : UInt64}, faLoad e c pc loc x' msg = .ok r →
      (∃ ic f, r = (c, { pc with icur := ic, ifailed := f }, none)) ∧ parseLoc e.loc = loc ∧
        (e.k = "L" ∨ (e.k = "C" ∧ e.ok = false)) := by
    intro x' h
    unfold faLoad at h
    rw [guard_ok] at h; obtain ⟨hg, h⟩ := h
    simp only [Bool.and_eq_true, beq_iff_eq] at hg
    cases h
    exact ⟨⟨_, _, rfl⟩, hg.1.1.2, .inl hg.1.1.1⟩
  unfold fetchAdd at h
  simp only at h
  split at h
  · next hk =>
    rw [guard_ok] at h; obtain ⟨hg, h⟩ := h
    simp only [Bool.and_eq_true, beq_iff_eq] at hg
    cases h
    exact .inr ⟨rfl, hg.1.2, hg.1.1.1.1.1, hg.1.1.1.1.2, hg.1.1.2, .inl (by simpa using hk)⟩
  · split at h
    · exact .inl (hload h)
    · split at h
      · exact .inl (hload h)
      · rw [guard_ok] at h; obtain ⟨hg, h⟩ := h
        simp only [Bool.and_eq_true, beq_iff_eq] at hg
        split at h
        · next hok =>
          rw [guard_ok] at h; obtain ⟨hc, h⟩ := h
          simp only [Bool.and_eq_true, beq_iff_eq] at hc
          cases h
          exact .inr ⟨rfl, hc.2, hg.1.1.1.2, hg.1.1.2, by rw [hc.1.2, hc.1.1], .inr ⟨hg.1.1.1.1, hok⟩⟩
        · next hok =>
          rw [guard_ok] at h; obtain ⟨_, h⟩ := h
          cases h
          exact .inl ⟨⟨_, _, rfl⟩, hg.1.1.1.2, .inr ⟨hg.1.1.1.1, by simpa using hok⟩⟩

/-- **the single `fetch_add` is accepted** (as before): on the site's cell, with an ordering at least the
    site's, the site's operand, returning the cell's pattern, no loop in progress - it is the site's step -/
theorem fetchAdd_single {e : Ev} {c : Hp.St} {pc : Pc} {loc : Loc} {ord : String} {a x : UInt64} {ok : Bool}
    {msg : String} {onOk : Res} (hk : e.k = "A") (hl : parseLoc e.loc = loc) (ho : ordGe e.ord ord = true)
    (ha : e.a = a) (hr : e.res = x) (hok : ok = true) (hi : pc.icur = none) :
    fetchAdd e c pc loc ord a x ok msg onOk = .ok (faDone onOk) := by
  simp [fetchAdd, hk, hl, ho, ha, hr, hok, hi, Conc.guard, faDone]

/-- **the loop's load is accepted**: with no loop in progress, a load (any ordering) of the site's cell that
    returns the cell's pattern `x` changes nothing; the call remembers `x` -/
theorem fetchAdd_load {e : Ev} {c : Hp.St} {pc : Pc} {loc : Loc} {ord : String} {a x : UInt64} {ok : Bool}
    {msg : String} {onOk : Res} (hk : e.k = "L") (hl : parseLoc e.loc = loc) (hr : e.res = x) (hi : pc.icur = none) :
    fetchAdd e c pc loc ord a x ok msg onOk = .ok (c, { pc with icur := some x, ifailed := false }, none) := by
  have hrel : ordGe e.ord "Relaxed" = true := by simp [ordGe]
  simp [fetchAdd, faLoad, hk, hl, hr, hi, hrel, Conc.guard]

/-- **the loop's successful compare-exchange is accepted and is the site's step**: expecting the remembered
    pattern `cur`, installing `cur + a` (wrapping), with an ordering at least the site's, when the cell still
    holds `cur` - exactly what the single `fetch_add` does -/
theorem fetchAdd_cas_ok {e : Ev} {c : Hp.St} {pc : Pc} {loc : Loc} {ord : String} {a x cur : UInt64} {ok : Bool}
    {msg : String} {onOk : Res} (hi : pc.icur = some cur) (hk : e.k = "C") (hl : parseLoc e.loc = loc)
    (ho : ordGe e.ord ord = true) (ha : e.a = cur) (hb : e.b = cur + a) (hs : e.ok = true)
    (hx : x = cur) (hr : e.res = cur) (hok : ok = true) :
    fetchAdd e c pc loc ord a x ok msg onOk = .ok (faDone onOk) := by
  simp [fetchAdd, hi, hk, hl, ho, ha, hb, hs, hx, hr, hok, Conc.guard, faDone]

/-- **a failed compare-exchange of the loop** (the cell changed, or spuriously) that reports the cell's pattern
    `x` changes nothing; the call goes on with `x` as expected value and may also load again -/
theorem fetchAdd_cas_failed {e : Ev} {c : Hp.St} {pc : Pc} {loc : Loc} {ord : String} {a x cur : UInt64} {ok : Bool}
    {msg : String} {onOk : Res} (hi : pc.icur = some cur) (hk : e.k = "C") (hl : parseLoc e.loc = loc)
    (ho : ordGe e.ord ord = true) (ha : e.a = cur) (hb : e.b = cur + a) (hs : e.ok = false) (hr : e.res = x) :
    fetchAdd e c pc loc ord a x ok msg onOk = .ok (c, { pc with icur := some x, ifailed := true }, none) := by
  simp [fetchAdd, hi, hk, hl, ho, ha, hb, hs, hr, Conc.guard]

/-- **both loops are accepted at a `fetch_add` site** — after a failed compare-exchange (`icur` is the pattern
    it reported and `ifailed` is set) the site accepts a load exactly as a fresh load (the reloading loop)
    and every other event exactly as the compare-exchange expecting the reported pattern does -/
theorem fetchAdd_after_failure (e : Ev) (c : Hp.St) (pc : Pc) (loc : Loc) (ord : String) (a x : UInt64) (ok : Bool)
    (msg : String) (onOk : Res) (cur : UInt64) (hc : pc.icur = some cur) (hf : pc.ifailed = true) :
    fetchAdd e c pc loc ord a x ok msg onOk =
      if e.k = "L" then fetchAdd e c { pc with icur := none } loc ord a x ok msg onOk
      else fetchAdd e c { pc with ifailed := false } loc ord a x ok msg onOk := by
  unfold fetchAdd
  by_cases hk : e.k = "L"
  · simp [hc, hf, hk, faLoad]
  · simp [hc, hf, hk]

/-! ### the updates of one observation in any order -/

/-- what `splitFirst` returns is a split of the list at an entry satisfying `f` before which no
    entry satisfies `f` -/
theorem splitFirst_spec {α : Type} {f : α → Bool} : ∀ {l : List α} {l1 q l2},
    splitFirst f l = some (l1, q, l2) → l = l1 ++ q :: l2 ∧ f q = true ∧ ∀ x ∈ l1, f x = false
  | [], _, _, _, h => by simp [splitFirst] at h
  | p :: l, l1, q, l2, h => by
    simp only [splitFirst] at h
    split at h
    · next hp => cases h; exact ⟨rfl, hp, by simp⟩
    · next hp =>
      split at h
      · next m1 q' m2 hm =>
        cases h
        obtain ⟨e1, e2, e3⟩ := splitFirst_spec hm
        refine ⟨by rw [e1]; rfl, e2, ?_⟩
        intro x hx
        simp only [List.mem_cons] at hx
        rcases hx with rfl | hx
        · simpa using hp
        · exact e3 x hx
      · cases h

/-- `splitFirst` fails only if no entry satisfies `f` -/
theorem splitFirst_none {α : Type} {f : α → Bool} : ∀ {l : List α},
    splitFirst f l = none → ∀ x ∈ l, f x = false
  | [], _ => by simp
  | p :: l, h => by
    simp only [splitFirst] at h
    split at h
    · cases h
    · next hp =>
      split at h
      · cases h
      · next hm =>
        intro x hx
        simp only [List.mem_cons] at hx
        rcases hx with rfl | hx
        · simpa using hp
        · exact splitFirst_none hm x hx

/-- the first entry satisfying `f` is found wherever it stands -/
theorem splitFirst_of_first {α : Type} {f : α → Bool} : ∀ (l1 : List α) (q : α) (l2 : List α),
    (∀ x ∈ l1, f x = false) → f q = true → splitFirst f (l1 ++ q :: l2) = some (l1, q, l2)
  | [], q, l2, _, hq => by simp [splitFirst, hq]
  | p :: l1, q, l2, h1, hq => by
    have hp : f p = false := h1 p (by simp)
    have ih := splitFirst_of_first l1 q l2 (fun x hx => h1 x (by simp [hx])) hq
    simp [splitFirst, hp, ih]

/-- `pick` splits the list it is given: nothing is lost, nothing is reordered but the picked entry -/
theorem pick_spec (k : Nat) (b : Bool) (loc : Loc) (p : Nat × Int) (l : List (Nat × Int)) :
    (pick k b loc p l).1 ++ (pick k b loc p l).2.1 :: (pick k b loc p l).2.2 = p :: l := by
  unfold pick
  cases h : splitFirst (hits k b loc) (p :: l) with
  | none => rfl
  | some t =>
    obtain ⟨l1, q, l2⟩ := t
    exact (splitFirst_spec h).1.symm

/-- `pick` selects the first entry the location addresses, wherever in the list it stands -/
theorem pick_of_hit {k : Nat} {b : Bool} {loc : Loc} {p : Nat × Int} {l l1 l2 : List (Nat × Int)} {q : Nat × Int}
    (hl : p :: l = l1 ++ q :: l2) (h1 : ∀ x ∈ l1, hits k b loc x = false) (hq : hits k b loc q = true) :
    pick k b loc p l = (l1, q, l2) := by
  unfold pick
  rw [hl, splitFirst_of_first l1 q l2 h1 hq]; rfl

/-- an event whose location addresses no entry is checked against the head -/
theorem pick_of_no_hit {k : Nat} {b : Bool} {loc : Loc} {p : Nat × Int} {l : List (Nat × Int)}
    (h : ∀ x ∈ p :: l, hits k b loc x = false) : pick k b loc p l = ([], p, l) := by
  unfold pick
  cases hs : splitFirst (hits k b loc) (p :: l) with
  | none => rfl
  | some t =>
    obtain ⟨l1, q, l2⟩ := t
    obtain ⟨e1, e2, _⟩ := splitFirst_spec hs
    have := h q (by rw [e1]; simp)
    rw [this] at e2; cases e2

/-! ### the silent `addHot` of 0 -/

/-- the event step is the check `evStep1` (the silent `addHot` of 0 is taken inside the collector's swap) -/
theorem evStep_eq_evStep1 {k : Nat} {c : Hp.St} {cuts : Cuts} {e : Ev} {pc : Pc} :
    evStep k c cuts e pc = evStep1 k c cuts e pc := rfl

/-- adding 0 to a cell changes nothing -/
theorem modSh_add_zero (sh : Bool → Shard) (b : Bool) (cell : Nat) :
    modSh sh b (fun x => { x with cell := setCell x.cell cell (x.cell cell + 0) }) = sh := by
  funext b'
  simp only [modSh]
  split
  · have : setCell (sh b').cell cell ((sh b').cell cell + 0) = (sh b').cell := by
      funext x
      simp only [setCell]
      split
      · next hx => rw [hx]; omega
      · rfl
    rw [this]
  · rfl

/-- resetting a cell that holds 0 changes nothing -/
theorem modSh_set_zero (sh : Bool → Shard) (b : Bool) (cell : Nat) (h : (sh b).cell cell = 0) :
    modSh sh b (fun x => { x with cell := setCell x.cell cell 0 }) = sh := by
  funext b'
  simp only [modSh]
  split
  · next hb =>
    subst hb
    have : setCell (sh b').cell cell 0 = (sh b').cell := by
      funext x
      simp only [setCell]
      split
      · next hx => rw [hx, h]
      · rfl
    rw [this]
  · rfl

/-- `skipTask` skips only the `addHot` of a BUCKET out of which 0 was swapped, whose swap is done; what is
    left is the list without that step -/
theorem skipTask_spec {k cell : Nat} {x : Int} {rest rest' : List CStep} (h : skipTask k cell x rest = some rest') :
    cell < k ∧ x = 0 ∧ CStep.swap cell ∉ rest ∧
      ∃ m1 m2, rest = m1 ++ CStep.addHot cell :: m2 ∧ rest' = m1 ++ m2 := by
  unfold skipTask at h
  split at h
  · next hc =>
    simp only [Bool.and_eq_true, decide_eq_true_eq, Bool.not_eq_true', List.contains_eq_mem,
      decide_eq_false_iff_not] at hc
    split at h
    · next m1 q m2 hs =>
      cases h
      obtain ⟨e1, e2, _⟩ := splitFirst_spec hs
      have : q = CStep.addHot cell := by simpa using e2
      subst this
      exact ⟨hc.1.1, hc.1.2, hc.2, m1, m2, e1, rfl⟩
    · cases h
  · cases h

/-- **the skip is accepted**: out of a bucket (`cell < k`) that holds 0, with `addHot cell` still to do and
    `swap cell` not to be done again, `skipTask` takes the `addHot cell` -/
theorem skipTask_of_zero {k cell : Nat} {m1 m2 : List CStep} (hc : cell < k)
    (hs : CStep.swap cell ∉ m1 ++ CStep.addHot cell :: m2) (h1 : CStep.addHot cell ∉ m1) :
    skipTask k cell 0 (m1 ++ CStep.addHot cell :: m2) = some (m1 ++ m2) := by
  unfold skipTask
  have : (m1 ++ CStep.addHot cell :: m2).contains (CStep.swap cell) = false := by
    simpa using hs
  simp only [hc, decide_true, this, Bool.not_false, Bool.and_self, if_true]
  rw [splitFirst_of_first m1 (CStep.addHot cell) m2 (fun x hx => by
    simp only [beq_eq_false_iff_ne, ne_eq]; rintro rfl; exact h1 hx) (by simp)]

/-- … and in every other case (the cell is the sum, or the swapped-out value is not 0) nothing is skipped -/
theorem skipTask_none {k cell : Nat} {x : Int} {rest : List CStep} (h : ¬ (cell < k ∧ x = 0)) :
    skipTask k cell x rest = none := by
  unfold skipTask
  split
  · next hc =>
    simp only [Bool.and_eq_true, decide_eq_true_eq] at hc
    exact absurd ⟨hc.1.1, hc.1.2⟩ h
  · rfl

/-- **the skipped `fetch_add(0)` is a step of the proof model that changes nothing but the collector's
    list of steps**: the abstract `addHot cell` with `taken cell = 0` -/
theorem skip_is_step {k : Nat} (c : Hp.St) (pre post : List Task) (cold : Bool) (ov cell : Nat) (m1 m2 : List CStep)
    (taken : Cells) (S : List Obs) (h0 : taken cell = 0) (hs : CStep.swap cell ∉ m1 ++ m2) :
    Hp.Step k (withTasks c (pre ++ [Task.colMove cold ov (m1 ++ CStep.addHot cell :: m2) taken S] ++ post))
      (withTasks c (pre ++ [Task.colMove cold ov (m1 ++ m2) taken S] ++ post)) := by
  have := Step.addHot (k := k) (withTasks c (pre ++ [Task.colMove cold ov (m1 ++ CStep.addHot cell :: m2) taken S] ++ post))
    pre post cold ov cell m1 m2 taken S (by simp [withTasks]) hs
  simp only [withTasks, h0, modSh_add_zero] at this
  simpa [withTasks] using this

/-- **the swap of a cold cell** (`swapRes`) is one step of the proof model - `swap cell`, taken from anywhere
    in the collector's list -, or two: when the cell is a bucket that held 0, the swap - which then leaves the
    shared state as it is - and the `addHot cell` of 0 (`skip_is_step`) -/
theorem swapRes_refines {k : Nat} {c : Hp.St} {pc : Pc} {cold : Bool} {ov cell : Nat} {l1 l2 : List CStep}
    {taken : Cells} {S : List Obs} {c' : Hp.St} {pc' : Pc} {rv : Option String}
    (h : swapRes k c pc cold ov cell (l1 ++ l2) taken S = (c', pc', rv)) (pre post : List Task) :
    Hp.Step k (withTasks c (pre ++ [Task.colMove cold ov (l1 ++ CStep.swap cell :: l2) taken S] ++ post))
        (withTasks c' (pre ++ pc'.task.toList ++ post)) ∨
    ∃ ts, Hp.Step k (withTasks c (pre ++ [Task.colMove cold ov (l1 ++ CStep.swap cell :: l2) taken S] ++ post)) (withTasks c ts) ∧
          Hp.Step k (withTasks c ts) (withTasks c' (pre ++ pc'.task.toList ++ post)) := by
  have hstep := Step.swap (k := k) (withTasks c (pre ++ [Task.colMove cold ov (l1 ++ CStep.swap cell :: l2) taken S] ++ post))
    pre post cold ov cell l1 l2 taken S (by simp [withTasks])
  unfold swapRes at h
  simp only at h
  split at h
  · next rest' hsk =>
    cases h
    obtain ⟨_, hx, hns, m1, m2, e1, e2⟩ := skipTask_spec hsk
    subst e2
    have hsh : modSh c.sh cold (fun sd => { sd with cell := setCell sd.cell cell 0 }) = c.sh :=
      modSh_set_zero c.sh cold cell hx
    right
    refine ⟨pre ++ [Task.colMove cold ov (l1 ++ l2) (setCell taken cell ((c.sh cold).cell cell)) S] ++ post, ?_, ?_⟩
    · simp only [withTasks] at hstep
      rw [hsh] at hstep
      simpa [withTasks] using hstep
    · rw [hsh, e1]
      have h0 : setCell taken cell ((c.sh cold).cell cell) cell = 0 := by simp [hx]
      have hs' : CStep.swap cell ∉ m1 ++ m2 := by
        intro hm; apply hns; rw [e1]
        simp only [List.mem_append, List.mem_cons] at hm ⊢
        rcases hm with hm | hm
        · exact .inl hm
        · exact .inr (.inr hm)
      have := skip_is_step (k := k) c pre post cold ov cell m1 m2 (setCell taken cell ((c.sh cold).cell cell)) S h0 hs'
      simpa [withTasks] using this
  · cases h
    left
    simpa [withTasks] using hstep

/-- the `obsRun` arm of the machine is `obsEntry` on the entry `pick` selects -/
theorem evStep_obsRun {k : Nat} {c : Hp.St} {cuts : Cuts} {e : Ev} {pc : Pc} {o : Obs} {b : Bool}
    {p : Nat × Int} {l : List (Nat × Int)} (ht : pc.task = some (.obsRun o b (p :: l))) :
    evStep k c cuts e pc =
      plainR cuts (obsEntry k c e pc o b (pick k b (parseLoc e.loc) p l).2.1.1 (pick k b (parseLoc e.loc) p l).2.1.2
        ((pick k b (parseLoc e.loc) p l).1 ++ (pick k b (parseLoc e.loc) p l).2.2)) := by
  rw [evStep_eq_evStep1]
  unfold evStep1
  simp only [ht]

/-- **any order is accepted** — a running observation whose remaining updates are
    `l1 ++ (cell, a) :: l2` treats an event on the location of `(cell, a)` (the bucket `cell` of its
    shard if `cell < k`, the sum of its shard otherwise; no earlier entry of the list on the same
    location) exactly as it treats the event when that entry is the head: it checks the event against
    that entry (`obsEntry`), and `l1 ++ l2` is what remains. With `l1 = []` this is the old behaviour. -/
theorem obsRun_accepts_any_entry {k : Nat} {c : Hp.St} {cuts : Cuts} {e : Ev} {pc : Pc} {o : Obs} {b : Bool}
    {l1 l2 : List (Nat × Int)} {cell : Nat} {a : Int}
    (ht : pc.task = some (.obsRun o b (l1 ++ (cell, a) :: l2)))
    (h1 : ∀ x ∈ l1, hits k b (parseLoc e.loc) x = false)
    (hq : hits k b (parseLoc e.loc) (cell, a) = true) :
    evStep k c cuts e pc = plainR cuts (obsEntry k c e pc o b cell a (l1 ++ l2)) := by
  cases hl : l1 ++ (cell, a) :: l2 with
  | nil => simp at hl
  | cons p l =>
    rw [hl] at ht
    rw [evStep_obsRun ht, pick_of_hit hl.symm h1 hq]

/-- the same with the entry at the head: the two lists `l1 ++ (cell, a) :: l2` and
    `(cell, a) :: (l1 ++ l2)` are treated alike -/
theorem obsRun_entry_as_head {k : Nat} {c : Hp.St} {cuts : Cuts} {e : Ev} {pc pc₀ : Pc} {o : Obs} {b : Bool}
    {l1 l2 : List (Nat × Int)} {cell : Nat} {a : Int}
    (ht : pc.task = some (.obsRun o b (l1 ++ (cell, a) :: l2)))
    (ht₀ : pc₀.task = some (.obsRun o b ((cell, a) :: (l1 ++ l2))))
    (h1 : ∀ x ∈ l1, hits k b (parseLoc e.loc) x = false)
    (hq : hits k b (parseLoc e.loc) (cell, a) = true) :
    evStep k c cuts e pc = plainR cuts (obsEntry k c e pc o b cell a (l1 ++ l2)) ∧
    evStep k c cuts e pc₀ = plainR cuts (obsEntry k c e pc₀ o b cell a (l1 ++ l2)) :=
  ⟨obsRun_accepts_any_entry ht h1 hq,
   obsRun_accepts_any_entry (l1 := []) (by simpa using ht₀) (by simp) hq⟩

/-- an event that addresses none of the remaining entries is checked against the head entry, as before -/
theorem obsRun_no_entry {k : Nat} {c : Hp.St} {cuts : Cuts} {e : Ev} {pc : Pc} {o : Obs} {b : Bool}
    {p : Nat × Int} {l : List (Nat × Int)} (ht : pc.task = some (.obsRun o b (p :: l)))
    (h : ∀ x ∈ p :: l, hits k b (parseLoc e.loc) x = false) :
    evStep k c cuts e pc = plainR cuts (obsEntry k c e pc o b p.1 p.2 l) := by
  rw [evStep_obsRun ht, pick_of_no_hit h]; rfl

/-- a bucket update in the middle of a sum loop leaves the loop as it is: the value it has loaded
    (`cur`) and whether its last compare-exchange failed (`failed`) persist; the entry is done (the single
    `fetch_add`, or the successful compare-exchange of the bucket's own loop), or - a load / failed exchange
    of the bucket's own loop - nothing at all has happened -/
theorem obsEntry_bucket_keeps_loop {k : Nat} {c : Hp.St} {e : Ev} {pc : Pc} {o : Obs} {b : Bool} {cell : Nat}
    {a : Int} {rest : List (Nat × Int)} {r : Res} (hc : cell < k)
    (h : obsEntry k c e pc o b cell a rest = .ok r) :
    r.2.1.cur = pc.cur ∧ r.2.1.failed = pc.failed ∧
      (r.2.1.task = some (.obsRun o b rest) ∨ (r.2.1.task = pc.task ∧ r.1 = c ∧ r.2.2 = none)) := by
  simp only [obsEntry, hc, if_true] at h
  rcases fetchAdd_cases h with ⟨⟨ic, f, hr⟩, _⟩ | ⟨hr, _⟩
  · cases hr; exact ⟨rfl, rfl, .inr ⟨rfl, rfl, rfl⟩⟩
  · cases hr; exact ⟨rfl, rfl, .inl rfl⟩

/-! ### the collector's drain in any order -/

/-- **what the collector's arm accepts** (task `colMove cold ov todo taken S`): a stutter (a load / failed
    exchange of a loop; the `fetch_add(0)` of an `addHot` that was taken silently), exactly one step of the
    proof model - `swap`, `addHot`, `addCount` taken from ANYWHERE in `todo`, or `unlock` when it is all that
    is left -, or exactly two (`swapRes_refines`) -/
theorem colStep_refines {k : Nat} {c : Hp.St} {cuts : Cuts} {e : Ev} {pc : Pc} {cold : Bool} {ov : Nat}
    {todo : List CStep} {taken : Cells} {S : List Obs} {c' : Hp.St} {pc' : Pc} {rv : Option String} {cuts' : Cuts}
    (ht : pc.task = some (.colMove cold ov todo taken S))
    (h : colStep k c cuts e pc cold ov todo taken S = .ok ((c', pc', rv), cuts')) (pre post : List Task) :
    withTasks c' (pre ++ pc'.task.toList ++ post) = withTasks c (pre ++ pc.task.toList ++ post) ∨
    Hp.Step k (withTasks c (pre ++ pc.task.toList ++ post)) (withTasks c' (pre ++ pc'.task.toList ++ post)) ∨
    ∃ ts, Hp.Step k (withTasks c (pre ++ pc.task.toList ++ post)) (withTasks c ts) ∧
          Hp.Step k (withTasks c ts) (withTasks c' (pre ++ pc'.task.toList ++ post)) := by
  unfold colStep at h
  simp only at h
  split at h
  · -- swap
    next l1 cell l2 hsp =>
    obtain ⟨e1, _, _⟩ := splitFirst_spec hsp
    subst e1
    have hT : pc.task.toList = [Task.colMove cold ov (l1 ++ CStep.swap cell :: l2) taken S] := by simp [ht]
    rw [hT]
    right
    split at h
    · rw [plainR_ok, guard_ok] at h
      obtain ⟨⟨_, h⟩, _⟩ := h
      exact swapRes_refines (Except.ok.inj h) pre post
    · rw [plainR_ok, guard_ok] at h
      obtain ⟨⟨_, h⟩, _⟩ := h
      exact swapRes_refines (Except.ok.inj h) pre post
  · -- addHot
    next l1 cell l2 hsp =>
    obtain ⟨e1, _, _⟩ := splitFirst_spec hsp
    subst e1
    split at h
    · cases h
    · next hns =>
      have hs : CStep.swap cell ∉ l1 ++ l2 := by simpa using hns
      have hstep := Step.addHot (k := k) (withTasks c (pre ++ pc.task.toList ++ post)) pre post cold ov cell l1 l2 taken S
        (by simp [withTasks, ht]) hs
      split at h
      · rw [plainR_ok] at h
        obtain ⟨h, _⟩ := h
        rcases fetchAdd_cases h with ⟨⟨ic, f, hr⟩, _⟩ | ⟨hr, _⟩
        · cases hr; left; rfl
        · cases hr; right; left; simpa [withTasks, ht, faDone] using hstep
      · rw [plainR_ok] at h
        obtain ⟨h, _⟩ := h
        rcases casLoop_cases h with ⟨h1, h2, _⟩ | h1
        · simp only at h1 h2; subst h1; left; simp [withTasks, h2]
        · cases h1; right; left; simpa [withTasks, ht] using hstep
  · -- addCount
    next l1 l2 hsp =>
    obtain ⟨e1, _, _⟩ := splitFirst_spec hsp
    subst e1
    rw [plainR_ok] at h
    obtain ⟨h, _⟩ := h
    rcases fetchAdd_cases h with ⟨⟨ic, f, hr⟩, _⟩ | ⟨hr, _⟩
    · cases hr; left; rfl
    · cases hr
      right; left
      have := Step.addCount (k := k) (withTasks c (pre ++ pc.task.toList ++ post)) pre post cold ov l1 l2 taken S (by simp [withTasks, ht])
      simpa [withTasks, ht, faDone] using this
  · -- unlock
    next l1 l2 hsp =>
    obtain ⟨e1, _, _⟩ := splitFirst_spec hsp
    subst e1
    split at h
    · cases h
    · next hemp =>
      have hl : l1 = [] ∧ l2 = [] := by simpa using hemp
      obtain ⟨rfl, rfl⟩ := hl
      split at h
      · cases h
      · cases h
        right; left
        have := Step.unlock (k := k) (withTasks c (pre ++ pc.task.toList ++ post)) pre post cold ov taken S (by simp [withTasks, ht])
        simpa [withTasks, ht] using this
  · -- no remaining step on this location
    split at h
    · rw [plainR_ok] at h
      obtain ⟨h, _⟩ := h
      rcases fetchAdd_cases h with ⟨⟨ic, f, hr⟩, _⟩ | ⟨hr, _⟩
      · cases hr; left; rfl
      · cases hr; left; rfl
    · cases h

/-- **the shape of what the collector's arm accepts**: the call keeps its ghost `c0`, nothing is claimed, and
    either the call is still the same collector (same `cold`, `ov`, cut `S`; no snapshot, no return value) or
    it was the `unlock`: the call is complete, the snapshot `(ov, taken)` with cut `S` is recorded -/
theorem colStep_cases {k : Nat} {c : Hp.St} {cuts : Cuts} {e : Ev} {pc : Pc} {cold : Bool} {ov : Nat}
    {todo : List CStep} {taken : Cells} {S : List Obs} {c' : Hp.St} {pc' : Pc} {rv : Option String} {cuts' : Cuts}
    (ht : pc.task = some (.colMove cold ov todo taken S))
    (h : colStep k c cuts e pc cold ov todo taken S = .ok ((c', pc', rv), cuts')) :
    pc'.c0 = pc.c0 ∧ c'.claimed = c.claimed ∧
    (((∃ todo' taken', pc'.task = some (.colMove cold ov todo' taken' S)) ∧ cuts' = cuts ∧ c'.snaps = c.snaps ∧ rv = none) ∨
     (todo = [CStep.unlock] ∧ pc'.task = none ∧ cuts' = cuts ++ [⟨pc.c0, S, c.claimed, showSnap k ov taken⟩] ∧
        c'.snaps = c.snaps ++ [(⟨ov, taken⟩, S)] ∧ rv = some (showSnap k ov taken))) := by
  unfold colStep at h
  simp only at h
  split at h
  · -- swap
    next l1 cell l2 hsp =>
    have key : ∀ {r : Res}, swapRes k c pc cold ov cell (l1 ++ l2) taken S = r →
        r.2.1.c0 = pc.c0 ∧ r.1.claimed = c.claimed ∧ (∃ todo' taken', r.2.1.task = some (.colMove cold ov todo' taken' S)) ∧
          r.1.snaps = c.snaps ∧ r.2.2 = none := by
      intro r hr
      unfold swapRes at hr
      simp only at hr
      split at hr <;> (cases hr; exact ⟨rfl, rfl, ⟨_, _, rfl⟩, rfl, rfl⟩)
    split at h
    · rw [plainR_ok, guard_ok] at h
      obtain ⟨⟨_, h⟩, hc⟩ := h
      obtain ⟨k1, k2, k3, k4, k5⟩ := key (Except.ok.inj h)
      exact ⟨k1, k2, .inl ⟨k3, hc, k4, k5⟩⟩
    · rw [plainR_ok, guard_ok] at h
      obtain ⟨⟨_, h⟩, hc⟩ := h
      obtain ⟨k1, k2, k3, k4, k5⟩ := key (Except.ok.inj h)
      exact ⟨k1, k2, .inl ⟨k3, hc, k4, k5⟩⟩
  · -- addHot
    next l1 cell l2 hsp =>
    split at h
    · cases h
    · split at h
      · rw [plainR_ok] at h
        obtain ⟨h, hc⟩ := h
        rcases fetchAdd_cases h with ⟨⟨ic, f, hr⟩, _⟩ | ⟨hr, _⟩
        · cases hr; exact ⟨rfl, rfl, .inl ⟨⟨_, _, ht⟩, hc, rfl, rfl⟩⟩
        · cases hr; exact ⟨rfl, rfl, .inl ⟨⟨_, _, rfl⟩, hc, rfl, rfl⟩⟩
      · rw [plainR_ok] at h
        obtain ⟨h, hc⟩ := h
        rcases casLoop_c0' h with ⟨h0, h1, h2, h3⟩ | h1
        · simp only at h0 h1 h2 h3; subst h1 h3
          exact ⟨h0, rfl, .inl ⟨⟨_, _, h2.trans ht⟩, hc, rfl, rfl⟩⟩
        · cases h1; exact ⟨rfl, rfl, .inl ⟨⟨_, _, rfl⟩, hc, rfl, rfl⟩⟩
  · -- addCount
    next l1 l2 hsp =>
    rw [plainR_ok] at h
    obtain ⟨h, hc⟩ := h
    rcases fetchAdd_cases h with ⟨⟨ic, f, hr⟩, _⟩ | ⟨hr, _⟩
    · cases hr; exact ⟨rfl, rfl, .inl ⟨⟨_, _, ht⟩, hc, rfl, rfl⟩⟩
    · cases hr; exact ⟨rfl, rfl, .inl ⟨⟨_, _, rfl⟩, hc, rfl, rfl⟩⟩
  · -- unlock
    next l1 l2 hsp =>
    obtain ⟨e1, _, _⟩ := splitFirst_spec hsp
    split at h
    · cases h
    · next hemp =>
      have hl : l1 = [] ∧ l2 = [] := by simpa using hemp
      obtain ⟨rfl, rfl⟩ := hl
      split at h
      · cases h
      · cases h
        exact ⟨rfl, rfl, .inr ⟨e1, rfl, rfl, rfl, rfl⟩⟩
  · split at h
    · rw [plainR_ok] at h
      obtain ⟨h, hc⟩ := h
      rcases fetchAdd_cases h with ⟨⟨ic, f, hr⟩, _⟩ | ⟨hr, _⟩
      · cases hr; exact ⟨rfl, rfl, .inl ⟨⟨_, _, ht⟩, hc, rfl, rfl⟩⟩
      · cases hr; exact ⟨rfl, rfl, .inl ⟨⟨_, _, ht⟩, hc, rfl, rfl⟩⟩
    · cases h

/-- the `colMove` arm of the machine is `colStep` -/
theorem evStep_colMove {k : Nat} {c : Hp.St} {cuts : Cuts} {e : Ev} {pc : Pc} {cold : Bool} {ov : Nat}
    {todo : List CStep} {taken : Cells} {S : List Obs} (ht : pc.task = some (.colMove cold ov todo taken S)) :
    evStep k c cuts e pc = colStep k c cuts e pc cold ov todo taken S := by
  unfold evStep evStep1
  simp only [ht]

/-- **any order is accepted** — a collector whose remaining steps are `l1 ++ st :: l2` treats an event on the
    location of `st` (no earlier step of the list works on that location) exactly as it treats the event when
    `st` is the head of the list: it checks the event against `st`, and `l1 ++ l2` is what remains. With
    `l1 = []` this is the old behaviour (the fixed program order). -/
theorem colStep_any_step {k : Nat} {c : Hp.St} {cuts : Cuts} {e : Ev} {pc : Pc} {cold : Bool} {ov : Nat}
    {l1 l2 : List CStep} {st : CStep} {taken : Cells} {S : List Obs}
    (h1 : ∀ x ∈ l1, stepLoc k cold x ≠ parseLoc e.loc) (hq : stepLoc k cold st = parseLoc e.loc) :
    colStep k c cuts e pc cold ov (l1 ++ st :: l2) taken S = colStep k c cuts e pc cold ov (st :: (l1 ++ l2)) taken S := by
  have hf1 : ∀ x ∈ l1, (fun st => stepLoc k cold st == parseLoc e.loc) x = false := by
    intro x hx; simpa using h1 x hx
  have hfq : (fun st => stepLoc k cold st == parseLoc e.loc) st = true := by simpa using hq
  have e1 := splitFirst_of_first l1 st l2 hf1 hfq
  have e2 := splitFirst_of_first (f := fun st => stepLoc k cold st == parseLoc e.loc) [] st (l1 ++ l2) (by simp) hfq
  simp only [List.nil_append] at e2
  unfold colStep
  simp only [e1, e2]
  cases st <;> simp

/-- **an `addHot` before its `swap` is rejected**: the step the event selects is `addHot cell` while
    `swap cell` is still to be done -/
theorem colStep_rejects_addHot_before_swap {k : Nat} {c : Hp.St} {cuts : Cuts} {e : Ev} {pc : Pc} {cold : Bool}
    {ov cell : Nat} {l1 l2 : List CStep} {taken : Cells} {S : List Obs}
    (h1 : ∀ x ∈ l1, stepLoc k cold x ≠ parseLoc e.loc) (hq : stepLoc k cold (.addHot cell) = parseLoc e.loc)
    (hs : CStep.swap cell ∈ l1 ++ l2) :
    ∃ m, colStep k c cuts e pc cold ov (l1 ++ CStep.addHot cell :: l2) taken S = .error m := by
  have hf1 : ∀ x ∈ l1, (fun st => stepLoc k cold st == parseLoc e.loc) x = false := by
    intro x hx; simpa using h1 x hx
  have hfq : (fun st => stepLoc k cold st == parseLoc e.loc) (CStep.addHot cell) = true := by simpa using hq
  have e1 := splitFirst_of_first l1 (CStep.addHot cell) l2 hf1 hfq
  have hc : (l1 ++ l2).contains (CStep.swap cell) = true := by simpa using hs
  unfold colStep
  simp only [e1, hc, if_true]
  exact ⟨_, rfl⟩

/-- **an `unlock` before the end is rejected**: the event selects the `unlock` while other steps are left -/
theorem colStep_rejects_early_unlock {k : Nat} {c : Hp.St} {cuts : Cuts} {e : Ev} {pc : Pc} {cold : Bool}
    {ov : Nat} {l1 l2 : List CStep} {taken : Cells} {S : List Obs}
    (h1 : ∀ x ∈ l1, stepLoc k cold x ≠ parseLoc e.loc) (hq : stepLoc k cold .unlock = parseLoc e.loc)
    (hne : l1 ++ l2 ≠ []) :
    ∃ m, colStep k c cuts e pc cold ov (l1 ++ CStep.unlock :: l2) taken S = .error m := by
  have hf1 : ∀ x ∈ l1, (fun st => stepLoc k cold st == parseLoc e.loc) x = false := by
    intro x hx; simpa using h1 x hx
  have hfq : (fun st => stepLoc k cold st == parseLoc e.loc) CStep.unlock = true := by simpa using hq
  have e1 := splitFirst_of_first l1 CStep.unlock l2 hf1 hfq
  have hc : (!(l1 ++ l2).isEmpty) = true := by
    cases h : l1 ++ l2 with
    | nil => exact absurd h hne
    | cons _ _ => rfl
  unfold colStep
  simp only [e1, hc, if_true]
  exact ⟨_, rfl⟩

/-- **an event no remaining step works on is rejected** (unless it is the `fetch_add(0)` of an `addHot` the
    machine has taken silently): in particular a second swap of a cold cell - the list is duplicate-free
    (`Hp.TodoWf`), so once `swap cell` is taken no step on that cold cell is left - and a second `addHot` -/
theorem colStep_rejects_no_step {k : Nat} {c : Hp.St} {cuts : Cuts} {e : Ev} {pc : Pc} {cold : Bool}
    {ov : Nat} {todo : List CStep} {taken : Cells} {S : List Obs}
    (h : ∀ x ∈ todo, stepLoc k cold x ≠ parseLoc e.loc) (hz : ∀ z ∈ pc.zeros, parseLoc e.loc ≠ .bkt (!cold) z) :
    ∃ m, colStep k c cuts e pc cold ov todo taken S = .error m := by
  have e1 : splitFirst (fun st => stepLoc k cold st == parseLoc e.loc) todo = none := by
    cases hs : splitFirst (fun st => stepLoc k cold st == parseLoc e.loc) todo with
    | none => rfl
    | some t =>
      obtain ⟨l1, q, l2⟩ := t
      obtain ⟨e1, e2, _⟩ := splitFirst_spec hs
      exact absurd (by simpa using e2) (h q (by rw [e1]; simp))
  have e2 : pc.zeros.find? (fun z => parseLoc e.loc == .bkt (!cold) z) = none := by
    rw [List.find?_eq_none]
    intro z hz'; simpa using hz z hz'
  unfold colStep
  simp only [e1, e2]
  exact ⟨_, rfl⟩

/-- **the load of a test-and-test-and-set wait loop is accepted**: while a collector spins, a load (any
    ordering) of the cold shard's count that returns the count changes nothing at all -/
theorem colSpin_load_accepted {k : Nat} {c : Hp.St} {cuts : Cuts} {pc : Pc} {cold : Bool} {ov : Nat} {S : List Obs}
    (ht : pc.task = some (.colSpin cold ov S)) (t : Nat) (l o : String) (a b : UInt64) (ok : Bool)
    (hl : parseLoc l = .cnt cold) :
    evStep k c cuts ⟨t, "L", l, o, a, b, (c.sh cold).count.toUInt64, ok⟩ pc = .ok ((c, pc, none), cuts) := by
  have hrel : ordGe o "Relaxed" = true := by simp [ordGe]
  unfold evStep evStep1
  simp [ht, hl, hrel, Conc.guard, plainR]

/-- the check of one event against the current task is a stutter, exactly one step, or (the collector's swap
    of a bucket that holds 0, `swapRes_refines`) exactly two steps -/
theorem evStep1_refines {k : Nat} {c : Hp.St} {cuts : Cuts} {e : Ev} {pc : Pc} {c' : Hp.St} {pc' : Pc}
    {rv : Option String} {cuts' : Cuts}
    (h : evStep1 k c cuts e pc = .ok ((c', pc', rv), cuts')) (pre post : List Task) :
    withTasks c' (pre ++ pc'.task.toList ++ post) = withTasks c (pre ++ pc.task.toList ++ post) ∨
    Hp.Step k (withTasks c (pre ++ pc.task.toList ++ post)) (withTasks c' (pre ++ pc'.task.toList ++ post)) ∨
    ∃ ts, Hp.Step k (withTasks c (pre ++ pc.task.toList ++ post)) (withTasks c ts) ∧
          Hp.Step k (withTasks c ts) (withTasks c' (pre ++ pc'.task.toList ++ post)) := by
  unfold evStep1 at h
  simp only at h
  split at h
  · -- count
    rw [plainR_ok, guard_ok] at h
    obtain ⟨⟨_, h⟩, _⟩ := h; cases h
    next ht => left; rfl
  · -- obsStart
    next o ht =>
    rw [plainR_ok] at h
    obtain ⟨h, _⟩ := h
    rcases fetchAdd_cases h with ⟨⟨ic, f, hr⟩, _⟩ | ⟨hr, _⟩
    · cases hr; left; rfl
    · cases hr
      right; left
      have := Step.claim (k := k) (withTasks c (pre ++ pc.task.toList ++ post)) pre post o (by simp [withTasks, ht])
      simpa [withTasks, ht, faDone] using this
  · -- obsRun, an update left: the entry the event's location selects
    next o b p l ht =>
    have hsp := pick_spec k b (parseLoc e.loc) p l
    generalize pick k b (parseLoc e.loc) p l = sp at h hsp
    obtain ⟨l1, ⟨cell, a⟩, l2⟩ := sp
    simp only at hsp h
    have hstep := Step.apply (k := k) (withTasks c (pre ++ pc.task.toList ++ post)) pre post o b cell a l1 l2 (by simp [withTasks, ht, hsp])
    simp only [obsEntry] at h
    split at h
    · rw [plainR_ok] at h
      obtain ⟨h, _⟩ := h
      rcases fetchAdd_cases h with ⟨⟨ic, f, hr⟩, _⟩ | ⟨hr, _⟩
      · cases hr; left; rfl
      · cases hr; right; left; simpa [withTasks, ht, faDone] using hstep
    · rw [plainR_ok] at h
      obtain ⟨h, _⟩ := h
      rcases casLoop_cases h with ⟨h1, h2, _⟩ | h1
      · simp only at h1 h2; subst h1; left; simp [withTasks, h2]
      · cases h1; right; left; simpa [withTasks, ht] using hstep
  · -- obsRun, publish
    next o b ht =>
    rw [plainR_ok] at h
    obtain ⟨h, _⟩ := h
    rcases fetchAdd_cases h with ⟨⟨ic, f, hr⟩, _⟩ | ⟨hr, _⟩
    · cases hr; left; rfl
    · cases hr
      right; left
      have := Step.publish (k := k) (withTasks c (pre ++ pc.task.toList ++ post)) pre post o b (by simp [withTasks, ht])
      simpa [withTasks, ht, faDone] using this
  · -- colWant: acquire
    next ht =>
    rw [plainR_ok, guard_ok] at h
    obtain ⟨⟨hg, h⟩, _⟩ := h; cases h
    right; left
    have hl : c.lock = false := by simp at hg; exact hg.2
    have := Step.acquire (k := k) (withTasks c (pre ++ pc.task.toList ++ post)) pre post (by simp [withTasks, ht]) (by simp [withTasks, hl])
    simpa [withTasks, ht] using this
  · -- colLocked
    next ht =>
    split at h
    · split at h
      · rw [plainR_ok, guard_ok] at h
        obtain ⟨⟨_, h⟩, _⟩ := h; cases h; left; rfl
      · split at h
        · rw [plainR_ok, guard_ok] at h
          obtain ⟨⟨_, h⟩, _⟩ := h; cases h; left; rfl
        · rw [plainR_ok, guard_ok] at h
          obtain ⟨⟨_, h⟩, _⟩ := h; cases h
          right; left
          have := Step.release (k := k) (withTasks c (pre ++ pc.task.toList ++ post)) pre post (by simp [withTasks, ht])
          simpa [withTasks, ht] using this
    · rw [plainR_ok] at h
      obtain ⟨h, _⟩ := h
      rcases fetchAdd_cases h with ⟨⟨ic, f, hr⟩, _⟩ | ⟨hr, _⟩
      · cases hr; left; rfl
      · cases hr
        right; left
        have := Step.flip (k := k) (withTasks c (pre ++ pc.task.toList ++ post)) pre post (by simp [withTasks, ht])
        simpa [withTasks, ht, faDone] using this
  · -- colSpin
    next cold ov S ht =>
    split at h
    · -- the load of the test-and-test-and-set loop
      rw [plainR_ok, guard_ok] at h
      obtain ⟨⟨_, h⟩, _⟩ := h; cases h; left; rfl
    · rw [plainR_ok, guard_ok] at h
      obtain ⟨⟨_, h⟩, _⟩ := h
      split at h
      · rw [guard_ok] at h
        obtain ⟨hg, h⟩ := h; cases h
        right; left
        have hc : (c.sh cold).count = ov := by simpa using hg
        have := Step.spinOk (k := k) (withTasks c (pre ++ pc.task.toList ++ post)) pre post cold ov S (by simp [withTasks, ht]) (by simp [withTasks, hc])
        simpa [withTasks, ht] using this
      · rw [guard_ok] at h
        obtain ⟨_, h⟩ := h; cases h; left; rfl
  · -- colMove
    next cold ov todo taken S ht => exact colStep_refines ht h pre post

/-- **one accepted event** is a stutter, exactly one step of the proof model, or — when a collector swapped 0
    out of a cold bucket and thereby took the no-op `addHot` of that bucket too (`skipTask`) — exactly two
    steps, the first of which (the swap of a cell that holds 0) changes nothing but the collector's task (`ts`) -/
theorem evStep_refines {k : Nat} {c : Hp.St} {cuts : Cuts} {e : Ev} {pc : Pc} {c' : Hp.St} {pc' : Pc}
    {rv : Option String} {cuts' : Cuts}
    (h : evStep k c cuts e pc = .ok ((c', pc', rv), cuts')) (pre post : List Task) :
    withTasks c' (pre ++ pc'.task.toList ++ post) = withTasks c (pre ++ pc.task.toList ++ post) ∨
    Hp.Step k (withTasks c (pre ++ pc.task.toList ++ post)) (withTasks c' (pre ++ pc'.task.toList ++ post)) ∨
    ∃ ts, Hp.Step k (withTasks c (pre ++ pc.task.toList ++ post)) (withTasks c ts) ∧
          Hp.Step k (withTasks c ts) (withTasks c' (pre ++ pc'.task.toList ++ post)) :=
  evStep1_refines h pre post

theorem closeCall_pc {Pc} {th th' : Th Pc} {i v : String} (h : closeCall th i v = .ok th') : th'.pc = th.pc := by
  unfold closeCall at h
  split at h
  · cases h
  · split at h
    · cases h
    · split at h
      · cases h
      · cases h; rfl

theorem abs_eq (s : St) : abs s = withTasks s.core (s.ths.filterMap taskOf) := rfl

theorem planObs_cases {k : Nat} {n : String} {o : Obs} {pc : Pc} (h : planObs k n o = .ok (some pc)) :
    pc.task = some (.obsStart o) ∧ 1 ≤ o.w ∧ WfUpd k o.upd := by
  unfold planObs at h
  split at h
  · cases h
  · split at h
    · next hg =>
      cases h
      simp only [Bool.and_eq_true, decide_eq_true_eq, List.all_eq_true] at hg
      exact ⟨rfl, hg.1, fun p hp => hg.2 p hp⟩
    · cases h

/-- the tasks a call can start as -/
theorem planCall_cases {s : St} {op : String} {pc : Pc} (h : planCall s op = .ok (some pc)) :
    (∃ o, pc.task = some (.obsStart o) ∧ 1 ≤ o.w ∧ WfUpd s.bounds.length o.upd) ∨ pc.task = some .colWant ∨ pc.task = none := by
  unfold planCall at h
  simp only at h
  split at h
  · exact .inl ⟨_, planObs_cases h⟩
  · split at h
    · cases h; right; left; rfl
    · split at h
      · cases h; right; left; rfl
      · split at h
        · cases h; right; right; rfl
        · cases h

/-- **every accepted item** is a stutter, exactly one step of the proof model, or (an event at which a
    collector skipped the no-op `fetch_add(0)` of an `addHot` step) exactly two steps, the first of which
    is that `addHot` of 0: it changes nothing but the task list (`ts`) -/
theorem item_refines {s s' : St} {it : Item} (h : item s it = .ok s') :
    s'.bounds = s.bounds ∧ (abs s' = abs s ∨ Hp.Step s.bounds.length (abs s) (abs s') ∨
      ∃ ts, Hp.Step s.bounds.length (abs s) (withTasks s.core ts) ∧
            Hp.Step s.bounds.length (withTasks s.core ts) (abs s')) := by
  cases it with
  | ev e =>
    simp only [item] at h
    split at h
    · cases h
    · next th hth =>
      split at h
      · cases h
      · next pc hpc =>
        split at h
        · cases h
        · next c' pc' rv cuts' hev =>
          have hT : taskOf th = pc.task := by simp [taskOf, hpc]
          split at h
          · cases h
            obtain ⟨pre, post, h1, h2⟩ := filterMap_set_split taskOf s.ths e.tid th { th with pc := some pc' } hth
            refine ⟨rfl, ?_⟩
            have := evStep_refines hev pre post
            rw [abs_eq, abs_eq]
            simp only [h2, h1, hT]
            simpa [taskOf] using this
          · next v =>
            split at h
            · cases h
            · next hn =>
              cases h
              obtain ⟨pre, post, h1, h2⟩ := filterMap_set_split taskOf s.ths e.tid th { th with pc := none, retv := some v } hth
              refine ⟨rfl, ?_⟩
              have := evStep_refines hev pre post
              have hn' : pc'.task = none := by cases hh : pc'.task <;> simp_all
              rw [abs_eq, abs_eq]
              simp only [h2, h1, hT]
              simpa [taskOf, hn'] using this
  | call t i op =>
    simp only [item] at h
    split at h
    · cases h
    · next th hth =>
      split at h
      · cases h
      · next plan hplan =>
        split at h
        · cases h
        · next hopen =>
          have hpcn : th.pc = none := by
            cases hh : th.pc <;> simp_all
          have hT : taskOf th = none := by simp [taskOf, hpcn]
          split at h
          · cases h
          · split at h
            · cases h
            · split at h
              · cases h
                obtain ⟨pre, post, h1, h2⟩ := filterMap_set_split taskOf s.ths t th { th with retv := some "" } hth
                refine ⟨rfl, .inl ?_⟩
                rw [abs_eq, abs_eq]
                simp only [h2, h1, hT]
                simp [taskOf, hpcn]
              · next pc =>
                cases h
                obtain ⟨pre, post, h1, h2⟩ := filterMap_set_split taskOf s.ths t th { th with pc := some pc } hth
                refine ⟨rfl, ?_⟩
                rw [abs_eq, abs_eq]
                simp only [h2, h1, hT]
                have hT' : taskOf { th with pc := some pc } = pc.task := by simp [taskOf]
                rw [hT']
                rcases planCall_cases hplan with ⟨o, ho, hw, hu⟩ | hc | hn
                · right; left
                  have := Step.spawnObs (k := s.bounds.length) (withTasks s.core (pre ++ post)) pre post o hw hu rfl
                  simpa [withTasks, ho] using this
                · right; left
                  have := Step.spawnCol (k := s.bounds.length) (withTasks s.core (pre ++ post)) pre post rfl
                  simpa [withTasks, hc] using this
                · left; simp [hn]
  | ret t i v =>
    simp only [item] at h
    split at h
    · cases h
    · next th hth =>
      split at h
      · next th' hc =>
        cases h
        obtain ⟨pre, post, h1, h2⟩ := filterMap_set_split taskOf s.ths t th th' hth
        refine ⟨rfl, .inl ?_⟩
        rw [abs_eq, abs_eq]
        simp only [h2, h1]
        simp [taskOf, closeCall_pc hc]
      · cases h
  | other x => simp [item] at h

/-- states the machine reaches from its initial state by accepting items -/
inductive MReach (bounds : List UInt64) (prog : List (List String)) : St → Prop
  | init : MReach bounds prog (init bounds prog)
  | step {s s' it} : MReach bounds prog s → item s it = .ok s' → MReach bounds prog s'

theorem mreach_bounds {bounds prog s} (h : MReach bounds prog s) : s.bounds = bounds := by
  induction h with
  | init => rfl
  | step _ hs ih => rw [(item_refines hs).1, ih]

theorem abs_init (bounds prog) : abs (init bounds prog) = Hp.init := by
  simp [abs, init, Hp.init, taskOf]

/-- **every state the replay machine reaches is a reachable state of the proof model** -/
theorem mreach_reach {bounds prog s} (h : MReach bounds prog s) : Hp.Reach bounds.length (abs s) := by
  induction h with
  | init => rw [abs_init]; exact Reach.init
  | step hr hs ih =>
    have hb := mreach_bounds hr
    rcases (item_refines hs).2 with he | hst | ⟨ts, h1, h2⟩
    · rw [he]; exact ih
    · rw [hb] at hst; exact Reach.step ih hst
    · rw [hb] at h1 h2; exact Reach.step (Reach.step ih h1) h2

theorem runItems_mreach {bounds prog} : ∀ (tr : List Item) (s s' : St) (n : Nat), MReach bounds prog s →
    runItems item s tr n = .ok s' → MReach bounds prog s'
  | [], s, s', n, hr, h => by simp [runItems] at h; subst h; exact hr
  | it :: r, s, s', n, hr, h => by
    simp only [runItems] at h
    split at h
    · next s1 hs => exact runItems_mreach r s1 s' (n + 1) (MReach.step hr hs) h
    · cases h

end Prom.HM
