import Prom.Model.HistMachine
import Prom.Lemmas.Guard
import Prom.HP.Order
/-
Refinement: every item the replay machine `Prom.HM.item` accepts is a stutter, exactly one
`Hp.Step` of the abstraction `HM.abs`, or exactly two (only when a collector skipped the no-op
`fetch_add(0)` of an `addHot` step: the first of the two is that `addHot` of 0). Hence every state the machine reaches while replaying a
trace of the real implementation is `Hp.Reach`able, and the C02 / C03 theorems hold of it.
-/
namespace Prom.HM
open Prom Prom.Conc Hp

theorem plainR_ok {cuts : Cuts} {r : Except String Res} {x : Res} {cuts' : Cuts} :
    plainR cuts r = .ok (x, cuts') ↔ r = .ok x ∧ cuts' = cuts := by
  unfold plainR; split <;> simp_all [eq_comm]

theorem filterMap_set_split {α β} (f : α → Option β) (l : List α) (i : Nat) (a a' : α) (h : l[i]? = some a) :
    ∃ pre post, l.filterMap f = pre ++ (f a).toList ++ post ∧
      (l.set i a').filterMap f = pre ++ (f a').toList ++ post := by
  induction l generalizing i with
  | nil => simp at h
  | cons x r ih =>
    cases i with
    | zero =>
      simp at h; subst h
      refine ⟨[], r.filterMap f, ?_, ?_⟩
      · cases hf : f x <;> simp [List.filterMap_cons, hf]
      · cases hf : f a' <;> simp [List.filterMap_cons, hf]
    | succ j =>
      simp at h
      obtain ⟨pre, post, h1, h2⟩ := ih j h
      cases hf : f x with
      | none => exact ⟨pre, post, by simp [List.filterMap_cons, hf, h1], by simp [List.filterMap_cons, hf, h2]⟩
      | some y => exact ⟨y :: pre, post, by simp [List.filterMap_cons, hf, h1], by simp [List.filterMap_cons, hf, h2]⟩

/-- a core state with its task list replaced -/
def withTasks (c : Hp.St) (ts : List Task) : Hp.St := { c with tasks := ts }

end Prom.HM

namespace Prom.HM
open Prom Prom.Conc Hp

theorem casLoop_cases {e : Ev} {c : Hp.St} {pc : Pc} {b : Bool} {cell : Nat} {a : Int} {onOk r : Res}
    (h : casLoop e c pc b cell a onOk = .ok r) :
    (r.1 = c ∧ r.2.1.task = pc.task ∧ r.2.2 = none) ∨ r = onOk := by
  unfold casLoop at h
  split at h
  · unfold casLoad at h
    rw [guard_ok] at h; obtain ⟨_, h⟩ := h; cases h; exact .inl ⟨rfl, rfl, rfl⟩
  · split at h
    · unfold casLoad at h
      rw [guard_ok] at h; obtain ⟨_, h⟩ := h; cases h; exact .inl ⟨rfl, rfl, rfl⟩
    · rw [guard_ok] at h; obtain ⟨_, h⟩ := h
      split at h
      · rw [guard_ok] at h; obtain ⟨_, h⟩ := h; cases h; exact .inr rfl
      · rw [guard_ok] at h; obtain ⟨_, h⟩ := h; cases h; exact .inl ⟨rfl, rfl, rfl⟩

/-- **both loops are accepted** — after a failed compare-exchange (`cur` is the value it reported and
    `failed` is set) the loop accepts a load exactly as a fresh load does (the reloading loop) and
    every other event exactly as the compare-exchange expecting the reported value does (the loop
    `Err(v) => cur = v`) -/
theorem casLoop_after_failure (e : Ev) (c : Hp.St) (pc : Pc) (b : Bool) (cell : Nat) (a : Int) (onOk : Res)
    (cur : Int) (hc : pc.cur = some cur) (hf : pc.failed = true) :
    casLoop e c pc b cell a onOk =
      if e.k = "L" then casLoop e c { pc with cur := none } b cell a onOk
      else casLoop e c { pc with failed := false } b cell a onOk := by
  unfold casLoop
  by_cases hk : e.k = "L"
  · simp [hc, hf, hk, casLoad]
  · simp [hc, hf, hk]

/-- a failed compare-exchange of the loop changes nothing and leaves the call with the reported value
    as `cur` and `failed` set (so that `casLoop_after_failure` applies to the next event) -/
theorem casLoop_failure {e : Ev} {c : Hp.St} {pc : Pc} {b : Bool} {cell : Nat} {a : Int} {onOk r : Res}
    (h : casLoop e c pc b cell a onOk = .ok r) (hk : e.k = "C") (hok : e.ok = false) :
    r = (c, { pc with cur := some ((c.sh b).cell cell), failed := true }, none) ∧
      e.res = f64OfInt ((c.sh b).cell cell) := by
  have hload : ∀ x, casLoad e c pc b x = .ok r → False := by
    intro x h
    unfold casLoad at h
    rw [guard_ok] at h
    simp [hk] at h
  unfold casLoop at h
  split at h
  · exact (hload _ h).elim
  · split at h
    · exact (hload _ h).elim
    · rw [guard_ok] at h; obtain ⟨_, h⟩ := h
      simp only [hok, Bool.false_eq_true, if_false] at h
      rw [guard_ok] at h; obtain ⟨hg, h⟩ := h
      simp only [Bool.and_eq_true, beq_iff_eq] at hg
      cases h
      exact ⟨rfl, hg.2⟩

/-! ### one `fetch_add` site: the single `fetch_add` or the compare-exchange loop -/

/-- the call state after the step of a `fetch_add` site: the loop state of the site is cleared -/
def faDone (onOk : Res) : Res := (onOk.1, { onOk.2.1 with icur := none, ifailed := false }, onOk.2.2)

/-- **what a `fetch_add` site accepts** — either a stutter: a load of the cell or a FAILED compare-exchange on
    it, which changes nothing but the loop state of the call (`icur`, `ifailed`); or THE step: the single
    `fetch_add` or a SUCCESSFUL compare-exchange on the cell, with the ordering the site needs, which read the
    cell's current pattern `x` and does what the site does (`onOk`), the site's side condition holding -/
theorem fetchAdd_cases {e : Ev} {c : Hp.St} {pc : Pc} {loc : Loc} {ord : String} {a x : UInt64} {ok : Bool}
    {msg : String} {onOk r : Res} (h : fetchAdd e c pc loc ord a x ok msg onOk = .ok r) :
    ((∃ ic f, r = (c, { pc with icur := ic, ifailed := f }, none)) ∧ parseLoc e.loc = loc ∧
        (e.k = "L" ∨ (e.k = "C" ∧ e.ok = false))) ∨
    (r = faDone onOk ∧ ok = true ∧ parseLoc e.loc = loc ∧ ordGe e.ord ord = true ∧ e.res = x ∧
        (e.k = "A" ∨ (e.k = "C" ∧ e.ok = true))) := by
  have hload : ∀ {x' : UInt64}, faLoad e c pc loc x' msg = .ok r →
      (∃ ic f, r = (c, { pc with icur := ic, ifailed := f }, none)) ∧ parseLoc e.loc = loc ∧
        (e.k = "L" ∨ (e.k = "C" ∧ e.ok = false)) := by
    intro x' h
    unfold faLoad at h
    rw [guard_ok] at h; obtain ⟨hg, h⟩ := h
    simp only [Bool.and_eq_true, beq_iff_eq] at hg
    cases h
    exact ⟨⟨_, _, rfl⟩, hg.1.1.2, .inl hg.1.1.1⟩
  unfold fetchAdd at h
  simp only at h
  split at h
  · next hk =>
    rw [guard_ok] at h; obtain ⟨hg, h⟩ := h
    simp only [Bool.and_eq_true, beq_iff_eq] at hg
    cases h
    exact .inr ⟨rfl, hg.1.2, hg.1.1.1.1.1, hg.1.1.1.1.2, hg.1.1.2, .inl (by simpa using hk)⟩
  · split at h
    · exact .inl (hload h)
    · split at h
      · exact .inl (hload h)
      · rw [guard_ok] at h; obtain ⟨hg, h⟩ := h
        simp only [Bool.and_eq_true, beq_iff_eq] at hg
        split at h
        · next hok =>
          rw [guard_ok] at h; obtain ⟨hc, h⟩ := h
          simp only [Bool.and_eq_true, beq_iff_eq] at hc
          cases h
          exact .inr ⟨rfl, hc.2, hg.1.1.1.2, hg.1.1.2, by rw [hc.1.2, hc.1.1], .inr ⟨hg.1.1.1.1, hok⟩⟩
        · next hok =>
          rw [guard_ok] at h; obtain ⟨_, h⟩ := h
          cases h
          exact .inl ⟨⟨_, _, rfl⟩, hg.1.1.1.2, .inr ⟨hg.1.1.1.1, by simpa using hok⟩⟩

/-- **the single `fetch_add` is accepted** (as before): on the site's cell, with an ordering at least the
    site's, the site's operand, returning the cell's pattern, no loop in progress - it is the site's step -/
theorem fetchAdd_single {e : Ev} {c : Hp.St} {pc : Pc} {loc : Loc} {ord : String} {a x : UInt64} {ok : Bool}
    {msg : String} {onOk : Res} (hk : e.k = "A") (hl : parseLoc e.loc = loc) (ho : ordGe e.ord ord = true)
    (ha : e.a = a) (hr : e.res = x) (hok : ok = true) (hi : pc.icur = none) :
    fetchAdd e c pc loc ord a x ok msg onOk = .ok (faDone onOk) := by
  simp [fetchAdd, hk, hl, ho, ha, hr, hok, hi, Conc.guard, faDone]

/-- **the loop's load is accepted**: with no loop in progress, a load (any ordering) of the site's cell that
    returns the cell's pattern `x` changes nothing; the call remembers `x` -/
theorem fetchAdd_load {e : Ev} {c : Hp.St} {pc : Pc} {loc : Loc} {ord : String} {a x : UInt64} {ok : Bool}
    {msg : String} {onOk : Res} (hk : e.k = "L") (hl : parseLoc e.loc = loc) (hr : e.res = x) (hi : pc.icur = none) :
    fetchAdd e c pc loc ord a x ok msg onOk = .ok (c, { pc with icur := some x, ifailed := false }, none) := by
  have hrel : ordGe e.ord "Relaxed" = true := by simp [ordGe]
  simp [fetchAdd, faLoad, hk, hl, hr, hi, hrel, Conc.guard]

/-- **the loop's successful compare-exchange is accepted and is the site's step**: expecting the remembered
    pattern `cur`, installing `cur + a` (wrapping), with an ordering at least the site's, when the cell still
    holds `cur` - exactly what the single `fetch_add` does -/
theorem fetchAdd_cas_ok {e : Ev} {c : Hp.St} {pc : Pc} {loc : Loc} {ord : String} {a x cur : UInt64} {ok : Bool}
    {msg : String} {onOk : Res} (hi : pc.icur = some cur) (hk : e.k = "C") (hl : parseLoc e.loc = loc)
    (ho : ordGe e.ord ord = true) (ha : e.a = cur) (hb : e.b = cur + a) (hs : e.ok = true)
    (hx : x = cur) (hr : e.res = cur) (hok : ok = true) :
    fetchAdd e c pc loc ord a x ok msg onOk = .ok (faDone onOk) := by
  simp [fetchAdd, hi, hk, hl, ho, ha, hb, hs, hx, hr, hok, Conc.guard, faDone]

/-- **a failed compare-exchange of the loop** (the cell changed, or spuriously) that reports the cell's pattern
    `x` changes nothing; the call goes on with `x` as expected value and may also load again -/
theorem fetchAdd_cas_failed {e : Ev} {c : Hp.St} {pc : Pc} {loc : Loc} {ord : String} {a x cur : UInt64} {ok : Bool}
    {msg : String} {onOk : Res} (hi : pc.icur = some cur) (hk : e.k = "C") (hl : parseLoc e.loc = loc)
    (ho : ordGe e.ord ord = true) (ha : e.a = cur) (hb : e.b = cur + a) (hs : e.ok = false) (hr : e.res = x) :
    fetchAdd e c pc loc ord a x ok msg onOk = .ok (c, { pc with icur := some x, ifailed := true }, none) := by
  simp [fetchAdd, hi, hk, hl, ho, ha, hb, hs, hr, Conc.guard]

/-- **both loops are accepted at a `fetch_add` site** — after a failed compare-exchange (`icur` is the pattern
    it reported and `ifailed` is set) the site accepts a load exactly as a fresh load (the reloading loop)
    and every other event exactly as the compare-exchange expecting the reported pattern does -/
theorem fetchAdd_after_failure (e : Ev) (c : Hp.St) (pc : Pc) (loc : Loc) (ord : String) (a x : UInt64) (ok : Bool)
    (msg : String) (onOk : Res) (cur : UInt64) (hc : pc.icur = some cur) (hf : pc.ifailed = true) :
    fetchAdd e c pc loc ord a x ok msg onOk =
      if e.k = "L" then fetchAdd e c { pc with icur := none } loc ord a x ok msg onOk
      else fetchAdd e c { pc with ifailed := false } loc ord a x ok msg onOk := by
  unfold fetchAdd
  by_cases hk : e.k = "L"
  · simp [hc, hf, hk, faLoad]
  · simp [hc, hf, hk]

/-! ### the updates of one observation in any order -/

/-- what `splitFirst` returns is a split of the list at an entry satisfying `f` before which no
    entry satisfies `f` -/
theorem splitFirst_spec {f : Nat × Int → Bool} : ∀ {l : List (Nat × Int)} {l1 q l2},
    splitFirst f l = some (l1, q, l2) → l = l1 ++ q :: l2 ∧ f q = true ∧ ∀ x ∈ l1, f x = false
  | [], _, _, _, h => by simp [splitFirst] at h
  | p :: l, l1, q, l2, h => by
    simp only [splitFirst] at h
    split at h
    · next hp => cases h; exact ⟨rfl, hp, by simp⟩
    · next hp =>
      split at h
      · next m1 q' m2 hm =>
        cases h
        obtain ⟨e1, e2, e3⟩ := splitFirst_spec hm
        refine ⟨by rw [e1]; rfl, e2, ?_⟩
        intro x hx
        simp only [List.mem_cons] at hx
        rcases hx with rfl | hx
        · simpa using hp
        · exact e3 x hx
      · cases h

/-- `splitFirst` fails only if no entry satisfies `f` -/
theorem splitFirst_none {f : Nat × Int → Bool} : ∀ {l : List (Nat × Int)},
    splitFirst f l = none → ∀ x ∈ l, f x = false
  | [], _ => by simp
  | p :: l, h => by
    simp only [splitFirst] at h
    split at h
    · cases h
    · next hp =>
      split at h
      · cases h
      · next hm =>
        intro x hx
        simp only [List.mem_cons] at hx
        rcases hx with rfl | hx
        · simpa using hp
        · exact splitFirst_none hm x hx

/-- the first entry satisfying `f` is found wherever it stands -/
theorem splitFirst_of_first {f : Nat × Int → Bool} : ∀ (l1 : List (Nat × Int)) (q : Nat × Int) (l2 : List (Nat × Int)),
    (∀ x ∈ l1, f x = false) → f q = true → splitFirst f (l1 ++ q :: l2) = some (l1, q, l2)
  | [], q, l2, _, hq => by simp [splitFirst, hq]
  | p :: l1, q, l2, h1, hq => by
    have hp : f p = false := h1 p (by simp)
    have ih := splitFirst_of_first l1 q l2 (fun x hx => h1 x (by simp [hx])) hq
    simp [splitFirst, hp, ih]

/-- `pick` splits the list it is given: nothing is lost, nothing is reordered but the picked entry -/
theorem pick_spec (k : Nat) (b : Bool) (loc : Loc) (p : Nat × Int) (l : List (Nat × Int)) :
    (pick k b loc p l).1 ++ (pick k b loc p l).2.1 :: (pick k b loc p l).2.2 = p :: l := by
  unfold pick
  cases h : splitFirst (hits k b loc) (p :: l) with
  | none => rfl
  | some t =>
    obtain ⟨l1, q, l2⟩ := t
    exact (splitFirst_spec h).1.symm

/-- `pick` selects the first entry the location addresses, wherever in the list it stands -/
theorem pick_of_hit {k : Nat} {b : Bool} {loc : Loc} {p : Nat × Int} {l l1 l2 : List (Nat × Int)} {q : Nat × Int}
    (hl : p :: l = l1 ++ q :: l2) (h1 : ∀ x ∈ l1, hits k b loc x = false) (hq : hits k b loc q = true) :
    pick k b loc p l = (l1, q, l2) := by
  unfold pick
  rw [hl, splitFirst_of_first l1 q l2 h1 hq]; rfl

/-- an event whose location addresses no entry is checked against the head -/
theorem pick_of_no_hit {k : Nat} {b : Bool} {loc : Loc} {p : Nat × Int} {l : List (Nat × Int)}
    (h : ∀ x ∈ p :: l, hits k b loc x = false) : pick k b loc p l = ([], p, l) := by
  unfold pick
  cases hs : splitFirst (hits k b loc) (p :: l) with
  | none => rfl
  | some t =>
    obtain ⟨l1, q, l2⟩ := t
    obtain ⟨e1, e2, _⟩ := splitFirst_spec hs
    have := h q (by rw [e1]; simp)
    rw [this] at e2; cases e2

/-! ### the silent `addHot` of 0 -/

/-- if `skipTask` leaves the task alone, `skipPc` leaves the call state alone -/
theorem skipPc_of_task_eq {k : Nat} {e : Ev} {pc : Pc} (h : skipTask k (parseLoc e.loc) pc.task = pc.task) :
    skipPc k e pc = pc := by
  unfold skipPc; rw [h]

/-- `skipTask` leaves a task alone, or drops the head `addHot cell` of a collector's program when
    `cell` is a bucket, the collector took 0 out of the cold bucket, and the event is not on the hot bucket -/
theorem skipTask_cases (k : Nat) (loc : Loc) (t : Option Task) :
    skipTask k loc t = t ∨
    ∃ cold ov cell todo taken S, t = some (.colMove cold ov (.addHot cell :: todo) taken S) ∧
      skipTask k loc t = some (.colMove cold ov todo taken S) ∧ cell < k ∧ taken cell = 0 ∧ loc ≠ .bkt (!cold) cell := by
  unfold skipTask
  split
  · next cold ov cell todo taken S =>
    split
    · next hc =>
      simp only [Bool.and_eq_true, decide_eq_true_eq, bne_iff_ne, ne_eq] at hc
      exact .inr ⟨cold, ov, cell, todo, taken, S, rfl, rfl, hc.1.1, hc.1.2, hc.2⟩
    · exact .inl rfl
  · exact .inl rfl

/-- only a collector whose next step is an `addHot` is ever affected -/
theorem skipTask_of_not_addHot {k : Nat} {loc : Loc} {t : Option Task}
    (h : ∀ cold ov cell todo taken S, t ≠ some (.colMove cold ov (.addHot cell :: todo) taken S)) :
    skipTask k loc t = t := by
  rcases skipTask_cases k loc t with h' | ⟨cold, ov, cell, todo, taken, S, ht, _⟩
  · exact h'
  · exact absurd ht (h cold ov cell todo taken S)

/-- for every task but a collector about to do an `addHot`, the event step is the plain check -/
theorem evStep_eq_evStep1 {k : Nat} {c : Hp.St} {cuts : Cuts} {e : Ev} {pc : Pc}
    (h : ∀ cold ov cell todo taken S, pc.task ≠ some (.colMove cold ov (.addHot cell :: todo) taken S)) :
    evStep k c cuts e pc = evStep1 k c cuts e pc := by
  unfold evStep; rw [skipPc_of_task_eq (skipTask_of_not_addHot h)]

/-- adding 0 to a cell changes nothing -/
theorem modSh_add_zero (sh : Bool → Shard) (b : Bool) (cell : Nat) :
    modSh sh b (fun x => { x with cell := setCell x.cell cell (x.cell cell + 0) }) = sh := by
  funext b'
  simp only [modSh]
  split
  · have : setCell (sh b').cell cell ((sh b').cell cell + 0) = (sh b').cell := by
      funext x
      simp only [setCell]
      split
      · next hx => rw [hx]; omega
      · rfl
    rw [this]
  · rfl

/-- **the skipped `fetch_add(0)` is a step of the proof model that changes nothing but the collector's
    program counter**: the abstract `addHot cell` with `taken cell = 0` -/
theorem skip_is_step {k : Nat} (c : Hp.St) (pre post : List Task) (cold : Bool) (ov cell : Nat) (todo : List CStep)
    (taken : Cells) (S : List Obs) (h0 : taken cell = 0) :
    Hp.Step k (withTasks c (pre ++ [Task.colMove cold ov (.addHot cell :: todo) taken S] ++ post))
      (withTasks c (pre ++ [Task.colMove cold ov todo taken S] ++ post)) := by
  have := Step.addHot (k := k) (withTasks c (pre ++ [Task.colMove cold ov (.addHot cell :: todo) taken S] ++ post))
    pre post cold ov cell todo taken S (by simp [withTasks])
  simp only [withTasks, h0, modSh_add_zero] at this
  simpa [withTasks] using this

/-- **the skip is accepted**: a collector whose next step is `addHot cell` on a bucket out of which it
    swapped 0 treats an event that is not on the hot bucket `cell` exactly as it would with that step
    already done -/
theorem addHot_zero_skipped {k : Nat} {c : Hp.St} {cuts : Cuts} {e : Ev} {pc : Pc} {cold : Bool} {ov cell : Nat}
    {todo : List CStep} {taken : Cells} {S : List Obs}
    (ht : pc.task = some (.colMove cold ov (.addHot cell :: todo) taken S))
    (hc : cell < k) (h0 : taken cell = 0) (hl : parseLoc e.loc ≠ .bkt (!cold) cell) :
    evStep k c cuts e pc = evStep1 k c cuts e { pc with task := some (.colMove cold ov todo taken S) } := by
  unfold evStep skipPc
  rw [ht]
  simp [skipTask, hc, h0, hl]

/-- … and in every other case (the event IS on the hot bucket, the swapped-out value is not 0, or the
    cell is the sum) nothing is skipped: the event is checked against the `addHot` step as before -/
theorem addHot_not_skipped {k : Nat} {c : Hp.St} {cuts : Cuts} {e : Ev} {pc : Pc} {cold : Bool} {ov cell : Nat}
    {todo : List CStep} {taken : Cells} {S : List Obs}
    (ht : pc.task = some (.colMove cold ov (.addHot cell :: todo) taken S))
    (h : ¬ (cell < k ∧ taken cell = 0 ∧ parseLoc e.loc ≠ .bkt (!cold) cell)) :
    evStep k c cuts e pc = evStep1 k c cuts e pc := by
  unfold evStep
  rw [skipPc_of_task_eq]
  rcases skipTask_cases k (parseLoc e.loc) pc.task with hs | ⟨cold', ov', cell', todo', taken', S', ht', _, h1, h2, h3⟩
  · exact hs
  · rw [ht] at ht'; cases ht'
    exact absurd ⟨h1, h2, h3⟩ h

/-- the `obsRun` arm of the machine is `obsEntry` on the entry `pick` selects -/
theorem evStep_obsRun {k : Nat} {c : Hp.St} {cuts : Cuts} {e : Ev} {pc : Pc} {o : Obs} {b : Bool}
    {p : Nat × Int} {l : List (Nat × Int)} (ht : pc.task = some (.obsRun o b (p :: l))) :
    evStep k c cuts e pc =
      plainR cuts (obsEntry k c e pc o b (pick k b (parseLoc e.loc) p l).2.1.1 (pick k b (parseLoc e.loc) p l).2.1.2
        ((pick k b (parseLoc e.loc) p l).1 ++ (pick k b (parseLoc e.loc) p l).2.2)) := by
  rw [evStep_eq_evStep1 (by intros; simp [ht])]
  unfold evStep1
  simp only [ht]

/-- **any order is accepted** — a running observation whose remaining updates are
    `l1 ++ (cell, a) :: l2` treats an event on the location of `(cell, a)` (the bucket `cell` of its
    shard if `cell < k`, the sum of its shard otherwise; no earlier entry of the list on the same
    location) exactly as it treats the event when that entry is the head: it checks the event against
    that entry (`obsEntry`), and `l1 ++ l2` is what remains. With `l1 = []` this is the old behaviour. -/
theorem obsRun_accepts_any_entry {k : Nat} {c : Hp.St} {cuts : Cuts} {e : Ev} {pc : Pc} {o : Obs} {b : Bool}
    {l1 l2 : List (Nat × Int)} {cell : Nat} {a : Int}
    (ht : pc.task = some (.obsRun o b (l1 ++ (cell, a) :: l2)))
    (h1 : ∀ x ∈ l1, hits k b (parseLoc e.loc) x = false)
    (hq : hits k b (parseLoc e.loc) (cell, a) = true) :
    evStep k c cuts e pc = plainR cuts (obsEntry k c e pc o b cell a (l1 ++ l2)) := by
  cases hl : l1 ++ (cell, a) :: l2 with
  | nil => simp at hl
  | cons p l =>
    rw [hl] at ht
    rw [evStep_obsRun ht, pick_of_hit hl.symm h1 hq]

/-- the same with the entry at the head: the two lists `l1 ++ (cell, a) :: l2` and
    `(cell, a) :: (l1 ++ l2)` are treated alike -/
theorem obsRun_entry_as_head {k : Nat} {c : Hp.St} {cuts : Cuts} {e : Ev} {pc pc₀ : Pc} {o : Obs} {b : Bool}
    {l1 l2 : List (Nat × Int)} {cell : Nat} {a : Int}
    (ht : pc.task = some (.obsRun o b (l1 ++ (cell, a) :: l2)))
    (ht₀ : pc₀.task = some (.obsRun o b ((cell, a) :: (l1 ++ l2))))
    (h1 : ∀ x ∈ l1, hits k b (parseLoc e.loc) x = false)
    (hq : hits k b (parseLoc e.loc) (cell, a) = true) :
    evStep k c cuts e pc = plainR cuts (obsEntry k c e pc o b cell a (l1 ++ l2)) ∧
    evStep k c cuts e pc₀ = plainR cuts (obsEntry k c e pc₀ o b cell a (l1 ++ l2)) :=
  ⟨obsRun_accepts_any_entry ht h1 hq,
   obsRun_accepts_any_entry (l1 := []) (by simpa using ht₀) (by simp) hq⟩

/-- an event that addresses none of the remaining entries is checked against the head entry, as before -/
theorem obsRun_no_entry {k : Nat} {c : Hp.St} {cuts : Cuts} {e : Ev} {pc : Pc} {o : Obs} {b : Bool}
    {p : Nat × Int} {l : List (Nat × Int)} (ht : pc.task = some (.obsRun o b (p :: l)))
    (h : ∀ x ∈ p :: l, hits k b (parseLoc e.loc) x = false) :
    evStep k c cuts e pc = plainR cuts (obsEntry k c e pc o b p.1 p.2 l) := by
  rw [evStep_obsRun ht, pick_of_no_hit h]; rfl

/-- a bucket update in the middle of a sum loop leaves the loop as it is: the value it has loaded
    (`cur`) and whether its last compare-exchange failed (`failed`) persist; the entry is done (the single
    `fetch_add`, or the successful compare-exchange of the bucket's own loop), or - a load / failed exchange
    of the bucket's own loop - nothing at all has happened -/
theorem obsEntry_bucket_keeps_loop {k : Nat} {c : Hp.St} {e : Ev} {pc : Pc} {o : Obs} {b : Bool} {cell : Nat}
    {a : Int} {rest : List (Nat × Int)} {r : Res} (hc : cell < k)
    (h : obsEntry k c e pc o b cell a rest = .ok r) :
    r.2.1.cur = pc.cur ∧ r.2.1.failed = pc.failed ∧
      (r.2.1.task = some (.obsRun o b rest) ∨ (r.2.1.task = pc.task ∧ r.1 = c ∧ r.2.2 = none)) := by
  simp only [obsEntry, hc, if_true] at h
  rcases fetchAdd_cases h with ⟨⟨ic, f, hr⟩, _⟩ | ⟨hr, _⟩
  · cases hr; exact ⟨rfl, rfl, .inr ⟨rfl, rfl, rfl⟩⟩
  · cases hr; exact ⟨rfl, rfl, .inl rfl⟩

/-- the check of one event against the current task is a stutter or exactly one step -/
theorem evStep1_refines {k : Nat} {c : Hp.St} {cuts : Cuts} {e : Ev} {pc : Pc} {c' : Hp.St} {pc' : Pc}
    {rv : Option String} {cuts' : Cuts}
    (h : evStep1 k c cuts e pc = .ok ((c', pc', rv), cuts')) (pre post : List Task) :
    withTasks c' (pre ++ pc'.task.toList ++ post) = withTasks c (pre ++ pc.task.toList ++ post) ∨
    Hp.Step k (withTasks c (pre ++ pc.task.toList ++ post)) (withTasks c' (pre ++ pc'.task.toList ++ post)) := by
  unfold evStep1 at h
  simp only at h
  split at h
  · -- count
    rw [plainR_ok, guard_ok] at h
    obtain ⟨⟨_, h⟩, _⟩ := h; cases h
    next ht => left; rfl
  · -- obsStart
    next o ht =>
    rw [plainR_ok] at h
    obtain ⟨h, _⟩ := h
    rcases fetchAdd_cases h with ⟨⟨ic, f, hr⟩, _⟩ | ⟨hr, _⟩
    · cases hr; left; rfl
    · cases hr
      right
      have := Step.claim (k := k) (withTasks c (pre ++ pc.task.toList ++ post)) pre post o (by simp [withTasks, ht])
      simpa [withTasks, ht, faDone] using this
  · -- obsRun, an update left: the entry the event's location selects
    next o b p l ht =>
    have hsp := pick_spec k b (parseLoc e.loc) p l
    generalize pick k b (parseLoc e.loc) p l = sp at h hsp
    obtain ⟨l1, ⟨cell, a⟩, l2⟩ := sp
    simp only at hsp h
    have hstep := Step.apply (k := k) (withTasks c (pre ++ pc.task.toList ++ post)) pre post o b cell a l1 l2 (by simp [withTasks, ht, hsp])
    simp only [obsEntry] at h
    split at h
    · rw [plainR_ok] at h
      obtain ⟨h, _⟩ := h
      rcases fetchAdd_cases h with ⟨⟨ic, f, hr⟩, _⟩ | ⟨hr, _⟩
      · cases hr; left; rfl
      · cases hr; right; simpa [withTasks, ht, faDone] using hstep
    · rw [plainR_ok] at h
      obtain ⟨h, _⟩ := h
      rcases casLoop_cases h with ⟨h1, h2, _⟩ | h1
      · simp only at h1 h2; subst h1; left; simp [withTasks, h2]
      · cases h1; right; simpa [withTasks, ht] using hstep
  · -- obsRun, publish
    next o b ht =>
    rw [plainR_ok] at h
    obtain ⟨h, _⟩ := h
    rcases fetchAdd_cases h with ⟨⟨ic, f, hr⟩, _⟩ | ⟨hr, _⟩
    · cases hr; left; rfl
    · cases hr
      right
      have := Step.publish (k := k) (withTasks c (pre ++ pc.task.toList ++ post)) pre post o b (by simp [withTasks, ht])
      simpa [withTasks, ht, faDone] using this
  · -- colWant: acquire
    next ht =>
    rw [plainR_ok, guard_ok] at h
    obtain ⟨⟨hg, h⟩, _⟩ := h; cases h
    right
    have hl : c.lock = false := by simp at hg; exact hg.2
    have := Step.acquire (k := k) (withTasks c (pre ++ pc.task.toList ++ post)) pre post (by simp [withTasks, ht]) (by simp [withTasks, hl])
    simpa [withTasks, ht] using this
  · -- colLocked
    next ht =>
    split at h
    · split at h
      · rw [plainR_ok, guard_ok] at h
        obtain ⟨⟨_, h⟩, _⟩ := h; cases h; left; rfl
      · split at h
        · rw [plainR_ok, guard_ok] at h
          obtain ⟨⟨_, h⟩, _⟩ := h; cases h; left; rfl
        · rw [plainR_ok, guard_ok] at h
          obtain ⟨⟨_, h⟩, _⟩ := h; cases h
          right
          have := Step.release (k := k) (withTasks c (pre ++ pc.task.toList ++ post)) pre post (by simp [withTasks, ht])
          simpa [withTasks, ht] using this
    · rw [plainR_ok] at h
      obtain ⟨h, _⟩ := h
      rcases fetchAdd_cases h with ⟨⟨ic, f, hr⟩, _⟩ | ⟨hr, _⟩
      · cases hr; left; rfl
      · cases hr
        right
        have := Step.flip (k := k) (withTasks c (pre ++ pc.task.toList ++ post)) pre post (by simp [withTasks, ht])
        simpa [withTasks, ht, faDone] using this
  · -- colSpin
    next cold ov S ht =>
    rw [plainR_ok, guard_ok] at h
    obtain ⟨⟨_, h⟩, _⟩ := h
    split at h
    · rw [guard_ok] at h
      obtain ⟨hg, h⟩ := h; cases h
      right
      have hc : (c.sh cold).count = ov := by simpa using hg
      have := Step.spinOk (k := k) (withTasks c (pre ++ pc.task.toList ++ post)) pre post cold ov S (by simp [withTasks, ht]) (by simp [withTasks, hc])
      simpa [withTasks, ht] using this
    · rw [guard_ok] at h
      obtain ⟨_, h⟩ := h; cases h; left; rfl
  · -- swap
    next cold ov cell todo taken S ht =>
    have hstep := Step.swap (k := k) (withTasks c (pre ++ pc.task.toList ++ post)) pre post cold ov cell todo taken S (by simp [withTasks, ht])
    split at h
    · rw [plainR_ok, guard_ok] at h
      obtain ⟨⟨_, h⟩, _⟩ := h; cases h
      right; simpa [withTasks, ht] using hstep
    · rw [plainR_ok, guard_ok] at h
      obtain ⟨⟨_, h⟩, _⟩ := h; cases h
      right; simpa [withTasks, ht] using hstep
  · -- addHot
    next cold ov cell todo taken S ht =>
    have hstep := Step.addHot (k := k) (withTasks c (pre ++ pc.task.toList ++ post)) pre post cold ov cell todo taken S (by simp [withTasks, ht])
    split at h
    · rw [plainR_ok] at h
      obtain ⟨h, _⟩ := h
      rcases fetchAdd_cases h with ⟨⟨ic, f, hr⟩, _⟩ | ⟨hr, _⟩
      · cases hr; left; rfl
      · cases hr; right; simpa [withTasks, ht, faDone] using hstep
    · rw [plainR_ok] at h
      obtain ⟨h, _⟩ := h
      rcases casLoop_cases h with ⟨h1, h2, _⟩ | h1
      · simp only at h1 h2; subst h1; left; simp [withTasks, h2]
      · cases h1; right; simpa [withTasks, ht] using hstep
  · -- addCount
    next cold ov todo taken S ht =>
    rw [plainR_ok] at h
    obtain ⟨h, _⟩ := h
    rcases fetchAdd_cases h with ⟨⟨ic, f, hr⟩, _⟩ | ⟨hr, _⟩
    · cases hr; left; rfl
    · cases hr
      right
      have := Step.addCount (k := k) (withTasks c (pre ++ pc.task.toList ++ post)) pre post cold ov todo taken S (by simp [withTasks, ht])
      simpa [withTasks, ht, faDone] using this
  · -- unlock
    next cold ov todo taken S ht =>
    split at h
    · cases h
    · cases h
      right
      have := Step.unlock (k := k) (withTasks c (pre ++ pc.task.toList ++ post)) pre post cold ov todo taken S (by simp [withTasks, ht])
      simpa [withTasks, ht] using this
  · cases h


/-- **one accepted event** is a stutter, exactly one step of the proof model, or — when the collector
    skipped the no-op `fetch_add(0)` of an `addHot` step (`skipTask`) — exactly two steps, the first of
    which is that `addHot` of 0 and changes nothing but the collector's task (`ts`) -/
theorem evStep_refines {k : Nat} {c : Hp.St} {cuts : Cuts} {e : Ev} {pc : Pc} {c' : Hp.St} {pc' : Pc}
    {rv : Option String} {cuts' : Cuts}
    (h : evStep k c cuts e pc = .ok ((c', pc', rv), cuts')) (pre post : List Task) :
    withTasks c' (pre ++ pc'.task.toList ++ post) = withTasks c (pre ++ pc.task.toList ++ post) ∨
    Hp.Step k (withTasks c (pre ++ pc.task.toList ++ post)) (withTasks c' (pre ++ pc'.task.toList ++ post)) ∨
    ∃ ts, Hp.Step k (withTasks c (pre ++ pc.task.toList ++ post)) (withTasks c ts) ∧
          Hp.Step k (withTasks c ts) (withTasks c' (pre ++ pc'.task.toList ++ post)) := by
  unfold evStep at h
  have h1 := evStep1_refines h pre post
  rcases skipTask_cases k (parseLoc e.loc) pc.task with hs | ⟨cold, ov, cell, todo, taken, S, ht, hs, _, h0, _⟩
  · rw [skipPc_of_task_eq hs] at h1
    rcases h1 with h1 | h1
    · exact .inl h1
    · exact .inr (.inl h1)
  · have hsk := skip_is_step (k := k) c pre post cold ov cell todo taken S h0
    have e1 : (skipPc k e pc).task.toList = [Task.colMove cold ov todo taken S] := by simp [skipPc, hs]
    have e2 : pc.task.toList = [Task.colMove cold ov (.addHot cell :: todo) taken S] := by simp [ht]
    rw [e1] at h1
    rw [e2]
    rcases h1 with h1 | h1
    · exact .inr (.inl (by rw [h1]; exact hsk))
    · exact .inr (.inr ⟨_, hsk, h1⟩)

theorem closeCall_pc {Pc} {th th' : Th Pc} {i v : String} (h : closeCall th i v = .ok th') : th'.pc = th.pc := by
  unfold closeCall at h
  split at h
  · cases h
  · split at h
    · cases h
    · split at h
      · cases h
      · cases h; rfl

theorem abs_eq (s : St) : abs s = withTasks s.core (s.ths.filterMap taskOf) := rfl

theorem planObs_cases {k : Nat} {n : String} {o : Obs} {pc : Pc} (h : planObs k n o = .ok (some pc)) :
    pc.task = some (.obsStart o) ∧ 1 ≤ o.w ∧ WfUpd k o.upd := by
  unfold planObs at h
  split at h
  · cases h
  · split at h
    · next hg =>
      cases h
      simp only [Bool.and_eq_true, decide_eq_true_eq, List.all_eq_true] at hg
      exact ⟨rfl, hg.1, fun p hp => hg.2 p hp⟩
    · cases h

/-- the tasks a call can start as -/
theorem planCall_cases {s : St} {op : String} {pc : Pc} (h : planCall s op = .ok (some pc)) :
    (∃ o, pc.task = some (.obsStart o) ∧ 1 ≤ o.w ∧ WfUpd s.bounds.length o.upd) ∨ pc.task = some .colWant ∨ pc.task = none := by
  unfold planCall at h
  simp only at h
  split at h
  · exact .inl ⟨_, planObs_cases h⟩
  · split at h
    · cases h; right; left; rfl
    · split at h
      · cases h; right; left; rfl
      · split at h
        · cases h; right; right; rfl
        · cases h

/-- **every accepted item** is a stutter, exactly one step of the proof model, or (an event at which a
    collector skipped the no-op `fetch_add(0)` of an `addHot` step) exactly two steps, the first of which
    is that `addHot` of 0: it changes nothing but the task list (`ts`) -/
theorem item_refines {s s' : St} {it : Item} (h : item s it = .ok s') :
    s'.bounds = s.bounds ∧ (abs s' = abs s ∨ Hp.Step s.bounds.length (abs s) (abs s') ∨
      ∃ ts, Hp.Step s.bounds.length (abs s) (withTasks s.core ts) ∧
            Hp.Step s.bounds.length (withTasks s.core ts) (abs s')) := by
  cases it with
  | ev e =>
    simp only [item] at h
    split at h
    · cases h
    · next th hth =>
      split at h
      · cases h
      · next pc hpc =>
        split at h
        · cases h
        · next c' pc' rv cuts' hev =>
          have hT : taskOf th = pc.task := by simp [taskOf, hpc]
          split at h
          · cases h
            obtain ⟨pre, post, h1, h2⟩ := filterMap_set_split taskOf s.ths e.tid th { th with pc := some pc' } hth
            refine ⟨rfl, ?_⟩
            have := evStep_refines hev pre post
            rw [abs_eq, abs_eq]
            simp only [h2, h1, hT]
            simpa [taskOf] using this
          · next v =>
            split at h
            · cases h
            · next hn =>
              cases h
              obtain ⟨pre, post, h1, h2⟩ := filterMap_set_split taskOf s.ths e.tid th { th with pc := none, retv := some v } hth
              refine ⟨rfl, ?_⟩
              have := evStep_refines hev pre post
              have hn' : pc'.task = none := by cases hh : pc'.task <;> simp_all
              rw [abs_eq, abs_eq]
              simp only [h2, h1, hT]
              simpa [taskOf, hn'] using this
  | call t i op =>
    simp only [item] at h
    split at h
    · cases h
    · next th hth =>
      split at h
      · cases h
      · next plan hplan =>
        split at h
        · cases h
        · next hopen =>
          have hpcn : th.pc = none := by
            cases hh : th.pc <;> simp_all
          have hT : taskOf th = none := by simp [taskOf, hpcn]
          split at h
          · cases h
          · split at h
            · cases h
            · split at h
              · cases h
                obtain ⟨pre, post, h1, h2⟩ := filterMap_set_split taskOf s.ths t th { th with retv := some "" } hth
                refine ⟨rfl, .inl ?_⟩
                rw [abs_eq, abs_eq]
                simp only [h2, h1, hT]
                simp [taskOf, hpcn]
              · next pc =>
                cases h
                obtain ⟨pre, post, h1, h2⟩ := filterMap_set_split taskOf s.ths t th { th with pc := some pc } hth
                refine ⟨rfl, ?_⟩
                rw [abs_eq, abs_eq]
                simp only [h2, h1, hT]
                have hT' : taskOf { th with pc := some pc } = pc.task := by simp [taskOf]
                rw [hT']
                rcases planCall_cases hplan with ⟨o, ho, hw, hu⟩ | hc | hn
                · right; left
                  have := Step.spawnObs (k := s.bounds.length) (withTasks s.core (pre ++ post)) pre post o hw hu rfl
                  simpa [withTasks, ho] using this
                · right; left
                  have := Step.spawnCol (k := s.bounds.length) (withTasks s.core (pre ++ post)) pre post rfl
                  simpa [withTasks, hc] using this
                · left; simp [hn]
  | ret t i v =>
    simp only [item] at h
    split at h
    · cases h
    · next th hth =>
      split at h
      · next th' hc =>
        cases h
        obtain ⟨pre, post, h1, h2⟩ := filterMap_set_split taskOf s.ths t th th' hth
        refine ⟨rfl, .inl ?_⟩
        rw [abs_eq, abs_eq]
        simp only [h2, h1]
        simp [taskOf, closeCall_pc hc]
      · cases h
  | other x => simp [item] at h

/-- states the machine reaches from its initial state by accepting items -/
inductive MReach (bounds : List UInt64) (prog : List (List String)) : St → Prop
  | init : MReach bounds prog (init bounds prog)
  | step {s s' it} : MReach bounds prog s → item s it = .ok s' → MReach bounds prog s'

theorem mreach_bounds {bounds prog s} (h : MReach bounds prog s) : s.bounds = bounds := by
  induction h with
  | init => rfl
  | step _ hs ih => rw [(item_refines hs).1, ih]

theorem abs_init (bounds prog) : abs (init bounds prog) = Hp.init := by
  simp [abs, init, Hp.init, taskOf]

/-- **every state the replay machine reaches is a reachable state of the proof model** -/
theorem mreach_reach {bounds prog s} (h : MReach bounds prog s) : Hp.Reach bounds.length (abs s) := by
  induction h with
  | init => rw [abs_init]; exact Reach.init
  | step hr hs ih =>
    have hb := mreach_bounds hr
    rcases (item_refines hs).2 with he | hst | ⟨ts, h1, h2⟩
    · rw [he]; exact ih
    · rw [hb] at hst; exact Reach.step ih hst
    · rw [hb] at h1 h2; exact Reach.step (Reach.step ih h1) h2

theorem runItems_mreach {bounds prog} : ∀ (tr : List Item) (s s' : St) (n : Nat), MReach bounds prog s →
    runItems item s tr n = .ok s' → MReach bounds prog s'
  | [], s, s', n, hr, h => by simp [runItems] at h; subst h; exact hr
  | it :: r, s, s', n, hr, h => by
    simp only [runItems] at h
    split at h
    · next s1 hs => exact runItems_mreach r s1 s' (n + 1) (MReach.step hr hs) h
    · cases h

end Prom.HM
