import Prom.Model.HistMachine
import Prom.Lemmas.Guard
import Prom.HP.Order
/-
Refinement: every item the replay machine `Prom.HM.item` accepts is a stutter or exactly one
`Hp.Step` of the abstraction `HM.abs`. Hence every state the machine reaches while replaying a
trace of the real implementation is `Hp.Reach`able, and the C02 / C03 theorems hold of it.
-/
namespace Prom.HM
open Prom Prom.Conc Hp

theorem plainR_ok {cuts : Cuts} {r : Except String Res} {x : Res} {cuts' : Cuts} :
    plainR cuts r = .ok (x, cuts') ↔ r = .ok x ∧ cuts' = cuts := by
  unfold plainR; split <;> simp_all [eq_comm]

theorem filterMap_set_split {α β} (f : α → Option β) (l : List α) (i : Nat) (a a' : α) (h : l[i]? = some a) :
    ∃ pre post, l.filterMap f = pre ++ (f a).toList ++ post ∧
      (l.set i a').filterMap f = pre ++ (f a').toList ++ post := by
  induction l generalizing i with
  | nil => simp at h
  | cons x r ih =>
    cases i with
    | zero =>
      simp at h; subst h
      refine ⟨[], r.filterMap f, ?_, ?_⟩
      · cases hf : f x <;> simp [List.filterMap_cons, hf]
      · cases hf : f a' <;> simp [List.filterMap_cons, hf]
    | succ j =>
      simp at h
      obtain ⟨pre, post, h1, h2⟩ := ih j h
      cases hf : f x with
      | none => exact ⟨pre, post, by simp [List.filterMap_cons, hf, h1], by simp [List.filterMap_cons, hf, h2]⟩
      | some y => exact ⟨y :: pre, post, by simp [List.filterMap_cons, hf, h1], by simp [List.filterMap_cons, hf, h2]⟩

/-- a core state with its task list replaced -/
def withTasks (c : Hp.St) (ts : List Task) : Hp.St := { c with tasks := ts }

end Prom.HM

namespace Prom.HM
open Prom Prom.Conc Hp

theorem casLoop_cases {e : Ev} {c : Hp.St} {pc : Pc} {b : Bool} {cell : Nat} {a : Int} {onOk r : Res}
    (h : casLoop e c pc b cell a onOk = .ok r) :
    (r.1 = c ∧ r.2.1.task = pc.task ∧ r.2.2 = none) ∨ r = onOk := by
  unfold casLoop at h
  split at h
  · unfold casLoad at h
    rw [guard_ok] at h; obtain ⟨_, h⟩ := h; cases h; exact .inl ⟨rfl, rfl, rfl⟩
  · split at h
    · unfold casLoad at h
      rw [guard_ok] at h; obtain ⟨_, h⟩ := h; cases h; exact .inl ⟨rfl, rfl, rfl⟩
    · rw [guard_ok] at h; obtain ⟨_, h⟩ := h
      split at h
      · rw [guard_ok] at h; obtain ⟨_, h⟩ := h; cases h; exact .inr rfl
      · rw [guard_ok] at h; obtain ⟨_, h⟩ := h; cases h; exact .inl ⟨rfl, rfl, rfl⟩

/-- **both loops are accepted** — after a failed compare-exchange (`cur` is the value it reported and
    `failed` is set) the loop accepts a load exactly as a fresh load does (the reloading loop) and
    every other event exactly as the compare-exchange expecting the reported value does (the loop
    `Err(v) => cur = v`) -/
theorem casLoop_after_failure (e : Ev) (c : Hp.St) (pc : Pc) (b : Bool) (cell : Nat) (a : Int) (onOk : Res)
    (cur : Int) (hc : pc.cur = some cur) (hf : pc.failed = true) :
    casLoop e c pc b cell a onOk =
      if e.k = "L" then casLoop e c { pc with cur := none } b cell a onOk
      else casLoop e c { pc with failed := false } b cell a onOk := by
  unfold casLoop
  by_cases hk : e.k = "L"
  · simp [hc, hf, hk, casLoad]
  · simp [hc, hf, hk]

/-- a failed compare-exchange of the loop changes nothing and leaves the call with the reported value
    as `cur` and `failed` set (so that `casLoop_after_failure` applies to the next event) -/
theorem casLoop_failure {e : Ev} {c : Hp.St} {pc : Pc} {b : Bool} {cell : Nat} {a : Int} {onOk r : Res}
    (h : casLoop e c pc b cell a onOk = .ok r) (hk : e.k = "C") (hok : e.ok = false) :
    r = (c, { pc with cur := some ((c.sh b).cell cell), failed := true }, none) ∧
      e.res = f64OfInt ((c.sh b).cell cell) := by
  have hload : ∀ x, casLoad e c pc b x = .ok r → False := by
    intro x h
    unfold casLoad at h
    rw [guard_ok] at h
    simp [hk] at h
  unfold casLoop at h
  split at h
  · exact (hload _ h).elim
  · split at h
    · exact (hload _ h).elim
    · rw [guard_ok] at h; obtain ⟨_, h⟩ := h
      simp only [hok, Bool.false_eq_true, if_false] at h
      rw [guard_ok] at h; obtain ⟨hg, h⟩ := h
      simp only [Bool.and_eq_true, beq_iff_eq] at hg
      cases h
      exact ⟨rfl, hg.2⟩

theorem evStep_refines {k : Nat} {c : Hp.St} {cuts : Cuts} {e : Ev} {pc : Pc} {c' : Hp.St} {pc' : Pc}
    {rv : Option String} {cuts' : Cuts}
    (h : evStep k c cuts e pc = .ok ((c', pc', rv), cuts')) (pre post : List Task) :
    withTasks c' (pre ++ pc'.task.toList ++ post) = withTasks c (pre ++ pc.task.toList ++ post) ∨
    Hp.Step k (withTasks c (pre ++ pc.task.toList ++ post)) (withTasks c' (pre ++ pc'.task.toList ++ post)) := by
  unfold evStep at h
  simp only at h
  split at h
  · -- count
    rw [plainR_ok, guard_ok] at h
    obtain ⟨⟨_, h⟩, _⟩ := h; cases h
    next ht => left; rfl
  · -- obsStart
    next o ht =>
    rw [plainR_ok, guard_ok] at h
    obtain ⟨⟨_, h⟩, _⟩ := h; cases h
    right
    have := Step.claim (k := k) (withTasks c (pre ++ pc.task.toList ++ post)) pre post o (by simp [withTasks, ht])
    simpa [withTasks, ht] using this
  · -- obsRun, an update left
    next o b cell a rest ht =>
    have hstep := Step.apply (k := k) (withTasks c (pre ++ pc.task.toList ++ post)) pre post o b cell a rest (by simp [withTasks, ht])
    split at h
    · rw [plainR_ok, guard_ok] at h
      obtain ⟨⟨_, h⟩, _⟩ := h; cases h
      right; simpa [withTasks, ht] using hstep
    · rw [plainR_ok] at h
      obtain ⟨h, _⟩ := h
      rcases casLoop_cases h with ⟨h1, h2, _⟩ | h1
      · simp only at h1 h2; subst h1; left; simp [withTasks, h2]
      · cases h1; right; simpa [withTasks, ht] using hstep
  · -- obsRun, publish
    next o b ht =>
    rw [plainR_ok, guard_ok] at h
    obtain ⟨⟨_, h⟩, _⟩ := h; cases h
    right
    have := Step.publish (k := k) (withTasks c (pre ++ pc.task.toList ++ post)) pre post o b (by simp [withTasks, ht])
    simpa [withTasks, ht] using this
  · -- colWant: acquire
    next ht =>
    rw [plainR_ok, guard_ok] at h
    obtain ⟨⟨hg, h⟩, _⟩ := h; cases h
    right
    have hl : c.lock = false := by simp at hg; exact hg.2
    have := Step.acquire (k := k) (withTasks c (pre ++ pc.task.toList ++ post)) pre post (by simp [withTasks, ht]) (by simp [withTasks, hl])
    simpa [withTasks, ht] using this
  · -- colLocked
    next ht =>
    split at h
    · split at h
      · rw [plainR_ok, guard_ok] at h
        obtain ⟨⟨_, h⟩, _⟩ := h; cases h; left; rfl
      · split at h
        · rw [plainR_ok, guard_ok] at h
          obtain ⟨⟨_, h⟩, _⟩ := h; cases h; left; rfl
        · rw [plainR_ok, guard_ok] at h
          obtain ⟨⟨_, h⟩, _⟩ := h; cases h
          right
          have := Step.release (k := k) (withTasks c (pre ++ pc.task.toList ++ post)) pre post (by simp [withTasks, ht])
          simpa [withTasks, ht] using this
    · rw [plainR_ok, guard_ok] at h
      obtain ⟨⟨_, h⟩, _⟩ := h; cases h
      right
      have := Step.flip (k := k) (withTasks c (pre ++ pc.task.toList ++ post)) pre post (by simp [withTasks, ht])
      simpa [withTasks, ht] using this
  · -- colSpin
    next cold ov S ht =>
    rw [plainR_ok, guard_ok] at h
    obtain ⟨⟨_, h⟩, _⟩ := h
    split at h
    · rw [guard_ok] at h
      obtain ⟨hg, h⟩ := h; cases h
      right
      have hc : (c.sh cold).count = ov := by simpa using hg
      have := Step.spinOk (k := k) (withTasks c (pre ++ pc.task.toList ++ post)) pre post cold ov S (by simp [withTasks, ht]) (by simp [withTasks, hc])
      simpa [withTasks, ht] using this
    · rw [guard_ok] at h
      obtain ⟨_, h⟩ := h; cases h; left; rfl
  · -- swap
    next cold ov cell todo taken S ht =>
    have hstep := Step.swap (k := k) (withTasks c (pre ++ pc.task.toList ++ post)) pre post cold ov cell todo taken S (by simp [withTasks, ht])
    split at h
    · rw [plainR_ok, guard_ok] at h
      obtain ⟨⟨_, h⟩, _⟩ := h; cases h
      right; simpa [withTasks, ht] using hstep
    · rw [plainR_ok, guard_ok] at h
      obtain ⟨⟨_, h⟩, _⟩ := h; cases h
      right; simpa [withTasks, ht] using hstep
  · -- addHot
    next cold ov cell todo taken S ht =>
    have hstep := Step.addHot (k := k) (withTasks c (pre ++ pc.task.toList ++ post)) pre post cold ov cell todo taken S (by simp [withTasks, ht])
    split at h
    · rw [plainR_ok, guard_ok] at h
      obtain ⟨⟨_, h⟩, _⟩ := h; cases h
      right; simpa [withTasks, ht] using hstep
    · rw [plainR_ok] at h
      obtain ⟨h, _⟩ := h
      rcases casLoop_cases h with ⟨h1, h2, _⟩ | h1
      · simp only at h1 h2; subst h1; left; simp [withTasks, h2]
      · cases h1; right; simpa [withTasks, ht] using hstep
  · -- addCount
    next cold ov todo taken S ht =>
    rw [plainR_ok, guard_ok] at h
    obtain ⟨⟨_, h⟩, _⟩ := h; cases h
    right
    have := Step.addCount (k := k) (withTasks c (pre ++ pc.task.toList ++ post)) pre post cold ov todo taken S (by simp [withTasks, ht])
    simpa [withTasks, ht] using this
  · -- unlock
    next cold ov todo taken S ht =>
    split at h
    · cases h
    · cases h
      right
      have := Step.unlock (k := k) (withTasks c (pre ++ pc.task.toList ++ post)) pre post cold ov todo taken S (by simp [withTasks, ht])
      simpa [withTasks, ht] using this
  · cases h


theorem closeCall_pc {Pc} {th th' : Th Pc} {i v : String} (h : closeCall th i v = .ok th') : th'.pc = th.pc := by
  unfold closeCall at h
  split at h
  · cases h
  · split at h
    · cases h
    · split at h
      · cases h
      · cases h; rfl

theorem abs_eq (s : St) : abs s = withTasks s.core (s.ths.filterMap taskOf) := rfl

theorem planObs_cases {k : Nat} {n : String} {o : Obs} {pc : Pc} (h : planObs k n o = .ok (some pc)) :
    pc.task = some (.obsStart o) ∧ 1 ≤ o.w ∧ WfUpd k o.upd := by
  unfold planObs at h
  split at h
  · cases h
  · split at h
    · next hg =>
      cases h
      simp only [Bool.and_eq_true, decide_eq_true_eq, List.all_eq_true] at hg
      exact ⟨rfl, hg.1, fun p hp => hg.2 p hp⟩
    · cases h

/-- the tasks a call can start as -/
theorem planCall_cases {s : St} {op : String} {pc : Pc} (h : planCall s op = .ok (some pc)) :
    (∃ o, pc.task = some (.obsStart o) ∧ 1 ≤ o.w ∧ WfUpd s.bounds.length o.upd) ∨ pc.task = some .colWant ∨ pc.task = none := by
  unfold planCall at h
  simp only at h
  split at h
  · exact .inl ⟨_, planObs_cases h⟩
  · split at h
    · cases h; right; left; rfl
    · split at h
      · cases h; right; left; rfl
      · split at h
        · cases h; right; right; rfl
        · cases h

theorem item_refines {s s' : St} {it : Item} (h : item s it = .ok s') :
    s'.bounds = s.bounds ∧ (abs s' = abs s ∨ Hp.Step s.bounds.length (abs s) (abs s')) := by
  cases it with
  | ev e =>
    simp only [item] at h
    split at h
    · cases h
    · next th hth =>
      split at h
      · cases h
      · next pc hpc =>
        split at h
        · cases h
        · next c' pc' rv cuts' hev =>
          have hT : taskOf th = pc.task := by simp [taskOf, hpc]
          split at h
          · cases h
            obtain ⟨pre, post, h1, h2⟩ := filterMap_set_split taskOf s.ths e.tid th { th with pc := some pc' } hth
            refine ⟨rfl, ?_⟩
            have := evStep_refines hev pre post
            rw [abs_eq, abs_eq]
            simp only [h2, h1, hT]
            simpa [taskOf] using this
          · next v =>
            split at h
            · cases h
            · next hn =>
              cases h
              obtain ⟨pre, post, h1, h2⟩ := filterMap_set_split taskOf s.ths e.tid th { th with pc := none, retv := some v } hth
              refine ⟨rfl, ?_⟩
              have := evStep_refines hev pre post
              have hn' : pc'.task = none := by cases hh : pc'.task <;> simp_all
              rw [abs_eq, abs_eq]
              simp only [h2, h1, hT]
              simpa [taskOf, hn'] using this
  | call t i op =>
    simp only [item] at h
    split at h
    · cases h
    · next th hth =>
      split at h
      · cases h
      · next plan hplan =>
        split at h
        · cases h
        · next hopen =>
          have hpcn : th.pc = none := by
            cases hh : th.pc <;> simp_all
          have hT : taskOf th = none := by simp [taskOf, hpcn]
          split at h
          · cases h
          · split at h
            · cases h
            · split at h
              · cases h
                obtain ⟨pre, post, h1, h2⟩ := filterMap_set_split taskOf s.ths t th { th with retv := some "" } hth
                refine ⟨rfl, .inl ?_⟩
                rw [abs_eq, abs_eq]
                simp only [h2, h1, hT]
                simp [taskOf, hpcn]
              · next pc =>
                cases h
                obtain ⟨pre, post, h1, h2⟩ := filterMap_set_split taskOf s.ths t th { th with pc := some pc } hth
                refine ⟨rfl, ?_⟩
                rw [abs_eq, abs_eq]
                simp only [h2, h1, hT]
                have hT' : taskOf { th with pc := some pc } = pc.task := by simp [taskOf]
                rw [hT']
                rcases planCall_cases hplan with ⟨o, ho, hw, hu⟩ | hc | hn
                · right
                  have := Step.spawnObs (k := s.bounds.length) (withTasks s.core (pre ++ post)) pre post o hw hu rfl
                  simpa [withTasks, ho] using this
                · right
                  have := Step.spawnCol (k := s.bounds.length) (withTasks s.core (pre ++ post)) pre post rfl
                  simpa [withTasks, hc] using this
                · left; simp [hn]
  | ret t i v =>
    simp only [item] at h
    split at h
    · cases h
    · next th hth =>
      split at h
      · next th' hc =>
        cases h
        obtain ⟨pre, post, h1, h2⟩ := filterMap_set_split taskOf s.ths t th th' hth
        refine ⟨rfl, .inl ?_⟩
        rw [abs_eq, abs_eq]
        simp only [h2, h1]
        simp [taskOf, closeCall_pc hc]
      · cases h
  | other x => simp [item] at h

/-- states the machine reaches from its initial state by accepting items -/
inductive MReach (bounds : List UInt64) (prog : List (List String)) : St → Prop
  | init : MReach bounds prog (init bounds prog)
  | step {s s' it} : MReach bounds prog s → item s it = .ok s' → MReach bounds prog s'

theorem mreach_bounds {bounds prog s} (h : MReach bounds prog s) : s.bounds = bounds := by
  induction h with
  | init => rfl
  | step _ hs ih => rw [(item_refines hs).1, ih]

theorem abs_init (bounds prog) : abs (init bounds prog) = Hp.init := by
  simp [abs, init, Hp.init, taskOf]

/-- **every state the replay machine reaches is a reachable state of the proof model** -/
theorem mreach_reach {bounds prog s} (h : MReach bounds prog s) : Hp.Reach bounds.length (abs s) := by
  induction h with
  | init => rw [abs_init]; exact Reach.init
  | step hr hs ih =>
    have hb := mreach_bounds hr
    rcases (item_refines hs).2 with he | hst
    · rw [he]; exact ih
    · rw [hb] at hst; exact Reach.step ih hst

theorem runItems_mreach {bounds prog} : ∀ (tr : List Item) (s s' : St) (n : Nat), MReach bounds prog s →
    runItems item s tr n = .ok s' → MReach bounds prog s'
  | [], s, s', n, hr, h => by simp [runItems] at h; subst h; exact hr
  | it :: r, s, s', n, hr, h => by
    simp only [runItems] at h
    split at h
    · next s1 hs => exact runItems_mreach r s1 s' (n + 1) (MReach.step hr hs) h
    · cases h

end Prom.HM
