import Prom.Model.Conc
namespace Prom.Conc

theorem guard_ok {α} {c : Bool} {msg : String} {k : Except String α} {x : α} :
    guard c msg k = .ok x ↔ c = true ∧ k = .ok x := by
  unfold guard; split <;> simp_all

end Prom.Conc
