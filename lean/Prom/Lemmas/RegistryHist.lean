import Prom.Lemmas.C06Aux
/- Completeness of the admission loop and registry invariants over histories (C06). -/
namespace Prom.C06
open Prom

theorem dimLookup_dimInsert_same (m : List (Str × UInt64)) (k : Str) (h : UInt64) :
    dimLookup (dimInsert m k h) k = some h := by
  unfold dimLookup dimInsert
  rw [List.find?_append]
  have : (m.filter (fun x => x.1 != k)).find? (fun x => x.1 == k) = none := by
    rw [List.find?_eq_none]
    intro x hx
    have := (List.mem_filter.1 hx).2
    simpa using this
  simp [this]

theorem dimLookup_dimInsert_other (m : List (Str × UInt64)) (k k' : Str) (h : UInt64) (hne : k' ≠ k) :
    dimLookup (dimInsert m k h) k' = dimLookup m k' := by
  unfold dimLookup dimInsert
  rw [List.find?_append]
  have hkk : ((k, h).1 == k') = false := by
    have : ¬ (k = k') := fun e => hne e.symm
    simpa using this
  have hlast : [(k, h)].find? (fun x => x.1 == k') = none := by
    simp only [List.find?_cons, hkk, List.find?_nil]
  rw [hlast, Option.or_none]
  congr 1
  induction m with
  | nil => rfl
  | cons a t ih =>
    by_cases hak : a.1 = k
    · have h1 : (a.1 != k) = false := by simp [hak]
      have h2 : (a.1 == k') = false := by rw [hak]; simpa using fun e => hne e.symm
      simp only [List.filter_cons, h1, Bool.false_eq_true, if_false, List.find?_cons, h2]
      exact ih
    · have h1 : (a.1 != k) = true := by simp [hak]
      simp only [List.filter_cons, h1, if_true, List.find?_cons]
      split
      · rfl
      · exact ih

/-- a descriptor passes the three registry-level checks -/
def DescOk (r : Reg) (d : Desc) : Prop :=
  clashesCommon r.labels d = false ∧ r.descIds.contains d.id = false ∧
  ∀ h, dimLookup r.dimHashes d.fqName = some h → h = d.dimHash

/-- descriptors of one collector that share a name share the dimension hash -/
def SelfConsistent (ds : List Desc) : Prop := ∀ d ∈ ds, ∀ d' ∈ ds, d.fqName = d'.fqName → d.dimHash = d'.dimHash

theorem regLoop_complete (r : Reg) : ∀ (ds : List Desc) (ids : List UInt64) (nd : List (Str × UInt64)) (cid : UInt64),
    (∀ d ∈ ds, DescOk r d) → (ids ++ ds.map (·.id)).Nodup →
    (∀ d ∈ ds, ∀ h, dimLookup nd d.fqName = some h → h = d.dimHash) → SelfConsistent ds →
    ∃ res, regLoop r ds ids nd cid = .ok res := by
  intro ds
  induction ds with
  | nil => intro ids nd cid _ _ _ _; exact ⟨_, rfl⟩
  | cons d rest ih =>
    intro ids nd cid hok hnd hdim hself
    obtain ⟨hc, hid, hrec⟩ := hok d (by simp)
    have hnotin : ids.contains d.id = false := by
      have := (List.nodup_append.1 hnd).2.2
      have hne : d.id ∉ ids := fun hm => this d.id hm d.id (by simp) rfl
      simpa using hne
    have hrest : ∃ res, regLoop r rest (ids ++ [d.id]) (dimInsert nd d.fqName d.dimHash) (cid + d.id) = .ok res := by
      apply ih
      · intro x hx; exact hok x (by simp [hx])
      · simpa [List.append_assoc] using hnd
      · intro x hx h hl
        by_cases hxn : x.fqName = d.fqName
        · rw [hxn, dimLookup_dimInsert_same] at hl
          have := hself d (by simp) x (by simp [hx]) hxn.symm
          rw [← this]; exact (Option.some.inj hl).symm
        · rw [dimLookup_dimInsert_other _ _ _ _ hxn] at hl
          exact hdim x (by simp [hx]) h hl
      · intro a ha b hb e; exact hself a (by simp [ha]) b (by simp [hb]) e
    obtain ⟨res, hres⟩ := hrest
    refine ⟨res, ?_⟩
    have hc' : ¬ (clashesCommon r.labels d = true) := by rw [hc]; exact Bool.false_ne_true
    have hid' : ¬ (r.descIds.contains d.id = true) := by rw [hid]; exact Bool.false_ne_true
    have hni' : ¬ (ids.contains d.id = true) := by rw [hnotin]; exact Bool.false_ne_true
    unfold regLoop
    rw [if_neg hc', if_neg hid']
    cases hl : dimLookup r.dimHashes d.fqName with
    | some h =>
      have := hrec h hl
      subst this
      simp only [bne_self_eq_false, Bool.false_eq_true, if_false]
      rw [if_neg hni']
      exact hres
    | none =>
      simp only []
      cases hl2 : dimLookup nd d.fqName with
      | some h =>
        have := hdim d (by simp) h hl2
        subst this
        simp only [bne_self_eq_false, Bool.false_eq_true, if_false]
        rw [if_neg hni']
        exact hres
      | none =>
        simp only []
        rw [if_neg hni']
        exact hres

end Prom.C06
