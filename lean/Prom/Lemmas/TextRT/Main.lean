import Prom.Lemmas.TextRT.Lines
import Prom.Lemmas.TextRT.SampleLine
import Prom.Lemmas.TextRT.Header
import Prom.Lemmas.TextRT.Group
import Prom.Lemmas.TextRT.IntStr
/- C04 round trip: assembly of the packages into the document-level theorem. -/
namespace Prom.C04.RT
open Prom Prom.Text Prom.TextParse Prom.C04

/-- line list `ls` parses, line by line, to `es`, and no line contains a LF -/
inductive Parses : List Str → List Line → Prop
  | nil : Parses [] []
  | cons {l e ls es} : parseLine l = some e → (10 : UInt8) ∉ l → Parses ls es → Parses (l :: ls) (e :: es)

theorem Parses.append {a b : List Str} {x y : List Line} (h1 : Parses a x) (h2 : Parses b y) : Parses (a ++ b) (x ++ y) := by
  induction h1 with
  | nil => simpa using h2
  | cons hp hl _ ih => exact .cons hp hl ih

theorem Parses.mapM {ls : List Str} {es : List Line} (h : Parses ls es) : ls.mapM parseLine = some es := by
  induction h with
  | nil => rfl
  | cons hp _ _ ih => simp [List.mapM_cons, hp, ih]

theorem Parses.no_lf {ls : List Str} {es : List Line} (h : Parses ls es) : ∀ l ∈ ls, (10 : UInt8) ∉ l := by
  induction h with
  | nil => intro l hl; cases hl
  | cons _ hl _ ih =>
    intro l hm
    rcases List.mem_cons.1 hm with rfl | hm
    · exact hl
    · exact ih l hm

theorem Parses.flatMap {α} (l : List α) (f : α → List Str) (g : α → List Line) (h : ∀ x ∈ l, Parses (f x) (g x)) :
    Parses (l.flatMap f) (l.flatMap g) := by
  induction l with
  | nil => exact .nil
  | cons a r ih =>
    simp only [List.flatMap_cons]
    exact (h a (by simp)).append (ih fun x hx => h x (by simp [hx]))

theorem Parses.map {α} (l : List α) (f : α → Str) (g : α → Line) (h : ∀ x ∈ l, parseLine (f x) = some (g x) ∧ (10 : UInt8) ∉ f x) :
    Parses (l.map f) (l.map g) := by
  induction l with
  | nil => exact .nil
  | cons a r ih =>
    simp only [List.map_cons]
    exact .cons (h a (by simp)).1 (h a (by simp)).2 (ih fun x hx => h x (by simp [hx]))

theorem Parses.single {l : Str} {e : Line} (h1 : parseLine l = some e) (h2 : (10 : UInt8) ∉ l) : Parses [l] [e] :=
  .cons h1 h2 .nil

/-- one sample's lines -/
theorem parses_sample (fmt : UInt64 → Str) (f : Family) (hw : WFFam f) (s : Sample) (hs : s ∈ f.samples)
    (hf : FmtOk fmt (sampleValues f.ty s))
    (ht : parseInt (intToStr s.ts) = some s.ts ∧ ∀ b ∈ intToStr s.ts, b ≠ 32 ∧ b ≠ 10) :
    Parses (sampleLines fmt f.name f.ty s) (expSampleLines fmt f.name f.ty s) := by
  have hl := hw.labels s hs
  have hnil : ([] : Str).all isNameByte = true := rfl
  have hbucket : (bs "_bucket").all isNameByte = true := by decide +kernel
  have hsum : (bs "_sum").all isNameByte = true := by decide +kernel
  have hcount : (bs "_count").all isNameByte = true := by decide +kernel
  have hnone : ∀ e : Str × Str, (none : Option (Str × Str)) = some e → isValidLabelName e.1 = true ∧ ∀ b ∈ e.2, cleanByte b := by
    intro e he; cases he
  have hle : isValidLabelName (bs "le") = true := by decide +kernel
  have hq : isValidLabelName (bs "quantile") = true := by decide +kernel
  have hinf : ∀ b ∈ bs "+Inf", cleanByte b := by decide +kernel
  -- one line, given that its value is among the sample's values
  have one : ∀ (pfx : Str) (extra : Option (Str × Str)) (v : UInt64), pfx.all isNameByte = true →
      (∀ e, extra = some e → isValidLabelName e.1 = true ∧ ∀ b ∈ e.2, cleanByte b) → v ∈ sampleValues f.ty s →
      parseLine (sampleLine fmt f.name pfx s extra v) = some (expSample f.name pfx s extra v) ∧
      (10 : UInt8) ∉ sampleLine fmt f.name pfx s extra v := by
    intro pfx extra v hp he hv
    exact ⟨parseLine_sample fmt f.name pfx s extra v hw.name hp hl he (hf.reads v hv) (hf.clean v hv) ht,
           sampleLine_no_lf fmt f.name pfx s extra v hw.name hp hl he (hf.clean v hv) ht.2⟩
  cases hty : f.ty with
  | counter =>
    simp only [sampleLines, expSampleLines]
    have := one [] none s.counterVal hnil hnone (by simp [sampleValues, hty])
    exact .single this.1 this.2
  | gauge =>
    simp only [sampleLines, expSampleLines]
    have := one [] none s.gaugeVal hnil hnone (by simp [sampleValues, hty])
    exact .single this.1 this.2
  | untyped => exact absurd hty hw.ty
  | histogram =>
    simp only [sampleLines, expSampleLines]
    refine (Parses.append (Parses.append ?_ ?_) ?_)
    · refine Parses.map _ _ _ ?_
      intro b hb
      refine one (bs "_bucket") (some (bs "le", fmt b.1)) (f64OfNat b.2) hbucket ?_ ?_
      · intro e he; cases he
        exact ⟨hle, hf.clean b.1 (by simp only [sampleValues, hty]; exact List.mem_append_left _ (List.mem_flatMap.2 ⟨b, hb, by simp⟩))⟩
      · simp only [sampleValues, hty]; exact List.mem_append_left _ (List.mem_flatMap.2 ⟨b, hb, by simp⟩)
    · split
      · exact .nil
      · have := one (bs "_bucket") (some (bs "le", bs "+Inf")) (f64OfNat (histOf s).1) hbucket
          (by intro e he; cases he; exact ⟨hle, hinf⟩) (by simp [sampleValues, hty])
        exact .single this.1 this.2
    · have h1 := one (bs "_sum") none (histOf s).2.1 hsum hnone (by simp [sampleValues, hty])
      have h2 := one (bs "_count") none (f64OfNat (histOf s).1) hcount hnone (by simp [sampleValues, hty])
      exact .cons h1.1 h1.2 (.single h2.1 h2.2)
  | summary =>
    simp only [sampleLines, expSampleLines]
    refine (Parses.append ?_ ?_)
    · refine Parses.map _ _ _ ?_
      intro q hq'
      refine one [] (some (bs "quantile", fmt q.1)) q.2 hnil ?_ ?_
      · intro e he; cases he
        exact ⟨hq, hf.clean q.1 (by simp only [sampleValues, hty]; exact List.mem_append_left _ (List.mem_flatMap.2 ⟨q, hq', by simp⟩))⟩
      · simp only [sampleValues, hty]; exact List.mem_append_left _ (List.mem_flatMap.2 ⟨q, hq', by simp⟩)
    · have h1 := one (bs "_sum") none (summaryOf s).2.1 hsum hnone (by simp [sampleValues, hty])
      have h2 := one (bs "_count") none (f64OfNat (summaryOf s).1) hcount hnone (by simp [sampleValues, hty])
      exact .cons h1.1 h1.2 (.single h2.1 h2.2)

theorem fmtOk_sub {fmt : UInt64 → Str} {a b : List UInt64} (h : FmtOk fmt b) (hs : ∀ v ∈ a, v ∈ b) : FmtOk fmt a :=
  ⟨fun v hv => h.reads v (hs v hv), fun v hv => h.clean v (hs v hv)⟩

theorem parses_fam (fmt : UInt64 → Str) (f : Family) (hw : WFFam f)
    (hf : FmtOk fmt (f.samples.flatMap (sampleValues f.ty)))
    (ht : ∀ s ∈ f.samples, parseInt (intToStr s.ts) = some s.ts ∧ ∀ b ∈ intToStr s.ts, b ≠ 32 ∧ b ≠ 10) :
    Parses (famLines fmt f) (expFam fmt f) := by
  unfold famLines expFam
  refine Parses.append ?_ ?_
  · unfold headerLines expHeader
    refine Parses.append ?_ (.single (parseLine_type f hw.name) (typeLine_no_lf f hw.name))
    by_cases hh : f.help.isEmpty = true
    · simp only [hh, if_true]; exact .nil
    · simp only [hh, Bool.false_eq_true, if_false]
      have hne : f.help ≠ [] := by intro e; simp [e] at hh
      exact .single (parseLine_help f hw.name hne hw.help) (helpLine_no_lf f hw.name)
  · refine Parses.flatMap _ _ _ ?_
    intro s hs
    exact parses_sample fmt f hw s hs (fmtOk_sub hf fun v hv => List.mem_flatMap.2 ⟨s, hs, hv⟩) (ht s hs)

theorem parses_doc (fmt : UInt64 → Str) (fams : List Family) (hwf : WF fams)
    (hf : FmtOk fmt (valuesOf fams)) (ht : TsOk fams) : Parses (docLines fmt fams) (expDoc fmt fams) := by
  unfold docLines expDoc
  refine Parses.flatMap _ _ _ ?_
  intro f hfm
  exact parses_fam fmt f (hwf f hfm) (fmtOk_sub hf fun v hv => List.mem_flatMap.2 ⟨f, hfm, hv⟩) (ht f hfm)

/-- **document round trip** — for well-formed families the text the encoder writes is read back by the
    independent reader to exactly the canonical form of the families -/
theorem tsOk_all (fams : List Family) : TsOk fams := fun _ _ s _ => int_roundtrip s.ts

theorem roundtrip_doc (fmt : UInt64 → Str) (fams : List Family) (hwf : WF fams)
    (hf : FmtOk fmt (valuesOf fams)) (hc : CountsOk (countsOf fams)) :
    (encode fmt fams).2 = true ∧ parse (encode fmt fams).1 = some (canon fams) := by
  have ht := tsOk_all fams
  have henc := encode_lines fmt fams (fun f hfm => by
    have w := hwf f hfm
    refine ⟨w.nonempty, ?_, w.ty⟩
    intro e
    have := w.name
    rw [e] at this
    simp [isValidMetricName, isValidIdent] at this)
  have hp := parses_doc fmt fams hwf hf ht
  rw [henc]
  refine ⟨rfl, ?_⟩
  unfold parse
  simp only [splitLines_join _ hp.no_lf, hp.mapM]
  exact group_doc fmt fams hwf hf hc


/-- the number of lines of one sample: a function of the type and of the NUMBER of buckets /
    quantiles (and whether a `+Inf` bound is among them) only -/
def sampleLineCount (ty : MType) (s : Sample) : Nat :=
  match ty with
  | .counter | .gauge => 1
  | .histogram => (histOf s).2.2.length + (if (histOf s).2.2.any (fun b => f64IsPosInf b.1) then 0 else 1) + 2
  | .summary => (summaryOf s).2.2.length + 2
  | .untyped => 0

def famLineCount (f : Family) : Nat :=
  (if f.help.isEmpty then 0 else 1) + 1 + (f.samples.map (sampleLineCount f.ty)).sum

theorem sampleLines_length (fmt : UInt64 → Str) (name : Str) (ty : MType) (s : Sample) :
    (sampleLines fmt name ty s).length = sampleLineCount ty s := by
  cases ty <;> simp [sampleLines, sampleLineCount] <;> split <;> simp <;> omega

theorem famLines_length (fmt : UInt64 → Str) (f : Family) : (famLines fmt f).length = famLineCount f := by
  unfold famLines famLineCount headerLines
  simp only [List.length_append, List.length_flatMap, sampleLines_length]
  by_cases h : f.help.isEmpty = true <;> simp [h] <;> omega

theorem count_lf_joinLines (ls : List Str) (h : ∀ l ∈ ls, (10 : UInt8) ∉ l) : (joinLines ls).count 10 = ls.length := by
  induction ls with
  | nil => rfl
  | cons a r ih =>
    have ha : a.count 10 = 0 := List.count_eq_zero.2 (h a (by simp))
    have : joinLines (a :: r) = a ++ [10] ++ joinLines r := by simp [joinLines]
    rw [this, List.count_append, List.count_append, ha, ih (fun l hl => h l (by simp [hl]))]
    simp; omega

/-- **lines_shape** — the number of lines of the exposition depends only on the SHAPE of the
    families (help present or not, type, number of samples, buckets and quantiles): no help text,
    label value or number, whatever bytes it consists of, adds or removes a line -/
theorem lines_shape_doc (fmt : UInt64 → Str) (fams : List Family) (hwf : WF fams) (hf : FmtOk fmt (valuesOf fams)) :
    (encode fmt fams).1.count 10 = (fams.map famLineCount).sum := by
  have henc := encode_lines fmt fams (fun f hfm => by
    have w := hwf f hfm
    refine ⟨w.nonempty, ?_, w.ty⟩
    intro e
    have := w.name
    rw [e] at this
    simp [isValidMetricName, isValidIdent] at this)
  have hp := parses_doc fmt fams hwf hf (tsOk_all fams)
  rw [henc]
  show (joinLines (docLines fmt fams)).count 10 = _
  rw [count_lf_joinLines _ hp.no_lf]
  simp only [docLines, List.length_flatMap, famLines_length]

end Prom.C04.RT
