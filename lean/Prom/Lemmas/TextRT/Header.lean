import Prom.Lemmas.TextRT.Defs
/- C04 round trip, package W3: header lines, and "no line contains a LF". -/
namespace Prom.C04.RT
open Prom Prom.Text Prom.TextParse Prom.C04

/-! ### helpers -/

theorem bs_help : bs "# HELP " = [35, 32, 72, 69, 76, 80, 32] := by decide +kernel
theorem bs_type : bs "# TYPE " = [35, 32, 84, 89, 80, 69, 32] := by decide +kernel
theorem bs_sp : bs " " = [32] := by decide +kernel

theorem metricStart_nameStart (b : UInt8) (h : metricStart b = true) : isNameStart b = true := by
  simp only [metricStart, labelStart, isAsciiAlpha, isNameStart, Bool.or_eq_true, Bool.and_eq_true] at *
  rcases h with ((h | h) | h) | h
  · exact Or.inl (Or.inl (Or.inl h))
  · exact Or.inl (Or.inl (Or.inr h))
  · exact Or.inl (Or.inr h)
  · exact Or.inr h

theorem labelStart_metricStart (b : UInt8) (h : labelStart b = true) : metricStart b = true := by
  simp only [metricStart, Bool.or_eq_true]; exact Or.inl h

theorem ident_all_nameByte (start : UInt8 → Bool) (hs : ∀ b, start b = true → isNameStart b = true)
    {n : Str} (h : isValidIdent start n = true) : ∀ b ∈ n, isNameByte b = true := by
  cases n with
  | nil => simp [isValidIdent] at h
  | cons c r =>
    simp only [isValidIdent, Bool.and_eq_true, List.all_eq_true, Bool.or_eq_true] at h
    intro b hb
    rcases List.mem_cons.1 hb with rfl | hb
    · simp only [isNameByte, Bool.or_eq_true]; exact Or.inl (hs _ h.1)
    · simp only [isNameByte, Bool.or_eq_true]
      rcases h.2 b hb with h' | h'
      · exact Or.inl (hs _ h')
      · exact Or.inr h'

theorem validName_all {n : Str} (h : isValidMetricName n = true) : ∀ b ∈ n, isNameByte b = true :=
  ident_all_nameByte metricStart metricStart_nameStart h

theorem validLabel_all {n : Str} (h : isValidLabelName n = true) : ∀ b ∈ n, isNameByte b = true :=
  ident_all_nameByte labelStart (fun b hb => metricStart_nameStart b (labelStart_metricStart b hb)) h

theorem nameByte_ne_lf {b : UInt8} (h : isNameByte b = true) : b ≠ 10 := by
  intro hb; subst hb; revert h; decide

theorem nameByte_ne_sp {b : UInt8} (h : isNameByte b = true) : b ≠ 32 := by
  intro hb; subst hb; revert h; decide

theorem splitSpace_name (n rest : Str) (h : ∀ b ∈ n, b ≠ 32) : splitSpace (n ++ 32 :: rest) = (n, rest) := by
  induction n with
  | nil => simp [splitSpace]
  | cons a t ih =>
    have ha : a ≠ 32 := h a (by simp)
    have iht := ih (fun b hb => h b (by simp [hb]))
    simp only [splitSpace, Prod.mk.injEq] at iht ⊢
    simp only [List.cons_append, List.takeWhile_cons, List.dropWhile_cons, bne_iff_ne, ne_eq, ha,
      not_false_eq_true, if_true, List.cons.injEq, true_and]
    exact iht

theorem dropBlanks_of_head (s : Str) (h : ∀ b r, s = b :: r → b ≠ 32 ∧ b ≠ 9) : dropBlanks s = s := by
  cases s with
  | nil => rfl
  | cons b r =>
    obtain ⟨h1, h2⟩ := h b r rfl
    simp [dropBlanks, h1, h2]

theorem escape_head (q : Bool) (v : Str) (h : ∀ b r, v = b :: r → b ≠ 32 ∧ b ≠ 9) :
    ∀ b r, escapeString q v = b :: r → b ≠ 32 ∧ b ≠ 9 := by
  rw [Esc.escape_eq_flatMap]
  cases v with
  | nil => intro b r hbr; simp at hbr
  | cons a t =>
    obtain ⟨h1, h2⟩ := h a t rfl
    intro b r hbr
    simp only [List.flatMap_cons] at hbr
    by_cases e1 : a = 92
    · subst e1; rw [escByte_bs] at hbr
      simp only [List.cons_append, List.cons.injEq] at hbr
      rw [← hbr.1]; decide
    · by_cases e2 : a = 10
      · subst e2; rw [escByte_lf] at hbr
        simp only [List.cons_append, List.cons.injEq] at hbr
        rw [← hbr.1]; decide
      · by_cases e3 : q = true ∧ a = 34
        · obtain ⟨hq, ha⟩ := e3; subst hq; subst ha
          rw [escByte_quote] at hbr
          simp only [List.cons_append, List.cons.injEq] at hbr
          rw [← hbr.1]; decide
        · rw [escByte_other q a e1 e2 e3] at hbr
          simp only [List.cons_append, List.nil_append, List.cons.injEq] at hbr
          rw [← hbr.1]; exact ⟨h1, h2⟩

theorem mem_intercalate {sep : Str} {items : List Str} {x : UInt8} (h : x ∈ sep.intercalate items) :
    x ∈ sep ∨ ∃ i ∈ items, x ∈ i := by
  unfold List.intercalate at h
  rw [List.mem_flatten] at h
  obtain ⟨l, hl, hx⟩ := h
  induction items with
  | nil => simp at hl
  | cons a t ih =>
    cases t with
    | nil =>
      simp only [List.intersperse_singleton, List.mem_singleton] at hl
      subst hl; exact Or.inr ⟨_, by simp, hx⟩
    | cons b t' =>
      simp only [List.intersperse_cons_cons, List.mem_cons] at hl
      rcases hl with rfl | rfl | hl
      · exact Or.inr ⟨_, by simp, hx⟩
      · exact Or.inl hx
      · rcases ih (by simpa using hl) with h' | ⟨i, hi, hxi⟩
        · exact Or.inl h'
        · exact Or.inr ⟨i, List.mem_cons_of_mem _ hi, hxi⟩

/-! ### the package -/

theorem parseType_typeName (ty : MType) : parseType (typeName ty) = some ty := by
  cases ty <;> decide +kernel

theorem parseLine_help (f : Family) (hn : isValidMetricName f.name = true) (hne : f.help ≠ [])
    (hh : ∀ b r, f.help = b :: r → b ≠ 32 ∧ b ≠ 9) : parseLine (helpLine f) = some (.help f.name f.help) := by
  have hsp : ∀ b ∈ f.name, b ≠ 32 := fun b hb => nameByte_ne_sp (validName_all hn b hb)
  have hline : helpLine f = [35, 32, 72, 69, 76, 80, 32] ++ (f.name ++ 32 :: escapeString false f.help) := by
    simp only [helpLine, bs_help, bs_sp, List.append_assoc, List.cons_append, List.nil_append]
  unfold parseLine
  rw [hline, bs_help]
  have hp : ([35, 32, 72, 69, 76, 80, 32] : Str).isPrefixOf
      ([35, 32, 72, 69, 76, 80, 32] ++ (f.name ++ 32 :: escapeString false f.help)) = true := by
    simp [List.isPrefixOf]
  rw [if_pos hp]
  have hd : ([35, 32, 72, 69, 76, 80, 32] ++ (f.name ++ 32 :: escapeString false f.help)).drop 7
      = f.name ++ 32 :: escapeString false f.help := by
    simp
  simp only [hd, splitSpace_name _ _ hsp]
  rw [dropBlanks_of_head _ (escape_head false f.help hh), Esc.unescape_escape]

theorem parseLine_type (f : Family) (hn : isValidMetricName f.name = true) :
    parseLine (typeLine f) = some (.type f.name (typeName f.ty)) := by
  have hsp : ∀ b ∈ f.name, b ≠ 32 := fun b hb => nameByte_ne_sp (validName_all hn b hb)
  have hline : typeLine f = [35, 32, 84, 89, 80, 69, 32] ++ (f.name ++ 32 :: typeName f.ty) := by
    simp only [typeLine, bs_type, bs_sp, List.append_assoc, List.cons_append, List.nil_append]
  unfold parseLine
  rw [hline, bs_help, bs_type]
  have hp1 : ([35, 32, 72, 69, 76, 80, 32] : Str).isPrefixOf
      ([35, 32, 84, 89, 80, 69, 32] ++ (f.name ++ 32 :: typeName f.ty)) = false := by
    simp [List.isPrefixOf]
  have hp2 : ([35, 32, 84, 89, 80, 69, 32] : Str).isPrefixOf
      ([35, 32, 84, 89, 80, 69, 32] ++ (f.name ++ 32 :: typeName f.ty)) = true := by
    simp [List.isPrefixOf]
  rw [hp1, hp2]
  have hd : ([35, 32, 84, 89, 80, 69, 32] ++ (f.name ++ 32 :: typeName f.ty)).drop 7
      = f.name ++ 32 :: typeName f.ty := by
    simp
  simp only [hd, splitSpace_name _ _ hsp, Bool.false_eq_true, if_false, if_true]

theorem validName_no_lf {n : Str} (h : isValidMetricName n = true) : (10 : UInt8) ∉ n :=
  fun hm => nameByte_ne_lf (validName_all h _ hm) rfl

theorem validLabel_no_lf {n : Str} (h : isValidLabelName n = true) : (10 : UInt8) ∉ n :=
  fun hm => nameByte_ne_lf (validLabel_all h _ hm) rfl

theorem helpLine_no_lf (f : Family) (hn : isValidMetricName f.name = true) : (10 : UInt8) ∉ helpLine f := by
  intro h
  simp only [helpLine, bs_help, bs_sp, List.mem_append] at h
  rcases h with ((h | h) | h) | h
  · revert h; decide
  · exact validName_no_lf hn h
  · revert h; decide
  · exact Esc.escape_no_newline false f.help h

theorem typeName_no_lf (ty : MType) : (10 : UInt8) ∉ typeName ty := by
  cases ty <;> decide +kernel

theorem typeLine_no_lf (f : Family) (hn : isValidMetricName f.name = true) : (10 : UInt8) ∉ typeLine f := by
  intro h
  simp only [typeLine, bs_type, bs_sp, List.mem_append] at h
  rcases h with ((h | h) | h) | h
  · revert h; decide
  · exact validName_no_lf hn h
  · revert h; decide
  · exact typeName_no_lf f.ty h

theorem one_no_lf (n v : Str) (hn : isValidLabelName n = true) :
    (10 : UInt8) ∉ n ++ bs "=\"" ++ escapeString true v ++ bs "\"" := by
  intro h
  simp only [List.mem_append] at h
  rcases h with ((h | h) | h) | h
  · exact validLabel_no_lf hn h
  · revert h; decide +kernel
  · exact Esc.escape_no_newline true v h
  · revert h; decide +kernel

theorem labelPairs_no_lf (pairs : List LabelPair) (extra : Option (Str × Str))
    (hl : ∀ l ∈ pairs, isValidLabelName l.name = true)
    (he : ∀ e, extra = some e → isValidLabelName e.1 = true) :
    (10 : UInt8) ∉ labelPairsToText pairs extra := by
  intro h
  unfold labelPairsToText at h
  split at h
  · simp at h
  · simp only [List.mem_append] at h
    rcases h with (h | h) | h
    · revert h; decide +kernel
    · rcases mem_intercalate h with h | ⟨i, hi, hx⟩
      · revert h; decide +kernel
      · rw [List.mem_append] at hi
        rcases hi with hi | hi
        · rw [List.mem_map] at hi
          obtain ⟨p, hp, rfl⟩ := hi
          exact one_no_lf p.name p.value (hl p hp) hx
        · cases extra with
          | none => simp at hi
          | some e =>
            obtain ⟨en, ev⟩ := e
            simp only [List.mem_singleton] at hi
            subst hi
            exact one_no_lf en ev (he _ rfl) hx
    · revert h; decide +kernel

theorem sampleLine_no_lf (fmt : UInt64 → Str) (name pfx : Str) (s : Sample) (extra : Option (Str × Str)) (v : UInt64)
    (hn : isValidMetricName name = true) (hp : pfx.all isNameByte = true)
    (hl : ∀ l ∈ s.labels, isValidLabelName l.name = true)
    (he : ∀ e, extra = some e → isValidLabelName e.1 = true ∧ ∀ b ∈ e.2, cleanByte b)
    (hc : ∀ b ∈ fmt v, cleanByte b) (ht : ∀ b ∈ intToStr s.ts, b ≠ 32 ∧ b ≠ 10) :
    (10 : UInt8) ∉ sampleLine fmt name pfx s extra v := by
  intro h
  simp only [sampleLine, List.mem_append] at h
  rcases h with ((((h | h) | h) | h) | h) | h
  · exact validName_no_lf hn h
  · rw [List.all_eq_true] at hp
    exact nameByte_ne_lf (hp _ h) rfl
  · exact labelPairs_no_lf s.labels extra hl (fun e hee => (he e hee).1) h
  · revert h; decide +kernel
  · exact (hc _ h).2.1 rfl
  · split at h
    · rw [List.mem_append] at h
      rcases h with h | h
      · revert h; decide +kernel
      · exact (ht _ h).2 rfl
    · simp at h

end Prom.C04.RT
