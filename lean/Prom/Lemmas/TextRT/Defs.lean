import Prom.Lemmas.C04Esc
/-
C04, document-level round trip: definitions shared by the lemma files.
`docLines` is the encoder's output line by line; `expDoc` is what the independent reader's line
parser must make of those lines; `WF` is the (decidable) well-formedness of the families.
-/
namespace Prom.C04.RT
open Prom Prom.Text Prom.TextParse Prom.C04

def joinLines (ls : List Str) : Str := ls.flatMap (· ++ [10])

/-- one sample line, without its LF (`write_sample`) -/
def sampleLine (fmt : UInt64 → Str) (name pfx : Str) (s : Sample) (extra : Option (Str × Str)) (value : UInt64) : Str :=
  name ++ pfx ++ labelPairsToText s.labels extra ++ bs " " ++ fmt value ++
    (if s.ts != 0 then bs " " ++ intToStr s.ts else [])

/-- the lines of one sample (mirror of `Text.sampleText`) -/
def sampleLines (fmt : UInt64 → Str) (name : Str) (ty : MType) (s : Sample) : List Str :=
  match ty with
  | .counter => [sampleLine fmt name [] s none s.counterVal]
  | .gauge => [sampleLine fmt name [] s none s.gaugeVal]
  | .histogram =>
    (histOf s).2.2.map (fun b => sampleLine fmt name (bs "_bucket") s (some (bs "le", fmt b.1)) (f64OfNat b.2)) ++
    (if (histOf s).2.2.any (fun b => f64IsPosInf b.1) then []
     else [sampleLine fmt name (bs "_bucket") s (some (bs "le", bs "+Inf")) (f64OfNat (histOf s).1)]) ++
    [sampleLine fmt name (bs "_sum") s none (histOf s).2.1, sampleLine fmt name (bs "_count") s none (f64OfNat (histOf s).1)]
  | .summary =>
    (summaryOf s).2.2.map (fun q => sampleLine fmt name [] s (some (bs "quantile", fmt q.1)) q.2) ++
    [sampleLine fmt name (bs "_sum") s none (summaryOf s).2.1, sampleLine fmt name (bs "_count") s none (f64OfNat (summaryOf s).1)]
  | .untyped => []

def helpLine (f : Family) : Str := bs "# HELP " ++ f.name ++ bs " " ++ escapeString false f.help
def typeLine (f : Family) : Str := bs "# TYPE " ++ f.name ++ bs " " ++ typeName f.ty

def headerLines (f : Family) : List Str := (if f.help.isEmpty then [] else [helpLine f]) ++ [typeLine f]
def famLines (fmt : UInt64 → Str) (f : Family) : List Str :=
  headerLines f ++ f.samples.flatMap (sampleLines fmt f.name f.ty)
def docLines (fmt : UInt64 → Str) (fams : List Family) : List Str := fams.flatMap (famLines fmt)

/-! ### what the reader's line parser must return for those lines -/

def pairsOf (ls : List LabelPair) : List (Str × Str) := ls.map fun p => (p.name, p.value)

def expSample (name pfx : Str) (s : Sample) (extra : Option (Str × Str)) (value : UInt64) : Line :=
  .sample ⟨name ++ pfx, pairsOf s.labels ++ extra.toList, canonF64 value, s.ts⟩

def expSampleLines (fmt : UInt64 → Str) (name : Str) (ty : MType) (s : Sample) : List Line :=
  match ty with
  | .counter => [expSample name [] s none s.counterVal]
  | .gauge => [expSample name [] s none s.gaugeVal]
  | .histogram =>
    (histOf s).2.2.map (fun b => expSample name (bs "_bucket") s (some (bs "le", fmt b.1)) (f64OfNat b.2)) ++
    (if (histOf s).2.2.any (fun b => f64IsPosInf b.1) then []
     else [expSample name (bs "_bucket") s (some (bs "le", bs "+Inf")) (f64OfNat (histOf s).1)]) ++
    [expSample name (bs "_sum") s none (histOf s).2.1, expSample name (bs "_count") s none (f64OfNat (histOf s).1)]
  | .summary =>
    (summaryOf s).2.2.map (fun q => expSample name [] s (some (bs "quantile", fmt q.1)) q.2) ++
    [expSample name (bs "_sum") s none (summaryOf s).2.1, expSample name (bs "_count") s none (f64OfNat (summaryOf s).1)]
  | .untyped => []

def expHeader (f : Family) : List Line :=
  (if f.help.isEmpty then [] else [Line.help f.name f.help]) ++ [Line.type f.name (typeName f.ty)]
def expFam (fmt : UInt64 → Str) (f : Family) : List Line :=
  expHeader f ++ f.samples.flatMap (expSampleLines fmt f.name f.ty)
def expDoc (fmt : UInt64 → Str) (fams : List Family) : List Line := fams.flatMap (expFam fmt)

/-! ### hypotheses -/

/-- every f64 the encoder formats for these families -/
def sampleValues (ty : MType) (s : Sample) : List UInt64 :=
  match ty with
  | .counter => [s.counterVal]
  | .gauge => [s.gaugeVal]
  | .histogram => (histOf s).2.2.flatMap (fun b => [b.1, f64OfNat b.2]) ++ [f64OfNat (histOf s).1, (histOf s).2.1]
  | .summary => (summaryOf s).2.2.flatMap (fun q => [q.1, q.2]) ++ [f64OfNat (summaryOf s).1, (summaryOf s).2.1]
  | .untyped => []
def valuesOf (fams : List Family) : List UInt64 := fams.flatMap fun f => f.samples.flatMap (sampleValues f.ty)

/-- the counts the encoder prints through `as f64` -/
def sampleCounts (ty : MType) (s : Sample) : List Nat :=
  match ty with
  | .histogram => (histOf s).1 :: (histOf s).2.2.map (·.2)
  | .summary => [(summaryOf s).1]
  | _ => []
def countsOf (fams : List Family) : List Nat := fams.flatMap fun f => f.samples.flatMap (sampleCounts f.ty)

def cleanByte (b : UInt8) : Prop := b ≠ 32 ∧ b ≠ 10 ∧ b ≠ 34 ∧ b ≠ 92

instance : DecidablePred cleanByte := fun b => by unfold cleanByte; infer_instance

/-- what the theorem needs of `f64::to_string` (Rust std), for the values that occur: it reads back to
    the same value under the exact decimal reader and uses no blank, LF, quote or backslash. Checked
    by the driver for every value of every run. -/
structure FmtOk (fmt : UInt64 → Str) (vals : List UInt64) : Prop where
  reads : ∀ v ∈ vals, parseFloat (fmt v) = some (canonF64 v)
  clean : ∀ v ∈ vals, ∀ b ∈ fmt v, cleanByte b

/-- what the theorem needs of `u64 as f64` for the counts that occur (below 2^53 it is exact; Lean's
    `Float.ofNat` is opaque to the kernel, so this is a hypothesis) -/
def CountsOk (counts : List Nat) : Prop := ∀ n ∈ counts, f64ToNat? (f64OfNat n) = some n

/-- what the theorem needs of `i64::to_string` for the timestamps that occur -/
def TsOk (fams : List Family) : Prop :=
  ∀ f ∈ fams, ∀ s ∈ f.samples, parseInt (intToStr s.ts) = some s.ts ∧ ∀ b ∈ intToStr s.ts, b ≠ 32 ∧ b ≠ 10

/-- well-formed families: valid names, help not starting with a blank or tab, a supported type, at
    least one sample, every sample's value slot matching the family type, valid label names -/
structure WFFam (f : Family) : Prop where
  name : isValidMetricName f.name = true
  help : ∀ b r, f.help = b :: r → b ≠ 32 ∧ b ≠ 9
  ty : f.ty ≠ .untyped
  nonempty : f.samples ≠ []
  kinds : ∀ s ∈ f.samples, s.val.kind = f.ty
  labels : ∀ s ∈ f.samples, ∀ l ∈ s.labels, isValidLabelName l.name = true

def WF (fams : List Family) : Prop := ∀ f ∈ fams, WFFam f

end Prom.C04.RT
