import Prom.Lemmas.TextRT.Defs
/- C04 round trip, package W2: the reader's line parser on one sample line written by the encoder. -/
namespace Prom.C04.RT
open Prom Prom.Text Prom.TextParse Prom.C04

/-! ### small list facts -/

theorem tw_app (p : UInt8 → Bool) (a : Str) (c : UInt8) (r : Str)
    (ha : ∀ b ∈ a, p b = true) (hc : p c = false) :
    (a ++ c :: r).takeWhile p = a ∧ (a ++ c :: r).dropWhile p = c :: r := by
  induction a with
  | nil => simp [hc]
  | cons x t ih =>
    have hx := ha x (by simp)
    have := ih (fun b hb => ha b (by simp [hb]))
    simp [hx, this]

theorem tw_all (p : UInt8 → Bool) (a : Str) (ha : ∀ b ∈ a, p b = true) :
    a.takeWhile p = a ∧ a.dropWhile p = [] := by
  induction a with
  | nil => simp
  | cons x t ih =>
    have hx := ha x (by simp)
    have := ih (fun b hb => ha b (by simp [hb]))
    simp [hx, this]

theorem intercalate_cons (sep : Str) (x : Str) (xs : List Str) :
    sep.intercalate (x :: xs) = x ++ xs.flatMap (fun y => sep ++ y) := by
  induction xs generalizing x with
  | nil => simp [List.intercalate]
  | cons y r ih =>
    have := ih y
    simp only [List.intercalate, List.intersperse, List.flatten_cons, List.flatMap_cons] at this ⊢
    rw [this]
    simp

/-! ### identifiers are made of name bytes -/

theorem labelStart_nameStart (b : UInt8) (h : labelStart b = true) : isNameStart b = true := by
  have : metricStart b = true := by simp [metricStart, h]
  exact this

theorem validIdent_bytes (start : UInt8 → Bool) (hs : ∀ b, start b = true → isNameStart b = true) {n : Str}
    (h : isValidIdent start n = true) :
    ∃ c r, n = c :: r ∧ isNameStart c = true ∧ ∀ b ∈ n, isNameByte b = true := by
  cases n with
  | nil => simp [isValidIdent] at h
  | cons c r =>
    simp only [isValidIdent, Bool.and_eq_true, List.all_eq_true, Bool.or_eq_true] at h
    refine ⟨c, r, rfl, hs c h.1, ?_⟩
    intro b hb
    simp only [List.mem_cons] at hb
    unfold isNameByte
    rcases hb with rfl | hb
    · simp [hs _ h.1]
    · rcases h.2 b hb with h1 | h1
      · simp [hs _ h1]
      · have : isDigit b = true := h1
        simp [this]

/-! ### the label block -/

/-- one `name="escaped value"` item -/
def one (x : Str × Str) : Str := x.1 ++ 61 :: 34 :: (escapeString true x.2 ++ [34])

/-- `label_pairs_to_text` over plain pairs -/
def labelsText : List (Str × Str) → Str
  | [] => []
  | x :: L => 123 :: (one x ++ (L.flatMap (fun y => 44 :: one y) ++ [125]))

theorem labelPairsToText_eq (ls : List LabelPair) (extra : Option (Str × Str)) :
    labelPairsToText ls extra = labelsText (pairsOf ls ++ extra.toList) := by
  have h1 : bs "=\"" = [61, 34] := by decide +kernel
  have h2 : bs "\"" = [34] := by decide +kernel
  have h3 : bs "{" = [123] := by decide +kernel
  have h4 : bs "}" = [125] := by decide +kernel
  have h5 : bs "," = [44] := by decide +kernel
  have hone : ∀ n v : Str, n ++ bs "=\"" ++ escapeString true v ++ bs "\"" = one (n, v) := by
    intro n v; simp [one, h1, h2]
  have hmap : ls.map (fun p => p.name ++ bs "=\"" ++ escapeString true p.value ++ bs "\"") = (pairsOf ls).map one := by
    simp only [hone, pairsOf, List.map_map]; rfl
  have hgen : labelPairsToText ls extra = if (ls.isEmpty && extra.isNone) = true then [] else
      [123] ++ List.intercalate [44] ((pairsOf ls ++ extra.toList).map one) ++ [125] := by
    unfold labelPairsToText
    cases extra with
    | none => simp only [hmap, h3, h4, h5, Option.toList_none, List.append_nil]
    | some e =>
      simp only [hone, h3, h4, h5, Option.toList_some, List.map_append, List.map_cons, List.map_nil]
      simp [pairsOf, List.map_map, Function.comp_def]
  rw [hgen]
  cases hL : pairsOf ls ++ extra.toList with
  | nil =>
    have : ls = [] ∧ extra = none := by
      cases ls <;> cases extra <;> simp_all [pairsOf]
    simp [this.1, this.2, labelsText]
  | cons x L =>
    have : (ls.isEmpty && extra.isNone) = false := by
      cases ls <;> cases extra <;> simp_all [pairsOf]
    simp only [this, Bool.false_eq_true, if_false, List.map_cons, intercalate_cons, labelsText]
    simp [List.flatMap_map]

theorem readLabels_item (f : Nat) (n v tail : Str) (acc : List (Str × Str))
    (hn : isValidLabelName n = true) :
    readLabels (f + 1) (n ++ 61 :: 34 :: (escapeString true v ++ 34 :: tail)) acc =
      match tail with
      | 44 :: r3 => readLabels f r3 ((n, v) :: acc)
      | 125 :: r3 => some (((n, v) :: acc).reverse, r3)
      | _ => none := by
  obtain ⟨c, n', hname, hcs, hnb⟩ := validIdent_bytes labelStart labelStart_nameStart hn
  have hc125 : c ≠ 125 := by intro h; subst h; revert hcs; decide
  have h61 : isNameByte 61 = false := by decide
  obtain ⟨htw, hdw⟩ := tw_app isNameByte n 61 (34 :: (escapeString true v ++ 34 :: tail)) hnb h61
  have hq : readQuoted (escapeString true v ++ 34 :: tail) [] = some (escapeString true v, tail) := by
    rw [Esc.escape_eq_flatMap, Esc.quoted_value_reads_back]; simp
  rw [readLabels.eq_def]
  simp only []
  split
  · rename_i heq
    rw [hname] at heq
    injection heq with ha _
    exact absurd ha hc125
  · rw [htw, hdw]
    have hne : n.isEmpty = false := by rw [hname]; rfl
    simp only [hne, Bool.false_eq_true, if_false, hq, Esc.unescape_escape]
    rfl

theorem readLabels_items (rest : Str) : ∀ (L : List (Str × Str)) (x : Str × Str) (acc : List (Str × Str)) (f : Nat),
    (∀ y ∈ x :: L, isValidLabelName y.1 = true) →
    (one x ++ (L.flatMap (fun y => 44 :: one y) ++ 125 :: rest)).length ≤ f →
    readLabels f (one x ++ (L.flatMap (fun y => 44 :: one y) ++ 125 :: rest)) acc
      = some (acc.reverse ++ x :: L, rest) := by
  intro L
  induction L with
  | nil =>
    intro x acc f hval hlen
    cases f with
    | zero => simp [one] at hlen
    | succ f =>
      have e : one x ++ (([] : List (Str × Str)).flatMap (fun y => 44 :: one y) ++ 125 :: rest)
          = x.1 ++ 61 :: 34 :: (escapeString true x.2 ++ 34 :: (125 :: rest)) := by simp [one]
      rw [e, readLabels_item f x.1 x.2 _ acc (hval x (by simp))]
      simp
  | cons y L ih =>
    intro x acc f hval hlen
    cases f with
    | zero => simp [one] at hlen
    | succ f =>
      have e : one x ++ ((y :: L).flatMap (fun y => 44 :: one y) ++ 125 :: rest)
          = x.1 ++ 61 :: 34 :: (escapeString true x.2 ++ 34 ::
              (44 :: (one y ++ (L.flatMap (fun y => 44 :: one y) ++ 125 :: rest)))) := by
        simp [one]
      rw [e] at hlen ⊢
      rw [readLabels_item f x.1 x.2 _ acc (hval x (by simp))]
      simp only []
      rw [ih y ((x.1, x.2) :: acc) f (fun z hz => hval z (by simp [List.mem_cons] at hz ⊢; right; exact hz))]
      · simp
      · simp only [List.length_append, List.length_cons] at hlen ⊢
        omega

/-! ### value and timestamp -/

def tsPart (s : Sample) : Str := if s.ts != 0 then 32 :: intToStr s.ts else []

/-- the part of `parseSampleLine` after the label block -/
def afterLabels (name : Str) (labels : List (Str × Str)) (r2 : Str) : Option PSample :=
  match r2 with
  | 32 :: r3 =>
    let (vtxt, r4) := splitSpace r3
    match parseFloat vtxt with
    | none => none
    | some v =>
      if r4.isEmpty then
        if r3.length == vtxt.length then some ⟨name, labels, v, 0⟩ else none
      else match parseInt r4 with
        | some t => some ⟨name, labels, v, t⟩
        | none => none
  | _ => none

def labelBlock (r : Str) : Option (List (Str × Str) × Str) :=
  match r with
  | 123 :: r1 => readLabels (r1.length + 1) r1 []
  | _ => some ([], r)

theorem labelBlock_blank (t : Str) : labelBlock (32 :: t) = some ([], 32 :: t) := rfl
theorem labelBlock_brace (t : Str) : labelBlock (123 :: t) = readLabels (t.length + 1) t [] := rfl

theorem parseSampleLine_eq (l : Str) :
    parseSampleLine l =
      (if (l.takeWhile isNameByte).isEmpty then none else
       match labelBlock (l.dropWhile isNameByte) with
       | none => none
       | some (labels, r2) => afterLabels (l.takeWhile isNameByte) labels r2) := rfl

theorem afterLabels_ok (fmt : UInt64 → Str) (nm : Str) (labels : List (Str × Str)) (s : Sample) (v : UInt64)
    (hv : parseFloat (fmt v) = some (canonF64 v)) (hc : ∀ b ∈ fmt v, cleanByte b)
    (ht : parseInt (intToStr s.ts) = some s.ts ∧ ∀ b ∈ intToStr s.ts, b ≠ 32 ∧ b ≠ 10) :
    afterLabels nm labels (32 :: (fmt v ++ tsPart s)) = some ⟨nm, labels, canonF64 v, s.ts⟩ := by
  have hp : ∀ b ∈ fmt v, (b != 32) = true := by
    intro b hb; have := (hc b hb).1; simpa using this
  unfold afterLabels splitSpace tsPart
  by_cases h0 : s.ts = 0
  · have hb : (s.ts != 0) = false := by simp [h0]
    obtain ⟨h1, h2⟩ := tw_all (· != 32) (fmt v) hp
    simp only [hb, Bool.false_eq_true, if_false, List.append_nil, h1, h2, hv, List.drop_nil,
      List.isEmpty_nil, if_true, beq_self_eq_true]
    rw [h0]
  · have hb : (s.ts != 0) = true := by simp [h0]
    have h32 : ((32 : UInt8) != 32) = false := by decide
    obtain ⟨h1, h2⟩ := tw_app (· != 32) (fmt v) 32 (intToStr s.ts) hp h32
    have hne : (intToStr s.ts).isEmpty = false := by
      cases hi : intToStr s.ts with
      | nil => have := ht.1; rw [hi] at this; simp [parseInt] at this
      | cons a t => rfl
    simp only [hb, if_true, h1, h2, hv, List.drop_succ_cons, List.drop_zero, hne, Bool.false_eq_true,
      if_false, ht.1]

/-! ### the theorem -/

/-- a sample line reads back as the metric name (with its suffix), the labels in order (the extra
    `le` / `quantile` label last), the value and the timestamp -/
theorem parseLine_sample (fmt : UInt64 → Str) (name pfx : Str) (s : Sample) (extra : Option (Str × Str)) (v : UInt64)
    (hn : isValidMetricName name = true) (hp : pfx.all isNameByte = true)
    (hl : ∀ l ∈ s.labels, isValidLabelName l.name = true)
    (he : ∀ e, extra = some e → isValidLabelName e.1 = true ∧ ∀ b ∈ e.2, cleanByte b)
    (hv : parseFloat (fmt v) = some (canonF64 v)) (hc : ∀ b ∈ fmt v, cleanByte b)
    (ht : parseInt (intToStr s.ts) = some s.ts ∧ ∀ b ∈ intToStr s.ts, b ≠ 32 ∧ b ≠ 10) :
    parseLine (sampleLine fmt name pfx s extra v) = some (expSample name pfx s extra v) := by
  obtain ⟨c, n', hname, hcs, hnb⟩ := validIdent_bytes metricStart (fun b h => h) hn
  have hHELP : bs "# HELP " = [35, 32, 72, 69, 76, 80, 32] := by decide +kernel
  have hTYPE : bs "# TYPE " = [35, 32, 84, 89, 80, 69, 32] := by decide +kernel
  have hsp : bs " " = [32] := by decide +kernel
  have hc35 : c ≠ 35 := by intro h; subst h; revert hcs; decide
  have hnp : ∀ b ∈ name ++ pfx, isNameByte b = true := by
    intro b hb
    rw [List.mem_append] at hb
    rcases hb with hb | hb
    · exact hnb b hb
    · exact (List.all_eq_true.1 hp) b hb
  have hLval : ∀ y ∈ pairsOf s.labels ++ extra.toList, isValidLabelName y.1 = true := by
    intro y hy
    rw [List.mem_append] at hy
    rcases hy with hy | hy
    · simp only [pairsOf, List.mem_map] at hy
      obtain ⟨l, hl', rfl⟩ := hy
      exact hl l hl'
    · cases extra with
      | none => simp at hy
      | some e =>
        simp at hy
        subst hy
        exact (he _ rfl).1
  have hline : sampleLine fmt name pfx s extra v
      = (name ++ pfx) ++ (labelsText (pairsOf s.labels ++ extra.toList) ++ 32 :: (fmt v ++ tsPart s)) := by
    simp [sampleLine, labelPairsToText_eq, hsp, tsPart]
  have hnot : ∀ p : Str, List.isPrefixOf (35 :: p) (sampleLine fmt name pfx s extra v) = false := by
    intro p
    rw [hline, hname]
    simp [List.isPrefixOf, Ne.symm hc35]
  have hne : (name ++ pfx).isEmpty = false := by rw [hname]; rfl
  unfold parseLine
  rw [hHELP, hTYPE, hnot, hnot]
  simp only [Bool.false_eq_true, if_false]
  rw [parseSampleLine_eq, hline]
  simp only [expSample]
  cases hL : pairsOf s.labels ++ extra.toList with
  | nil =>
    have h32 : isNameByte 32 = false := by decide
    obtain ⟨h1, h2⟩ := tw_app isNameByte (name ++ pfx) 32 (fmt v ++ tsPart s) hnp h32
    simp only [labelsText, List.nil_append, h1, h2, hne, Bool.false_eq_true, if_false, labelBlock_blank]
    rw [afterLabels_ok fmt _ _ s v hv hc ht]
    rfl
  | cons x L =>
    have h123 : isNameByte 123 = false := by decide
    have e : labelsText (x :: L) ++ 32 :: (fmt v ++ tsPart s)
        = 123 :: (one x ++ (L.flatMap (fun y => 44 :: one y) ++ 125 :: (32 :: (fmt v ++ tsPart s)))) := by
      simp [labelsText]
    rw [e]
    obtain ⟨h1, h2⟩ := tw_app isNameByte (name ++ pfx) 123
      (one x ++ (L.flatMap (fun y => 44 :: one y) ++ 125 :: (32 :: (fmt v ++ tsPart s)))) hnp h123
    simp only [h1, h2, hne, Bool.false_eq_true, if_false, labelBlock_brace]
    rw [readLabels_items _ L x [] _ (by rw [← hL]; exact hLval) (Nat.le_succ _)]
    simp only [List.reverse_nil, List.nil_append]
    rw [afterLabels_ok fmt _ _ s v hv hc ht]
    rfl

end Prom.C04.RT
