import Prom.Lemmas.TextRT.Defs
/- C04 round trip, package W5: decimal integers (`intToStr` = Lean's `toString` on `Int`, standing for Rust's `i64::to_string`). -/
namespace Prom.C04.RT
open Prom Prom.Text Prom.TextParse Prom.C04

/-! ### `ByteArray.toList` is the underlying list -/

theorem byteArray_toList_loop (b : ByteArray) (i : Nat) (r : List UInt8) :
    ByteArray.toList.loop b i r = r.reverse ++ b.data.toList.drop i := by
  fun_induction ByteArray.toList.loop b i r with
  | case1 i r h ih =>
    rw [ih]
    have h' : i < b.data.size := by simpa using h
    have hi : i < b.data.toList.length := by simpa using h
    have hget : b.get! i = b.data.toList[i] := by
      simp only [ByteArray.get!, Array.getElem_toList]
      exact getElem!_pos b.data i h'
    rw [List.drop_eq_getElem_cons hi, hget]
    simp
  | case2 i r h =>
    have hi : b.data.toList.length ≤ i := by simpa using h
    simp [List.drop_eq_nil_of_le hi]

theorem byteArray_toList (b : ByteArray) : b.toList = b.data.toList := by
  simp [ByteArray.toList, byteArray_toList_loop]

/-- the bytes of a string are the concatenated UTF-8 encodings of its characters -/
theorem bs_ofList (l : List Char) : bs (String.ofList l) = l.flatMap String.utf8EncodeChar := by
  simp [bs, byteArray_toList, String.toByteArray_ofList, List.utf8Encode]

theorem utf8EncodeChar_digit (c : Char) (h : c.isDigit = true) :
    String.utf8EncodeChar c = [c.val.toUInt8] := by
  apply String.utf8EncodeChar_eq_singleton
  simp only [Char.isDigit, Bool.and_eq_true, decide_eq_true_eq, ge_iff_le] at h
  have h2 : c.val.toNat ≤ 57 := UInt32.le_iff_toNat_le.mp h.2
  simp only [Char.utf8Size]
  have : c.val ≤ 127 := by
    apply UInt32.le_iff_toNat_le.mpr
    show c.val.toNat ≤ 127
    omega
  simp [this]

theorem bs_ofList_digits (l : List Char) (h : ∀ c ∈ l, c.isDigit = true) :
    bs (String.ofList l) = l.map (fun c => c.val.toUInt8) := by
  rw [bs_ofList]
  induction l with
  | nil => rfl
  | cons c l ih =>
    rw [List.flatMap_cons, List.map_cons, ih (fun c hc => h c (List.mem_cons_of_mem _ hc)),
      utf8EncodeChar_digit c (h c List.mem_cons_self)]
    rfl

/-- facts about the byte of a digit character -/
theorem digit_byte (c : Char) (h : c.isDigit = true) :
    isDigit c.val.toUInt8 = true ∧ c.val.toUInt8.toNat - 48 = c.toNat - '0'.toNat := by
  simp only [Char.isDigit, Bool.and_eq_true, decide_eq_true_eq, ge_iff_le] at h
  have h1 : 48 ≤ c.val.toNat := UInt32.le_iff_toNat_le.mp h.1
  have h2 : c.val.toNat ≤ 57 := UInt32.le_iff_toNat_le.mp h.2
  have hb : c.val.toUInt8.toNat = c.val.toNat := by
    rw [UInt32.toNat_toUInt8]; omega
  refine ⟨?_, ?_⟩
  · simp only [isDigit, Bool.and_eq_true, decide_eq_true_eq]
    constructor
    · apply UInt8.le_iff_toNat_le.mpr; rw [hb]; simpa using h1
    · apply UInt8.le_iff_toNat_le.mpr; rw [hb]; simpa using h2
  · rw [hb]; rfl

theorem digitsVal_fold (l : List Char) (h : ∀ c ∈ l, c.isDigit = true) (init : Nat) :
    (l.map (fun c => c.val.toUInt8)).foldl (fun acc d => acc * 10 + (d.toNat - 48)) init
      = Nat.ofDigitChars 10 l init := by
  induction l generalizing init with
  | nil => simp
  | cons c l ih =>
    rw [List.map_cons, List.foldl_cons, Nat.ofDigitChars_cons,
      ih (fun c hc => h c (List.mem_cons_of_mem _ hc)),
      (digit_byte c (h c List.mem_cons_self)).2, Nat.mul_comm]

/-- the decimal text of a natural number: all digits, nonempty, reads back -/
theorem nat_repr_bytes (n : Nat) :
    (bs n.repr ≠ []) ∧ (bs n.repr).all isDigit = true ∧ digitsVal (bs n.repr) = n := by
  have hd : ∀ c ∈ Nat.toDigits 10 n, c.isDigit = true :=
    fun c hc => Nat.isDigit_of_mem_toDigits (by decide) (by decide) hc
  rw [Nat.repr_eq_ofList_toDigits, bs_ofList_digits _ hd]
  refine ⟨?_, ?_, ?_⟩
  · simp
  · rw [List.all_eq_true]
    intro b hb
    obtain ⟨c, hc, rfl⟩ := List.mem_map.mp hb
    exact (digit_byte c (hd c hc)).1
  · unfold digitsVal
    rw [digitsVal_fold _ hd, Nat.ofDigitChars_ten_toDigits]

theorem isDigit_ne (b : UInt8) (h : isDigit b = true) : b ≠ 32 ∧ b ≠ 10 ∧ b ≠ 45 := by
  simp only [isDigit, Bool.and_eq_true, decide_eq_true_eq] at h
  have := UInt8.le_iff_toNat_le.mp h.1
  refine ⟨?_, ?_, ?_⟩ <;> (rintro rfl; simp at this)

theorem bs_append (s t : String) : bs (s ++ t) = bs s ++ bs t := by
  simp [bs, byteArray_toList, String.toByteArray_append]

/-- a decimal integer reads back as itself and contains neither a blank nor a LF -/
theorem int_roundtrip (t : Int) : parseInt (intToStr t) = some t ∧ ∀ b ∈ intToStr t, b ≠ 32 ∧ b ≠ 10 := by
  unfold intToStr
  rw [Int.toString_eq_repr, Int.repr_eq_if]
  split
  · rename_i h0
    obtain ⟨hne, hall, hval⟩ := nat_repr_bytes t.toNat
    refine ⟨?_, ?_⟩
    · generalize hr : bs t.toNat.repr = r at hne hall hval
      have h45 : ∀ r', r ≠ 45 :: r' := by
        rintro r' rfl
        have := (List.all_eq_true.mp hall) 45 List.mem_cons_self
        exact absurd this (by decide)
      unfold parseInt
      split
      · rename_i r' ; exact absurd rfl (h45 r')
      · have : r.isEmpty = false := by cases r <;> simp_all
        simp only [this, hall, Bool.not_true, Bool.or_self, Bool.false_eq_true, ↓reduceIte, hval]
        congr 1
        omega
    · intro b hb
      have := isDigit_ne b ((List.all_eq_true.mp hall) b hb)
      exact ⟨this.1, this.2.1⟩
  · rename_i h0
    obtain ⟨hne, hall, hval⟩ := nat_repr_bytes (-t).toNat
    have hdash : bs "-" = [45] := by decide +kernel
    rw [bs_append, hdash]
    refine ⟨?_, ?_⟩
    · generalize hr : bs (-t).toNat.repr = r at hne hall hval
      have : r.isEmpty = false := by cases r <;> simp_all
      simp only [parseInt, List.singleton_append, this, hall, Bool.not_true, Bool.or_self,
        Bool.false_eq_true, ↓reduceIte, hval]
      congr 1
      omega
    · intro b hb
      rcases List.mem_append.mp hb with hb | hb
      · simp only [List.mem_singleton] at hb
        subst hb; decide
      · have := isDigit_ne b ((List.all_eq_true.mp hall) b hb)
        exact ⟨this.1, this.2.1⟩

end Prom.C04.RT
