import Prom.Lemmas.TextRT.Defs
/- C04 round trip, package W4: grouping the parsed lines back into families. -/
namespace Prom.C04.RT
open Prom Prom.Text Prom.TextParse Prom.C04

namespace Grp

/-! ### small facts -/

theorem app_beq (n a b : Str) : (n ++ a == n ++ b) = (a == b) := by
  rw [Bool.eq_iff_iff]; simp

theorem parseType_typeName' (ty : MType) : parseType (typeName ty) = some ty := by
  cases ty <;> decide +kernel

theorem toPairs_pairsOf (ls : List LabelPair) : toPairs (pairsOf ls) = ls := by
  induction ls with
  | nil => rfl
  | cons a r ih =>
    simp only [pairsOf, toPairs, List.map_cons, List.cons.injEq, true_and] at ih ⊢
    exact ih

theorem stripLast_snoc (ps : List (Str × Str)) (k v : Str) :
    stripLast (ps ++ [(k, v)]) k = some (ps, v) := by
  simp [stripLast]

/-- a count that reads back is not a NaN -/
theorem toNat_not_nan (x : UInt64) (n : Nat) (h : f64ToNat? x = some n) : f64IsNaN x = false := by
  unfold f64ToNat? at h
  split at h
  · rename_i h0
    have : x = 0 := by simpa using h0
    subst this; decide
  · cases hn : f64IsNaN x with
    | false => rfl
    | true =>
      exfalso
      simp only [] at h
      split at h
      · cases h
      · rename_i hc
        simp only [Bool.or_eq_true, decide_eq_true_eq, not_or] at hc
        obtain ⟨⟨h1, h2⟩, h3⟩ := hc
        simp only [f64IsNaN, decide_eq_true_eq, gt_iff_lt, UInt64.lt_iff_toNat_lt, UInt64.toNat_and] at hn
        simp only [ge_iff_le, UInt64.le_iff_toNat_le, Nat.not_le] at h1
        simp only [UInt64.toNat_and, UInt64.toNat_shiftRight] at h3
        have e1 : UInt64.toNat 9223372036854775807 = 2 ^ 63 - 1 := by decide
        have e2 : UInt64.toNat 2047 = 2 ^ 11 - 1 := by decide
        have e3 : UInt64.toNat 52 % 64 = 52 := by decide
        have e4 : UInt64.toNat 9218868437227405312 = 9218868437227405312 := by decide
        have e5 : UInt64.toNat 9223372036854775808 = 9223372036854775808 := by decide
        rw [e1, e4, Nat.and_two_pow_sub_one_eq_mod] at hn
        rw [e5] at h1
        rw [e2, e3, Nat.and_two_pow_sub_one_eq_mod, Nat.shiftRight_eq_div_pow] at h3
        omega

theorem canon_count (n : Nat) (h : f64ToNat? (f64OfNat n) = some n) :
    f64ToNat? (canonF64 (f64OfNat n)) = some n := by
  have := toNat_not_nan _ _ h
  simp only [canonF64, this, Bool.false_eq_true, if_false]
  exact h

/-! ### single steps of `group` -/

theorem group_sample (p : PSample) (rest : List Line) (c c' : Cur) (acc : List Family)
    (h : addSample c p = some c') :
    group (.sample p :: rest) (some c) none acc = group rest (some c') none acc := by
  simp [group, h]

theorem sfx_bucket_sum : (bs "_sum" == bs "_bucket") = false := by decide +kernel
theorem sfx_bucket_count : (bs "_count" == bs "_bucket") = false := by decide +kernel
theorem sfx_sum_count : (bs "_count" == bs "_sum") = false := by decide +kernel
theorem sfx_nil_sum : (([] : Str) == bs "_sum") = false := by decide +kernel
theorem sfx_nil_count : (([] : Str) == bs "_count") = false := by decide +kernel

theorem add_counter (name help : Str) (samples : List Sample) (ls : List (Str × Str)) (v : UInt64) (ts : Int) :
    addSample ⟨name, help, .counter, samples, [], [], none⟩ ⟨name ++ [], ls, v, ts⟩ =
      some ⟨name, help, .counter, ⟨toPairs ls, .counter v, ts⟩ :: samples, [], [], none⟩ := by
  simp [addSample]

theorem add_gauge (name help : Str) (samples : List Sample) (ls : List (Str × Str)) (v : UInt64) (ts : Int) :
    addSample ⟨name, help, .gauge, samples, [], [], none⟩ ⟨name ++ [], ls, v, ts⟩ =
      some ⟨name, help, .gauge, ⟨toPairs ls, .gauge v, ts⟩ :: samples, [], [], none⟩ := by
  simp [addSample]

theorem add_bucket (name help : Str) (samples : List Sample) (bacc : List (UInt64 × Nat))
    (ls : List (Str × Str)) (le : Str) (v ub : UInt64) (n : Nat) (ts : Int)
    (h1 : parseFloat le = some ub) (h2 : f64ToNat? v = some n) :
    addSample ⟨name, help, .histogram, samples, bacc, [], none⟩ ⟨name ++ bs "_bucket", ls ++ [(bs "le", le)], v, ts⟩ =
      some ⟨name, help, .histogram, samples, (ub, n) :: bacc, [], none⟩ := by
  simp [addSample, stripLast_snoc, h1, h2]

theorem add_hsum (name help : Str) (samples : List Sample) (bacc : List (UInt64 × Nat))
    (ls : List (Str × Str)) (v : UInt64) (ts : Int) :
    addSample ⟨name, help, .histogram, samples, bacc, [], none⟩ ⟨name ++ bs "_sum", ls, v, ts⟩ =
      some ⟨name, help, .histogram, samples, bacc, [], some v⟩ := by
  simp [addSample, app_beq, sfx_bucket_sum]

theorem add_hcount (name help : Str) (samples : List Sample) (bacc : List (UInt64 × Nat))
    (ls : List (Str × Str)) (v sum : UInt64) (n : Nat) (ts : Int) (h : f64ToNat? v = some n) :
    addSample ⟨name, help, .histogram, samples, bacc, [], some sum⟩ ⟨name ++ bs "_count", ls, v, ts⟩ =
      some ⟨name, help, .histogram, ⟨toPairs ls, .hist n sum bacc.reverse, ts⟩ :: samples, [], [], none⟩ := by
  simp [addSample, app_beq, sfx_bucket_count, sfx_sum_count, h]

theorem add_quant (name help : Str) (samples : List Sample) (qacc : List (UInt64 × UInt64))
    (ls : List (Str × Str)) (q : Str) (v qv : UInt64) (ts : Int)
    (h1 : parseFloat q = some qv) :
    addSample ⟨name, help, .summary, samples, [], qacc, none⟩ ⟨name ++ [], ls ++ [(bs "quantile", q)], v, ts⟩ =
      some ⟨name, help, .summary, samples, [], (qv, v) :: qacc, none⟩ := by
  have e1 : (name == name ++ bs "_sum") = false := by
    have := app_beq name [] (bs "_sum"); rw [List.append_nil] at this; rw [this]; exact sfx_nil_sum
  have e2 : (name == name ++ bs "_count") = false := by
    have := app_beq name [] (bs "_count"); rw [List.append_nil] at this; rw [this]; exact sfx_nil_count
  simp [addSample, e1, e2, stripLast_snoc, h1]

theorem add_ssum (name help : Str) (samples : List Sample) (qacc : List (UInt64 × UInt64))
    (ls : List (Str × Str)) (v : UInt64) (ts : Int) :
    addSample ⟨name, help, .summary, samples, [], qacc, none⟩ ⟨name ++ bs "_sum", ls, v, ts⟩ =
      some ⟨name, help, .summary, samples, [], qacc, some v⟩ := by
  simp [addSample]

theorem add_scount (name help : Str) (samples : List Sample) (qacc : List (UInt64 × UInt64))
    (ls : List (Str × Str)) (v sum : UInt64) (n : Nat) (ts : Int) (h : f64ToNat? v = some n) :
    addSample ⟨name, help, .summary, samples, [], qacc, some sum⟩ ⟨name ++ bs "_count", ls, v, ts⟩ =
      some ⟨name, help, .summary, ⟨toPairs ls, .summary n sum qacc.reverse, ts⟩ :: samples, [], [], none⟩ := by
  simp [addSample, app_beq, sfx_sum_count, h]

/-! ### one sample -/

theorem parse_inf : parseFloat (bs "+Inf") = some f64PosInf := by decide +kernel

theorem hist_buckets (fmt : UInt64 → Str) (name help : Str) (samples : List Sample) (s : Sample)
    (rest : List Line) (acc : List Family) (bks : List (UInt64 × Nat))
    (h : ∀ b ∈ bks, parseFloat (fmt b.1) = some (canonF64 b.1) ∧ f64ToNat? (f64OfNat b.2) = some b.2) :
    ∀ bacc, group (bks.map (fun b => expSample name (bs "_bucket") s (some (bs "le", fmt b.1)) (f64OfNat b.2)) ++ rest)
        (some ⟨name, help, .histogram, samples, bacc, [], none⟩) none acc =
      group rest (some ⟨name, help, .histogram, samples, (bks.map fun b => (canonF64 b.1, b.2)).reverse ++ bacc, [], none⟩) none acc := by
  induction bks with
  | nil => intro bacc; rfl
  | cons b r ih =>
    intro bacc
    have hb := h b (by simp)
    simp only [List.map_cons, List.cons_append, expSample, Option.toList_some]
    rw [group_sample _ _ _ _ _ (add_bucket name help samples bacc _ _ _ _ _ _ hb.1 (canon_count _ hb.2))]
    have := ih (fun x hx => h x (by simp [hx])) ((canonF64 b.1, b.2) :: bacc)
    simp only [expSample, Option.toList_some] at this
    rw [this]
    simp

theorem summ_quants (fmt : UInt64 → Str) (name help : Str) (samples : List Sample) (s : Sample)
    (rest : List Line) (acc : List Family) (qs : List (UInt64 × UInt64))
    (h : ∀ q ∈ qs, parseFloat (fmt q.1) = some (canonF64 q.1)) :
    ∀ qacc, group (qs.map (fun q => expSample name [] s (some (bs "quantile", fmt q.1)) q.2) ++ rest)
        (some ⟨name, help, .summary, samples, [], qacc, none⟩) none acc =
      group rest (some ⟨name, help, .summary, samples, [], (qs.map fun q => (canonF64 q.1, canonF64 q.2)).reverse ++ qacc, none⟩) none acc := by
  induction qs with
  | nil => intro qacc; rfl
  | cons q r ih =>
    intro qacc
    have hq := h q (by simp)
    simp only [List.map_cons, List.cons_append, expSample, Option.toList_some]
    rw [group_sample _ _ _ _ _ (add_quant name help samples qacc _ _ _ _ _ hq)]
    have := ih (fun x hx => h x (by simp [hx])) ((canonF64 q.1, canonF64 q.2) :: qacc)
    simp only [expSample, Option.toList_some] at this
    rw [this]
    simp

/-- the sample as it is read back -/
def rb (s : Sample) : Sample := { s with val := canonVal s.val }

theorem one_sample (fmt : UInt64 → Str) (name help : Str) (ty : MType) (samples : List Sample) (s : Sample)
    (rest : List Line) (acc : List Family) (hk : s.val.kind = ty) (hty : ty ≠ .untyped)
    (hv : ∀ v ∈ sampleValues ty s, parseFloat (fmt v) = some (canonF64 v))
    (hc : ∀ n ∈ sampleCounts ty s, f64ToNat? (f64OfNat n) = some n) :
    group (expSampleLines fmt name ty s ++ rest) (some ⟨name, help, ty, samples, [], [], none⟩) none acc =
      group rest (some ⟨name, help, ty, rb s :: samples, [], [], none⟩) none acc := by
  obtain ⟨labels, val, ts⟩ := s
  cases val with
  | counter v =>
    subst hk
    simp only [MVal.kind, expSampleLines, expSample, Sample.counterVal, Option.toList_none, List.cons_append, List.nil_append]
    rw [group_sample _ _ _ _ _ (add_counter name help samples _ _ _)]
    simp [rb, canonVal, toPairs_pairsOf]
  | gauge v =>
    subst hk
    simp only [MVal.kind, expSampleLines, expSample, Sample.gaugeVal, Option.toList_none, List.cons_append, List.nil_append]
    rw [group_sample _ _ _ _ _ (add_gauge name help samples _ _ _)]
    simp [rb, canonVal, toPairs_pairsOf]
  | untyped v => exact absurd hk.symm hty
  | hist c sum bks =>
    subst hk
    simp only [MVal.kind, sampleValues, sampleCounts, histOf] at hv hc
    have hbk : ∀ b ∈ bks, parseFloat (fmt b.1) = some (canonF64 b.1) ∧ f64ToNat? (f64OfNat b.2) = some b.2 := by
      intro b hb
      refine ⟨hv _ ?_, hc _ ?_⟩
      · exact List.mem_append_left _ (List.mem_flatMap.2 ⟨b, hb, by simp⟩)
      · exact List.mem_cons_of_mem _ (List.mem_map.2 ⟨b, hb, rfl⟩)
    have hcnt : f64ToNat? (f64OfNat c) = some c := hc c (by simp)
    simp only [MVal.kind, expSampleLines, histOf, List.append_assoc]
    rw [hist_buckets fmt name help samples _ _ acc bks hbk []]
    by_cases hany : bks.any (fun b => f64IsPosInf b.1) = true
    · simp only [hany, if_true, List.nil_append, List.cons_append, expSample, Option.toList_none, List.append_nil]
      rw [group_sample _ _ _ _ _ (add_hsum name help samples _ _ _ _)]
      rw [group_sample _ _ _ _ _ (add_hcount name help samples _ _ _ _ _ _ (canon_count _ hcnt))]
      simp [rb, canonVal, toPairs_pairsOf, hany]
    · simp only [hany, Bool.false_eq_true, if_false, List.nil_append, List.cons_append, expSample, Option.toList_none,
        Option.toList_some, List.append_nil]
      rw [group_sample _ _ _ _ _ (add_bucket name help samples _ _ _ _ _ _ _ parse_inf (canon_count _ hcnt))]
      rw [group_sample _ _ _ _ _ (add_hsum name help samples _ _ _ _)]
      rw [group_sample _ _ _ _ _ (add_hcount name help samples _ _ _ _ _ _ (canon_count _ hcnt))]
      simp [rb, canonVal, toPairs_pairsOf, hany]
  | summary c sum qs =>
    subst hk
    simp only [MVal.kind, sampleValues, sampleCounts, summaryOf] at hv hc
    have hq : ∀ q ∈ qs, parseFloat (fmt q.1) = some (canonF64 q.1) := by
      intro q hq
      exact hv _ (List.mem_append_left _ (List.mem_flatMap.2 ⟨q, hq, by simp⟩))
    have hcnt : f64ToNat? (f64OfNat c) = some c := hc c (by simp)
    simp only [MVal.kind, expSampleLines, summaryOf, List.append_assoc]
    rw [summ_quants fmt name help samples _ _ acc qs hq []]
    simp only [List.nil_append, List.cons_append, expSample, Option.toList_none, List.append_nil]
    rw [group_sample _ _ _ _ _ (add_ssum name help samples _ _ _ _)]
    rw [group_sample _ _ _ _ _ (add_scount name help samples _ _ _ _ _ _ (canon_count _ hcnt))]
    simp [rb, canonVal, toPairs_pairsOf]

/-! ### one family -/

theorem all_samples (fmt : UInt64 → Str) (name help : Str) (ty : MType) (rest : List Line) (acc : List Family)
    (hty : ty ≠ .untyped) (ss : List Sample)
    (hk : ∀ s ∈ ss, s.val.kind = ty)
    (hv : ∀ s ∈ ss, ∀ v ∈ sampleValues ty s, parseFloat (fmt v) = some (canonF64 v))
    (hc : ∀ s ∈ ss, ∀ n ∈ sampleCounts ty s, f64ToNat? (f64OfNat n) = some n) :
    ∀ samples, group (ss.flatMap (expSampleLines fmt name ty) ++ rest) (some ⟨name, help, ty, samples, [], [], none⟩) none acc =
      group rest (some ⟨name, help, ty, (ss.map rb).reverse ++ samples, [], [], none⟩) none acc := by
  induction ss with
  | nil => intro samples; rfl
  | cons s r ih =>
    intro samples
    simp only [List.flatMap_cons, List.append_assoc]
    rw [one_sample fmt name help ty samples s _ acc (hk s (by simp)) hty (hv s (by simp)) (hc s (by simp))]
    rw [ih (fun x hx => hk x (by simp [hx])) (fun x hx => hv x (by simp [hx])) (fun x hx => hc x (by simp [hx]))]
    simp

/-- the list of families finished so far, once the family being read (if any) is closed -/
def closed : Option Cur → List Family → Option (List Family)
  | none, acc => some acc
  | some c, acc => c.finish.map (· :: acc)

theorem header (f : Family) (rest : List Line) (cur : Option Cur) (acc acc' : List Family)
    (h : closed cur acc = some acc') :
    group (expHeader f ++ rest) cur none acc = group rest (some ⟨f.name, f.help, f.ty, [], [], [], none⟩) none acc' := by
  unfold expHeader
  by_cases hh : f.help.isEmpty = true
  · have he : f.help = [] := by simpa using hh
    simp only [hh, if_true, List.nil_append, List.cons_append]
    cases cur with
    | none =>
      simp only [closed, Option.some.injEq] at h
      subst h
      simp [group, parseType_typeName', he]
    | some c =>
      simp only [closed, Option.map_eq_some_iff] at h
      obtain ⟨g, hg, rfl⟩ := h
      simp [group, parseType_typeName', he, hg]
  · simp only [hh, Bool.false_eq_true, if_false, List.nil_append, List.cons_append]
    cases cur with
    | none =>
      simp only [closed, Option.some.injEq] at h
      subst h
      simp [group, parseType_typeName']
    | some c =>
      simp only [closed, Option.map_eq_some_iff] at h
      obtain ⟨g, hg, rfl⟩ := h
      simp [group, parseType_typeName', hg]

def rbFam (f : Family) : Family := { f with samples := f.samples.map rb }

theorem one_fam (fmt : UInt64 → Str) (f : Family) (hw : WFFam f)
    (hv : ∀ s ∈ f.samples, ∀ v ∈ sampleValues f.ty s, parseFloat (fmt v) = some (canonF64 v))
    (hc : ∀ s ∈ f.samples, ∀ n ∈ sampleCounts f.ty s, f64ToNat? (f64OfNat n) = some n)
    (rest : List Line) (cur : Option Cur) (acc acc' : List Family) (h : closed cur acc = some acc') :
    ∃ c, closed (some c) acc' = some (rbFam f :: acc') ∧
      group (expFam fmt f ++ rest) cur none acc = group rest (some c) none acc' := by
  refine ⟨⟨f.name, f.help, f.ty, (f.samples.map rb).reverse ++ [], [], [], none⟩, ?_, ?_⟩
  · simp [closed, Cur.finish, rbFam]
  · unfold expFam
    rw [List.append_assoc, header f _ cur acc acc' h]
    exact all_samples fmt f.name f.help f.ty rest acc' hw.ty f.samples hw.kinds hv hc []

theorem all_fams (fmt : UInt64 → Str) (fams : List Family) (hwf : WF fams)
    (hf : FmtOk fmt (valuesOf fams)) (hc : CountsOk (countsOf fams)) :
    ∀ (cur : Option Cur) (acc acc' : List Family), closed cur acc = some acc' →
      group (expDoc fmt fams) cur none acc = some (acc'.reverse ++ fams.map rbFam) := by
  induction fams with
  | nil =>
    intro cur acc acc' h
    cases cur with
    | none =>
      simp only [closed, Option.some.injEq] at h
      subst h
      simp [expDoc, group]
    | some c =>
      simp only [closed, Option.map_eq_some_iff] at h
      obtain ⟨g, hg, rfl⟩ := h
      simp [expDoc, group, hg]
  | cons f r ih =>
    intro cur acc acc' h
    have hv : ∀ s ∈ f.samples, ∀ v ∈ sampleValues f.ty s, parseFloat (fmt v) = some (canonF64 v) := by
      intro s hs v hv
      refine hf.reads v ?_
      simp only [valuesOf, List.flatMap_cons]
      exact List.mem_append_left _ (List.mem_flatMap.2 ⟨s, hs, hv⟩)
    have hc' : ∀ s ∈ f.samples, ∀ n ∈ sampleCounts f.ty s, f64ToNat? (f64OfNat n) = some n := by
      intro s hs n hn
      refine hc n ?_
      simp only [countsOf, List.flatMap_cons]
      exact List.mem_append_left _ (List.mem_flatMap.2 ⟨s, hs, hn⟩)
    obtain ⟨c, hcl, hg⟩ := one_fam fmt f (hwf f (by simp)) hv hc' (expDoc fmt r) cur acc acc' h
    have e : expDoc fmt (f :: r) = expFam fmt f ++ expDoc fmt r := by simp [expDoc]
    rw [e, hg]
    have hf' : FmtOk fmt (valuesOf r) :=
      ⟨fun v hv => hf.reads v (by simp only [valuesOf, List.flatMap_cons]; exact List.mem_append_right _ hv),
       fun v hv => hf.clean v (by simp only [valuesOf, List.flatMap_cons]; exact List.mem_append_right _ hv)⟩
    have hc'' : CountsOk (countsOf r) := fun n hn =>
      hc n (by simp only [countsOf, List.flatMap_cons]; exact List.mem_append_right _ hn)
    rw [ih (fun g hg => hwf g (by simp [hg])) hf' hc'' (some c) acc' (rbFam f :: acc') hcl]
    simp

theorem canon_eq (fams : List Family) : canon fams = fams.map rbFam := rfl

end Grp

/-- the parsed lines of a well-formed document regroup into exactly the canonical form of the
    families: same order, names, help, types, label lists, values; each histogram as its cumulative
    buckets with a `+Inf` bucket equal to the count, then sum and count -/
theorem group_doc (fmt : UInt64 → Str) (fams : List Family) (hwf : WF fams)
    (hf : FmtOk fmt (valuesOf fams)) (hc : CountsOk (countsOf fams)) :
    group (expDoc fmt fams) none none [] = some (canon fams) := by
  rw [Grp.all_fams fmt fams hwf hf hc none [] [] rfl, Grp.canon_eq]
  simp

end Prom.C04.RT
