import Prom.Lemmas.TextRT.Defs
/- C04 round trip, package W1: the encoder's output is its lines joined by LF; the reader's line splitter undoes that. -/
namespace Prom.C04.RT
open Prom Prom.Text Prom.TextParse Prom.C04

theorem bs_lf : bs "\n" = [10] := by decide +kernel

theorem joinLines_nil : joinLines [] = [] := rfl
theorem joinLines_cons (l : Str) (ls : List Str) : joinLines (l :: ls) = l ++ [10] ++ joinLines ls := by
  simp [joinLines]
theorem joinLines_append (a b : List Str) : joinLines (a ++ b) = joinLines a ++ joinLines b := by
  simp [joinLines]
theorem joinLines_singleton (l : Str) : joinLines [l] = l ++ [10] := by
  simp [joinLines]
theorem joinLines_flatMap {α : Type} (xs : List α) (f : α → List Str) :
    joinLines (xs.flatMap f) = xs.flatMap (fun x => joinLines (f x)) := by
  induction xs with
  | nil => rfl
  | cons x r ih => simp [List.flatMap_cons, joinLines_append, ih]
theorem joinLines_map {α : Type} (xs : List α) (f : α → Str) :
    joinLines (xs.map f) = xs.flatMap (fun x => f x ++ [10]) := by
  induction xs with
  | nil => rfl
  | cons x r ih => simp [joinLines_cons, ih]

theorem splitLines_go_line (l : Str) : ∀ (cur rest : Str) (acc : List Str), (10 : UInt8) ∉ l →
    splitLines.go cur (l ++ 10 :: rest) acc = splitLines.go [] rest ((cur.reverse ++ l) :: acc) := by
  induction l with
  | nil =>
    intro cur rest acc _
    simp [splitLines.go]
  | cons b l ih =>
    intro cur rest acc h
    have hb : b ≠ 10 := fun e => h (by simp [e])
    have hl : (10 : UInt8) ∉ l := fun e => h (by simp [e])
    have hb' : (b == 10) = false := by simpa using hb
    simp only [List.cons_append, splitLines.go, hb']
    rw [ih (b :: cur) rest acc hl]
    simp

theorem splitLines_go_join : ∀ (ls : List Str) (acc : List Str), (∀ l ∈ ls, (10 : UInt8) ∉ l) →
    splitLines.go [] (joinLines ls) acc = some (acc.reverse ++ ls) := by
  intro ls
  induction ls with
  | nil =>
    intro acc _
    simp [joinLines, splitLines.go]
  | cons l ls ih =>
    intro acc h
    rw [joinLines_cons, List.append_assoc, List.singleton_append,
      splitLines_go_line l [] _ acc (h l (by simp))]
    rw [ih _ (fun x hx => h x (by simp [hx]))]
    simp

/-- the reader's line splitter recovers the lines (none of which contains a LF) -/
theorem splitLines_join (ls : List Str) (h : ∀ l ∈ ls, (10 : UInt8) ∉ l) : splitLines (joinLines ls) = some ls := by
  unfold splitLines
  rw [splitLines_go_join ls [] h]
  simp

/-- `write_sample` is the sample line plus one LF -/
theorem writeSample_eq (fmt : UInt64 → Str) (name pfx : Str) (s : Sample) (extra : Option (Str × Str)) (v : UInt64) :
    writeSample fmt name pfx s extra v = sampleLine fmt name pfx s extra v ++ [10] := by
  simp only [writeSample, sampleLine, bs_lf]

theorem sampleText_eq (fmt : UInt64 → Str) (name : Str) (ty : MType) (s : Sample) (hty : ty ≠ .untyped) :
    sampleText fmt name ty s = some (joinLines (sampleLines fmt name ty s)) := by
  cases ty with
  | untyped => exact absurd rfl hty
  | counter => simp [sampleText, sampleLines, writeSample_eq, joinLines_singleton]
  | gauge => simp [sampleText, sampleLines, writeSample_eq, joinLines_singleton]
  | histogram =>
    simp only [sampleText, sampleLines, writeSample_eq, joinLines_append, joinLines_map]
    split <;> simp [joinLines_cons, joinLines_nil]
  | summary =>
    simp only [sampleText, sampleLines, writeSample_eq, joinLines_append, joinLines_map]
    simp [joinLines_cons, joinLines_nil]

theorem samplesText_eq (fmt : UInt64 → Str) (name : Str) (ty : MType) (hty : ty ≠ .untyped) (ss : List Sample) :
    samplesText fmt name ty ss = (joinLines (ss.flatMap (sampleLines fmt name ty)), true) := by
  induction ss with
  | nil => rfl
  | cons s r ih =>
    simp only [samplesText, sampleText_eq fmt name ty s hty, ih, List.flatMap_cons, joinLines_append]

theorem header_eq (f : Family) : header f = joinLines (headerLines f) := by
  unfold header headerLines helpLine typeLine
  split <;> simp [joinLines_cons, joinLines_nil, bs_lf]

/-- the encoder model's output is exactly the document's lines, each followed by LF, and it returns Ok -/
theorem encode_lines (fmt : UInt64 → Str) (fams : List Family)
    (h : ∀ f ∈ fams, f.samples ≠ [] ∧ f.name ≠ [] ∧ f.ty ≠ .untyped) :
    encode fmt fams = (joinLines (docLines fmt fams), true) := by
  induction fams with
  | nil => rfl
  | cons f r ih =>
    obtain ⟨hs, hn, hty⟩ := h f (by simp)
    have ih' := ih (fun g hg => h g (by simp [hg]))
    have h1 : f.samples.isEmpty = false := by simpa [List.isEmpty_iff] using hs
    have h2 : f.name.isEmpty = false := by simpa [List.isEmpty_iff] using hn
    simp only [encode, h1, h2, samplesText_eq fmt f.name f.ty hty, ih', docLines, famLines,
      List.flatMap_cons, joinLines_append, header_eq]
    simp

end Prom.C04.RT
