import Prom.Model.Vec
/-
C17 — helper lemmas about vector lookups issued one after the other (`afterLookups`): names and the
builder flag are preserved, children only grow, a well-formed lookup leaves its key present.
Used by the property theorems `lookup_ok_iff`, `illformed_lookup_after_any_history`, `remove_ok_iff`,
`remove_after_lookup_ok` in `Props/C17.lean`.
-/
namespace Prom.C17
open Prom

/-- the vector after the well-formed (or not) lookups `pre` were issued one after the other: what the
    driver builds for a `fall vec … pre=…` request before the call under test -/
def afterLookups (v : MVec) (pre : List (List Str)) : MVec :=
  pre.foldl (fun v a => (withLabelValues v a).1) v

theorem afterLookups_cons (v : MVec) (a : List Str) (pre : List (List Str)) :
    afterLookups v (a :: pre) = afterLookups (withLabelValues v a).1 pre := rfl

theorem wlv_names (v : MVec) (a : List Str) :
    (withLabelValues v a).1.names = v.names ∧ (withLabelValues v a).1.buildFails = v.buildFails := by
  unfold withLabelValues
  split
  · exact ⟨rfl, rfl⟩
  · unfold getOrCreate
    split
    · exact ⟨rfl, rfl⟩
    · split <;> exact ⟨rfl, rfl⟩

theorem wlv_children_mono (v : MVec) (a : List Str) (p : UInt64 × Nat) (hp : p ∈ v.children) :
    p ∈ (withLabelValues v a).1.children := by
  unfold withLabelValues
  split
  · exact hp
  · unfold getOrCreate
    split
    · exact hp
    · split
      · exact hp
      · exact List.mem_append_left _ hp

theorem lookupKey_isSome_iff (v : MVec) (k : UInt64) :
    (lookupKey v k).isSome = true ↔ ∃ p ∈ v.children, p.1 = k := by
  unfold lookupKey
  rw [Option.isSome_map, List.find?_isSome]
  constructor
  · rintro ⟨x, hx, he⟩; exact ⟨x, hx, by simpa using he⟩
  · rintro ⟨x, hx, he⟩; exact ⟨x, hx, by simpa using he⟩

theorem hash_ok (v : MVec) (vals : List Str) (hl : vals.length = v.names.length) :
    hashLabelValues v vals = .ok (vecKey vals) := by
  unfold hashLabelValues
  simp [hl]

theorem hash_err (v : MVec) (vals : List Str) (hl : vals.length ≠ v.names.length) :
    hashLabelValues v vals = .error (.card v.names.length vals.length) := by
  unfold hashLabelValues
  simp [hl]

theorem wlv_present (v : MVec) (hb : v.buildFails = false) (a : List Str)
    (hl : a.length = v.names.length) :
    ∃ p ∈ (withLabelValues v a).1.children, p.1 = vecKey a := by
  unfold withLabelValues
  rw [hash_ok v a hl]
  simp only []
  unfold getOrCreate
  cases hlk : lookupKey v (vecKey a) with
  | some id =>
    simp only []
    exact (lookupKey_isSome_iff v (vecKey a)).1 (by rw [hlk]; rfl)
  | none =>
    simp only [hb]
    exact ⟨(vecKey a, v.store.length), by simp, rfl⟩

theorem afterLookups_children_mono (v : MVec) (pre : List (List Str)) (p : UInt64 × Nat)
    (hp : p ∈ v.children) : p ∈ (afterLookups v pre).children := by
  induction pre generalizing v with
  | nil => exact hp
  | cons a t ih =>
    rw [afterLookups_cons]
    exact ih _ (wlv_children_mono v a p hp)

theorem afterLookups_present (v0 : MVec) (hb : v0.buildFails = false) (pre : List (List Str))
    (vals : List Str) (hm : vals ∈ pre) (hl : vals.length = v0.names.length) :
    ∃ p ∈ (afterLookups v0 pre).children, p.1 = vecKey vals := by
  induction pre generalizing v0 with
  | nil => cases hm
  | cons a t ih =>
    rw [afterLookups_cons]
    have h2 := wlv_names v0 a
    rcases List.mem_cons.1 hm with rfl | hm
    · obtain ⟨p, hp, hk⟩ := wlv_present v0 hb vals hl
      exact ⟨p, afterLookups_children_mono _ t p hp, hk⟩
    · exact ih _ (h2.2.trans hb) hm (by rw [h2.1]; exact hl)

end Prom.C17
