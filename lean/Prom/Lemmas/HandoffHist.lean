import Prom.Lemmas.Handoff
import Prom.Lemmas.HistRefine
/-
The machine-side facts that make `Handoff.handoff_hb` applicable to the traces the histogram replay
machine `Prom.HM` accepts:
  * an accepted event on a shard's count cell is the observer's publish (`fetch_add`, at least
    Release), the collector's spin (compare-exchange, at least Acquire) or the collector's `addCount`
    (`fetch_add`) — where each `fetch_add` may be written as a load + compare-exchange loop whose
    successful exchange carries the same ordering (`FaEv`) — never a store or a swap, so every
    modification of a count cell is an RMW (a successful compare-exchange IS one);
  * hence, in the memory-event trace of ANY accepted trace, every release write to a count cell
    synchronizes with every later successful spin on it (`replay_handoff`).
-/
namespace Prom.HM
open Prom Prom.Conc Hp Prom.Handoff

/-- the events a compare-exchange loop on a sum cell accepts are on that sum cell -/
theorem casLoop_loc {e : Ev} {c : Hp.St} {pc : Pc} {b : Bool} {cell : Nat} {a : Int} {onOk r : Res}
    (h : casLoop e c pc b cell a onOk = .ok r) : parseLoc e.loc = .sum b := by
  have hload : ∀ x, casLoad e c pc b x = .ok r → parseLoc e.loc = .sum b := by
    intro x h
    unfold casLoad at h
    rw [guard_ok] at h; obtain ⟨hg, _⟩ := h
    simp only [Bool.and_eq_true, beq_iff_eq] at hg
    exact hg.1.1.1.2
  unfold casLoop at h
  split at h
  · exact hload _ h
  · split at h
    · exact hload _ h
    · rw [guard_ok] at h; obtain ⟨hg, _⟩ := h
      simp only [Bool.and_eq_true, beq_iff_eq] at hg
      exact hg.1.1.1.1.1.2

/-- the events a `fetch_add` site that needs the ordering `ord` accepts: THE step - the `fetch_add`, or the
    successful compare-exchange of the loop it is written as, with an ordering at least `ord` -, or a stutter
    of that loop - a load, a failed compare-exchange -/
def FaEv (e : Ev) (ord : String) : Prop :=
  ((e.k = "A" ∨ (e.k = "C" ∧ e.ok = true)) ∧ ordGe e.ord ord = true) ∨ e.k = "L" ∨ (e.k = "C" ∧ e.ok = false)

/-- what a `fetch_add` site accepts is on the site's cell and is a `FaEv` of the site's ordering -/
theorem fetchAdd_ev {e : Ev} {c : Hp.St} {pc : Pc} {loc : Loc} {ord : String} {a x : UInt64} {ok : Bool}
    {msg : String} {onOk r : Res} (h : fetchAdd e c pc loc ord a x ok msg onOk = .ok r) :
    parseLoc e.loc = loc ∧ FaEv e ord := by
  rcases fetchAdd_cases h with ⟨_, hl, hk⟩ | ⟨_, _, hl, ho, _, hk⟩
  · exact ⟨hl, .inr hk⟩
  · exact ⟨hl, .inl ⟨hk, ho⟩⟩

/-- a `FaEv` is a load, a `fetch_add` or a compare-exchange; as a memory event it reads, and it writes only
    if it is the `fetch_add` or a SUCCESSFUL compare-exchange - a read-modify-write with the site's ordering -/
theorem FaEv.kind {e : Ev} {ord : String} (h : FaEv e ord) :
    (e.k = "A" ∨ e.k = "C" ∨ e.k = "L") ∧ (ofEv e).rd = true ∧
    ((ofEv e).wr = true → (e.k = "A" ∨ (e.k = "C" ∧ e.ok = true)) ∧ ordGe e.ord ord = true) := by
  rcases h with ⟨hk | ⟨hk, hok⟩, ho⟩ | hk | ⟨hk, hok⟩
  · exact ⟨.inl hk, by simp [ofEv, hk], fun _ => ⟨.inl hk, ho⟩⟩
  · exact ⟨.inr (.inl hk), by simp [ofEv, hk], fun _ => ⟨.inr ⟨hk, hok⟩, ho⟩⟩
  · exact ⟨.inr (.inr hk), by simp [ofEv, hk], fun hw => by simp [ofEv, hk] at hw⟩
  · exact ⟨.inr (.inl hk), by simp [ofEv, hk], fun hw => by simp [ofEv, hk, hok] at hw⟩

/-- **what touches a count cell** — an event the machine accepts whose location is the count of
    shard `b` belongs to one of exactly three steps: the publish of an observer on `b` (a `fetch_add` site
    with an ordering at least Release: `FaEv e "Release"`), the spin of a collector whose cold shard is `b`
    (a compare-exchange with an ordering at least Acquire), or the `addCount` of a collector whose hot shard
    is `b` (a `fetch_add` site: `FaEv e "Relaxed"`) -/
theorem evStep1_cnt_cases {k : Nat} {c : Hp.St} {cuts : Cuts} {e : Ev} {pc : Pc} {r : Res × Cuts} {b : Bool}
    (h : evStep1 k c cuts e pc = .ok r) (hl : parseLoc e.loc = .cnt b) :
    (∃ o, pc.task = some (.obsRun o b []) ∧ FaEv e "Release") ∨
    (∃ ov S, pc.task = some (.colSpin b ov S) ∧ e.k = "C" ∧ ordGe e.ord "Acquire" = true) ∨
    (∃ ov todo taken S, pc.task = some (.colMove (!b) ov (.addCount :: todo) taken S) ∧ FaEv e "Relaxed") := by
  obtain ⟨r1, r2⟩ := r
  unfold evStep1 at h
  simp only at h
  split at h
  · -- count
    rw [plainR_ok, guard_ok] at h
    obtain ⟨⟨hg, _⟩, _⟩ := h
    simp only [Bool.and_eq_true, beq_iff_eq] at hg
    rw [hl] at hg; exact absurd hg.1.1.2 (by simp)
  · -- obsStart
    rw [plainR_ok] at h
    have := (fetchAdd_ev h.1).1
    rw [hl] at this; cases this
  · -- obsRun, an update left
    simp only [obsEntry] at h
    split at h
    · have := (fetchAdd_ev (plainR_ok.1 h).1).1
      rw [hl] at this; cases this
    · rw [plainR_ok] at h
      have := casLoop_loc h.1
      rw [hl] at this; cases this
  · -- obsRun, publish
    next o b' ht =>
    rw [plainR_ok] at h
    obtain ⟨hloc, hfa⟩ := fetchAdd_ev h.1
    have hb : b = b' := by rw [hl] at hloc; cases hloc; rfl
    subst hb
    exact .inl ⟨o, ht, hfa⟩
  · -- colWant
    rw [plainR_ok, guard_ok] at h
    obtain ⟨⟨hg, _⟩, _⟩ := h
    simp only [Bool.and_eq_true, beq_iff_eq] at hg
    rw [hl] at hg; exact absurd hg.1.2 (by simp)
  · -- colLocked
    split at h
    · split at h
      · rw [plainR_ok, guard_ok] at h
        obtain ⟨⟨hg, _⟩, _⟩ := h
        simp only [Bool.and_eq_true, beq_iff_eq] at hg
        rw [hl] at hg; exact absurd hg.1.1.2 (by simp)
      · split at h
        · rw [plainR_ok, guard_ok] at h
          obtain ⟨⟨hg, _⟩, _⟩ := h
          simp only [Bool.and_eq_true, beq_iff_eq] at hg
          rw [hl] at hg; exact absurd hg.1.1.1.2 (by simp)
        · rw [plainR_ok, guard_ok] at h
          obtain ⟨⟨hg, _⟩, _⟩ := h
          simp only [Bool.and_eq_true, beq_iff_eq] at hg
          rw [hl] at hg; exact absurd hg.2 (by simp)
    · rw [plainR_ok] at h
      have := (fetchAdd_ev h.1).1
      rw [hl] at this; cases this
  · -- colSpin
    next cold ov S ht =>
    rw [plainR_ok, guard_ok] at h
    obtain ⟨⟨hg, _⟩, _⟩ := h
    simp only [Bool.and_eq_true, beq_iff_eq] at hg
    have hb : b = cold := by have := hg.1.1.1.2; rw [hl] at this; cases this; rfl
    subst hb
    exact .inr (.inl ⟨ov, S, ht, hg.1.1.1.1, hg.1.1.2⟩)
  · -- swap
    split at h
    · rw [plainR_ok, guard_ok] at h
      obtain ⟨⟨hg, _⟩, _⟩ := h
      simp only [Bool.and_eq_true, beq_iff_eq] at hg
      rw [hl] at hg; exact absurd hg.1.1.1.2 (by simp)
    · rw [plainR_ok, guard_ok] at h
      obtain ⟨⟨hg, _⟩, _⟩ := h
      simp only [Bool.and_eq_true, beq_iff_eq] at hg
      rw [hl] at hg; exact absurd hg.1.1.1.1.2 (by simp)
  · -- addHot
    split at h
    · have := (fetchAdd_ev (plainR_ok.1 h).1).1
      rw [hl] at this; cases this
    · rw [plainR_ok] at h
      have := casLoop_loc h.1
      rw [hl] at this; cases this
  · -- addCount
    next cold ov todo taken S ht =>
    rw [plainR_ok] at h
    obtain ⟨hloc, hfa⟩ := fetchAdd_ev h.1
    have hb : b = !cold := by rw [hl] at hloc; cases hloc; rfl
    subst hb
    exact .inr (.inr ⟨ov, todo, taken, S, by simpa using ht, hfa⟩)
  · -- unlock
    split at h
    · cases h
    · next hg =>
      rw [guard_ok] at hg
      obtain ⟨hg, _⟩ := hg
      simp only [Bool.and_eq_true, beq_iff_eq] at hg
      rw [hl] at hg; exact absurd hg.2 (by simp)
  · cases h

/-- **what touches a count cell**, for the whole event step: as `evStep1_cnt_cases`, where the
    collector doing its `addCount` may have silently skipped the no-op `fetch_add(0)` of the bucket
    `addHot` step just before it (`taken cell = 0`) -/
theorem evStep_cnt_cases {k : Nat} {c : Hp.St} {cuts : Cuts} {e : Ev} {pc : Pc} {r : Res × Cuts} {b : Bool}
    (h : evStep k c cuts e pc = .ok r) (hl : parseLoc e.loc = .cnt b) :
    (∃ o, pc.task = some (.obsRun o b []) ∧ FaEv e "Release") ∨
    (∃ ov S, pc.task = some (.colSpin b ov S) ∧ e.k = "C" ∧ ordGe e.ord "Acquire" = true) ∨
    (∃ ov todo taken S, (pc.task = some (.colMove (!b) ov (.addCount :: todo) taken S) ∨
        ∃ cell, cell < k ∧ taken cell = 0 ∧
          pc.task = some (.colMove (!b) ov (.addHot cell :: .addCount :: todo) taken S)) ∧ FaEv e "Relaxed") := by
  unfold evStep at h
  have h1 := evStep1_cnt_cases h hl
  rcases skipTask_cases k (parseLoc e.loc) pc.task with hs | ⟨cold, ov, cell, todo, taken, S, ht, hs, hc, h0, _⟩
  · rw [skipPc_of_task_eq hs] at h1
    rcases h1 with h1 | h1 | ⟨ov, todo, taken, S, h1, hk⟩
    · exact .inl h1
    · exact .inr (.inl h1)
    · exact .inr (.inr ⟨ov, todo, taken, S, .inl h1, hk⟩)
  · have e1 : (skipPc k e pc).task = some (.colMove cold ov todo taken S) := by simp [skipPc, hs]
    rw [e1] at h1
    rcases h1 with ⟨o, h1, _⟩ | ⟨ov', S', h1, _⟩ | ⟨ov', todo', taken', S', h1, hk⟩
    · cases h1
    · cases h1
    · cases h1
      exact .inr (.inr ⟨ov, todo', taken, S, .inr ⟨cell, hc, h0, ht⟩, hk⟩)

/-- **(a) count cells are only ever modified by RMWs** — an accepted event on a count cell is a
    `fetch_add` ("A"), a compare-exchange ("C") or - only as the load of a `fetch_add` written as a
    compare-exchange loop - a load ("L"), never a store or a swap: as a memory event it reads, so whenever it
    writes it is a read-modify-write. A compare-exchange that belongs to a collector's spin carries an
    ordering at least Acquire (the other compare-exchanges on a count cell are those of a publish, at least
    Release, or of an `addCount`). -/
theorem evStep_cnt_kind {k : Nat} {c : Hp.St} {cuts : Cuts} {e : Ev} {pc : Pc} {r : Res × Cuts} {b : Bool}
    (h : evStep k c cuts e pc = .ok r) (hl : parseLoc e.loc = .cnt b) :
    (e.k = "A" ∨ e.k = "C" ∨ e.k = "L") ∧ (ofEv e).rd = true ∧
    (∀ cold ov S, pc.task = some (.colSpin cold ov S) → e.k = "C" ∧ ordGe e.ord "Acquire" = true) := by
  rcases evStep_cnt_cases h hl with ⟨_, ht, hfa⟩ | ⟨_, _, ht, hk, ho⟩ | ⟨_, _, _, _, ht, hfa⟩
  · exact ⟨hfa.kind.1, hfa.kind.2.1, fun _ _ _ ht' => by rw [ht] at ht'; cases ht'⟩
  · exact ⟨.inr (.inl hk), (ofEv_rmw_of_kind (.inr hk)).1, fun _ _ _ _ => ⟨hk, ho⟩⟩
  · refine ⟨hfa.kind.1, hfa.kind.2.1, fun _ _ _ ht' => ?_⟩
    rcases ht with ht | ⟨_, _, _, ht⟩ <;> (rw [ht] at ht'; cases ht')

/-- **(b), publish** — an event the machine accepts from an observer that has applied all its updates
    (arm `obsRun o b []`) is on the count of its shard and reads. Either it is THE publish - a `fetch_add`,
    or the successful compare-exchange of the loop the `fetch_add` is written as, with an ordering at least
    Release: as a memory event a release RMW; it completes the call -, or it is a stutter of that loop (a
    load, a failed compare-exchange): it writes nothing, changes nothing, and the call goes on. -/
theorem evStep_publish_release {k : Nat} {c : Hp.St} {cuts : Cuts} {e : Ev} {pc : Pc} {r : Res × Cuts}
    {o : Obs} {b : Bool} (ht : pc.task = some (.obsRun o b []))
    (h : evStep k c cuts e pc = .ok r) :
    parseLoc e.loc = .cnt b ∧ (ofEv e).rd = true ∧
    (((e.k = "A" ∨ (e.k = "C" ∧ e.ok = true)) ∧ ordGe e.ord "Release" = true ∧
        (ofEv e).wr = true ∧ (ofEv e).rel = true ∧ r.1.2.2 = some "") ∨
     ((e.k = "L" ∨ (e.k = "C" ∧ e.ok = false)) ∧ (ofEv e).wr = false ∧ r.1.1 = c ∧ r.1.2.2 = none)) := by
  obtain ⟨r1, r2⟩ := r
  rw [evStep_eq_evStep1 (by intros; simp [ht])] at h
  unfold evStep1 at h
  simp only [ht] at h
  rw [plainR_ok] at h
  have hfa := (fetchAdd_ev h.1).2
  rcases fetchAdd_cases h.1 with ⟨⟨ic, f, hr⟩, hl, hk⟩ | ⟨hr, _, hl, ho, _, hk⟩
  · refine ⟨hl, hfa.kind.2.1, .inr ⟨hk, ?_, by rw [hr], by rw [hr]⟩⟩
    cases hw : (ofEv e).wr
    · rfl
    · rcases (hfa.kind.2.2 hw).1 with hA | ⟨hC, hok⟩
      · have hLA : ("L" : String) ≠ "A" := by decide +kernel
        have hCA : ("C" : String) ≠ "A" := by decide +kernel
        rcases hk with hk | ⟨hk, _⟩
        · exact absurd (hk.symm.trans hA) hLA
        · exact absurd (hk.symm.trans hA) hCA
      · have hLC : ("L" : String) ≠ "C" := by decide +kernel
        rcases hk with hk | ⟨_, hno⟩
        · exact absurd (hk.symm.trans hC) hLC
        · rw [hok] at hno; cases hno
  · refine ⟨hl, hfa.kind.2.1, .inl ⟨hk, ho, ?_, ofEv_rel_of_ordGe ho, by rw [hr]; rfl⟩⟩
    rcases hk with hk | ⟨hk, hok⟩
    · exact (ofEv_rmw_of_kind (.inl hk)).2.mpr (.inl hk)
    · exact (ofEv_rmw_of_kind (.inr hk)).2.mpr (.inr hok)

/-- **(b), spin** — the event the machine accepts from a collector that has flipped (arm `colSpin`)
    is a compare-exchange on the count of the cold shard with an ordering at least Acquire: as a
    memory event it reads, and if it succeeded it is an acquire RMW -/
theorem evStep_spin_acquire {k : Nat} {c : Hp.St} {cuts : Cuts} {e : Ev} {pc : Pc} {r : Res × Cuts}
    {cold : Bool} {ov : Nat} {S : List Obs} (ht : pc.task = some (.colSpin cold ov S))
    (h : evStep k c cuts e pc = .ok r) :
    e.k = "C" ∧ parseLoc e.loc = .cnt cold ∧ ordGe e.ord "Acquire" = true ∧
    (ofEv e).rd = true ∧ (e.ok = true → (ofEv e).wr = true ∧ (ofEv e).acq = true) := by
  obtain ⟨r1, r2⟩ := r
  rw [evStep_eq_evStep1 (by intros; simp [ht])] at h
  unfold evStep1 at h
  simp only [ht] at h
  rw [plainR_ok, guard_ok] at h
  obtain ⟨⟨hg, _⟩, _⟩ := h
  simp only [Bool.and_eq_true, beq_iff_eq] at hg
  have hk := hg.1.1.1.1
  exact ⟨hk, hg.1.1.1.2, hg.1.1.2, (ofEv_rmw_of_kind (.inr hk)).1,
    fun hok => ⟨(ofEv_rmw_of_kind (.inr hk)).2.mpr (.inr hok), ofEv_acq_of_ordGe hg.1.1.2 (fun _ => hok)⟩⟩

/-! ### whole traces -/

/-- the atomic / lock events of a trace, in order -/
def evsOf (tr : List Item) : List Ev := tr.filterMap fun it => match it with | .ev e => some e | _ => none

/-- the memory-event trace of a trace -/
def memTrace (tr : List Item) : List MEv := (evsOf tr).map ofEv

/-- an accepted event item was accepted by `evStep` for some call state -/
theorem item_ev_accepts {s s' : St} {e : Ev} (h : item s (.ev e) = .ok s') :
    ∃ pc r, evStep s.bounds.length s.core s.cuts e pc = .ok r := by
  simp only [item] at h
  split at h
  · cases h
  · split at h
    · cases h
    · next pc _ =>
      split at h
      · cases h
      · next c' pc' rv cuts' hev => exact ⟨pc, _, hev⟩

/-- every event of a trace the machine replays without divergence, on the count cell of a shard, is a
    `fetch_add`, a compare-exchange or (in a `fetch_add` written as a loop) a load: it reads -/
theorem runItems_cnt_kind : ∀ (tr : List Item) (s s' : St) (n : Nat), runItems item s tr n = .ok s' →
    ∀ e ∈ evsOf tr, ∀ b, parseLoc e.loc = .cnt b →
      (e.k = "A" ∨ e.k = "C" ∨ e.k = "L") ∧ (ofEv e).rd = true
  | [], _, _, _, _ => by intro e he; simp [evsOf] at he
  | it :: r, s, s', n, h => by
    simp only [runItems] at h
    split at h
    · next s1 hs =>
      intro e he b hl
      have ih := runItems_cnt_kind r s1 s' (n + 1) h
      cases it with
      | ev e0 =>
        have : e = e0 ∨ e ∈ evsOf r := by simpa [evsOf] using he
        rcases this with rfl | hm
        · obtain ⟨pc, r', hev⟩ := item_ev_accepts hs
          exact ⟨(evStep_cnt_kind hev hl).1, (evStep_cnt_kind hev hl).2.1⟩
        · exact ih e hm b hl
      | call t i op => exact ih e (by simpa [evsOf] using he) b hl
      | ret t i v => exact ih e (by simpa [evsOf] using he) b hl
      | other x => exact ih e (by simpa [evsOf] using he) b hl
    · cases h

/-- in the memory-event trace of a replayed trace every write to a count cell is an RMW -/
theorem memTrace_cnt_rmw {tr : List Item} {s s' : St} {n : Nat} (h : runItems item s tr n = .ok s')
    {c : String} {b : Bool} (hc : parseLoc c = .cnt b) :
    ∀ (k : Nat) (m : MEv), (memTrace tr)[k]? = some m → m.loc = c → m.wr = true → m.rd = true := by
  intro k m hm hl _
  simp only [memTrace, List.getElem?_map, Option.map_eq_some_iff] at hm
  obtain ⟨e, he, rfl⟩ := hm
  have hmem : e ∈ evsOf tr := List.mem_of_getElem? he
  have hl' : e.loc = c := hl
  exact (runItems_cnt_kind tr s s' n h e hmem b (by rw [hl']; exact hc)).2

/-- **replay_handoff** — in the memory-event trace of ANY trace the histogram machine replays without
    divergence: if position `a` is a successful compare-exchange with an ordering at least Acquire on a
    shard's count cell (every successful spin of a collector is one: `evStep_spin_acquire`; since a publish
    or an `addCount` may now be written as a compare-exchange loop too, the spin is told apart by its
    ordering, hypothesis `haacq`, which the machine used to guarantee for every compare-exchange on a count
    cell) and `p < a` is a release write to the same cell (e.g. a publish, which the machine accepts with an
    ordering at least Release only — `evStep_publish_release`), then
    `p` synchronizes with `a`, and everything program-ordered before `p` happens-before everything
    program-ordered after `a` -/
theorem replay_handoff {tr : List Item} {s s' : St} {n : Nat} (h : runItems item s tr n = .ok s')
    {p a : Nat} {ep ea : Ev} {b : Bool} (hpa : p < a)
    (hp : (evsOf tr)[p]? = some ep) (ha : (evsOf tr)[a]? = some ea)
    (hal : parseLoc ea.loc = .cnt b) (hak : ea.k = "C") (haok : ea.ok = true)
    (haacq : ordGe ea.ord "Acquire" = true)
    (hpl : ep.loc = ea.loc) (hpw : (ofEv ep).wr = true) (hprel : (ofEv ep).rel = true) :
    sw (memTrace tr) p a ∧
    (∀ e f, po (memTrace tr) e p → po (memTrace tr) a f → hb (memTrace tr) e f) ∧
    (∀ e, po (memTrace tr) e p → hb (memTrace tr) e a) ∧ (∀ f, po (memTrace tr) a f → hb (memTrace tr) p f) := by
  have hacq := haacq
  have hp' : (memTrace tr)[p]? = some (ofEv ep) := by simp [memTrace, List.getElem?_map, hp]
  have ha' : (memTrace tr)[a]? = some (ofEv ea) := by simp [memTrace, List.getElem?_map, ha]
  exact handoff_hb (c := ea.loc) (memTrace_cnt_rmw h hal) hpa hp' hpl hpw hprel ha' rfl
    (ofEv_rmw_of_kind (.inr hak)).1 (ofEv_acq_of_ordGe hacq (fun _ => haok))

end Prom.HM
