import Prom.Lemmas.Handoff
import Prom.Lemmas.HistRefine
/-
The machine-side facts that make `Handoff.handoff_hb` applicable to the traces the histogram replay
machine `Prom.HM` accepts:
  * an accepted event on a shard's count cell is the observer's publish (`fetch_add`, at least
    Release), the collector's spin (compare-exchange, at least Acquire) or the collector's `addCount`
    (`fetch_add`) — never a store or a swap, so every modification of a count cell is an RMW;
  * hence, in the memory-event trace of ANY accepted trace, every release write to a count cell
    synchronizes with every later successful spin on it (`replay_handoff`).
-/
namespace Prom.HM
open Prom Prom.Conc Hp Prom.Handoff

/-- the events a compare-exchange loop on a sum cell accepts are on that sum cell -/
theorem casLoop_loc {e : Ev} {c : Hp.St} {pc : Pc} {b : Bool} {cell : Nat} {a : Int} {onOk r : Res}
    (h : casLoop e c pc b cell a onOk = .ok r) : parseLoc e.loc = .sum b := by
  have hload : ∀ x, casLoad e c pc b x = .ok r → parseLoc e.loc = .sum b := by
    intro x h
    unfold casLoad at h
    rw [guard_ok] at h; obtain ⟨hg, _⟩ := h
    simp only [Bool.and_eq_true, beq_iff_eq] at hg
    exact hg.1.1.1.2
  unfold casLoop at h
  split at h
  · exact hload _ h
  · split at h
    · exact hload _ h
    · rw [guard_ok] at h; obtain ⟨hg, _⟩ := h
      simp only [Bool.and_eq_true, beq_iff_eq] at hg
      exact hg.1.1.1.1.1.2

/-- **what touches a count cell** — an event the machine accepts whose location is the count of
    shard `b` is one of exactly three steps: the publish of an observer on `b` (a `fetch_add` with an
    ordering at least Release), the spin of a collector whose cold shard is `b` (a compare-exchange
    with an ordering at least Acquire), or the `addCount` of a collector whose hot shard is `b` (a
    `fetch_add`) -/
theorem evStep1_cnt_cases {k : Nat} {c : Hp.St} {cuts : Cuts} {e : Ev} {pc : Pc} {r : Res × Cuts} {b : Bool}
    (h : evStep1 k c cuts e pc = .ok r) (hl : parseLoc e.loc = .cnt b) :
    (∃ o, pc.task = some (.obsRun o b []) ∧ e.k = "A" ∧ ordGe e.ord "Release" = true) ∨
    (∃ ov S, pc.task = some (.colSpin b ov S) ∧ e.k = "C" ∧ ordGe e.ord "Acquire" = true) ∨
    (∃ ov todo taken S, pc.task = some (.colMove (!b) ov (.addCount :: todo) taken S) ∧ e.k = "A") := by
  obtain ⟨r1, r2⟩ := r
  unfold evStep1 at h
  simp only at h
  split at h
  · -- count
    rw [plainR_ok, guard_ok] at h
    obtain ⟨⟨hg, _⟩, _⟩ := h
    simp only [Bool.and_eq_true, beq_iff_eq] at hg
    rw [hl] at hg; exact absurd hg.1.1.2 (by simp)
  · -- obsStart
    rw [plainR_ok, guard_ok] at h
    obtain ⟨⟨hg, _⟩, _⟩ := h
    simp only [Bool.and_eq_true, beq_iff_eq] at hg
    rw [hl] at hg; exact absurd hg.1.1.1.1.2 (by simp)
  · -- obsRun, an update left
    simp only [obsEntry] at h
    split at h
    · rw [plainR_ok, guard_ok] at h
      obtain ⟨⟨hg, _⟩, _⟩ := h
      simp only [Bool.and_eq_true, beq_iff_eq] at hg
      rw [hl] at hg; exact absurd hg.1.1.1.2 (by simp)
    · rw [plainR_ok] at h
      have := casLoop_loc h.1
      rw [hl] at this; cases this
  · -- obsRun, publish
    next o b' ht =>
    rw [plainR_ok, guard_ok] at h
    obtain ⟨⟨hg, _⟩, _⟩ := h
    simp only [Bool.and_eq_true, beq_iff_eq] at hg
    have hb : b = b' := by have := hg.1.1.1.2; rw [hl] at this; cases this; rfl
    subst hb
    exact .inl ⟨o, ht, hg.1.1.1.1, hg.1.1.2⟩
  · -- colWant
    rw [plainR_ok, guard_ok] at h
    obtain ⟨⟨hg, _⟩, _⟩ := h
    simp only [Bool.and_eq_true, beq_iff_eq] at hg
    rw [hl] at hg; exact absurd hg.1.2 (by simp)
  · -- colLocked
    split at h
    · split at h
      · rw [plainR_ok, guard_ok] at h
        obtain ⟨⟨hg, _⟩, _⟩ := h
        simp only [Bool.and_eq_true, beq_iff_eq] at hg
        rw [hl] at hg; exact absurd hg.1.1.2 (by simp)
      · split at h
        · rw [plainR_ok, guard_ok] at h
          obtain ⟨⟨hg, _⟩, _⟩ := h
          simp only [Bool.and_eq_true, beq_iff_eq] at hg
          rw [hl] at hg; exact absurd hg.1.1.1.2 (by simp)
        · rw [plainR_ok, guard_ok] at h
          obtain ⟨⟨hg, _⟩, _⟩ := h
          simp only [Bool.and_eq_true, beq_iff_eq] at hg
          rw [hl] at hg; exact absurd hg.2 (by simp)
    · rw [plainR_ok, guard_ok] at h
      obtain ⟨⟨hg, _⟩, _⟩ := h
      simp only [Bool.and_eq_true, beq_iff_eq] at hg
      rw [hl] at hg; exact absurd hg.1.1.1.2 (by simp)
  · -- colSpin
    next cold ov S ht =>
    rw [plainR_ok, guard_ok] at h
    obtain ⟨⟨hg, _⟩, _⟩ := h
    simp only [Bool.and_eq_true, beq_iff_eq] at hg
    have hb : b = cold := by have := hg.1.1.1.2; rw [hl] at this; cases this; rfl
    subst hb
    exact .inr (.inl ⟨ov, S, ht, hg.1.1.1.1, hg.1.1.2⟩)
  · -- swap
    split at h
    · rw [plainR_ok, guard_ok] at h
      obtain ⟨⟨hg, _⟩, _⟩ := h
      simp only [Bool.and_eq_true, beq_iff_eq] at hg
      rw [hl] at hg; exact absurd hg.1.1.1.2 (by simp)
    · rw [plainR_ok, guard_ok] at h
      obtain ⟨⟨hg, _⟩, _⟩ := h
      simp only [Bool.and_eq_true, beq_iff_eq] at hg
      rw [hl] at hg; exact absurd hg.1.1.1.1.2 (by simp)
  · -- addHot
    split at h
    · rw [plainR_ok, guard_ok] at h
      obtain ⟨⟨hg, _⟩, _⟩ := h
      simp only [Bool.and_eq_true, beq_iff_eq] at hg
      rw [hl] at hg; exact absurd hg.1.1.1.2 (by simp)
    · rw [plainR_ok] at h
      have := casLoop_loc h.1
      rw [hl] at this; cases this
  · -- addCount
    next cold ov todo taken S ht =>
    rw [plainR_ok, guard_ok] at h
    obtain ⟨⟨hg, _⟩, _⟩ := h
    simp only [Bool.and_eq_true, beq_iff_eq] at hg
    have hb : b = !cold := by have := hg.1.1.1.2; rw [hl] at this; cases this; rfl
    subst hb
    exact .inr (.inr ⟨ov, todo, taken, S, by simpa using ht, hg.1.1.1.1⟩)
  · -- unlock
    split at h
    · cases h
    · next hg =>
      rw [guard_ok] at hg
      obtain ⟨hg, _⟩ := hg
      simp only [Bool.and_eq_true, beq_iff_eq] at hg
      rw [hl] at hg; exact absurd hg.2 (by simp)
  · cases h

/-- **what touches a count cell**, for the whole event step: as `evStep1_cnt_cases`, where the
    collector doing its `addCount` may have silently skipped the no-op `fetch_add(0)` of the bucket
    `addHot` step just before it (`taken cell = 0`) -/
theorem evStep_cnt_cases {k : Nat} {c : Hp.St} {cuts : Cuts} {e : Ev} {pc : Pc} {r : Res × Cuts} {b : Bool}
    (h : evStep k c cuts e pc = .ok r) (hl : parseLoc e.loc = .cnt b) :
    (∃ o, pc.task = some (.obsRun o b []) ∧ e.k = "A" ∧ ordGe e.ord "Release" = true) ∨
    (∃ ov S, pc.task = some (.colSpin b ov S) ∧ e.k = "C" ∧ ordGe e.ord "Acquire" = true) ∨
    (∃ ov todo taken S, (pc.task = some (.colMove (!b) ov (.addCount :: todo) taken S) ∨
        ∃ cell, cell < k ∧ taken cell = 0 ∧
          pc.task = some (.colMove (!b) ov (.addHot cell :: .addCount :: todo) taken S)) ∧ e.k = "A") := by
  unfold evStep at h
  have h1 := evStep1_cnt_cases h hl
  rcases skipTask_cases k (parseLoc e.loc) pc.task with hs | ⟨cold, ov, cell, todo, taken, S, ht, hs, hc, h0, _⟩
  · rw [skipPc_of_task_eq hs] at h1
    rcases h1 with h1 | h1 | ⟨ov, todo, taken, S, h1, hk⟩
    · exact .inl h1
    · exact .inr (.inl h1)
    · exact .inr (.inr ⟨ov, todo, taken, S, .inl h1, hk⟩)
  · have e1 : (skipPc k e pc).task = some (.colMove cold ov todo taken S) := by simp [skipPc, hs]
    rw [e1] at h1
    rcases h1 with ⟨o, h1, _⟩ | ⟨ov', S', h1, _⟩ | ⟨ov', todo', taken', S', h1, hk⟩
    · cases h1
    · cases h1
    · cases h1
      exact .inr (.inr ⟨ov, todo', taken, S, .inr ⟨cell, hc, h0, ht⟩, hk⟩)

/-- **(a) count cells are only ever modified by RMWs** — an accepted event on a count cell is a
    `fetch_add` ("A") or a compare-exchange ("C"), never a store or a swap; and a compare-exchange on
    a count cell (it can only be a collector's spin) carries an ordering at least Acquire -/
theorem evStep_cnt_kind {k : Nat} {c : Hp.St} {cuts : Cuts} {e : Ev} {pc : Pc} {r : Res × Cuts} {b : Bool}
    (h : evStep k c cuts e pc = .ok r) (hl : parseLoc e.loc = .cnt b) :
    (e.k = "A" ∨ e.k = "C") ∧ (e.k = "C" → ordGe e.ord "Acquire" = true) := by
  have hAC : ("A" : String) ≠ "C" := by decide +kernel
  rcases evStep_cnt_cases h hl with ⟨_, _, hk, _⟩ | ⟨_, _, _, hk, ho⟩ | ⟨_, _, _, _, _, hk⟩
  · exact ⟨.inl hk, fun h' => absurd (hk.symm.trans h') hAC⟩
  · exact ⟨.inr hk, fun _ => ho⟩
  · exact ⟨.inl hk, fun h' => absurd (hk.symm.trans h') hAC⟩

/-- **(b), publish** — the event the machine accepts from an observer that has applied all its
    updates (arm `obsRun o b []`) is a `fetch_add` on the count of its shard with an ordering at least
    Release: as a memory event it is a release RMW -/
theorem evStep_publish_release {k : Nat} {c : Hp.St} {cuts : Cuts} {e : Ev} {pc : Pc} {r : Res × Cuts}
    {o : Obs} {b : Bool} (ht : pc.task = some (.obsRun o b []))
    (h : evStep k c cuts e pc = .ok r) :
    e.k = "A" ∧ parseLoc e.loc = .cnt b ∧ ordGe e.ord "Release" = true ∧
    (ofEv e).rd = true ∧ (ofEv e).wr = true ∧ (ofEv e).rel = true := by
  obtain ⟨r1, r2⟩ := r
  rw [evStep_eq_evStep1 (by intros; simp [ht])] at h
  unfold evStep1 at h
  simp only [ht] at h
  rw [plainR_ok, guard_ok] at h
  obtain ⟨⟨hg, _⟩, _⟩ := h
  simp only [Bool.and_eq_true, beq_iff_eq] at hg
  have hk := hg.1.1.1.1
  exact ⟨hk, hg.1.1.1.2, hg.1.1.2, (ofEv_rmw_of_kind (.inl hk)).1,
    (ofEv_rmw_of_kind (.inl hk)).2.mpr (.inl hk), ofEv_rel_of_ordGe hg.1.1.2⟩

/-- **(b), spin** — the event the machine accepts from a collector that has flipped (arm `colSpin`)
    is a compare-exchange on the count of the cold shard with an ordering at least Acquire: as a
    memory event it reads, and if it succeeded it is an acquire RMW -/
theorem evStep_spin_acquire {k : Nat} {c : Hp.St} {cuts : Cuts} {e : Ev} {pc : Pc} {r : Res × Cuts}
    {cold : Bool} {ov : Nat} {S : List Obs} (ht : pc.task = some (.colSpin cold ov S))
    (h : evStep k c cuts e pc = .ok r) :
    e.k = "C" ∧ parseLoc e.loc = .cnt cold ∧ ordGe e.ord "Acquire" = true ∧
    (ofEv e).rd = true ∧ (e.ok = true → (ofEv e).wr = true ∧ (ofEv e).acq = true) := by
  obtain ⟨r1, r2⟩ := r
  rw [evStep_eq_evStep1 (by intros; simp [ht])] at h
  unfold evStep1 at h
  simp only [ht] at h
  rw [plainR_ok, guard_ok] at h
  obtain ⟨⟨hg, _⟩, _⟩ := h
  simp only [Bool.and_eq_true, beq_iff_eq] at hg
  have hk := hg.1.1.1.1
  exact ⟨hk, hg.1.1.1.2, hg.1.1.2, (ofEv_rmw_of_kind (.inr hk)).1,
    fun hok => ⟨(ofEv_rmw_of_kind (.inr hk)).2.mpr (.inr hok), ofEv_acq_of_ordGe hg.1.1.2 (fun _ => hok)⟩⟩

/-! ### whole traces -/

/-- the atomic / lock events of a trace, in order -/
def evsOf (tr : List Item) : List Ev := tr.filterMap fun it => match it with | .ev e => some e | _ => none

/-- the memory-event trace of a trace -/
def memTrace (tr : List Item) : List MEv := (evsOf tr).map ofEv

/-- an accepted event item was accepted by `evStep` for some call state -/
theorem item_ev_accepts {s s' : St} {e : Ev} (h : item s (.ev e) = .ok s') :
    ∃ pc r, evStep s.bounds.length s.core s.cuts e pc = .ok r := by
  simp only [item] at h
  split at h
  · cases h
  · split at h
    · cases h
    · next pc _ =>
      split at h
      · cases h
      · next c' pc' rv cuts' hev => exact ⟨pc, _, hev⟩

/-- every event of a trace the machine replays without divergence, on the count cell of a shard, is a
    `fetch_add` or a compare-exchange, and the compare-exchanges are at least Acquire -/
theorem runItems_cnt_kind : ∀ (tr : List Item) (s s' : St) (n : Nat), runItems item s tr n = .ok s' →
    ∀ e ∈ evsOf tr, ∀ b, parseLoc e.loc = .cnt b →
      (e.k = "A" ∨ e.k = "C") ∧ (e.k = "C" → ordGe e.ord "Acquire" = true)
  | [], _, _, _, _ => by intro e he; simp [evsOf] at he
  | it :: r, s, s', n, h => by
    simp only [runItems] at h
    split at h
    · next s1 hs =>
      intro e he b hl
      have ih := runItems_cnt_kind r s1 s' (n + 1) h
      cases it with
      | ev e0 =>
        have : e = e0 ∨ e ∈ evsOf r := by simpa [evsOf] using he
        rcases this with rfl | hm
        · obtain ⟨pc, r', hev⟩ := item_ev_accepts hs
          exact evStep_cnt_kind hev hl
        · exact ih e hm b hl
      | call t i op => exact ih e (by simpa [evsOf] using he) b hl
      | ret t i v => exact ih e (by simpa [evsOf] using he) b hl
      | other x => exact ih e (by simpa [evsOf] using he) b hl
    · cases h

/-- in the memory-event trace of a replayed trace every write to a count cell is an RMW -/
theorem memTrace_cnt_rmw {tr : List Item} {s s' : St} {n : Nat} (h : runItems item s tr n = .ok s')
    {c : String} {b : Bool} (hc : parseLoc c = .cnt b) :
    ∀ (k : Nat) (m : MEv), (memTrace tr)[k]? = some m → m.loc = c → m.wr = true → m.rd = true := by
  intro k m hm hl _
  simp only [memTrace, List.getElem?_map, Option.map_eq_some_iff] at hm
  obtain ⟨e, he, rfl⟩ := hm
  have hmem : e ∈ evsOf tr := List.mem_of_getElem? he
  have hl' : e.loc = c := hl
  exact (ofEv_rmw_of_kind (runItems_cnt_kind tr s s' n h e hmem b (by rw [hl']; exact hc)).1).1

/-- **replay_handoff** — in the memory-event trace of ANY trace the histogram machine replays without
    divergence: if position `a` is a successful compare-exchange on a shard's count cell (it can only
    be a collector's successful spin) and `p < a` is a release write to the same cell (e.g. a publish,
    which the machine accepts with an ordering at least Release only — `evStep_publish_release`), then
    `p` synchronizes with `a`, and everything program-ordered before `p` happens-before everything
    program-ordered after `a` -/
theorem replay_handoff {tr : List Item} {s s' : St} {n : Nat} (h : runItems item s tr n = .ok s')
    {p a : Nat} {ep ea : Ev} {b : Bool} (hpa : p < a)
    (hp : (evsOf tr)[p]? = some ep) (ha : (evsOf tr)[a]? = some ea)
    (hal : parseLoc ea.loc = .cnt b) (hak : ea.k = "C") (haok : ea.ok = true)
    (hpl : ep.loc = ea.loc) (hpw : (ofEv ep).wr = true) (hprel : (ofEv ep).rel = true) :
    sw (memTrace tr) p a ∧
    (∀ e f, po (memTrace tr) e p → po (memTrace tr) a f → hb (memTrace tr) e f) ∧
    (∀ e, po (memTrace tr) e p → hb (memTrace tr) e a) ∧ (∀ f, po (memTrace tr) a f → hb (memTrace tr) p f) := by
  have hmem : ea ∈ evsOf tr := List.mem_of_getElem? ha
  have hacq := (runItems_cnt_kind tr s s' n h ea hmem b hal).2 hak
  have hp' : (memTrace tr)[p]? = some (ofEv ep) := by simp [memTrace, List.getElem?_map, hp]
  have ha' : (memTrace tr)[a]? = some (ofEv ea) := by simp [memTrace, List.getElem?_map, ha]
  exact handoff_hb (c := ea.loc) (memTrace_cnt_rmw h hal) hpa hp' hpl hpw hprel ha' rfl
    (ofEv_rmw_of_kind (.inr hak)).1 (ofEv_acq_of_ordGe hacq (fun _ => haok))

end Prom.HM
