import Prom.Lemmas.Handoff
import Prom.Lemmas.HistRefine
/-
The machine-side facts that make `Handoff.handoff_hb` applicable to the traces the histogram replay
machine `Prom.HM` accepts:
  * an accepted event on a shard's count cell is the observer's publish (`fetch_add`, at least
    Release), the collector's spin (compare-exchange, at least Acquire; or the plain load that a
    test-and-test-and-set wait loop does before an attempt) or the collector's `addCount`
    (`fetch_add`) — where each `fetch_add` may be written as a load + compare-exchange loop whose
    successful exchange carries the same ordering (`FaEv`) — never a store or a swap, so every
    modification of a count cell is an RMW (a successful compare-exchange IS one);
  * hence, in the memory-event trace of ANY accepted trace, every release write to a count cell
    synchronizes with every later successful spin on it (`replay_handoff`).
-/
namespace Prom.HM
open Prom Prom.Conc Hp Prom.Handoff

/-- the events a compare-exchange loop on a sum cell accepts are on that sum cell -/
theorem casLoop_loc {e : Ev} {c : Hp.St} {pc : Pc} {b : Bool} {cell : Nat} {a : Int} {onOk r : Res}
    (h : casLoop e c pc b cell a onOk = .ok r) : parseLoc e.loc = .sum b := by
  have hload : ∀ x, casLoad e c pc b x = .ok r → parseLoc e.loc = .sum b := by
    intro x h
    unfold casLoad at h
    rw [guard_ok] at h; obtain ⟨hg, _⟩ := h
    simp only [Bool.and_eq_true, beq_iff_eq] at hg
    exact hg.1.1.1.2
  unfold casLoop at h
  split at h
  · exact hload _ h
  · split at h
    · exact hload _ h
    · rw [guard_ok] at h; obtain ⟨hg, _⟩ := h
      simp only [Bool.and_eq_true, beq_iff_eq] at hg
      exact hg.1.1.1.1.1.2

/-- the events a `fetch_add` site that needs the ordering `ord` accepts: THE step - the `fetch_add`, or the
    successful compare-exchange of the loop it is written as, with an ordering at least `ord` -, or a stutter
    of that loop - a load, a failed compare-exchange -/
def FaEv (e : Ev) (ord : String) : Prop :=
  ((e.k = "A" ∨ (e.k = "C" ∧ e.ok = true)) ∧ ordGe e.ord ord = true) ∨ e.k = "L" ∨ (e.k = "C" ∧ e.ok = false)

/-- what a `fetch_add` site accepts is on the site's cell and is a `FaEv` of the site's ordering -/
theorem fetchAdd_ev {e : Ev} {c : Hp.St} {pc : Pc} {loc : Loc} {ord : String} {a x : UInt64} {ok : Bool}
    {msg : String} {onOk r : Res} (h : fetchAdd e c pc loc ord a x ok msg onOk = .ok r) :
    parseLoc e.loc = loc ∧ FaEv e ord := by
  rcases fetchAdd_cases h with ⟨_, hl, hk⟩ | ⟨_, _, hl, ho, _, hk⟩
  · exact ⟨hl, .inr hk⟩
  · exact ⟨hl, .inl ⟨hk, ho⟩⟩

/-- a `FaEv` is a load, a `fetch_add` or a compare-exchange; as a memory event it reads, and it writes only
    if it is the `fetch_add` or a SUCCESSFUL compare-exchange - a read-modify-write with the site's ordering -/
theorem FaEv.kind {e : Ev} {ord : String} (h : FaEv e ord) :
    (e.k = "A" ∨ e.k = "C" ∨ e.k = "L") ∧ (ofEv e).rd = true ∧
    ((ofEv e).wr = true → (e.k = "A" ∨ (e.k = "C" ∧ e.ok = true)) ∧ ordGe e.ord ord = true) := by
  rcases h with ⟨hk | ⟨hk, hok⟩, ho⟩ | hk | ⟨hk, hok⟩
  · exact ⟨.inl hk, by simp [ofEv, hk], fun _ => ⟨.inl hk, ho⟩⟩
  · exact ⟨.inr (.inl hk), by simp [ofEv, hk], fun _ => ⟨.inr ⟨hk, hok⟩, ho⟩⟩
  · exact ⟨.inr (.inr hk), by simp [ofEv, hk], fun hw => by simp [ofEv, hk] at hw⟩
  · exact ⟨.inr (.inl hk), by simp [ofEv, hk], fun hw => by simp [ofEv, hk, hok] at hw⟩

/-- the step of a collector's list that works on a count cell is the `addCount`, on the hot shard's count -/
theorem stepLoc_cnt {k : Nat} {cold b : Bool} {st : CStep} (h : stepLoc k cold st = .cnt b) :
    st = CStep.addCount ∧ b = !cold := by
  cases st with
  | swap cell => simp only [stepLoc] at h; split at h <;> cases h
  | addHot cell => simp only [stepLoc] at h; split at h <;> cases h
  | addCount => simp only [stepLoc] at h; cases h; exact ⟨rfl, rfl⟩
  | unlock => simp only [stepLoc] at h; cases h

/-- an event on the count of shard `b` that a collector past its spin accepts is its `addCount` (a `fetch_add`
    site: `FaEv e "Relaxed"`), which is still in its list; `b` is its hot shard -/
theorem colStep_cnt {k : Nat} {c : Hp.St} {cuts : Cuts} {e : Ev} {pc : Pc} {cold : Bool} {ov : Nat}
    {todo : List CStep} {taken : Cells} {S : List Obs} {r : Res × Cuts} {b : Bool}
    (h : colStep k c cuts e pc cold ov todo taken S = .ok r) (hl : parseLoc e.loc = .cnt b) :
    b = !cold ∧ CStep.addCount ∈ todo ∧ FaEv e "Relaxed" := by
  obtain ⟨r1, r2⟩ := r
  have hpick : ∀ {l1 st l2}, splitFirst (fun st => stepLoc k cold st == parseLoc e.loc) todo = some (l1, st, l2) →
      st = CStep.addCount ∧ b = !cold ∧ CStep.addCount ∈ todo := by
    intro l1 st l2 hsp
    obtain ⟨e1, e2, _⟩ := splitFirst_spec hsp
    have : stepLoc k cold st = .cnt b := by rw [← hl]; simpa using e2
    obtain ⟨rfl, hb⟩ := stepLoc_cnt this
    exact ⟨rfl, hb, by rw [e1]; simp⟩
  unfold colStep at h
  simp only at h
  split at h
  · next hsp => exact absurd (hpick hsp).1 (by simp)
  · next hsp => exact absurd (hpick hsp).1 (by simp)
  · next hsp =>
    rw [plainR_ok] at h
    exact ⟨(hpick hsp).2.1, (hpick hsp).2.2, (fetchAdd_ev h.1).2⟩
  · next hsp => exact absurd (hpick hsp).1 (by simp)
  · split at h
    · rw [plainR_ok] at h
      have := (fetchAdd_ev h.1).1
      rw [hl] at this; cases this
    · cases h

/-- **what touches a count cell** — an event the machine accepts whose location is the count of
    shard `b` belongs to one of exactly three steps: the publish of an observer on `b` (a `fetch_add` site
    with an ordering at least Release: `FaEv e "Release"`), the spin of a collector whose cold shard is `b`
    (a compare-exchange with an ordering at least Acquire, or the load a test-and-test-and-set loop does
    before an attempt), or the `addCount` - still to be done - of a collector whose hot shard is `b` (a
    `fetch_add` site: `FaEv e "Relaxed"`) -/
theorem evStep1_cnt_cases {k : Nat} {c : Hp.St} {cuts : Cuts} {e : Ev} {pc : Pc} {r : Res × Cuts} {b : Bool}
    (h : evStep1 k c cuts e pc = .ok r) (hl : parseLoc e.loc = .cnt b) :
    (∃ o, pc.task = some (.obsRun o b []) ∧ FaEv e "Release") ∨
    (∃ ov S, pc.task = some (.colSpin b ov S) ∧ ((e.k = "C" ∧ ordGe e.ord "Acquire" = true) ∨ e.k = "L")) ∨
    (∃ ov todo taken S, pc.task = some (.colMove (!b) ov todo taken S) ∧ CStep.addCount ∈ todo ∧ FaEv e "Relaxed") := by
  obtain ⟨r1, r2⟩ := r
  unfold evStep1 at h
  simp only at h
  split at h
  · -- count
    rw [plainR_ok, guard_ok] at h
    obtain ⟨⟨hg, _⟩, _⟩ := h
    simp only [Bool.and_eq_true, beq_iff_eq] at hg
    rw [hl] at hg; exact absurd hg.1.1.2 (by simp)
  · -- obsStart
    rw [plainR_ok] at h
    have := (fetchAdd_ev h.1).1
    rw [hl] at this; cases this
  · -- obsRun, an update left
    simp only [obsEntry] at h
    split at h
    · have := (fetchAdd_ev (plainR_ok.1 h).1).1
      rw [hl] at this; cases this
    · rw [plainR_ok] at h
      have := casLoop_loc h.1
      rw [hl] at this; cases this
  · -- obsRun, publish
    next o b' ht =>
    rw [plainR_ok] at h
    obtain ⟨hloc, hfa⟩ := fetchAdd_ev h.1
    have hb : b = b' := by rw [hl] at hloc; cases hloc; rfl
    subst hb
    exact .inl ⟨o, ht, hfa⟩
  · -- colWant
    rw [plainR_ok, guard_ok] at h
    obtain ⟨⟨hg, _⟩, _⟩ := h
    simp only [Bool.and_eq_true, beq_iff_eq] at hg
    rw [hl] at hg; exact absurd hg.1.2 (by simp)
  · -- colLocked
    split at h
    · split at h
      · rw [plainR_ok, guard_ok] at h
        obtain ⟨⟨hg, _⟩, _⟩ := h
        simp only [Bool.and_eq_true, beq_iff_eq] at hg
        rw [hl] at hg; exact absurd hg.1.1.2 (by simp)
      · split at h
        · rw [plainR_ok, guard_ok] at h
          obtain ⟨⟨hg, _⟩, _⟩ := h
          simp only [Bool.and_eq_true, beq_iff_eq] at hg
          rw [hl] at hg; exact absurd hg.1.1.1.2 (by simp)
        · rw [plainR_ok, guard_ok] at h
          obtain ⟨⟨hg, _⟩, _⟩ := h
          simp only [Bool.and_eq_true, beq_iff_eq] at hg
          rw [hl] at hg; exact absurd hg.2 (by simp)
    · rw [plainR_ok] at h
      have := (fetchAdd_ev h.1).1
      rw [hl] at this; cases this
  · -- colSpin
    next cold ov S ht =>
    split at h
    · next hk =>
      rw [plainR_ok, guard_ok] at h
      obtain ⟨⟨hg, _⟩, _⟩ := h
      simp only [Bool.and_eq_true, beq_iff_eq] at hg
      have hb : b = cold := by have := hg.1.1; rw [hl] at this; cases this; rfl
      subst hb
      exact .inr (.inl ⟨ov, S, ht, .inr (by simpa using hk)⟩)
    · rw [plainR_ok, guard_ok] at h
      obtain ⟨⟨hg, _⟩, _⟩ := h
      simp only [Bool.and_eq_true, beq_iff_eq] at hg
      have hb : b = cold := by have := hg.1.1.1.2; rw [hl] at this; cases this; rfl
      subst hb
      exact .inr (.inl ⟨ov, S, ht, .inl ⟨hg.1.1.1.1, hg.1.1.2⟩⟩)
  · -- colMove
    next cold ov todo taken S ht =>
    obtain ⟨hb, hm, hfa⟩ := colStep_cnt h hl
    subst hb
    exact .inr (.inr ⟨ov, todo, taken, S, by simpa using ht, hm, hfa⟩)

/-- **what touches a count cell**, for the whole event step (which is `evStep1`) -/
theorem evStep_cnt_cases {k : Nat} {c : Hp.St} {cuts : Cuts} {e : Ev} {pc : Pc} {r : Res × Cuts} {b : Bool}
    (h : evStep k c cuts e pc = .ok r) (hl : parseLoc e.loc = .cnt b) :
    (∃ o, pc.task = some (.obsRun o b []) ∧ FaEv e "Release") ∨
    (∃ ov S, pc.task = some (.colSpin b ov S) ∧ ((e.k = "C" ∧ ordGe e.ord "Acquire" = true) ∨ e.k = "L")) ∨
    (∃ ov todo taken S, pc.task = some (.colMove (!b) ov todo taken S) ∧ CStep.addCount ∈ todo ∧ FaEv e "Relaxed") :=
  evStep1_cnt_cases h hl

/-- **(a) count cells are only ever modified by RMWs** — an accepted event on a count cell is a
    `fetch_add` ("A"), a compare-exchange ("C") or a load ("L": the load of a `fetch_add` written as a
    compare-exchange loop, or the load a collector's test-and-test-and-set wait loop does before an attempt),
    never a store or a swap: as a memory event it reads, so whenever it
    writes it is a read-modify-write. An event that belongs to a collector's spin is that load, or a
    compare-exchange with an ordering at least Acquire (the other compare-exchanges on a count cell are those
    of a publish, at least Release, or of an `addCount`). -/
theorem evStep_cnt_kind {k : Nat} {c : Hp.St} {cuts : Cuts} {e : Ev} {pc : Pc} {r : Res × Cuts} {b : Bool}
    (h : evStep k c cuts e pc = .ok r) (hl : parseLoc e.loc = .cnt b) :
    (e.k = "A" ∨ e.k = "C" ∨ e.k = "L") ∧ (ofEv e).rd = true ∧
    (∀ cold ov S, pc.task = some (.colSpin cold ov S) → (e.k = "C" ∧ ordGe e.ord "Acquire" = true) ∨ e.k = "L") := by
  rcases evStep_cnt_cases h hl with ⟨_, ht, hfa⟩ | ⟨_, _, ht, hk⟩ | ⟨_, _, _, _, ht, _, hfa⟩
  · exact ⟨hfa.kind.1, hfa.kind.2.1, fun _ _ _ ht' => by rw [ht] at ht'; cases ht'⟩
  · rcases hk with ⟨hk, ho⟩ | hk
    · exact ⟨.inr (.inl hk), (ofEv_rmw_of_kind (.inr hk)).1, fun _ _ _ _ => .inl ⟨hk, ho⟩⟩
    · exact ⟨.inr (.inr hk), by simp [ofEv, hk], fun _ _ _ _ => .inr hk⟩
  · exact ⟨hfa.kind.1, hfa.kind.2.1, fun _ _ _ ht' => by rw [ht] at ht'; cases ht'⟩

/-- **(b), publish** — an event the machine accepts from an observer that has applied all its updates
    (arm `obsRun o b []`) is on the count of its shard and reads. Either it is THE publish - a `fetch_add`,
    or the successful compare-exchange of the loop the `fetch_add` is written as, with an ordering at least
    Release: as a memory event a release RMW; it completes the call -, or it is a stutter of that loop (a
    load, a failed compare-exchange): it writes nothing, changes nothing, and the call goes on. -/
theorem evStep_publish_release {k : Nat} {c : Hp.St} {cuts : Cuts} {e : Ev} {pc : Pc} {r : Res × Cuts}
    {o : Obs} {b : Bool} (ht : pc.task = some (.obsRun o b []))
    (h : evStep k c cuts e pc = .ok r) :
    parseLoc e.loc = .cnt b ∧ (ofEv e).rd = true ∧
    (((e.k = "A" ∨ (e.k = "C" ∧ e.ok = true)) ∧ ordGe e.ord "Release" = true ∧
        (ofEv e).wr = true ∧ (ofEv e).rel = true ∧ r.1.2.2 = some "") ∨
     ((e.k = "L" ∨ (e.k = "C" ∧ e.ok = false)) ∧ (ofEv e).wr = false ∧ r.1.1 = c ∧ r.1.2.2 = none)) := by
  obtain ⟨r1, r2⟩ := r
  rw [evStep_eq_evStep1] at h
  unfold evStep1 at h
  simp only [ht] at h
  rw [plainR_ok] at h
  have hfa := (fetchAdd_ev h.1).2
  rcases fetchAdd_cases h.1 with ⟨⟨ic, f, hr⟩, hl, hk⟩ | ⟨hr, _, hl, ho, _, hk⟩
  · refine ⟨hl, hfa.kind.2.1, .inr ⟨hk, ?_, by rw [hr], by rw [hr]⟩⟩
    cases hw : (ofEv e).wr
    · rfl
    · rcases (hfa.kind.2.2 hw).1 with hA | ⟨hC, hok⟩
      · have hLA : ("L" : String) ≠ "A" := by decide +kernel
        have hCA : ("C" : String) ≠ "A" := by decide +kernel
        rcases hk with hk | ⟨hk, _⟩
        · exact absurd (hk.symm.trans hA) hLA
        · exact absurd (hk.symm.trans hA) hCA
      · have hLC : ("L" : String) ≠ "C" := by decide +kernel
        rcases hk with hk | ⟨_, hno⟩
        · exact absurd (hk.symm.trans hC) hLC
        · rw [hok] at hno; cases hno
  · refine ⟨hl, hfa.kind.2.1, .inl ⟨hk, ho, ?_, ofEv_rel_of_ordGe ho, by rw [hr]; rfl⟩⟩
    rcases hk with hk | ⟨hk, hok⟩
    · exact (ofEv_rmw_of_kind (.inl hk)).2.mpr (.inl hk)
    · exact (ofEv_rmw_of_kind (.inr hk)).2.mpr (.inr hok)

/-- **(b), spin** — an event the machine accepts from a collector that has flipped (arm `colSpin`) is on the
    count of the cold shard and reads. Either it is a spin attempt - a compare-exchange with an ordering at
    least Acquire: if it succeeded it is an acquire RMW (only a successful one ends the spin) -, or it is the
    load a test-and-test-and-set wait loop does before an attempt: it writes nothing and changes nothing at
    all, neither the shared state nor the call, which goes on spinning -/
theorem evStep_spin_acquire {k : Nat} {c : Hp.St} {cuts : Cuts} {e : Ev} {pc : Pc} {r : Res × Cuts}
    {cold : Bool} {ov : Nat} {S : List Obs} (ht : pc.task = some (.colSpin cold ov S))
    (h : evStep k c cuts e pc = .ok r) :
    parseLoc e.loc = .cnt cold ∧ (ofEv e).rd = true ∧
    ((e.k = "C" ∧ ordGe e.ord "Acquire" = true ∧
        (e.ok = true → (ofEv e).wr = true ∧ (ofEv e).acq = true)) ∨
     (e.k = "L" ∧ (ofEv e).wr = false ∧ r.1.1 = c ∧ r.1.2.1 = pc ∧ r.1.2.2 = none)) := by
  obtain ⟨r1, r2⟩ := r
  rw [evStep_eq_evStep1] at h
  unfold evStep1 at h
  simp only [ht] at h
  split at h
  · next hk =>
    have hk : e.k = "L" := by simpa using hk
    rw [plainR_ok, guard_ok] at h
    obtain ⟨⟨hg, h⟩, _⟩ := h
    simp only [Bool.and_eq_true, beq_iff_eq] at hg
    cases h
    exact ⟨hg.1.1, by simp [ofEv, hk], .inr ⟨hk, by simp [ofEv, hk], rfl, rfl, rfl⟩⟩
  · rw [plainR_ok, guard_ok] at h
    obtain ⟨⟨hg, _⟩, _⟩ := h
    simp only [Bool.and_eq_true, beq_iff_eq] at hg
    have hk := hg.1.1.1.1
    exact ⟨hg.1.1.1.2, (ofEv_rmw_of_kind (.inr hk)).1, .inl ⟨hk, hg.1.1.2,
      fun hok => ⟨(ofEv_rmw_of_kind (.inr hk)).2.mpr (.inr hok), ofEv_acq_of_ordGe hg.1.1.2 (fun _ => hok)⟩⟩⟩

/-- **the spin ends only through an acquire RMW** — if an accepted event takes a collector out of its spin
    (the call is no longer the `colSpin` task it was), the event is a SUCCESSFUL compare-exchange on the cold
    count with an ordering at least Acquire: the load of the test-and-test-and-set loop only filters when
    the exchange is attempted -/
theorem evStep_spin_exit {k : Nat} {c : Hp.St} {cuts : Cuts} {e : Ev} {pc : Pc} {r : Res × Cuts}
    {cold : Bool} {ov : Nat} {S : List Obs} (ht : pc.task = some (.colSpin cold ov S))
    (h : evStep k c cuts e pc = .ok r) (hx : r.1.2.1.task ≠ pc.task) :
    e.k = "C" ∧ e.ok = true ∧ ordGe e.ord "Acquire" = true ∧ (ofEv e).wr = true ∧ (ofEv e).acq = true ∧
      (c.sh cold).count = ov := by
  obtain ⟨r1, r2⟩ := r
  rw [evStep_eq_evStep1] at h
  unfold evStep1 at h
  simp only [ht] at h
  split at h
  · rw [plainR_ok, guard_ok] at h
    obtain ⟨⟨_, h⟩, _⟩ := h
    cases h
    exact absurd rfl hx
  · rw [plainR_ok, guard_ok] at h
    obtain ⟨⟨hg, h⟩, _⟩ := h
    simp only [Bool.and_eq_true, beq_iff_eq] at hg
    have hk := hg.1.1.1.1
    split at h
    · next hok =>
      rw [guard_ok] at h
      obtain ⟨hcnt, _⟩ := h
      exact ⟨hk, hok, hg.1.1.2, (ofEv_rmw_of_kind (.inr hk)).2.mpr (.inr hok),
        ofEv_acq_of_ordGe hg.1.1.2 (fun _ => hok), by simpa using hcnt⟩
    · rw [guard_ok] at h
      obtain ⟨_, h⟩ := h
      cases h
      exact absurd rfl hx

/-! ### whole traces -/

/-- the atomic / lock events of a trace, in order -/
def evsOf (tr : List Item) : List Ev := tr.filterMap fun it => match it with | .ev e => some e | _ => none

/-- the memory-event trace of a trace -/
def memTrace (tr : List Item) : List MEv := (evsOf tr).map ofEv

/-- an accepted event item was accepted by `evStep` for some call state -/
theorem item_ev_accepts {s s' : St} {e : Ev} (h : item s (.ev e) = .ok s') :
    ∃ pc r, evStep s.bounds.length s.core s.cuts e pc = .ok r := by
  simp only [item] at h
  split at h
  · cases h
  · split at h
    · cases h
    · next pc _ =>
      split at h
      · cases h
      · next c' pc' rv cuts' hev => exact ⟨pc, _, hev⟩

/-- every event of a trace the machine replays without divergence, on the count cell of a shard, is a
    `fetch_add`, a compare-exchange or (in a `fetch_add` written as a loop) a load: it reads -/
theorem runItems_cnt_kind : ∀ (tr : List Item) (s s' : St) (n : Nat), runItems item s tr n = .ok s' →
    ∀ e ∈ evsOf tr, ∀ b, parseLoc e.loc = .cnt b →
      (e.k = "A" ∨ e.k = "C" ∨ e.k = "L") ∧ (ofEv e).rd = true
  | [], _, _, _, _ => by intro e he; simp [evsOf] at he
  | it :: r, s, s', n, h => by
    simp only [runItems] at h
    split at h
    · next s1 hs =>
      intro e he b hl
      have ih := runItems_cnt_kind r s1 s' (n + 1) h
      cases it with
      | ev e0 =>
        have : e = e0 ∨ e ∈ evsOf r := by simpa [evsOf] using he
        rcases this with rfl | hm
        · obtain ⟨pc, r', hev⟩ := item_ev_accepts hs
          exact ⟨(evStep_cnt_kind hev hl).1, (evStep_cnt_kind hev hl).2.1⟩
        · exact ih e hm b hl
      | call t i op => exact ih e (by simpa [evsOf] using he) b hl
      | ret t i v => exact ih e (by simpa [evsOf] using he) b hl
      | other x => exact ih e (by simpa [evsOf] using he) b hl
    · cases h

/-- in the memory-event trace of a replayed trace every write to a count cell is an RMW -/
theorem memTrace_cnt_rmw {tr : List Item} {s s' : St} {n : Nat} (h : runItems item s tr n = .ok s')
    {c : String} {b : Bool} (hc : parseLoc c = .cnt b) :
    ∀ (k : Nat) (m : MEv), (memTrace tr)[k]? = some m → m.loc = c → m.wr = true → m.rd = true := by
  intro k m hm hl _
  simp only [memTrace, List.getElem?_map, Option.map_eq_some_iff] at hm
  obtain ⟨e, he, rfl⟩ := hm
  have hmem : e ∈ evsOf tr := List.mem_of_getElem? he
  have hl' : e.loc = c := hl
  exact (runItems_cnt_kind tr s s' n h e hmem b (by rw [hl']; exact hc)).2

/-- **replay_handoff** — in the memory-event trace of ANY trace the histogram machine replays without
    divergence: if position `a` is a successful compare-exchange with an ordering at least Acquire on a
    shard's count cell (every successful spin of a collector is one: `evStep_spin_acquire`; since a publish
    or an `addCount` may now be written as a compare-exchange loop too, the spin is told apart by its
    ordering, hypothesis `haacq`, which the machine used to guarantee for every compare-exchange on a count
    cell) and `p < a` is a release write to the same cell (e.g. a publish, which the machine accepts with an
    ordering at least Release only — `evStep_publish_release`), then
    `p` synchronizes with `a`, and everything program-ordered before `p` happens-before everything
    program-ordered after `a` -/
theorem replay_handoff {tr : List Item} {s s' : St} {n : Nat} (h : runItems item s tr n = .ok s')
    {p a : Nat} {ep ea : Ev} {b : Bool} (hpa : p < a)
    (hp : (evsOf tr)[p]? = some ep) (ha : (evsOf tr)[a]? = some ea)
    (hal : parseLoc ea.loc = .cnt b) (hak : ea.k = "C") (haok : ea.ok = true)
    (haacq : ordGe ea.ord "Acquire" = true)
    (hpl : ep.loc = ea.loc) (hpw : (ofEv ep).wr = true) (hprel : (ofEv ep).rel = true) :
    sw (memTrace tr) p a ∧
    (∀ e f, po (memTrace tr) e p → po (memTrace tr) a f → hb (memTrace tr) e f) ∧
    (∀ e, po (memTrace tr) e p → hb (memTrace tr) e a) ∧ (∀ f, po (memTrace tr) a f → hb (memTrace tr) p f) := by
  have hacq := haacq
  have hp' : (memTrace tr)[p]? = some (ofEv ep) := by simp [memTrace, List.getElem?_map, hp]
  have ha' : (memTrace tr)[a]? = some (ofEv ea) := by simp [memTrace, List.getElem?_map, ha]
  exact handoff_hb (c := ea.loc) (memTrace_cnt_rmw h hal) hpa hp' hpl hpw hprel ha' rfl
    (ofEv_rmw_of_kind (.inr hak)).1 (ofEv_acq_of_ordGe hacq (fun _ => haok))

end Prom.HM
