import Prom.Lemmas.RegistryInv
/-
C06, error kinds: which error a refused registration returns. The descriptor loop stops at the FIRST
descriptor (in the collector's own order) that fails a check; the kind of the error is the kind of
that descriptor's first failing check. Helper lemmas for `Props/C06.register_err_kind`,
`register_err_first`, `register_alreadyReg_iff`.
-/
namespace Prom.C06
open Prom

/-- the verdict of the descriptor loop on ONE descriptor, given the ids and signatures staged so
    far: `none` = accepted, `some e` = refused with `e` -/
def descRefusal (r : Reg) (ids : List UInt64) (nd : List (Str × UInt64)) (d : Desc) : Option RErr :=
  if clashesCommon r.labels d then some .msg
  else if r.descIds.contains d.id then some .alreadyReg
  else
    let known := match dimLookup r.dimHashes d.fqName with
      | some h => some h
      | none => dimLookup nd d.fqName
    match known with
    | some h => if h != d.dimHash then some .msg else if ids.contains d.id then some .msg else none
    | none => if ids.contains d.id then some .msg else none

/-- one iteration of the loop: the head is judged by `descRefusal`, then the loop goes on with the
    head staged -/
theorem regLoop_cons (r : Reg) (d : Desc) (rest : List Desc) (ids : List UInt64) (nd : List (Str × UInt64)) (cid : UInt64) :
    regLoop r (d :: rest) ids nd cid =
      match descRefusal r ids nd d with
      | some e => .error e
      | none => regLoop r rest (ids ++ [d.id]) (dimInsert nd d.fqName d.dimHash) (cid + d.id) := by
  rw [regLoop]
  unfold descRefusal
  by_cases hc : clashesCommon r.labels d = true
  · simp only [hc, if_true]
  · simp only [hc, Bool.false_eq_true, if_false]
    by_cases hid : r.descIds.contains d.id = true
    · simp only [hid, if_true]
    · simp only [hid, Bool.false_eq_true, if_false]
      cases hl : dimLookup r.dimHashes d.fqName with
      | some h =>
        simp only []
        by_cases hne : (h != d.dimHash) = true
        · simp only [hne, if_true]
        · simp only [hne, Bool.false_eq_true, if_false]
          by_cases hi : ids.contains d.id = true
          · simp only [hi, if_true]
          · simp only [hi, Bool.false_eq_true, if_false]
      | none =>
        simp only []
        cases hl2 : dimLookup nd d.fqName with
        | none =>
          simp only []
          by_cases hi : ids.contains d.id = true
          · simp only [hi, if_true]
          · simp only [hi, Bool.false_eq_true, if_false]
        | some h =>
          simp only []
          by_cases hne : (h != d.dimHash) = true
          · simp only [hne, if_true]
          · simp only [hne, Bool.false_eq_true, if_false]
            by_cases hi : ids.contains d.id = true
            · simp only [hi, if_true]
            · simp only [hi, Bool.false_eq_true, if_false]

/-- the verdict on one descriptor, spelled out: `AlreadyReg` exactly when the descriptor clashes with
    no common label and its id is in use; `Msg` for a common-label clash, or (id not in use) a
    dimension hash that disagrees with the recorded signature of the name, or - no signature recorded -
    with the staged one, or an id already staged by this collector -/
theorem descRefusal_eq_some_iff (r : Reg) (ids : List UInt64) (nd : List (Str × UInt64)) (d : Desc) (e : RErr) :
    descRefusal r ids nd d = some e ↔
      (e = .alreadyReg ∧ clashesCommon r.labels d = false ∧ r.descIds.contains d.id = true) ∨
      (e = .msg ∧ (clashesCommon r.labels d = true ∨
        (r.descIds.contains d.id = false ∧
          ((∃ h, dimLookup r.dimHashes d.fqName = some h ∧ h ≠ d.dimHash) ∨
           (dimLookup r.dimHashes d.fqName = none ∧ ∃ h, dimLookup nd d.fqName = some h ∧ h ≠ d.dimHash) ∨
           ids.contains d.id = true)))) := by
  unfold descRefusal
  by_cases hc : clashesCommon r.labels d = true
  · simp only [hc, if_true, Option.some.injEq]
    constructor
    · intro h; exact Or.inr ⟨h.symm, Or.inl trivial⟩
    · rintro (⟨_, h, _⟩ | ⟨h, _⟩)
      · cases h
      · exact h.symm
  · have hc' : clashesCommon r.labels d = false := by simpa using hc
    simp only [hc', Bool.false_eq_true, if_false, false_or, true_and]
    by_cases hid : r.descIds.contains d.id = true
    · simp only [hid, if_true, Option.some.injEq, Bool.true_eq_false, false_and, and_false, or_false, and_true]
      exact ⟨Eq.symm, Eq.symm⟩
    · have hid' : r.descIds.contains d.id = false := by simpa using hid
      simp only [hid', Bool.false_eq_true, if_false, and_false, false_or, true_and]
      have tail : (if ids.contains d.id = true then some RErr.msg else none) = some e ↔
          e = .msg ∧ ids.contains d.id = true := by
        by_cases hi : ids.contains d.id = true
        · simp only [hi, if_true, Option.some.injEq, and_true]
          exact ⟨Eq.symm, Eq.symm⟩
        · simp only [hi, Bool.false_eq_true, if_false, reduceCtorEq, and_false]
      cases hl : dimLookup r.dimHashes d.fqName with
      | some h =>
        simp only [Option.some.injEq, exists_eq_left', reduceCtorEq, false_and, false_or]
        by_cases hne : (h != d.dimHash) = true
        · have : h ≠ d.dimHash := by simpa using hne
          simp only [hne, if_true, Option.some.injEq, this, ne_eq, not_false_eq_true, true_or, and_true]
          exact ⟨Eq.symm, Eq.symm⟩
        · have : h = d.dimHash := by simpa using hne
          subst this
          simp only [bne_self_eq_false, Bool.false_eq_true, if_false, ne_eq, not_true_eq_false, false_or]
          exact tail
      | none =>
        simp only [reduceCtorEq, false_and, exists_false, false_or, true_and]
        cases hl2 : dimLookup nd d.fqName with
        | none =>
          simp only [reduceCtorEq, false_and, exists_false, false_or]
          exact tail
        | some h =>
          simp only [Option.some.injEq, exists_eq_left']
          by_cases hne : (h != d.dimHash) = true
          · have : h ≠ d.dimHash := by simpa using hne
            simp only [hne, if_true, Option.some.injEq, this, ne_eq, not_false_eq_true, true_or, and_true]
            exact ⟨Eq.symm, Eq.symm⟩
          · have : h = d.dimHash := by simpa using hne
            subst this
            simp only [bne_self_eq_false, Bool.false_eq_true, if_false, ne_eq, not_true_eq_false, false_or]
            exact tail

/-- the loop over a concatenation: run the first part, then the second from what the first staged -/
theorem regLoop_append (r : Reg) : ∀ (pre rest : List Desc) (ids : List UInt64) (nd : List (Str × UInt64)) (cid : UInt64),
    regLoop r (pre ++ rest) ids nd cid =
      match regLoop r pre ids nd cid with
      | .error e => .error e
      | .ok res => regLoop r rest res.1 res.2.1 res.2.2 := by
  intro pre
  induction pre with
  | nil => intro rest ids nd cid; simp [regLoop]
  | cons d t ih =>
    intro rest ids nd cid
    rw [List.cons_append, regLoop_cons, regLoop_cons]
    cases descRefusal r ids nd d with
    | some e => rfl
    | none => exact ih _ _ _ _

/-- **first offender** — the loop fails with `e` exactly when the descriptors split as
    `pre ++ d :: post` where the loop accepts all of `pre` and refuses `d` with `e`, judged against
    what `pre` staged -/
theorem regLoop_err_iff (r : Reg) : ∀ (ds : List Desc) (ids : List UInt64) (nd : List (Str × UInt64)) (cid : UInt64) (e : RErr),
    regLoop r ds ids nd cid = .error e ↔
      ∃ pre d post res, ds = pre ++ d :: post ∧ regLoop r pre ids nd cid = .ok res ∧
        descRefusal r res.1 res.2.1 d = some e := by
  intro ds ids nd cid e
  constructor
  · induction ds generalizing ids nd cid with
    | nil => intro h; simp [regLoop] at h
    | cons d rest ih =>
      intro h
      rw [regLoop_cons] at h
      cases hdr : descRefusal r ids nd d with
      | some e' =>
        rw [hdr] at h
        simp only [Except.error.injEq] at h
        subst h
        exact ⟨[], d, rest, (ids, nd, cid), rfl, rfl, hdr⟩
      | none =>
        rw [hdr] at h
        obtain ⟨pre, x, post, res, hsplit, hok, hx⟩ := ih _ _ _ h
        refine ⟨d :: pre, x, post, res, by rw [hsplit]; rfl, ?_, hx⟩
        rw [regLoop_cons, hdr]
        exact hok
  · rintro ⟨pre, d, post, res, rfl, hok, hx⟩
    rw [regLoop_append, hok]
    simp only []
    rw [regLoop_cons, hx]

/-- the split of `regLoop_err_iff` is unique: the refused descriptor is the first offender -/
theorem regLoop_ok_prefix (r : Reg) (pre rest : List Desc) (ids : List UInt64) (nd : List (Str × UInt64)) (cid : UInt64)
    (res : List UInt64 × List (Str × UInt64) × UInt64) (h : regLoop r (pre ++ rest) ids nd cid = .ok res) :
    ∃ res', regLoop r pre ids nd cid = .ok res' := by
  rw [regLoop_append] at h
  cases hp : regLoop r pre ids nd cid with
  | error e => rw [hp] at h; cases h
  | ok res' => exact ⟨res', rfl⟩

/-- a collector's descriptors the loop accepts from the empty staging area: each passes the three
    registry-level checks, they are pairwise distinct and agree among themselves on shared names -/
def Accepted (r : Reg) (ds : List Desc) : Prop :=
  (∀ d ∈ ds, DescOk r d) ∧ (ds.map (·.id)).Nodup ∧ SelfConsistent ds

theorem accepted_iff (r : Reg) (ds : List Desc) : (∃ res, regLoop r ds [] [] 0 = .ok res) ↔ Accepted r ds := by
  constructor
  · rintro ⟨⟨ids, nd, cid⟩, h⟩
    obtain ⟨h1, h2, h3, _⟩ := regLoop_ok r _ _ _ _ _ _ _ h
    obtain ⟨_, h4⟩ := regLoop_self r _ _ _ _ _ h
    refine ⟨h1, ?_, h4⟩
    have := h3 List.nodup_nil
    simpa [h2] using this
  · rintro ⟨h1, h2, h3⟩
    exact regLoop_complete r ds [] [] 0 h1 (by simpa using h2) (by intro d _ h hl; simp [dimLookup] at hl) h3

/-- the signature staged for a name with no recorded signature is that of the accepted descriptors of
    that name -/
theorem staged_lookup (r : Reg) (pre : List Desc) (ids : List UInt64) (nd : List (Str × UInt64)) (cid : UInt64)
    (res : List UInt64 × List (Str × UInt64) × UInt64) (hok : regLoop r pre ids nd cid = .ok res)
    (n : Str) (hnd : dimLookup nd n = none) (h : UInt64) :
    dimLookup res.2.1 n = some h ↔ ∃ d' ∈ pre, d'.fqName = n ∧ d'.dimHash = h := by
  rw [regLoop_nd r _ _ _ _ _ hok]
  obtain ⟨_, hself⟩ := regLoop_self r _ _ _ _ _ hok
  have hpres : ∀ d' ∈ pre, d'.fqName = n → dimLookup ((pre.map descKv).foldl ins nd) n = some d'.dimHash := by
    intro d' hd' hn
    apply fold_ins_present
    · exact ⟨descKv d', List.mem_map.2 ⟨d', hd', rfl⟩, hn⟩
    · intro kv hkv hk
      obtain ⟨x, hx, rfl⟩ := List.mem_map.1 hkv
      exact hself x hx d' hd' (hk.trans hn.symm)
  constructor
  · intro hl
    by_cases hex : ∃ d' ∈ pre, d'.fqName = n
    · obtain ⟨d', hd', hn⟩ := hex
      rw [hpres d' hd' hn] at hl
      exact ⟨d', hd', hn, Option.some.inj hl⟩
    · rw [fold_ins_absent, hnd] at hl
      · cases hl
      · intro kv hkv hk
        obtain ⟨x, hx, rfl⟩ := List.mem_map.1 hkv
        exact hex ⟨x, hx, hk⟩
  · rintro ⟨d', hd', hn, rfl⟩
    exact hpres d' hd' hn

/-- `d`, coming after the accepted descriptors `pre` of its collector, is refused with `e`:
    `AlreadyReg` when it clashes with no common label and its id is in use; `Msg` for a common-label
    clash, or - id not in use - a dimension hash that disagrees with the recorded signature of its name,
    or (none recorded) with an earlier descriptor of the collector under that name, or an id that an
    earlier descriptor of the collector has -/
def RefusedWith (r : Reg) (pre : List Desc) (d : Desc) (e : RErr) : Prop :=
  (e = .alreadyReg ∧ clashesCommon r.labels d = false ∧ r.descIds.contains d.id = true) ∨
  (e = .msg ∧ (clashesCommon r.labels d = true ∨
    (r.descIds.contains d.id = false ∧
      ((∃ h, dimLookup r.dimHashes d.fqName = some h ∧ h ≠ d.dimHash) ∨
       (dimLookup r.dimHashes d.fqName = none ∧ ∃ d' ∈ pre, d'.fqName = d.fqName ∧ d'.dimHash ≠ d.dimHash) ∨
       d.id ∈ pre.map (·.id)))))

theorem refusedWith_iff (r : Reg) (pre : List Desc) (res : List UInt64 × List (Str × UInt64) × UInt64)
    (hok : regLoop r pre [] [] 0 = .ok res) (d : Desc) (e : RErr) :
    descRefusal r res.1 res.2.1 d = some e ↔ RefusedWith r pre d e := by
  rw [descRefusal_eq_some_iff]
  unfold RefusedWith
  have hids : res.1 = pre.map (·.id) := by
    obtain ⟨ids', nd', cid'⟩ := res
    obtain ⟨_, h2, _, _⟩ := regLoop_ok r _ _ _ _ _ _ _ hok
    simpa using h2
  have hst : (∃ h, dimLookup res.2.1 d.fqName = some h ∧ h ≠ d.dimHash) ↔
      ∃ d' ∈ pre, d'.fqName = d.fqName ∧ d'.dimHash ≠ d.dimHash := by
    constructor
    · rintro ⟨h, hl, hne⟩
      obtain ⟨d', hd', hn, rfl⟩ := (staged_lookup r pre [] [] 0 res hok d.fqName (by simp [dimLookup]) h).1 hl
      exact ⟨d', hd', hn, hne⟩
    · rintro ⟨d', hd', hn, hne⟩
      exact ⟨d'.dimHash, (staged_lookup r pre [] [] 0 res hok d.fqName (by simp [dimLookup]) _).2 ⟨d', hd', hn, rfl⟩, hne⟩
  have hc : res.1.contains d.id = true ↔ d.id ∈ pre.map (·.id) := by rw [hids]; simp
  rw [hst, hc]

end Prom.C06
