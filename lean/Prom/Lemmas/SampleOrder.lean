import Prom.Model.Registry
import Prom.Lemmas.Sort
/- The sample comparator of `gather` is a total preorder: lexicographic on
   (number of labels, label values, timestamp). -/
namespace Prom

def vals (s : Sample) : List Str := s.labels.map (·.value)

theorem strLe_of_lt {x y : Str} (h : x < y) : strLe x y = true := by
  rw [strLe_iff]; exact List.le_of_lt h

theorem lt_of_strLe_ne {x y : Str} (h : strLe x y = true) (hne : x ≠ y) : x < y := by
  rw [strLe_iff] at h
  rcases List.le_iff_lt_or_eq.1 h with h | h
  · exact h
  · exact absurd h hne

theorem not_strLe_of_lt {x y : Str} (h : x < y) : strLe y x = false := by
  cases hs : strLe y x with
  | false => rfl
  | true =>
    rw [strLe_iff] at hs
    exact absurd h (List.not_lt.2 hs)

/-- on label lists of equal length: the comparator's inner loop decides the lexicographic order of the
    value lists, falling through to `p` when all values are equal -/
theorem firstDiff_spec (p : Bool) : ∀ (a b : List LabelPair), a.length = b.length →
    (cmpTail (firstDiff a b) p = true ↔
      (a.map (·.value) < b.map (·.value) ∨ (a.map (·.value) = b.map (·.value) ∧ p = true))) := by
  intro a
  induction a with
  | nil =>
    intro b hl
    cases b with
    | nil => simp [firstDiff, cmpTail]
    | cons y ys => simp at hl
  | cons x xs ih =>
    intro b hl
    cases b with
    | nil => simp at hl
    | cons y ys =>
      simp only [List.length_cons, Nat.add_right_cancel_iff] at hl
      unfold firstDiff
      simp only [List.map_cons, List.cons_lt_cons_iff, List.cons.injEq]
      by_cases hxy : x.value = y.value
      · have : (x.value != y.value) = false := by simp [hxy]
        simp only [this, Bool.false_eq_true, if_false]
        rw [ih ys hl]
        constructor
        · rintro (h | ⟨h1, h2⟩)
          · exact Or.inl (Or.inr ⟨hxy, h⟩)
          · exact Or.inr ⟨⟨hxy, h1⟩, h2⟩
        · rintro ((h | ⟨_, h⟩) | ⟨⟨_, h1⟩, h2⟩)
          · exact absurd h (by rw [hxy]; exact List.lt_irrefl _)
          · exact Or.inl h
          · exact Or.inr ⟨h1, h2⟩
      · have : (x.value != y.value) = true := by simp [hxy]
        simp only [this, if_true, cmpTail]
        constructor
        · intro h; exact Or.inl (Or.inl (lt_of_strLe_ne h hxy))
        · rintro ((h | ⟨h, _⟩) | ⟨⟨h, _⟩, _⟩)
          · exact strLe_of_lt h
          · exact absurd h hxy
          · exact absurd h hxy

/-- the comparator as a lexicographic order -/
theorem sampleLe_iff (a b : Sample) :
    sampleLe a b = true ↔
      a.labels.length < b.labels.length ∨
      (a.labels.length = b.labels.length ∧ (vals a < vals b ∨ (vals a = vals b ∧ a.ts ≤ b.ts))) := by
  unfold sampleLe
  by_cases hl : a.labels.length = b.labels.length
  · have : (a.labels.length != b.labels.length) = false := by simp [hl]
    simp only [this, Bool.false_eq_true, if_false]
    rw [firstDiff_spec (decide (a.ts ≤ b.ts)) a.labels b.labels hl]
    simp only [decide_eq_true_eq, vals]
    constructor
    · intro h; exact Or.inr ⟨hl, h⟩
    · rintro (h | ⟨_, h⟩)
      · omega
      · exact h
  · have : (a.labels.length != b.labels.length) = true := by simp [hl]
    simp only [this, if_true, decide_eq_true_eq]
    constructor
    · intro h; exact Or.inl (by omega)
    · rintro (h | ⟨h, _⟩)
      · omega
      · exact absurd h hl

theorem sampleLe_trans (a b c : Sample) (h1 : sampleLe a b = true) (h2 : sampleLe b c = true) : sampleLe a c = true := by
  rw [sampleLe_iff] at *
  rcases h1 with h1 | ⟨l1, h1⟩ <;> rcases h2 with h2 | ⟨l2, h2⟩
  · exact Or.inl (by omega)
  · exact Or.inl (by omega)
  · exact Or.inl (by omega)
  · refine Or.inr ⟨by omega, ?_⟩
    rcases h1 with h1 | ⟨e1, t1⟩ <;> rcases h2 with h2 | ⟨e2, t2⟩
    · exact Or.inl (List.lt_trans h1 h2)
    · exact Or.inl (e2 ▸ h1)
    · exact Or.inl (e1 ▸ h2)
    · exact Or.inr ⟨e1.trans e2, by omega⟩

theorem sampleLe_total (a b : Sample) : sampleLe a b = true ∨ sampleLe b a = true := by
  rw [sampleLe_iff, sampleLe_iff]
  rcases Nat.lt_trichotomy a.labels.length b.labels.length with h | h | h
  · exact Or.inl (Or.inl h)
  · by_cases hab : vals a < vals b
    · exact Or.inl (Or.inr ⟨h, Or.inl hab⟩)
    · by_cases hba : vals b < vals a
      · exact Or.inr (Or.inr ⟨h.symm, Or.inl hba⟩)
      · have he : vals a = vals b := by
          have h1 : vals b ≤ vals a := List.not_lt.1 hab
          have h2 : vals a ≤ vals b := List.not_lt.1 hba
          exact Std.le_antisymm h2 h1
        rcases Int.le_total a.ts b.ts with ht | ht
        · exact Or.inl (Or.inr ⟨h, Or.inr ⟨he, ht⟩⟩)
        · exact Or.inr (Or.inr ⟨h.symm, Or.inr ⟨he.symm, ht⟩⟩)
  · exact Or.inr (Or.inl h)

/-- two samples that sort both ways have the same number of labels, the same label values and the
    same timestamp -/
theorem sampleLe_antisymm_key (a b : Sample) (h1 : sampleLe a b = true) (h2 : sampleLe b a = true) :
    a.labels.length = b.labels.length ∧ vals a = vals b ∧ a.ts = b.ts := by
  rw [sampleLe_iff] at *
  rcases h1 with h1 | ⟨l1, h1⟩ <;> rcases h2 with h2 | ⟨l2, h2⟩
  · omega
  · omega
  · omega
  · refine ⟨l1, ?_⟩
    rcases h1 with h1 | ⟨e1, t1⟩ <;> rcases h2 with h2 | ⟨e2, t2⟩
    · exact absurd h2 (List.lt_asymm h1)
    · exact absurd h1 (by rw [e2]; exact List.lt_irrefl _)
    · exact absurd h2 (by rw [e1]; exact List.lt_irrefl _)
    · exact ⟨e1, by omega⟩

end Prom
