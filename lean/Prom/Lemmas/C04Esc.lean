import Prom.Lemmas.C04Aux
/- escape / unescape / quoted-value lemmas (proofs); `Props/C04.lean` states them as property theorems -/
namespace Prom.C04.Esc
open Prom Prom.Text Prom.TextParse Prom.C04

/-- the fast path (copy up to the first special byte) is equivalent to escaping every byte -/
theorem escape_eq_flatMap (q : Bool) (v : Str) : escapeString q v = v.flatMap (escByte q) := by
  have key : ∀ (l : Str), (∀ b ∈ l, isSpecial q b = false) → l.flatMap (escByte q) = l := by
    intro l
    induction l with
    | nil => intro _; rfl
    | cons a t ih =>
      intro h
      have ha := h a (by simp)
      simp only [isSpecial, Bool.or_eq_false_iff, Bool.and_eq_false_iff] at ha
      have e : escByte q a = [a] := by
        unfold escByte
        rcases ha with ⟨⟨h1, h2⟩, h3⟩
        simp only [h1, h2, Bool.false_eq_true, if_false]
        rcases h3 with h3 | h3 <;> simp [h3]
      simp only [List.flatMap_cons, e, List.singleton_append]
      rw [ih (fun b hb => h b (by simp [hb]))]
  unfold escapeString
  cases hf : v.findIdx? (isSpecial q) with
  | none =>
    rw [List.findIdx?_eq_none_iff] at hf
    simp only []
    exact (key v (fun b hb => by simpa using hf b hb)).symm
  | some i =>
    simp only []
    rw [List.findIdx?_eq_some_iff_getElem] at hf
    obtain ⟨hi, _, hbefore⟩ := hf
    have hsplit : v = v.take i ++ v.drop i := (List.take_append_drop i v).symm
    conv => rhs; rw [hsplit, List.flatMap_append]
    congr 1
    apply (key _ _).symm
    intro b hb
    obtain ⟨j, hj, rfl⟩ := List.mem_iff_getElem.1 hb
    simp only [List.length_take] at hj
    have hji : j < i := by omega
    have := hbefore j hji
    simp only [List.getElem_take]
    simpa using this

/-- **unescape_escape** — a reader that undoes `\\`, `\n` (and `\"` for label values) recovers
    exactly the original bytes, whatever they are (quotes, backslashes, newlines, CR, NUL,
    multi-byte characters, a literal backslash followed by `n`, …) -/
theorem unescape_escape (q : Bool) (v : Str) : unescape q (escapeString q v) = some v := by
  rw [escape_eq_flatMap]
  induction v with
  | nil => rfl
  | cons a t ih =>
    simp only [List.flatMap_cons]
    by_cases h1 : a = 92
    · subst h1
      rw [escByte_bs]
      show unescape q (92 :: 92 :: List.flatMap (escByte q) t) = some (92 :: t)
      rw [unescape, ih]; rfl
    · by_cases h2 : a = 10
      · subst h2
        rw [escByte_lf]
        show unescape q (92 :: 110 :: List.flatMap (escByte q) t) = some (10 :: t)
        rw [unescape, ih]; rfl
      · by_cases h3 : q = true ∧ a = 34
        · obtain ⟨hq, ha⟩ := h3
          subst ha; subst hq
          rw [escByte_quote]
          show unescape true (92 :: 34 :: List.flatMap (escByte true) t) = some (34 :: t)
          rw [unescape]
          simp [ih]
        · rw [escByte_other q a h1 h2 h3]
          show unescape q (a :: List.flatMap (escByte q) t) = some (a :: t)
          rw [unescape_cons_other q a _ h1, ih]; rfl

/-- **escape_no_newline** — an escaped help text or label value never contains a line feed: no
    help text or label value can add or end a line -/
theorem escape_no_newline (q : Bool) (v : Str) : (10 : UInt8) ∉ escapeString q v := by
  rw [escape_eq_flatMap]
  intro h
  rw [List.mem_flatMap] at h
  obtain ⟨b, _, hb⟩ := h
  by_cases h1 : b = 92
  · subst h1; rw [escByte_bs] at hb; simp at hb
  · by_cases h2 : b = 10
    · subst h2; rw [escByte_lf] at hb; simp at hb
    · by_cases h3 : q = true ∧ b = 34
      · obtain ⟨hq, hb34⟩ := h3; subst hq; subst hb34; rw [escByte_quote] at hb; simp at hb
      · rw [escByte_other q b h1 h2 h3] at hb
        simp at hb
        exact h2 hb.symm

/-- in label-value mode every quote in the output is escaped: reading the quoted value stops exactly
    at the closing quote the encoder writes, and returns the escaped text unchanged -/
theorem quoted_value_reads_back (v : Str) (rest : Str) :
    ∀ acc, readQuoted (v.flatMap (escByte true) ++ 34 :: rest) acc = some (acc.reverse ++ v.flatMap (escByte true), rest) := by
  induction v with
  | nil => intro acc; simp [readQuoted]
  | cons a t ih =>
    intro acc
    simp only [List.flatMap_cons, List.append_assoc]
    by_cases h1 : a = 92
    · subst h1
      rw [escByte_bs]
      show readQuoted (92 :: 92 :: (List.flatMap (escByte true) t ++ 34 :: rest)) acc = _
      rw [readQuoted, ih]
      simp
    · by_cases h2 : a = 10
      · subst h2
        rw [escByte_lf]
        show readQuoted (92 :: 110 :: (List.flatMap (escByte true) t ++ 34 :: rest)) acc = _
        rw [readQuoted, ih]
        simp
      · by_cases h3 : a = 34
        · subst h3
          rw [escByte_quote]
          show readQuoted (92 :: 34 :: (List.flatMap (escByte true) t ++ 34 :: rest)) acc = _
          rw [readQuoted, ih]
          simp
        · rw [escByte_other true a h1 h2 (by simp [h3])]
          show readQuoted (a :: (List.flatMap (escByte true) t ++ 34 :: rest)) acc = _
          rw [readQuoted_cons_other a _ _ h1 h3, ih]
          simp

/-- label value round trip: quoted reader + unescape recover the value -/
theorem label_value_roundtrip (v rest : Str) :
    (readQuoted (escapeString true v ++ 34 :: rest) []).bind (fun p => (unescape true p.1).map (fun x => (x, p.2)))
      = some (v, rest) := by
  rw [escape_eq_flatMap, quoted_value_reads_back]
  simp only [List.reverse_nil, List.nil_append, Option.bind_some]
  rw [← escape_eq_flatMap, unescape_escape]
  rfl

end Prom.C04.Esc
