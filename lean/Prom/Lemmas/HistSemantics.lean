import Prom.Lemmas.HistCuts
import Prom.Lemmas.Histogram
/-
The last step of C02: the cells of a cut, expressed in terms of the VALUES that were observed.
`obsOfVals bounds vals` is the observation a call `obs:v` / `flush:v1+v2+…` makes; here its weight,
its contribution to every bucket cell and to the sum cell are computed (`obsOfVals_w`, `_bucket`,
`_sum`), lifted to cuts (`cut_*`), every observation the replay machine ever claims is shown to be
`obsOfVals bounds vals` for the values of its call (`obsInv_reach`), and for strictly increasing
bounds the running sum of the bucket cells is shown to be the number of values `<=` the bound
(`cum_buckets`).
-/
namespace Prom.HM
open Prom Prom.Conc Hp

/-! ### list lemmas -/

theorem contribL_append (a b : List (Nat × Int)) (c : Nat) :
    contribL (a ++ b) c = contribL a c + contribL b c := by
  simp [contribL]

/-- a left fold of `+` is the start value plus the sum -/
theorem foldl_add_eq_sum (l : List Int) : ∀ a : Int, l.foldl (· + ·) a = a + l.sum := by
  induction l with
  | nil => intro a; simp
  | cons x r ih => intro a; simp only [List.foldl_cons, List.sum_cons, ih]; omega

/-- `findBucket` only ever answers with an index of the bounds list -/
theorem findBucket_lt {bounds : List UInt64} {v : UInt64} {j : Nat} (h : findBucket bounds v = some j) :
    j < bounds.length := by
  induction bounds generalizing j with
  | nil => simp [findBucket] at h
  | cons a r ih =>
    unfold findBucket at h
    by_cases hc : f64Le v a = true
    · simp [hc] at h; subst h; simp
    · simp [hc] at h
      obtain ⟨k, hk, rfl⟩ := h
      have := ih hk
      simp; omega

/-- entry `i` of a count list after bumping entry `j` -/
theorem bumpAt_getD (cs : List Nat) : ∀ (j d i : Nat), j < cs.length →
    (bumpAt cs j d)[i]?.getD 0 = cs[i]?.getD 0 + (if i = j then d else 0) := by
  induction cs with
  | nil => intro j d i h; simp at h
  | cons c r ih =>
    intro j d i hj
    cases j with
    | zero =>
      cases i with
      | zero => simp [bumpAt]
      | succ i => simp [bumpAt]
    | succ j =>
      cases i with
      | zero => simp [bumpAt]
      | succ i =>
        have := ih j d i (by simpa using hj)
        simpa [bumpAt] using this

/-- the per-bucket counting fold of `obsOfVals`: lengths are kept, and entry `c` grows by the
    number of values that fall into bucket `c` -/
theorem foldCounts_spec (bounds : List UInt64) (step : List Nat → Int → List Nat)
    (hstep : ∀ acc v, step acc v = (findBucket bounds (f64OfInt v)).elim acc (fun i => bumpAt acc i 1)) :
    ∀ (vals : List Int) (acc : List Nat), acc.length = bounds.length →
      (vals.foldl step acc).length = bounds.length ∧
      ∀ c, (vals.foldl step acc)[c]?.getD 0 =
        acc[c]?.getD 0 + vals.countP (fun v => findBucket bounds (f64OfInt v) == some c) := by
  intro vals
  induction vals with
  | nil => intro acc hl; simp [hl]
  | cons v vs ih =>
    intro acc hl
    simp only [List.foldl_cons, List.countP_cons]
    have hl1 : (step acc v).length = bounds.length := by
      rw [hstep]
      cases hf : findBucket bounds (f64OfInt v) <;> simp [Option.elim, bumpAt_length, hl]
    obtain ⟨h1, h2⟩ := ih (step acc v) hl1
    refine ⟨h1, fun c => ?_⟩
    rw [h2 c, hstep]
    cases hf : findBucket bounds (f64OfInt v) with
    | none => simp [Option.elim]
    | some j =>
      have hj : j < acc.length := hl ▸ findBucket_lt hf
      simp only [Option.elim]
      rw [bumpAt_getD _ _ _ _ hj]
      by_cases hcj : c = j
      · subst hcj; simp; omega
      · have : (some j == some c) = false := by simp; omega
        simp [hcj, this]

/-- the update entries built from a count list: cell `c` receives exactly entry `c` of the list -/
theorem contribL_zipIdx (g : Nat × Nat → Option (Nat × Int))
    (hg : ∀ cnt i, g (cnt, i) = if cnt > 0 then some (i, (cnt : Int)) else none) :
    ∀ (cs : List Nat) (n c : Nat),
      contribL ((cs.zipIdx n).filterMap g) c = if n ≤ c then ((cs[c - n]?.getD 0 : Nat) : Int) else 0 := by
  intro cs
  induction cs with
  | nil => intro n c; simp
  | cons x r ih =>
    intro n c
    simp only [List.zipIdx_cons, List.filterMap_cons, hg]
    by_cases hx : x > 0
    · simp only [hx, if_true, contribL_cons, ih]
      by_cases h1 : n = c
      · subst h1
        have h3 : ¬ n + 1 ≤ n := by omega
        simp [h3]
      · by_cases h2 : n ≤ c
        · have h3 : n + 1 ≤ c := by omega
          have h4 : c - n = (c - (n + 1)) + 1 := by omega
          simp [h1, h2, h3, h4]
        · have h3 : ¬ n + 1 ≤ c := by omega
          simp [h1, h2, h3]
    · have hx0 : x = 0 := by omega
      simp only [hx, if_false, ih]
      by_cases h1 : n = c
      · subst h1
        have h3 : ¬ n + 1 ≤ n := by omega
        simp [hx0, h3]
      · by_cases h2 : n ≤ c
        · have h3 : n + 1 ≤ c := by omega
          have h4 : c - n = (c - (n + 1)) + 1 := by omega
          simp [h2, h3, h4]
        · have h3 : ¬ n + 1 ≤ c := by omega
          simp [h2, h3]

/-! ### one observation -/

/-- the number of values of `vals` that fall into bucket `c` (first bound `>=` the value) -/
def bucketCount (bounds : List UInt64) (c : Nat) (vals : List Int) : Nat :=
  (vals.filter fun v => findBucket bounds (f64OfInt v) == some c).length

theorem bucketCount_eq_countP (bounds : List UInt64) (c : Nat) (vals : List Int) :
    bucketCount bounds c vals = vals.countP (fun v => findBucket bounds (f64OfInt v) == some c) := by
  simp [bucketCount, List.countP_eq_length_filter]

/-- the weight of a call's observation is the number of its values -/
theorem obsOfVals_w (bounds : List UInt64) (vals : List Int) : (obsOfVals bounds vals).w = vals.length := rfl

/-- contribution of the bucket entries of `obsOfVals` to any cell `c`: the number of values in
    bucket `c` (which is 0 for `c >= bounds.length`) -/
theorem obsOfVals_upd_cell (bounds : List UInt64) (vals : List Int) (c : Nat) :
    contribL (obsOfVals bounds vals).upd c =
      (bucketCount bounds c vals : Int) + (if bounds.length = c then vals.foldl (· + ·) 0 else 0) := by
  unfold obsOfVals
  simp only [contribL_append, contribL_cons, contribL_nil, Int.add_zero]
  congr 1
  rw [contribL_zipIdx _ (fun cnt i => rfl)]
  simp only [Nat.zero_le, if_true, Nat.sub_zero]
  have key : ∀ step : List Nat → Int → List Nat,
      (∀ acc v, step acc v = (findBucket bounds (f64OfInt v)).elim acc (fun i => bumpAt acc i 1)) →
      (vals.foldl step (List.replicate bounds.length 0))[c]?.getD 0 = bucketCount bounds c vals := by
    intro step hstep
    obtain ⟨_, h2⟩ := foldCounts_spec bounds step hstep vals (List.replicate bounds.length 0) (by simp)
    rw [h2 c, bucketCount_eq_countP]
    by_cases hc : c < bounds.length <;> simp [hc]
  rw [key]
  intro acc v
  cases hf : findBucket bounds (f64OfInt v) <;> simp [Option.elim]

/-- no value falls into a bucket beyond the bounds -/
theorem bucketCount_ge (bounds : List UInt64) (c : Nat) (vals : List Int) (hc : bounds.length ≤ c) :
    bucketCount bounds c vals = 0 := by
  simp only [bucketCount, List.length_eq_zero_iff, List.filter_eq_nil_iff, beq_iff_eq]
  intro v _ hf
  have := findBucket_lt hf
  omega

/-- **bucket cell of one call**: the contribution to bucket cell `c` is the number of the call's
    values that fall into bucket `c` -/
theorem obsOfVals_bucket (bounds : List UInt64) (vals : List Int) (c : Nat) (hc : c < bounds.length) :
    contribL (obsOfVals bounds vals).upd c =
      ((vals.filter fun v => findBucket bounds (f64OfInt v) == some c).length : Int) := by
  rw [obsOfVals_upd_cell]
  have : bounds.length ≠ c := by omega
  simp [this, bucketCount]

/-- **sum cell of one call**: the contribution to the sum cell is the sum of the call's values -/
theorem obsOfVals_sum (bounds : List UInt64) (vals : List Int) :
    contribL (obsOfVals bounds vals).upd bounds.length = vals.foldl (· + ·) 0 := by
  rw [obsOfVals_upd_cell, bucketCount_ge _ _ _ (Nat.le_refl _)]
  simp

/-- cells beyond the sum cell receive nothing -/
theorem obsOfVals_beyond (bounds : List UInt64) (vals : List Int) (c : Nat) (hc : bounds.length < c) :
    contribL (obsOfVals bounds vals).upd c = 0 := by
  rw [obsOfVals_upd_cell, bucketCount_ge _ _ _ (Nat.le_of_lt hc)]
  have : bounds.length ≠ c := by omega
  simp [this]

/-! ### a cut, given as the list of its calls' value lists -/

theorem bucketCount_append (bounds : List UInt64) (c : Nat) (a b : List Int) :
    bucketCount bounds c (a ++ b) = bucketCount bounds c a + bucketCount bounds c b := by
  simp [bucketCount]

@[simp] theorem bucketCount_nil (bounds : List UInt64) (c : Nat) : bucketCount bounds c [] = 0 := rfl

/-- **count of a cut**: the total weight is the number of all observed values -/
theorem cut_totW (bounds : List UInt64) (valss : List (List Int)) :
    totW (valss.map (obsOfVals bounds)) = valss.flatten.length := by
  induction valss with
  | nil => simp
  | cons vs r ih =>
    simp only [totW, List.map_cons, List.sum_cons, List.flatten_cons, List.length_append] at ih ⊢
    rw [ih, obsOfVals_w]

/-- every cell of a cut in terms of all observed values -/
theorem cut_cell (bounds : List UInt64) (valss : List (List Int)) (c : Nat) :
    tot (valss.map (obsOfVals bounds)) c =
      (bucketCount bounds c valss.flatten : Int) +
        (if bounds.length = c then valss.flatten.foldl (· + ·) 0 else 0) := by
  induction valss with
  | nil => simp
  | cons vs r ih =>
    simp only [tot, List.map_cons, List.sum_cons, List.flatten_cons] at ih ⊢
    rw [ih, obsOfVals_upd_cell, bucketCount_append]
    by_cases hc : bounds.length = c
    · simp only [hc, if_true, foldl_add_eq_sum, List.sum_append]; omega
    · simp only [hc, if_false]; omega

/-- **bucket cell of a cut**: the number of all observed values that fall into bucket `c` -/
theorem cut_bucket (bounds : List UInt64) (valss : List (List Int)) (c : Nat) (hc : c < bounds.length) :
    tot (valss.map (obsOfVals bounds)) c =
      ((valss.flatten.filter fun v => findBucket bounds (f64OfInt v) == some c).length : Int) := by
  rw [cut_cell]
  have : bounds.length ≠ c := by omega
  simp [this, bucketCount]

/-- **sum cell of a cut**: the sum of all observed values -/
theorem cut_sum (bounds : List UInt64) (valss : List (List Int)) :
    tot (valss.map (obsOfVals bounds)) bounds.length = valss.flatten.foldl (· + ·) 0 := by
  rw [cut_cell, bucketCount_ge _ _ _ (Nat.le_refl _)]
  simp

/-- cells beyond the sum cell are 0 -/
theorem cut_beyond (bounds : List UInt64) (valss : List (List Int)) (c : Nat) (hc : bounds.length < c) :
    tot (valss.map (obsOfVals bounds)) c = 0 := by
  rw [cut_cell, bucketCount_ge _ _ _ (Nat.le_of_lt hc)]
  have : bounds.length ≠ c := by omega
  simp [this]

/-! ### cumulative counts for strictly increasing bounds -/

theorem sum_map_add {α} (l : List α) (f g : α → Nat) :
    (l.map fun a => f a + g a).sum = (l.map f).sum + (l.map g).sum := by
  induction l with
  | nil => rfl
  | cons x r ih => simp only [List.map_cons, List.sum_cons, ih]; omega

theorem sum_map_zero {α} (l : List α) : (l.map fun _ => (0 : Nat)).sum = 0 := by
  induction l with
  | nil => rfl
  | cons x r ih => simp only [List.map_cons, List.sum_cons, ih]

theorem sum_indicator (j n : Nat) :
    ((List.range n).map fun c => if j = c then 1 else 0).sum = if j < n then 1 else 0 := by
  induction n with
  | zero => simp
  | succ n ih =>
    rw [List.range_succ, List.map_append, List.sum_append, ih]
    by_cases h1 : j < n
    · have h2 : j ≠ n := by omega
      have h3 : j < n + 1 := by omega
      simp [h1, h2, h3]
    · by_cases h2 : j = n
      · subst h2; simp
      · have h3 : ¬ j < n + 1 := by omega
        simp [h1, h2, h3]

theorem bucketCount_cons (bounds : List UInt64) (c : Nat) (v : Int) (vs : List Int) :
    bucketCount bounds c (v :: vs) =
      (if findBucket bounds (f64OfInt v) = some c then 1 else 0) + bucketCount bounds c vs := by
  simp only [bucketCount, List.filter_cons]
  by_cases h : findBucket bounds (f64OfInt v) = some c
  · simp [h]; omega
  · have : (findBucket bounds (f64OfInt v) == some c) = false := by simpa using h
    simp [h, this]

/-- **cumulative count**: for strictly increasing bounds, the buckets `0..i` together hold exactly
    the values that are `<=` bound `i` (in the IEEE order `f64Le` the implementation compares with) -/
theorem cum_buckets {bounds : List UInt64} (hs : StrictIncr bounds) (vals : List Int) (i : Nat) (b : UInt64)
    (hb : bounds[i]? = some b) :
    ((List.range (i + 1)).map fun c => bucketCount bounds c vals).sum =
      vals.countP (fun v => f64Le (f64OfInt v) b) := by
  induction vals with
  | nil => simp [sum_map_zero]
  | cons v vs ih =>
    have : (fun c => bucketCount bounds c (v :: vs)) =
        fun c => (if findBucket bounds (f64OfInt v) = some c then 1 else 0) + bucketCount bounds c vs :=
      funext fun c => bucketCount_cons bounds c v vs
    rw [this, sum_map_add, ih, List.countP_cons]
    have spec := findBucket_spec hs (f64OfInt v) i b hb
    cases hf : findBucket bounds (f64OfInt v) with
    | none =>
      rw [hf] at spec
      simp only [] at spec
      simp [spec, sum_map_zero]
    | some j =>
      rw [hf] at spec
      simp only [] at spec
      have h1 : (fun c => if some j = some c then 1 else 0) = fun c => if j = c then 1 else 0 := by
        funext c; simp
      rw [h1, sum_indicator]
      by_cases hji : j ≤ i
      · have h2 : j < i + 1 := by omega
        simp [h2, spec.2.1 hji]; omega
      · have h2 : ¬ j < i + 1 := by omega
        have : f64Le (f64OfInt v) b = false := by
          cases hle : f64Le (f64OfInt v) b with
          | false => rfl
          | true => exact absurd (spec.2.2 hle) hji
        simp [h2, this]

theorem sum_map_cast {α} (l : List α) (f : α → Nat) :
    (l.map fun a => (f a : Int)).sum = (((l.map f).sum : Nat) : Int) := by
  induction l with
  | nil => rfl
  | cons x r ih => simp only [List.map_cons, List.sum_cons, ih]; omega

/-- **cumulative count of a cut**: for strictly increasing bounds the bucket cells `0..i` of a cut
    add up to the number of all observed values that are `<=` bound `i` -/
theorem cut_cum {bounds : List UInt64} (hs : StrictIncr bounds) (valss : List (List Int)) (i : Nat) (b : UInt64)
    (hb : bounds[i]? = some b) :
    ((List.range (i + 1)).map fun c => tot (valss.map (obsOfVals bounds)) c).sum =
      (valss.flatten.countP (fun v => f64Le (f64OfInt v) b) : Int) := by
  have hi : i < bounds.length := by
    rcases Nat.lt_or_ge i bounds.length with h | h
    · exact h
    · rw [List.getElem?_eq_none_iff.2 h] at hb; cases hb
  rw [← cum_buckets hs valss.flatten i b hb, ← sum_map_cast]
  congr 1
  apply List.map_congr_left
  intro c hc
  have hc' : c < bounds.length := by have := List.mem_range.1 hc; omega
  rw [cut_bucket _ _ _ hc']
  simp [bucketCount]

/-! ### the rendered snapshot -/

/-- the string a `collect` call's result is compared with: count, sum (bit pattern), cumulative counts -/
def renderSnap (count : Nat) (sum : Int) (cum : List Nat) : String :=
  s!"{count}/{hexStr (f64OfInt sum)}/{"+".intercalate (cum.map toString)}"

theorem cumFold_eq (g : Nat → Nat) : ∀ (l : List Nat) (acc : List Nat) (a : Nat),
    (l.foldl (fun (acc : List Nat × Nat) i => (acc.1 ++ [acc.2 + g i], acc.2 + g i)) (acc, a)).1 =
      acc ++ cumulate a (l.map g) := by
  intro l
  induction l with
  | nil => intro acc a; simp [cumulate]
  | cons x r ih => intro acc a; simp [ih, cumulate]

/-- `showSnap` prints the count, the sum cell and the running sums of the bucket cells -/
theorem showSnap_eq (k ov : Nat) (taken : Cells) :
    showSnap k ov taken = renderSnap ov (taken k) (cumulate 0 ((List.range k).map fun i => (taken i).toNat)) := by
  unfold showSnap renderSnap
  simp only [cumFold_eq, List.nil_append]

/-- the running sums of the bucket cells of a cut are, bound by bound, the numbers of values `<=` the bound -/
theorem cut_cumulate {bounds : List UInt64} (hs : StrictIncr bounds) (valss : List (List Int)) :
    cumulate 0 ((List.range bounds.length).map fun i => (tot (valss.map (obsOfVals bounds)) i).toNat) =
      bounds.map fun b => valss.flatten.countP (fun v => f64Le (f64OfInt v) b) := by
  apply List.ext_getElem?
  intro i
  rw [cumulate_getElem?]
  simp only [List.length_map, List.length_range, List.getElem?_map]
  by_cases hi : i < bounds.length
  · have hb : bounds[i]? = some bounds[i] := List.getElem?_eq_getElem hi
    rw [hb]
    simp only [hi, if_true, Option.map_some, Nat.zero_add, Option.some.injEq]
    rw [← cum_buckets hs valss.flatten i _ hb, ← List.map_take, List.take_range,
      Nat.min_eq_left (by omega : i + 1 ≤ bounds.length)]
    congr 1
    apply List.map_congr_left
    intro c hc
    have hc' : c < bounds.length := by have := List.mem_range.1 hc; omega
    rw [cut_bucket _ _ _ hc']
    simp [bucketCount]
  · rw [List.getElem?_eq_none_iff.2 (Nat.le_of_not_lt hi)]
    simp [hi]

/-! ### the machine invariant: every observation is `obsOfVals bounds vals` -/

/-- the observation an observer task carries -/
def obsOfTask : Task → Option Obs
  | .obsStart o => some o
  | .obsRun o _ _ => some o
  | _ => none

def obsOfPc (pc : Pc) : Option Obs := pc.task.bind obsOfTask

/-- an accepted event never changes the observation its call carries, and it leaves `claimed` as
    it was or appends exactly the observation the call carries -/
theorem evStep1_obs {k : Nat} {c : Hp.St} {cuts : Cuts} {e : Ev} {pc : Pc} {c' : Hp.St} {pc' : Pc}
    {rv : Option String} {cuts' : Cuts}
    (h : evStep1 k c cuts e pc = .ok ((c', pc', rv), cuts')) :
    (∀ o, obsOfPc pc' = some o → obsOfPc pc = some o) ∧
    (c'.claimed = c.claimed ∨ ∃ o, obsOfPc pc = some o ∧ c'.claimed = c.claimed ++ [o]) := by
  unfold evStep1 at h
  simp only at h
  split at h
  · rw [plainR_ok, guard_ok] at h
    obtain ⟨⟨_, h⟩, _⟩ := h; cases h
    exact ⟨fun o ho => ho, .inl rfl⟩
  · next o ht =>
    rw [plainR_ok] at h
    obtain ⟨h, _⟩ := h
    rcases fetchAdd_cases h with ⟨⟨ic, f, hr⟩, hfl, hfk⟩ | ⟨hr, hfok, hfl, hfo, hfr, hfk⟩
    · cases hr; exact ⟨fun o ho => ho, .inl rfl⟩
    · cases hr
      exact ⟨fun o' ho => by simpa [obsOfPc, ht, obsOfTask, faDone] using ho,
        .inr ⟨o, by simp [obsOfPc, ht, obsOfTask], rfl⟩⟩
  · next o b p l ht =>
    simp only [obsEntry] at h
    split at h
    · rw [plainR_ok] at h
      obtain ⟨h, _⟩ := h
      rcases fetchAdd_cases h with ⟨⟨ic, f, hr⟩, hfl, hfk⟩ | ⟨hr, hfok, hfl, hfo, hfr, hfk⟩
      · cases hr; exact ⟨fun o ho => ho, .inl rfl⟩
      · cases hr
        exact ⟨fun o' ho => by simpa [obsOfPc, ht, obsOfTask, faDone] using ho, .inl rfl⟩
    · rw [plainR_ok] at h
      obtain ⟨h, _⟩ := h
      rcases casLoop_c0 h with ⟨_, h2, h3⟩ | h1
      · simp only at h2 h3
        exact ⟨fun o' ho => by simpa [obsOfPc, h3] using ho, .inl (by rw [h2])⟩
      · cases h1
        exact ⟨fun o' ho => by simpa [obsOfPc, ht, obsOfTask] using ho, .inl rfl⟩
  · next o b ht =>
    rw [plainR_ok] at h
    obtain ⟨h, _⟩ := h
    rcases fetchAdd_cases h with ⟨⟨ic, f, hr⟩, hfl, hfk⟩ | ⟨hr, hfok, hfl, hfo, hfr, hfk⟩
    · cases hr; exact ⟨fun o ho => ho, .inl rfl⟩
    · cases hr
      exact ⟨fun o' ho => by simp [obsOfPc] at ho, .inl rfl⟩
  · next ht =>
    rw [plainR_ok, guard_ok] at h
    obtain ⟨⟨_, h⟩, _⟩ := h; cases h
    exact ⟨fun o' ho => by simp [obsOfPc, obsOfTask] at ho, .inl rfl⟩
  · next ht =>
    split at h
    · split at h
      · rw [plainR_ok, guard_ok] at h
        obtain ⟨⟨_, h⟩, _⟩ := h; cases h
        exact ⟨fun o' ho => by simpa [obsOfPc] using ho, .inl rfl⟩
      · split at h
        · rw [plainR_ok, guard_ok] at h
          obtain ⟨⟨_, h⟩, _⟩ := h; cases h
          exact ⟨fun o' ho => by simpa [obsOfPc] using ho, .inl rfl⟩
        · rw [plainR_ok, guard_ok] at h
          obtain ⟨⟨_, h⟩, _⟩ := h; cases h
          exact ⟨fun o' ho => by simp [obsOfPc] at ho, .inl rfl⟩
    · rw [plainR_ok] at h
      obtain ⟨h, _⟩ := h
      rcases fetchAdd_cases h with ⟨⟨ic, f, hr⟩, hfl, hfk⟩ | ⟨hr, hfok, hfl, hfo, hfr, hfk⟩
      · cases hr; exact ⟨fun o ho => ho, .inl rfl⟩
      · cases hr
        exact ⟨fun o' ho => by simp [obsOfPc, obsOfTask] at ho, .inl rfl⟩
  · next cold ov S ht =>
    split at h
    · rw [plainR_ok, guard_ok] at h
      obtain ⟨⟨_, h⟩, _⟩ := h; cases h
      exact ⟨fun o ho => ho, .inl rfl⟩
    · rw [plainR_ok, guard_ok] at h
      obtain ⟨⟨_, h⟩, _⟩ := h
      split at h
      · rw [guard_ok] at h
        obtain ⟨_, h⟩ := h; cases h
        exact ⟨fun o' ho => by simp [obsOfPc, obsOfTask] at ho, .inl rfl⟩
      · rw [guard_ok] at h
        obtain ⟨_, h⟩ := h; cases h
        exact ⟨fun o ho => ho, .inl rfl⟩
  · next cold ov todo taken S ht =>
    obtain ⟨_, hcl, ⟨⟨todo', taken', ht'⟩, _⟩ | ⟨_, ht', _⟩⟩ := colStep_cases ht h
    · exact ⟨fun o' ho => by simp [obsOfPc, ht', obsOfTask] at ho, .inl hcl⟩
    · exact ⟨fun o' ho => by simp [obsOfPc, ht'] at ho, .inl hcl⟩

/-- an accepted event never changes the observation its call carries, and it leaves `claimed` as
    it was or appends exactly the observation the call carries -/
theorem evStep_obs {k : Nat} {c : Hp.St} {cuts : Cuts} {e : Ev} {pc : Pc} {c' : Hp.St} {pc' : Pc}
    {rv : Option String} {cuts' : Cuts}
    (h : evStep k c cuts e pc = .ok ((c', pc', rv), cuts')) :
    (∀ o, obsOfPc pc' = some o → obsOfPc pc = some o) ∧
    (c'.claimed = c.claimed ∨ ∃ o, obsOfPc pc = some o ∧ c'.claimed = c.claimed ++ [o]) := by
  exact evStep1_obs h

theorem planObs_obs {k : Nat} {n : String} {o : Obs} {pc : Pc} (h : planObs k n o = .ok (some pc)) :
    obsOfPc pc = some o := by
  rw [obsOfPc, (planObs_cases h).1]; rfl

/-- the observation a freshly opened call carries is `obsOfVals` of the values written in the call -/
theorem planCall_obs {s : St} {op : String} {pc : Pc} (h : planCall s op = .ok (some pc)) :
    ∀ o, obsOfPc pc = some o → o = obsOfVals s.bounds (callVals op) := by
  intro o ho
  unfold planCall at h
  simp only at h
  split at h
  · rw [planObs_obs h] at ho; cases ho; rfl
  · split at h
    · cases h; simp [obsOfPc, obsOfTask] at ho
    · split at h
      · cases h; simp [obsOfPc, obsOfTask] at ho
      · split at h
        · cases h; simp [obsOfPc] at ho
        · cases h

/-- every observation the machine has claimed, and the observation carried by every open
    `obs` / `flush` call, is `obsOfVals bounds vals` for a list of values -/
structure ObsInv (bounds : List UInt64) (s : St) : Prop where
  claimed : ∀ o ∈ s.core.claimed, ∃ vals, o = obsOfVals bounds vals
  thr : ∀ th ∈ s.ths, ∀ pc, th.pc = some pc → ∀ o, obsOfPc pc = some o → ∃ vals, o = obsOfVals bounds vals

theorem obsInv_init (bounds prog) : ObsInv bounds (init bounds prog) := by
  refine ⟨?_, ?_⟩
  · intro o ho; simp [init, Hp.init] at ho
  · intro th hth pc hpc
    simp only [init, List.mem_map] at hth
    obtain ⟨ops, _, rfl⟩ := hth
    simp at hpc

theorem obsInv_step {bounds prog} {s s' : St} {it : Item} (hr : MReach bounds prog s) (I : ObsInv bounds s)
    (h : item s it = .ok s') : ObsInv bounds s' := by
  have hb : s.bounds = bounds := mreach_bounds hr
  rcases item_shape h with ⟨e, th, pc, c', pc', rv, cuts', th', hth, hpc, hev, rfl, hth'⟩ | ⟨t, th, th', hth, rfl, hpc'⟩
  · obtain ⟨hkeep, hcl⟩ := evStep_obs hev
    have hmem : th ∈ s.ths := List.mem_of_getElem? hth
    refine ⟨?_, ?_⟩
    · intro o ho
      simp only at ho
      rcases hcl with h1 | ⟨o1, ho1, h1⟩
      · rw [h1] at ho; exact I.claimed o ho
      · rw [h1] at ho
        simp only [List.mem_append, List.mem_singleton] at ho
        rcases ho with ho | rfl
        · exact I.claimed o ho
        · exact I.thr th hmem pc hpc _ ho1
    · intro x hx pcx hpcx o ho
      rcases List.mem_or_eq_of_mem_set hx with hx | rfl
      · exact I.thr x hx pcx hpcx o ho
      · rcases hth' with h1 | h1
        · rw [h1] at hpcx; cases hpcx
          exact I.thr th hmem pc hpc o (hkeep o ho)
        · rw [h1] at hpcx; cases hpcx
  · refine ⟨I.claimed, ?_⟩
    intro x hx pcx hpcx o ho
    rcases List.mem_or_eq_of_mem_set hx with hx | rfl
    · exact I.thr x hx pcx hpcx o ho
    · rcases hpc' with h1 | ⟨op, pc, h1, hplan⟩
      · exact I.thr th (List.mem_of_getElem? hth) pcx (h1 ▸ hpcx) o ho
      · rw [h1] at hpcx; cases hpcx
        exact ⟨callVals op, hb ▸ planCall_obs hplan o ho⟩

/-- **every observation is a call's values**: in every state the replay machine reaches, each
    claimed observation and each observation carried by an open call is `obsOfVals bounds vals` -/
theorem obsInv_reach {bounds prog s} (h : MReach bounds prog s) : ObsInv bounds s := by
  induction h with
  | init => exact obsInv_init _ _
  | step hr hs ih => exact obsInv_step hr ih hs

/-- a list of observations each of which is some call's `obsOfVals` is the image of a list of value lists -/
theorem exists_valss {bounds : List UInt64} : ∀ (l : List Obs), (∀ o ∈ l, ∃ vals, o = obsOfVals bounds vals) →
    ∃ valss : List (List Int), l = valss.map (obsOfVals bounds)
  | [], _ => ⟨[], rfl⟩
  | o :: r, h => by
    obtain ⟨vals, hv⟩ := h o (by simp)
    obtain ⟨valss, hr⟩ := exists_valss r (fun x hx => h x (by simp [hx]))
    exact ⟨vals :: valss, by simp [hv, hr]⟩

/-- the cut of every returned snapshot is the list of the observations of some calls' value lists -/
theorem cut_valss {bounds prog s} (h : MReach bounds prog s) :
    ∀ r ∈ s.cuts, ∃ valss : List (List Int), r.cut = valss.map (obsOfVals bounds) := by
  intro r hr
  have I := cutInv_reach h
  have O := obsInv_reach h
  have hsub : r.cut <+: s.core.claimed := (I.recs r hr).2.1.trans (I.recs r hr).2.2
  exact exists_valss r.cut (fun o ho => O.claimed o (hsub.subset ho))

/-- the cells a snapshot of the values `all` must show: bucket counts, then the sum, then nothing -/
def statCells (bounds : List UInt64) (all : List Int) : Cells := fun c =>
  if c < bounds.length then ((all.filter fun v => findBucket bounds (f64OfInt v) == some c).length : Int)
  else if c = bounds.length then all.foldl (· + ·) 0 else 0

theorem cut_cells_eq (bounds : List UInt64) (valss : List (List Int)) :
    (fun c => tot (valss.map (obsOfVals bounds)) c) = statCells bounds valss.flatten := by
  funext c
  unfold statCells
  by_cases h1 : c < bounds.length
  · simp only [h1, if_true]; exact cut_bucket _ _ _ h1
  · by_cases h2 : c = bounds.length
    · subst h2; simp only [Nat.lt_irrefl, if_false, if_true]; exact cut_sum _ _
    · simp only [h1, h2, if_false]; exact cut_beyond _ _ _ (by omega)

/-- the snapshot string of a cut, in terms of the observed values only: their number, their sum,
    and per bound the number of values `<=` that bound (strictly increasing bounds) -/
theorem showSnap_cut {bounds : List UInt64} (hs : StrictIncr bounds) (valss : List (List Int)) :
    showSnap bounds.length (totW (valss.map (obsOfVals bounds))) (fun c => tot (valss.map (obsOfVals bounds)) c) =
      renderSnap valss.flatten.length (valss.flatten.foldl (· + ·) 0)
        (bounds.map fun b => valss.flatten.countP (fun v => f64Le (f64OfInt v) b)) := by
  rw [showSnap_eq, cut_cumulate hs, cut_sum, cut_totW]

end Prom.HM
