import Prom.Lemmas.C06Conc
import Prom.Lemmas.RealTime
import Prom.Lemmas.C01Mono
import Std.Data.String.ToNat
/-
C06 / C14 — the commit order of the registry machine is consistent with real time.

Every entry of the ghost commit log `RM.St.lin` carries `(tid, idx)`: the thread whose step performed
the operation and that thread's call index `Th.idx` at that step. Every accepted item of `RM.item` is
a `RT.StrictStep` of the view (threads, `(tid, idx)` of the log): the machine has no sub-calls, a
thread is idle (`pc = none`, `retv = none`) exactly between a return mark and the next call mark. The
invariant, the prefix property and the order theorem of `Lemmas/RealTime.lean` are transported to the
machine.
-/
namespace Prom.C06
open Prom Prom.Conc Prom.RM Prom.RT

/-- the threads and the `(tid, idx)` of the commit log of a registry machine state -/
def rView (s : RM.St) : View RPc := ⟨s.ths, s.lin.map fun e => (e.tid, e.idx)⟩

/-- `RRun s s'`: `s'` is reached from `s` by accepting items (a continuation of a run) -/
inductive RRun (s0 : RM.St) : RM.St → Prop
  | init : RRun s0 s0
  | step {s s' it} : RRun s0 s → RM.item s it = .ok s' → RRun s0 s'

/-- continuations compose -/
theorem RRun.trans {s0 s1 s2 : RM.St} (h1 : RRun s0 s1) (h2 : RRun s1 s2) : RRun s0 s2 := by
  induction h2 with
  | init => exact h1
  | step _ hs ih => exact .step ih hs

/-- an accepted event: it is a step of an OPEN call of its thread (`pc ≠ none`, i.e. after the call
    mark and before the return mark); the thread keeps program and call index and is busy afterwards;
    the commit log stays or gets one entry, tagged with this thread and its call index -/
theorem rStep_shape {s s' : RM.St} {e : Ev} (h : RM.step s e = .ok s') :
    ∃ th th', s.ths[e.tid]? = some th ∧ th.pc.isSome = true ∧ s'.ths = s.ths.set e.tid th' ∧
      th'.ops = th.ops ∧ th'.idx = th.idx ∧ busy th' = true ∧
      (s'.lin = s.lin ∨ ∃ op res, s'.lin = s.lin ++ [⟨e.tid, th.idx, op, res⟩]) := by
  unfold RM.step at h
  split at h
  · cases h
  · next th hth =>
    split at h
    · cases h
    · next pc hpc =>
      have hp : th.pc.isSome = true := by simp [hpc]
      simp only at h
      split at h
      · -- start
        split at h
        · cases h
        · rw [guard_ok] at h; obtain ⟨_, h⟩ := h
          rw [guard_ok] at h; obtain ⟨_, h⟩ := h
          cases h; exact ⟨th, _, hth, hp, rfl, rfl, rfl, rfl, .inr ⟨_, _, rfl⟩⟩
        · -- unregister: the pre-check under the read lock (commits iff it fails), or the write lock at once
          split at h
          · rw [guard_ok] at h; obtain ⟨_, h⟩ := h
            rw [guard_ok] at h; obtain ⟨_, h⟩ := h
            split at h
            · cases h; exact ⟨th, _, hth, hp, rfl, rfl, rfl, rfl, .inr ⟨_, _, rfl⟩⟩
            · cases h; exact ⟨th, _, hth, hp, rfl, rfl, rfl, rfl, .inl rfl⟩
          · rw [guard_ok] at h; obtain ⟨_, h⟩ := h
            rw [guard_ok] at h; obtain ⟨_, h⟩ := h
            cases h; exact ⟨th, _, hth, hp, rfl, rfl, rfl, rfl, .inr ⟨_, _, rfl⟩⟩
        · rw [guard_ok] at h; obtain ⟨_, h⟩ := h
          rw [guard_ok] at h; obtain ⟨_, h⟩ := h
          cases h; exact ⟨th, _, hth, hp, rfl, rfl, rfl, rfl, .inr ⟨_, _, rfl⟩⟩
      · -- held
        split at h
        · rw [guard_ok] at h; obtain ⟨_, h⟩ := h
          cases h; exact ⟨th, _, hth, hp, rfl, rfl, rfl, rfl, .inl rfl⟩
        · rw [guard_ok] at h; obtain ⟨_, h⟩ := h
          cases h; exact ⟨th, _, hth, hp, rfl, rfl, rfl, rfl, .inl rfl⟩
      · -- unrRheld: the read unlock of the pre-check (complete, or on to the write lock)
        rw [guard_ok] at h; obtain ⟨_, h⟩ := h
        split at h
        · cases h; exact ⟨th, _, hth, hp, rfl, rfl, rfl, rfl, .inl rfl⟩
        · cases h; exact ⟨th, _, hth, hp, rfl, rfl, rfl, rfl, .inl rfl⟩
      · -- unrNeedW: the write-locked section after the pre-check
        rw [guard_ok] at h; obtain ⟨_, h⟩ := h
        rw [guard_ok] at h; obtain ⟨_, h⟩ := h
        cases h; exact ⟨th, _, hth, hp, rfl, rfl, rfl, rfl, .inr ⟨_, _, rfl⟩⟩

/-- an accepted call mark: the thread was idle; the log is unchanged, the thread keeps program and
    call index, and its call is open afterwards -/
theorem rCall_shape {s s' : RM.St} {t : Nat} {i op : String} (h : RM.item s (.call t i op) = .ok s') :
    ∃ th th', s.ths[t]? = some th ∧ th.pc = none ∧ th.retv = none ∧ s'.ths = s.ths.set t th' ∧
      th'.ops = th.ops ∧ th'.idx = th.idx ∧ busy th' = true ∧ s'.lin = s.lin := by
  simp only [RM.item] at h
  split at h
  · cases h
  · next th hth =>
    split at h
    · next th' ho =>
      cases h
      obtain ⟨hpc, hrv, h1, h2, h3⟩ := openCall_ok ho
      refine ⟨th, th', hth, hpc, hrv, rfl, h1, h2, ?_, rfl⟩
      rcases h3 with ⟨h3, _⟩ | ⟨h3, _⟩ <;> simp [busy, h3]
    · cases h

/-- an accepted return mark: the call was complete; the log is unchanged, the thread keeps its
    program, the call index advances by one -/
theorem rRet_shape {s s' : RM.St} {t : Nat} {i v : String} (h : RM.item s (.ret t i v) = .ok s') :
    ∃ th th', s.ths[t]? = some th ∧ th.retv.isSome = true ∧ s'.ths = s.ths.set t th' ∧
      th'.ops = th.ops ∧ th'.idx = th.idx + 1 ∧ s'.lin = s.lin := by
  simp only [RM.item] at h
  split at h
  · cases h
  · next th hth =>
    split at h
    · next th' hc =>
      cases h
      obtain ⟨h0, h1, h2, _⟩ := closeCall_ok hc
      exact ⟨th, th', hth, h0, rfl, h1, h2, rfl⟩
    · cases h

/-- every accepted item of the registry machine is a `StrictStep` of the view -/
theorem rItem_strictStep {s s' : RM.St} {it : Item} (h : RM.item s it = .ok s') :
    StrictStep (rView s) (rView s') := by
  cases it with
  | ev e =>
    obtain ⟨th, th', hth, hp, hs, hops, hidx, hb, hl | ⟨op, res, hl⟩⟩ := rStep_shape h
    · exact ⟨e.tid, th, th', hth, hs, hops, .inr ⟨hidx, hb, .inl (by simp [rView, hl])⟩⟩
    · exact ⟨e.tid, th, th', hth, hs, hops, .inr ⟨hidx, hb, .inr ⟨hp, by simp [rView, hl]⟩⟩⟩
  | call t i op =>
    obtain ⟨th, th', hth, _, _, hs, hops, hidx, hb, hl⟩ := rCall_shape h
    exact ⟨t, th, th', hth, hs, hops, .inr ⟨hidx, hb, .inl (by simp [rView, hl])⟩⟩
  | ret t i v =>
    obtain ⟨th, th', hth, _, hs, hops, hidx, hl⟩ := rRet_shape h
    exact ⟨t, th, th', hth, hs, hops, .inl ⟨hidx, by simp [rView, hl]⟩⟩
  | other x => simp [RM.item] at h

/-- every accepted item of the registry machine is a `Step` of the view -/
theorem rItem_step {s s' : RM.St} {it : Item} (h : RM.item s it = .ok s') : Step (rView s) (rView s') :=
  (rItem_strictStep h).toStep

/-- **commits happen inside calls** — an accepted item that changes the commit log is an EVENT of a
    thread whose call is open (after its call mark, before its return mark: `pc ≠ none`), it appends
    exactly one entry, and that entry carries this thread and its current call index; call marks,
    return marks and all other events leave the log alone -/
theorem rItem_commit_within_call {s s' : RM.St} {it : Item} (h : RM.item s it = .ok s') :
    s'.lin = s.lin ∨
    ∃ e th x, it = .ev e ∧ s.ths[e.tid]? = some th ∧ th.pc.isSome = true ∧
      s'.lin = s.lin ++ [x] ∧ x.tid = e.tid ∧ x.idx = th.idx ∧
      ∃ th', s'.ths[e.tid]? = some th' ∧ th'.idx = th.idx ∧ th'.ops = th.ops := by
  cases it with
  | ev e =>
    obtain ⟨th, th', hth, hp, hs, hops, hidx, _, hl | ⟨op, res, hl⟩⟩ := rStep_shape h
    · exact .inl hl
    · refine .inr ⟨e, th, _, rfl, hth, hp, hl, rfl, rfl, th', ?_, hidx, hops⟩
      rw [hs, getElem?_set_of_some hth]; simp
  | call t i op => obtain ⟨_, _, _, _, _, _, _, _, _, hl⟩ := rCall_shape h; exact .inl hl
  | ret t i v => obtain ⟨_, _, _, _, _, _, _, hl⟩ := rRet_shape h; exact .inl hl
  | other x => simp [RM.item] at h

/-! ## along runs -/

/-- the initial view satisfies the invariant (its log is empty) -/
theorem rInit_inv (colls : List Coll) (prog : List (List String)) : Inv (rView (RM.init colls prog)) := by
  intro x hx; simp [rView, RM.init] at hx

/-- **the invariant**: in every state of an accepted run, every entry `e` of the commit log belongs
    to an existing thread, and either to a call that has returned (`e.idx <` the thread's call index)
    or to the thread's current call - and then that call is open or has just completed
    (`pc.isSome || retv.isSome`): a call that has not started has no entry -/
theorem rRun_inv {colls : List Coll} {prog : List (List String)} {s : RM.St}
    (h : RRun (RM.init colls prog) s) :
    ∀ e ∈ s.lin, ∃ th, s.ths[e.tid]? = some th ∧
      (e.idx < th.idx ∨ (e.idx = th.idx ∧ (th.pc.isSome || th.retv.isSome) = true)) := by
  have hb : Inv (rView s) := by
    induction h with
    | init => exact rInit_inv colls prog
    | step _ hs ih => exact (rItem_strictStep hs).inv ih
  intro e he
  exact hb (e.tid, e.idx) (by simp only [rView, List.mem_map]; exact ⟨e, he, rfl⟩)

/-- in particular every entry's index is at most the call index of its thread -/
theorem rRun_bound {colls : List Coll} {prog : List (List String)} {s : RM.St}
    (h : RRun (RM.init colls prog) s) :
    ∀ e ∈ s.lin, ∃ th, s.ths[e.tid]? = some th ∧ e.idx ≤ th.idx := by
  intro e he
  obtain ⟨th, hth, hc⟩ := rRun_inv h e he
  exact ⟨th, hth, by omega⟩

/-- a continuation of a run is a continuation of the view -/
theorem rRun_ext {s s' : RM.St} (h : RRun s s') : Ext (rView s) (rView s') := by
  induction h with
  | init => exact Ext.refl _
  | step _ hs ih => exact ih.step (rItem_step hs)

/-- **the log only grows by appending**: whatever happens after a state, its commit log stays a
    prefix of the later one -/
theorem rRun_lin_prefix {s s' : RM.St} (h : RRun s s') : s.lin <+: s'.lin := by
  induction h with
  | init => exact List.prefix_refl _
  | step _ hs ih =>
    refine ih.trans ?_
    rcases rItem_commit_within_call hs with hl | ⟨_, _, x, _, _, _, hl, _⟩
    · rw [hl]; exact List.prefix_refl _
    · rw [hl]; exact List.prefix_append _ _

/-- along any run a thread keeps its program, and its call index only grows -/
theorem rRun_th_pres {s s' : RM.St} (h : RRun s s') {t : Nat} {th : Th RPc} (hth : s.ths[t]? = some th) :
    ∃ th', s'.ths[t]? = some th' ∧ th'.ops = th.ops ∧ th.idx ≤ th'.idx :=
  (rRun_ext h).2.1 t th hth

/-- **new entries belong to calls that had not returned**: the entries appended in a continuation
    `s → s'` carry `(tid, idx)` with `idx` at least the call index thread `tid` had in `s` -/
theorem rRun_new_entries {s s' : RM.St} (h : RRun s s') :
    ∃ ext, s'.lin = s.lin ++ ext ∧ ∀ x ∈ ext, ∃ th, s.ths[x.tid]? = some th ∧ th.idx ≤ x.idx := by
  obtain ⟨ext, hext⟩ := rRun_lin_prefix h
  obtain ⟨_, _, ext', hlog, hnew⟩ := rRun_ext h
  refine ⟨ext, hext.symm, ?_⟩
  have : ext' = ext.map fun e => (e.tid, e.idx) := by
    simp only [rView, ← hext, List.map_append] at hlog
    exact (List.append_cancel_left hlog).symm
  subst this
  intro x hx
  exact hnew (x.tid, x.idx) (List.mem_map.2 ⟨x, hx, rfl⟩)

/-- positions in the commit log and in the view's log correspond -/
theorem rView_log_getElem? {s : RM.St} {p : Nat} {x : RLin} (h : s.lin[p]? = some x) :
    (rView s).log[p]? = some (x.tid, x.idx) := by
  simp [rView, List.getElem?_map, h]

/-- "no entry of call `(t, i)` in the log", on the view -/
theorem rView_no_entry {s : RM.St} {t i : Nat} (h : ∀ e ∈ s.lin, ¬ (e.tid = t ∧ e.idx = i)) :
    ∀ x ∈ (rView s).log, x ≠ (t, i) := by
  intro x hx he
  simp only [rView, List.mem_map] at hx
  obtain ⟨e, hel, hex⟩ := hx
  subst he
  simp only [Prod.mk.injEq] at hex
  exact h e hel hex

/-- **a call that has not started has no entry**: neither a call the thread has not reached yet, nor
    the next call of an idle thread (no call open, none waiting for its return mark) -/
theorem rRun_no_entry_not_started {colls : List Coll} {prog : List (List String)} {s : RM.St}
    (h : RRun (RM.init colls prog) s) {t i : Nat} {th : Th RPc} (hth : s.ths[t]? = some th)
    (hnot : th.idx < i ∨ (i = th.idx ∧ th.pc = none ∧ th.retv = none)) :
    ∀ e ∈ s.lin, ¬ (e.tid = t ∧ e.idx = i) := by
  intro e he ⟨h1, h2⟩
  obtain ⟨th0, h0, hc⟩ := rRun_inv h e he
  rw [h1, hth] at h0; cases h0
  rcases hnot with hn | ⟨hn, hpc, hrv⟩
  · omega
  · rcases hc with hc | ⟨_, hc⟩
    · omega
    · simp [hpc, hrv] at hc

/-- the entries of a call that has RETURNED in `s` are never added to: in every continuation they
    all sit inside the log of `s` -/
theorem rRun_returned_pos {s s' : RM.St} (h' : RRun s s') {t i : Nat} {th : Th RPc}
    (hth : s.ths[t]? = some th) (hret : i < th.idx) {p : Nat} {x : RLin}
    (hx : s'.lin[p]? = some x) (hxt : x.tid = t ∧ x.idx = i) : p < s.lin.length := by
  have := (rRun_ext h').returned_pos (t := t) (i := i) hth hret
    (by rw [rView_log_getElem? hx, hxt.1, hxt.2])
  simpa [rView] using this

/-- **real-time order (general form)**: a call `(t, i)` that has returned in `s` precedes, in the commit
    log of every continuation, every entry of a call `(t', i')` that has no entry in the log of `s` -/
theorem rRun_real_time {s s' : RM.St} (h' : RRun s s') {t i t' i' : Nat} {th : Th RPc}
    (hth : s.ths[t]? = some th) (hret : i < th.idx)
    (hno : ∀ e ∈ s.lin, ¬ (e.tid = t' ∧ e.idx = i'))
    {p q : Nat} {x y : RLin} (hx : s'.lin[p]? = some x) (hy : s'.lin[q]? = some y)
    (hxt : x.tid = t ∧ x.idx = i) (hyt : y.tid = t' ∧ y.idx = i') : p < q := by
  refine (rRun_ext h').order (t := t) (i := i) (t' := t') (i' := i') hth hret (rView_no_entry hno) ?_ ?_
  · rw [rView_log_getElem? hx, hxt.1, hxt.2]
  · rw [rView_log_getElem? hy, hyt.1, hyt.2]

/-- a run accepted item by item is a continuation -/
theorem runItems_rRun {s s' : RM.St} {tr : List Item} {n : Nat} (h : runItems RM.item s tr n = .ok s') :
    RRun s s' := by
  induction tr generalizing s n with
  | nil => simp only [runItems, Except.ok.injEq] at h; subst h; exact .init
  | cons it r ih =>
    simp only [runItems] at h
    split at h
    · next s1 h1 => exact RRun.trans (.step .init h1) (ih h)
    · cases h

/-! closed facts about the literals of the example runs (`Props/C06.unregister_precheck_accepted`):
`String.splitOn` and `String.toNat?` do not reduce, the first is unrolled on the literals
(`split_on_lit`), the second goes through `Nat.toNat?_repr` -/
open Prom.C01 in
theorem splitOn_unreg_0 : "unreg:0".splitOn ":" = ["unreg", "0"] := by split_on_lit
open Prom.C01 in
theorem splitOn_reg_0 : "reg:0".splitOn ":" = ["reg", "0"] := by split_on_lit
theorem repr_0 : Nat.repr 0 = "0" := by decide +kernel
theorem repr_1 : Nat.repr 1 = "1" := by decide +kernel
theorem toNat_0 : "0".toNat? = some 0 := by rw [← repr_0]; exact Nat.toNat?_repr 0
/-- the program word `unreg:0` is the unregister of collector 0 -/
theorem parseOp_unreg_0 : parseOp "unreg:0" = some (.unregister 0) := by
  simp [parseOp, opName, opArg, splitOn_unreg_0, toNat_0]
/-- the program word `reg:0` is the register of collector 0 -/
theorem parseOp_reg_0 : parseOp "reg:0" = some (.register 0) := by
  simp [parseOp, opName, opArg, splitOn_reg_0, toNat_0]

/-- one thread, `unreg:0` on the empty registry: the collector is looked up under the READ lock, it is
    not registered, the call returns the error - no write lock is taken -/
def unregAbsentTrace : List Item :=
  [.call 0 "0" "unreg:0",
   .ev ⟨0, "R", "lk", "Acquire", 0, 0, 0, true⟩, .ev ⟨0, "r", "lk", "Release", 0, 0, 0, true⟩,
   .ret 0 "0" "err:Msg"]

/-- one thread: `reg:0` (write-locked); then `unreg:0`: the read-locked lookup finds the collector, the
    read lock is released, the collector is removed under the write lock, the call returns "ok" -/
def unregPresentTrace : List Item :=
  [.call 0 "0" "reg:0",
   .ev ⟨0, "X", "lk", "Acquire", 0, 0, 0, true⟩, .ev ⟨0, "x", "lk", "Release", 0, 0, 0, true⟩,
   .ret 0 "0" "ok",
   .call 0 "1" "unreg:0",
   .ev ⟨0, "R", "lk", "Acquire", 0, 0, 0, true⟩, .ev ⟨0, "r", "lk", "Release", 0, 0, 0, true⟩,
   .ev ⟨0, "X", "lk", "Acquire", 0, 0, 0, true⟩, .ev ⟨0, "x", "lk", "Release", 0, 0, 0, true⟩,
   .ret 0 "1" "ok"]

/-- thread 0 as in `unregPresentTrace`, but thread 1 runs its own (pre-checked, successful) `unreg:0` in
    the gap between thread 0's read-locked lookup (collector registered) and its write-locked section:
    the write-locked step decides, thread 0's call returns the error -/
def unregGapTrace : List Item :=
  [.call 0 "0" "reg:0",
   .ev ⟨0, "X", "lk", "Acquire", 0, 0, 0, true⟩, .ev ⟨0, "x", "lk", "Release", 0, 0, 0, true⟩,
   .ret 0 "0" "ok",
   .call 0 "1" "unreg:0",
   .ev ⟨0, "R", "lk", "Acquire", 0, 0, 0, true⟩, .ev ⟨0, "r", "lk", "Release", 0, 0, 0, true⟩,
   .call 1 "0" "unreg:0",
   .ev ⟨1, "R", "lk", "Acquire", 0, 0, 0, true⟩, .ev ⟨1, "r", "lk", "Release", 0, 0, 0, true⟩,
   .ev ⟨1, "X", "lk", "Acquire", 0, 0, 0, true⟩, .ev ⟨1, "x", "lk", "Release", 0, 0, 0, true⟩,
   .ret 1 "0" "ok",
   .ev ⟨0, "X", "lk", "Acquire", 0, 0, 0, true⟩, .ev ⟨0, "x", "lk", "Release", 0, 0, 0, true⟩,
   .ret 0 "1" "err:Msg"]

end Prom.C06
