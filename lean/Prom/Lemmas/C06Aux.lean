import Prom.Model.Registry
/-
C06 — Registry admission is exact and a failed registration leaves no trace.
The theorems are about the registry as the code implements it (ids and dimension hashes are
64-bit values; C15 relates them to the descriptors' structure up to FNV collisions).
-/
/- Helper lemmas and auxiliary definitions for Props/C06.lean (kept apart from the property theorems). -/
namespace Prom.C06
open Prom

/-- the body of the loop after the two registry-level checks, for either outcome of the
    dimension-hash lookup -/
theorem known_branch {r : Reg} {d : Desc} {rest : List Desc} {ids : List UInt64} {nd : List (Str × UInt64)}
    {cid : UInt64} {res : List UInt64 × List (Str × UInt64) × UInt64} (known : Option UInt64)
    (hk : (match known with
      | some h => if h != d.dimHash then (.error .msg : Except RErr _) else
          if ids.contains d.id then .error .msg
          else regLoop r rest (ids ++ [d.id]) (dimInsert nd d.fqName d.dimHash) (cid + d.id)
      | none =>
          if ids.contains d.id then .error .msg
          else regLoop r rest (ids ++ [d.id]) (dimInsert nd d.fqName d.dimHash) (cid + d.id))
      = .ok res) :
    (∀ h, known = some h → h = d.dimHash) ∧ ids.contains d.id = false ∧
    regLoop r rest (ids ++ [d.id]) (dimInsert nd d.fqName d.dimHash) (cid + d.id) = .ok res := by
  cases known with
  | none =>
    simp only [] at hk
    by_cases hi : ids.contains d.id = true
    · rw [if_pos hi] at hk; cases hk
    · rw [if_neg hi] at hk
      exact ⟨(by intro h hh; cases hh), (by simpa using hi), hk⟩
  | some hh =>
    simp only [] at hk
    by_cases hne : (hh != d.dimHash) = true
    · rw [if_pos hne] at hk; cases hk
    · have heq : hh = d.dimHash := by simpa using hne
      rw [if_neg hne] at hk
      by_cases hi : ids.contains d.id = true
      · rw [if_pos hi] at hk; cases hk
      · rw [if_neg hi] at hk
        exact ⟨(by intro h e; cases e; exact heq), (by simpa using hi), hk⟩

/-- what the descriptor loop guarantees on success: every descriptor passed the three checks,
    the staged ids are the descriptors' ids in order and pairwise distinct, and the collector
    id is the wrapping sum of them. -/
theorem regLoop_ok (r : Reg) : ∀ (ds : List Desc) (ids : List UInt64) (nd : List (Str × UInt64)) (cid : UInt64)
    (ids' : List UInt64) (nd' : List (Str × UInt64)) (cid' : UInt64),
    regLoop r ds ids nd cid = .ok (ids', nd', cid') →
      (∀ d ∈ ds, clashesCommon r.labels d = false ∧ r.descIds.contains d.id = false ∧
        ∀ h, dimLookup r.dimHashes d.fqName = some h → h = d.dimHash) ∧
      ids' = ids ++ ds.map (·.id) ∧ (ids.Nodup → ids'.Nodup) ∧
      cid' = (ds.map (·.id)).foldl (· + ·) cid := by
  intro ds
  induction ds with
  | nil =>
    intro ids nd cid ids' nd' cid' h
    simp [regLoop] at h
    obtain ⟨rfl, rfl, rfl⟩ := h
    simp
  | cons d rest ih =>
    intro ids nd cid ids' nd' cid' h
    unfold regLoop at h
    by_cases hc : clashesCommon r.labels d = true
    · rw [if_pos hc] at h; cases h
    · have hc' : clashesCommon r.labels d = false := by simpa using hc
      rw [if_neg hc] at h
      by_cases hid : r.descIds.contains d.id = true
      · rw [if_pos hid] at h; cases h
      · have hid' : r.descIds.contains d.id = false := by simpa using hid
        rw [if_neg hid] at h
        obtain ⟨hdim, hnot, hrec⟩ := known_branch _ h
        obtain ⟨h1, h2, h3, h4⟩ := ih _ _ _ _ _ _ hrec
        refine ⟨?_, ?_, ?_, ?_⟩
        · intro x hx
          rcases List.mem_cons.1 hx with rfl | hx
          · refine ⟨hc', hid', ?_⟩
            intro hh hl
            apply hdim
            simp [hl]
          · exact h1 x hx
        · simp [h2]
        · intro hn
          apply h3
          rw [List.nodup_append]
          refine ⟨hn, by simp, ?_⟩
          intro a ha b hb e
          simp at hb; subst hb; subst e
          simp at hnot
          exact hnot ha
        · simp [h4]

end Prom.C06
