import Prom.Model.StaticFlush
/-
Lemmas for the flush part of C19 (`Prom/Props/C19.lean`): the leaf a field path reaches was created
from the child `resolve` computes; pending amounts are conserved by `inc`; the flush moves every
leaf's pending amount to its child.
-/
namespace Prom.SM
open Prom

/-- sum of the pending amounts of the leaves (aliases!) created from child `c` -/
def pendingFor : List Leaf → Child → Nat
  | [], _ => 0
  | lf :: r, c => (if lf.child = c then lf.pending else 0) + pendingFor r c

/-! ### `denotes` on the built tree is `resolve` -/

theorem denotes_append (a b : List Leaf) (p : List Str) :
    denotes (a ++ b) p = (denotes a p).or (denotes b p) := by
  induction a with
  | nil => simp [denotes]
  | cons x r ih =>
    simp only [List.cons_append, denotes]
    split
    · simp
    · exact ih

theorem denotes_map_cons (g : Str) (leaves : List Leaf) (f : Str) (fs : List Str) :
    denotes (leaves.map fun lf => { lf with path := g :: lf.path }) (f :: fs)
      = if g = f then denotes leaves fs else none := by
  induction leaves with
  | nil => simp [denotes]
  | cons x r ih =>
    simp only [List.map_cons, denotes, List.cons.injEq]
    by_cases hg : g = f
    · simp only [hg, true_and, if_true] at ih ⊢
      rw [ih]
    · simp only [hg, false_and, if_false] at ih ⊢
      exact ih

theorem denotes_map_cons_nil (g : Str) (leaves : List Leaf) :
    denotes (leaves.map fun lf => { lf with path := g :: lf.path }) [] = none := by
  induction leaves with
  | nil => simp [denotes]
  | cons x r ih => simp [denotes, ih]

/-- whether a path is a field path of the declaration does not depend on the enclosing values -/
theorem resolve_none_prev (d : Decl) (prev prev' : Child) (p : List Str)
    (h : resolve d prev p = none) : resolve d prev' p = none := by
  induction d generalizing prev prev' p with
  | nil =>
    cases p with
    | nil => simp [resolve] at h
    | cons f fs => simp [resolve]
  | cons l ls ih =>
    cases p with
    | nil => simp [resolve]
    | cons f fs =>
      simp only [resolve] at h ⊢
      cases hf : l.values.find? (·.1 == f) with
      | none => rfl
      | some q =>
        obtain ⟨qf, qv⟩ := q
        rw [hf] at h
        exact ih _ _ _ h

/-- **leaf_child_eq_resolve** — the leaf reached by a field path in the tree `from` builds was created
    from exactly the child `resolve` computes for that path (and there is no leaf for a path that does
    not resolve) -/
theorem denotes_buildLeaves (d : Decl) (prev : Child) (p : List Str) :
    denotes (buildLeaves d prev) p = resolve d prev p := by
  induction d generalizing prev p with
  | nil =>
    cases p with
    | nil => simp [buildLeaves, denotes, resolve]
    | cons f fs => simp [buildLeaves, denotes, resolve]
  | cons l ls ih =>
    cases p with
    | nil =>
      simp only [buildLeaves, resolve]
      generalize l.values = vs
      induction vs with
      | nil => simp [denotes]
      | cons fv rest ihv =>
        rw [List.flatMap_cons, denotes_append, denotes_map_cons_nil, ihv]; rfl
    | cons f fs =>
      simp only [buildLeaves, resolve]
      generalize l.values = vs
      induction vs with
      | nil => simp [denotes]
      | cons fv rest ihv =>
        obtain ⟨g, v⟩ := fv
        rw [List.flatMap_cons, denotes_append, denotes_map_cons, ihv, List.find?_cons]
        by_cases hg : g = f
        · subst hg
          simp only [if_true, beq_self_eq_true, ih]
          cases hr : resolve ls (prev ++ [(l.key, v)]) fs with
          | some c => simp
          | none =>
            simp only [Option.none_or]
            cases hf : rest.find? (·.1 == g) with
            | none => rfl
            | some q =>
              obtain ⟨qf, qv⟩ := q
              exact resolve_none_prev _ _ _ _ hr
        · have hb : (g == f) = false := by simp [hg]
          simp only [hg, if_false, hb, Option.none_or]

/-- one leaf per field path, in flush order -/
theorem buildLeaves_paths (d : Decl) (prev : Child) :
    (buildLeaves d prev).map (·.path) = allPaths d := by
  induction d generalizing prev with
  | nil => rfl
  | cons l ls ih =>
    simp only [buildLeaves, allPaths, List.map_flatMap, List.map_map]
    congr 1
    funext fv
    rw [← ih (prev ++ [(l.key, fv.2)]), List.map_map]
    rfl

theorem buildLeaves_pending (d : Decl) (prev : Child) : ∀ lf ∈ buildLeaves d prev, lf.pending = 0 := by
  induction d generalizing prev with
  | nil => intro lf h; simp [buildLeaves] at h; subst h; rfl
  | cons l ls ih =>
    intro lf h
    simp only [buildLeaves, List.mem_flatMap, List.mem_map] at h
    obtain ⟨fv, _, lf', hm, rfl⟩ := h
    exact ih _ lf' hm

/-! ### conservation -/

theorem pendingFor_zero (leaves : List Leaf) (c : Child) (h : ∀ lf ∈ leaves, lf.pending = 0) :
    pendingFor leaves c = 0 := by
  induction leaves with
  | nil => rfl
  | cons x r ih =>
    have hx := h x (by simp)
    have hr := ih (fun lf hl => h lf (by simp [hl]))
    simp only [pendingFor, hx, hr]
    split <;> rfl

/-- what the flush of a list of leaves puts into child `c`: the pending amounts of ALL leaves created
    from `c` -/
theorem flushStore_apply (st : Child → Nat) (leaves : List Leaf) (c : Child) :
    flushStore st leaves c = st c + pendingFor leaves c := by
  induction leaves generalizing st with
  | nil => simp [flushStore, pendingFor]
  | cons x r ih =>
    have := ih (addTo st x.child x.pending)
    simp only [flushStore, List.foldl_cons, pendingFor] at this ⊢
    rw [this]
    unfold addTo
    split <;> omega

theorem denotes_bump (leaves : List Leaf) (q : List Str) (n : Nat) (p : List Str) :
    denotes (bump leaves q n) p = denotes leaves p := by
  induction leaves with
  | nil => rfl
  | cons x r ih =>
    simp only [bump]
    split
    · simp only [denotes]
    · simp only [denotes, ih]

/-- an `inc` raises the pending total of exactly the child its path denotes -/
theorem pendingFor_bump (leaves : List Leaf) (p : List Str) (n : Nat) (c : Child) :
    pendingFor (bump leaves p n) c = pendingFor leaves c + (if denotes leaves p = some c then n else 0) := by
  induction leaves with
  | nil => simp [bump, pendingFor, denotes]
  | cons x r ih =>
    simp only [bump, denotes]
    by_cases hp : x.path = p
    · simp only [hp, if_true, pendingFor, Option.some.injEq]
      by_cases hc : x.child = c
      · simp only [hc, if_true]; omega
      · simp only [hc, if_false]; omega
    · simp only [hp, if_false, pendingFor, ih]; omega

theorem denotes_zeroed (leaves : List Leaf) (p : List Str) :
    denotes (leaves.map fun lf => { lf with pending := 0 }) p = denotes leaves p := by
  induction leaves with
  | nil => rfl
  | cons x r ih => simp only [List.map_cons, denotes, ih]

theorem zeroed_pending (leaves : List Leaf) :
    ∀ lf ∈ (leaves.map fun lf : Leaf => { lf with pending := 0 }), lf.pending = 0 := by
  intro lf h
  obtain ⟨lf', _, rfl⟩ := List.mem_map.1 h
  rfl

/-- every operation keeps the addressing, and keeps `store c + pending amounts of c's leaves`
    in step with what the operations put in -/
theorem step_conserves (d : Decl) (t : LocalTree) (op : TOp) (c : Child)
    (hd : ∀ p, denotes t.leaves p = resolve d [] p) :
    (∀ p, denotes (t.step op).leaves p = resolve d [] p) ∧
    (t.step op).store c + pendingFor (t.step op).leaves c
      = t.store c + pendingFor t.leaves c + delivered d c [op] := by
  cases op with
  | inc p n =>
    refine ⟨fun q => ?_, ?_⟩
    · simp only [LocalTree.step, LocalTree.incBy, denotes_bump, hd]
    · simp only [LocalTree.step, LocalTree.incBy, pendingFor_bump, hd, delivered]; omega
  | flush =>
    refine ⟨fun q => ?_, ?_⟩
    · simp only [LocalTree.step, LocalTree.flush, denotes_zeroed, hd]
    · simp only [LocalTree.step, LocalTree.flush, flushStore_apply, delivered,
        pendingFor_zero _ c (zeroed_pending t.leaves)]

theorem delivered_cons (d : Decl) (c : Child) (op : TOp) (ops : List TOp) :
    delivered d c (op :: ops) = delivered d c [op] + delivered d c ops := by
  cases op <;> simp [delivered]

theorem run_conserves (d : Decl) (ops : List TOp) (t : LocalTree) (c : Child)
    (hd : ∀ p, denotes t.leaves p = resolve d [] p) :
    (∀ p, denotes (t.run ops).leaves p = resolve d [] p) ∧
    (t.run ops).store c + pendingFor (t.run ops).leaves c
      = t.store c + pendingFor t.leaves c + delivered d c ops := by
  induction ops generalizing t with
  | nil => exact ⟨hd, by simp [LocalTree.run, delivered]⟩
  | cons op r ih =>
    obtain ⟨h1, h2⟩ := step_conserves d t op c hd
    obtain ⟨h3, h4⟩ := ih (t.step op) h1
    refine ⟨h3, ?_⟩
    have : t.run (op :: r) = (t.step op).run r := rfl
    rw [this, h4, h2, delivered_cons d c op r]; omega

/-! ### the nesting behind the flattened tree -/

/-- the struct of a level has one sub-struct per field, built with that field's value -/
theorem buildLeaves_cons (l : LabelDef) (ls : Decl) (prev : Child) :
    buildLeaves (l :: ls) prev = l.values.flatMap fun fv =>
      (buildLeaves ls (prev ++ [(l.key, fv.2)])).map fun lf => { lf with path := fv.1 :: lf.path } := rfl

/-- the flush of a level is the flushes of ALL its fields' sub-structs, in declaration order
    (`#(self.#names.flush();)*`) -/
theorem flushStore_level (st : Child → Nat) (l : LabelDef) (ls : Decl) (prev : Child) :
    flushStore st (buildLeaves (l :: ls) prev)
      = l.values.foldl (fun st fv => flushStore st
          ((buildLeaves ls (prev ++ [(l.key, fv.2)])).map fun lf => { lf with path := fv.1 :: lf.path })) st := by
  simp only [buildLeaves, flushStore, List.foldl_flatMap]

end Prom.SM
