import Prom.Lemmas.PbCanon
/- Reading the generic messages back into the data model inverts `familyFields` (C13). -/
namespace Prom.C13
open Prom Prom.Pb

theorem i64_rt (i : Int) (h1 : -9223372036854775808 ≤ i) (h2 : i < 9223372036854775808) : bitsToInt (i64Bits i) = i := by
  unfold i64Bits bitsToInt
  by_cases hp : i ≥ 0
  · simp only [hp, if_true]
    have hn : i.toNat < 9223372036854775808 := by omega
    have ht : (i.toNat.toUInt64).toNat = i.toNat := by
      show (UInt64.ofNat i.toNat).toNat = _
      rw [UInt64.toNat_ofNat']; omega
    have hlt : i.toNat.toUInt64 < 0x8000000000000000 := by
      rw [UInt64.lt_iff_toNat_lt, ht]; exact hn
    simp only [hlt, if_true, ht]
    omega
  · simp only [hp, if_false]
    have hn : (-i).toNat ≤ 9223372036854775808 := by omega
    have hpos : 0 < (-i).toNat := by omega
    have ht : ((-i).toNat.toUInt64).toNat = (-i).toNat := by
      show (UInt64.ofNat (-i).toNat).toNat = _
      rw [UInt64.toNat_ofNat']; omega
    have hs : ((0 : UInt64) - (-i).toNat.toUInt64).toNat = 18446744073709551616 - (-i).toNat := by
      rw [UInt64.toNat_sub, ht]
      simp
      omega
    have hge : ¬ ((0 : UInt64) - (-i).toNat.toUInt64 < 0x8000000000000000) := by
      rw [UInt64.lt_iff_toNat_lt, hs]
      show ¬ (18446744073709551616 - (-i).toNat < 9223372036854775808)
      omega
    simp only [hge, if_false, hs]
    omega

@[simp] theorem findSome_const_none {α β} (l : List α) : l.findSome? (fun _ => (none : Option β)) = none := by
  induction l <;> simp_all

@[simp] theorem filterMap_const_none {α β} (l : List α) : l.filterMap (fun _ => (none : Option β)) = [] := by
  induction l <;> simp_all

theorem u64_rt (n : Nat) (h : n < 2 ^ 64) : n.toUInt64.toNat = n := by
  show (UInt64.ofNat n).toNat = n
  rw [UInt64.toNat_ofNat']; omega

/-- the values the wire can carry: counts below 2^64, a timestamp within i64, and an untyped sample
    (which the library never produces and the model writes without a value slot) reads back as 0 -/
def WfVal : MVal → Prop
  | .counter _ => True
  | .gauge _ => True
  | .untyped v => v = 0
  | .hist c _ bks => c < 2 ^ 64 ∧ ∀ b ∈ bks, b.2 < 2 ^ 64
  | .summary c _ _ => c < 2 ^ 64

def WfSample (s : Sample) : Prop := WfVal s.val ∧ -9223372036854775808 ≤ s.ts ∧ s.ts < 9223372036854775808

def sampleFields (s : Sample) : Fields :=
  s.labels.map (fun p => ("label", labelMsg p)) ++ valFields s.val ++
        (if s.ts != 0 then [("timestamp_ms", .int (i64Bits s.ts))] else [])

theorem sampleMsg_eq (s : Sample) : sampleMsg s = .msg (sampleFields s) := rfl

theorem map_id_of {α} (l : List α) (f : α → α) (h : ∀ x ∈ l, f x = x) : l.map f = l := by
  induction l with
  | nil => rfl
  | cons a t ih => simp [h a (by simp), ih (fun x hx => h x (by simp [hx]))]

theorem msgToSample_fields (s : Sample) (h : WfSample s) : msgToSample (sampleFields s) = s := by
  obtain ⟨hv, h1, h2⟩ := h
  obtain ⟨labels, val, ts⟩ := s
  simp only at hv h1 h2
  have hts : (match (getAll (sampleFields ⟨labels, val, ts⟩) "timestamp_ms").getLast? with | some (.int b) => bitsToInt b | _ => 0) = ts := by
    unfold sampleFields
    by_cases ht : ts = 0
    · subst ht
      cases val <;> simp [getAll, valFields, List.filterMap_map, List.filterMap_append, Function.comp_def]
    · have := i64_rt ts h1 h2
      cases val <;> simp [getAll, valFields, ht, this, List.filterMap_map, List.filterMap_append, Function.comp_def]
  have hl : (getMsgs (sampleFields ⟨labels, val, ts⟩) "label").map (fun l => (⟨getStr l "name", getStr l "value"⟩ : LabelPair)) = labels := by
    unfold sampleFields
    by_cases ht : ts = 0 <;>
      cases val <;> simp [getMsgs, asMsg, getAll, getStr, valFields, labelMsg, ht, List.filterMap_map, List.filterMap_append, Function.comp_def]
  unfold msgToSample
  simp only [hts, hl]
  congr 1
  unfold sampleFields
  cases val with
  | counter v => by_cases ht : ts = 0 <;> simp [getMsg, getAll, getDouble, valFields, ht, List.filterMap_map, List.filterMap_append, Function.comp_def]
  | gauge v => by_cases ht : ts = 0 <;> simp [getMsg, getAll, getDouble, valFields, ht, List.filterMap_map, List.filterMap_append, Function.comp_def]
  | untyped v =>
    have : v = 0 := hv
    subst this
    by_cases ht : ts = 0 <;> simp [getMsg, getAll, valFields, ht, List.filterMap_map, List.filterMap_append, Function.comp_def]
  | hist c sm bks =>
    obtain ⟨hc, hb⟩ := hv
    have hc' := u64_rt c hc
    have hbk : bks.map (fun b => (b.1, b.2 % 18446744073709551616)) = bks :=
      map_id_of _ _ (fun b hbm => by rw [Nat.mod_eq_of_lt (hb b hbm)])
    have hc'' : c % 18446744073709551616 = c := Nat.mod_eq_of_lt hc
    by_cases ht : ts = 0 <;>
      simp [getMsg, getMsgs, asMsg, getAll, getDouble, getUint, valFields, ht, hc', hc'', List.filterMap_map, List.filterMap_append, Function.comp_def, hbk]
  | summary c sm qs =>
    have hc' := u64_rt c hv
    have hc'' : c % 18446744073709551616 = c := Nat.mod_eq_of_lt hv
    by_cases ht : ts = 0 <;>
      simp [getMsg, getMsgs, asMsg, getAll, getDouble, getUint, valFields, ht, hc', hc'', List.filterMap_map, List.filterMap_append, Function.comp_def]

end Prom.C13

namespace Prom.C13
open Prom Prom.Pb

theorem numToType_typeNum (t : MType) : numToType (typeNum t) = some t := by cases t <;> rfl

theorem msgToFamily_fields (f : Family) (h : ∀ s ∈ f.samples, WfSample s) : msgToFamily (familyFields f) = some f := by
  obtain ⟨name, help, ty, samples⟩ := f
  simp only at h
  have hm : (getMsgs (familyFields ⟨name, help, ty, samples⟩) "metric").map msgToSample = samples := by
    unfold familyFields
    simp only [getMsgs, getAll, sampleMsg_eq, List.filterMap_append, List.filterMap_map, Function.comp_def]
    simp
    have e : List.filterMap (asMsg ∘ fun x => PVal.msg (sampleFields x)) samples = samples.map sampleFields := by
      rw [← List.filterMap_eq_map]; rfl
    rw [e, List.map_map]
    exact map_id_of _ _ (fun s hs => msgToSample_fields s (h s hs))
  unfold msgToFamily
  rw [hm]
  simp [familyFields, getAll, getStr, List.filterMap_map, Function.comp_def, numToType_typeNum]

theorem mapM_msgToFamily (fams : List Family) (h : ∀ f ∈ fams, ∀ s ∈ f.samples, WfSample s) :
    (fams.map familyFields).mapM msgToFamily = some fams := by
  induction fams with
  | nil => rfl
  | cons f r ih =>
    simp only [List.map_cons, List.mapM_cons, msgToFamily_fields f (h f (by simp)), ih (fun g hg => h g (by simp [hg]))]
    rfl

theorem message_rt (tbl : List (String × List WField)) (sch : List (String × List SField)) (hag : Agrees tbl sch)
    (d : Nat) (name : String) (fs : Fields) (bytes : List UInt8)
    (henc : encMsg tbl d name fs = some bytes) (hlen : bytes.length < 2 ^ 64) :
    decMsg sch d (bytes.length + 1) name bytes = some (canon tbl d name fs) := by
  unfold encMsg at henc
  cases hl : lookupMsg tbl name with
  | none => rw [hl] at henc; cases henc
  | some wfs =>
    rw [hl] at henc
    simp only at henc
    obtain ⟨sfs, hsl, hfa⟩ := hag name wfs hl
    have hmem : ∀ p ∈ emitOrder wfs fs, p.1 ∈ wfs := by
      intro p hp
      unfold emitOrder at hp
      obtain ⟨w, hw, hp⟩ := List.mem_flatMap.1 hp
      obtain ⟨q, _, rfl⟩ := List.mem_map.1 hp
      exact hw
    have h1 := (list_rt tbl sch d (field_rt tbl sch hag d) wfs sfs hfa (emitOrder wfs fs) bytes hmem henc hlen
      ((emitOrder wfs fs).length + 1) (by omega)).2
    have h2 := (list_rt tbl sch d (field_rt tbl sch hag d) wfs sfs hfa (emitOrder wfs fs) bytes hmem henc hlen
      (bytes.length + 1) (by omega)).1
    unfold decMsg canon
    rw [hsl, hl]
    exact h2

theorem decStream_nonempty (sch : List (String × List SField)) (fuel : Nat) (bytes : List UInt8) (h : bytes ≠ []) :
    decStream sch (fuel + 1) bytes =
      match readVarint 10 bytes with
      | none => none
      | some (len, r) =>
        match takeExact len r with
        | none => none
        | some (body, r') =>
          match decMsg sch 8 (body.length + 1) "MetricFamily" body, decStream sch fuel r' with
          | some fs, some rest => some (fs :: rest)
          | _, _ => none := by
  cases bytes with
  | nil => exact absurd rfl h
  | cons a t => rfl

theorem stream_rt (tbl : List (String × List WField)) (sch : List (String × List SField)) (hag : Agrees tbl sch) :
    ∀ (fams : List Family) (bytes : List UInt8), encodeStream tbl fams = (bytes, true) → bytes.length < 2 ^ 64 →
      (∀ f ∈ fams, canon tbl 8 "MetricFamily" (familyFields f) = familyFields f) →
      ∀ fuel, fams.length < fuel → decStream sch fuel bytes = some (fams.map familyFields) ∧ fams.length ≤ bytes.length := by
  intro fams
  induction fams with
  | nil =>
    intro bytes h _ _ fuel hf
    simp only [encodeStream, Prod.mk.injEq] at h
    obtain ⟨rfl, _⟩ := h
    cases fuel with
    | zero => omega
    | succ f => exact ⟨rfl, Nat.le_refl _⟩
  | cons f r ih =>
    intro bytes h hlen hcan fuel hf
    unfold encodeStream at h
    split at h
    · simp at h
    · cases he : encDelimited tbl (familyFields f) with
      | none => rw [he] at h; simp at h
      | some b =>
        rw [he] at h
        simp only [Prod.mk.injEq] at h
        obtain ⟨hb, hok⟩ := h
        have hr : encodeStream tbl r = ((encodeStream tbl r).1, true) := by rw [← hok]
        subst hb
        unfold encDelimited at he
        cases hm : encMsg tbl 8 "MetricFamily" (familyFields f) with
        | none => rw [hm] at he; cases he
        | some body =>
          rw [hm] at he
          have hb : b = varint body.length ++ body := by simpa using he.symm
          subst hb
          have hbl : body.length < 2 ^ 64 := by simp only [List.length_append] at hlen; omega
          have hrl : (encodeStream tbl r).1.length < 2 ^ 64 := by simp only [List.length_append] at hlen; omega
          cases fuel with
          | zero => omega
          | succ fuel =>
            obtain ⟨ihd, ihl⟩ := ih _ hr hrl (fun g hg => hcan g (by simp [hg])) fuel (by simp only [List.length_cons] at hf; omega)
            have hne : varint body.length ++ body ++ (encodeStream tbl r).1 ≠ [] := by
              intro e
              have := List.append_eq_nil_iff.1 e
              have := List.append_eq_nil_iff.1 this.1
              exact varint_ne_nil _ this.1
            have hdm := message_rt tbl sch hag 8 "MetricFamily" (familyFields f) body hm hbl
            rw [hcan f (by simp)] at hdm
            constructor
            · rw [decStream_nonempty _ _ _ hne, List.append_assoc, varint_rt _ _ hbl, ]
              simp only [takeExact_append, hdm, ihd, List.map_cons]
            · have : 0 < (varint body.length).length := List.length_pos_iff.2 (varint_ne_nil _)
              simp only [List.length_append, List.length_cons]
              omega

end Prom.C13
