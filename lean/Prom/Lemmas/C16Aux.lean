import Prom.Model.DataModel
/-
C16 — Exposition does not depend on the protobuf feature.
The library and the text encoder touch `prometheus::proto` only through setters and getters; for
every sequence of those calls the protobuf-backed model (optional fields, default on read) and the
plain model are related by the abstraction `abs…`, so every read used by `gather()` and by the text
encoder returns the same value in both builds.
-/
/- Helper lemmas and auxiliary definitions for Props/C16.lean (kept apart from the property theorems). -/
namespace Prom.C16
open Prom Prom.DM

theorem abs_mkBuckets (bs : List (Nat × UInt64)) : (mkPBuckets bs).map absBucket = mkQBuckets bs := by
  induction bs with
  | nil => rfl
  | cons b r ih =>
    simp only [mkPBuckets, mkQBuckets, List.map_cons, List.map_map] at ih ⊢
    rw [ih]
    rfl

end Prom.C16
