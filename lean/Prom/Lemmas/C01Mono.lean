import Prom.Lemmas.C01Aux
/-
C01 — whole-run monotonicity of the INTEGER counter cell (`float = false`).

`valuesAlong` lists the value of the cell after each committed operation of a commit log (running the
sequential specification `specApply`); it is tied to `specRun` (last value, recorded `get` results).
For a log that contains only `get` / `inc` / `incby:<n>` / `lflush:<n>` (`IncOnly`: no `set`, no
`reset`, no `dec` / `sub`) and whose deltas do not add up to `2^64` (`NoWrap`), the values are
non-decreasing (`int_values_monotone`), so the results of two committed `get`s are ordered as the
`get`s are ordered in the log. `Props/C01.lean` lifts this to the replay machine and to real time.
-/
namespace Prom.C01
open Prom Prom.Conc

/-! ## the values along a commit log -/

/-- the value of the cell after each committed operation of a log, starting from `v`: entry `i` is
    the value right after the `i`-th operation took effect (for a `get`: the value it read). An
    entry that is not an operation of the flavour leaves the value as it is (this never happens for
    the integer flavour, nor in a log accepted by `specRun`). -/
def valuesAlong (float : Bool) : UInt64 → List LinEv → List UInt64
  | _, [] => []
  | v, x :: r =>
    match specApply float v x.op with
    | some (v', _) => v' :: valuesAlong float v' r
    | none => v :: valuesAlong float v r

/-- one value per committed operation: position `i` of the values is position `i` of the log -/
@[simp] theorem valuesAlong_length (float : Bool) (v : UInt64) (l : List LinEv) :
    (valuesAlong float v l).length = l.length := by
  induction l generalizing v with
  | nil => rfl
  | cons x r ih =>
    simp only [valuesAlong]
    split <;> simp [ih]

/-- the values along a concatenated log: those of the first part, then those of the second part
    started from the value the first part ends in -/
theorem valuesAlong_append (float : Bool) (v : UInt64) (l₁ l₂ : List LinEv) :
    valuesAlong float v (l₁ ++ l₂) =
      valuesAlong float v l₁ ++ valuesAlong float ((valuesAlong float v l₁).getLastD v) l₂ := by
  induction l₁ generalizing v with
  | nil => simp [valuesAlong]
  | cons x r ih =>
    simp only [List.cons_append, valuesAlong]
    split
    · simp only [List.cons_append, List.getLastD_cons, ih]
    · simp only [List.cons_append, List.getLastD_cons, ih]

/-- the values already recorded do not change when the log grows at its end -/
theorem valuesAlong_prefix (float : Bool) (v : UInt64) {l₁ l₂ : List LinEv} (h : l₁ <+: l₂) :
    valuesAlong float v l₁ <+: valuesAlong float v l₂ := by
  obtain ⟨t, rfl⟩ := h
  rw [valuesAlong_append]
  exact List.prefix_append _ _

/-- **consistency with `specRun`, final value**: if the log is a legal sequential history ending in
    `w`, the last recorded value is `w` (`v` itself for the empty log) -/
theorem specRun_last {float : Bool} {v w : UInt64} {l : List LinEv}
    (h : specRun float v l = some w) : (valuesAlong float v l).getLastD v = w := by
  induction l generalizing v with
  | nil => simpa [specRun, valuesAlong] using h
  | cons x r ih =>
    simp only [specRun] at h
    simp only [valuesAlong]
    split at h
    · next v' rv hsp =>
      split at h
      · simp only [hsp, List.getLastD_cons]
        exact ih h
      · cases h
    · cases h

/-- **consistency with `specRun`, every entry**: in a legal sequential history, entry `i` of the
    values is what `specApply` makes of the previous value (`v` for `i = 0`) and the `i`-th
    operation, and the return value recorded with the operation is the one `specApply` gives -/
theorem specRun_entry {float : Bool} {v w : UInt64} {l : List LinEv}
    (h : specRun float v l = some w) {i : Nat} {x : LinEv} (hx : l[i]? = some x) :
    ∃ p u, (v :: valuesAlong float v l)[i]? = some p ∧ (valuesAlong float v l)[i]? = some u ∧
      specApply float p x.op = some (u, x.rv) := by
  induction l generalizing v i with
  | nil => simp at hx
  | cons y r ih =>
    simp only [specRun] at h
    split at h
    · next v' rv hsp =>
      split at h
      · next hrv =>
        cases i with
        | zero =>
          simp only [List.getElem?_cons_zero, Option.some.injEq] at hx
          subst hx
          exact ⟨v, v', by simp, by simp [valuesAlong, hsp], by simp [hsp, hrv]⟩
        | succ i =>
          simp only [List.getElem?_cons_succ] at hx
          obtain ⟨p, u, hp, hu, hap⟩ := ih h hx
          exact ⟨p, u, by simpa [valuesAlong, hsp] using hp, by simp [valuesAlong, hsp, hu], hap⟩
      · cases h
    · cases h

/-- what a `get` does in the specification: the value stays, its hexadecimal rendering is returned -/
theorem specApply_get (float : Bool) (v : UInt64) {op : String} (hg : opName op = "get") :
    specApply float v op = some (v, hexStr v) := by
  simp [specApply, hg]

/-- **consistency with `specRun`, reads**: in a legal sequential history every recorded `get`
    result is `hexStr` of the value at its position (which is also the value just before it) -/
theorem specRun_get {float : Bool} {v w : UInt64} {l : List LinEv}
    (h : specRun float v l = some w) {i : Nat} {x : LinEv} (hx : l[i]? = some x)
    (hg : opName x.op = "get") :
    ∃ u, (valuesAlong float v l)[i]? = some u ∧ x.rv = hexStr u ∧
      (v :: valuesAlong float v l)[i]? = some u := by
  obtain ⟨p, u, hp, hu, hap⟩ := specRun_entry h hx
  rw [specApply_get _ _ hg] at hap
  simp only [Option.some.injEq, Prod.mk.injEq] at hap
  obtain ⟨h1, h2⟩ := hap
  subst h1
  exact ⟨p, hu, h2.symm, hp⟩

/-! ## increment-only logs that do not wrap -/

/-- every operation of the log is `get`, `inc`, `incby:<n>` or `lflush:<n>`: no `set` / `reset`, no
    `dec` / `sub` -/
def IncOnly (l : List LinEv) : Prop :=
  ∀ x ∈ l, opName x.op = "get" ∨ opName x.op = "inc" ∨ opName x.op = "incby" ∨ opName x.op = "lflush"

/-- the amount an operation of an increment-only log adds to the integer cell, as a natural number
    (`0` for a `get`, `1` for `inc`, the unsigned operand for `incby` / `lflush`) -/
def opDeltaNat (op : String) : Nat := if opName op == "get" then 0 else (intDelta op).toNat

/-- the sum of the integer deltas of the log -/
def deltaSum (l : List LinEv) : Nat := (l.map fun x => opDeltaNat x.op).sum

/-- the integer deltas of the whole log, added as natural numbers, stay below `2^64`: the 64-bit
    cell never wraps around -/
def NoWrap (l : List LinEv) : Prop := deltaSum l < 2 ^ 64

/-- the empty log adds nothing -/
@[simp] theorem deltaSum_nil : deltaSum [] = 0 := rfl
/-- the delta sum of a log: the first operation's delta plus the rest -/
@[simp] theorem deltaSum_cons (x : LinEv) (l : List LinEv) : deltaSum (x :: l) = opDeltaNat x.op + deltaSum l := by
  simp [deltaSum]
/-- the delta sum is additive over concatenation -/
@[simp] theorem deltaSum_append (l₁ l₂ : List LinEv) : deltaSum (l₁ ++ l₂) = deltaSum l₁ + deltaSum l₂ := by
  simp [deltaSum]

/-- a prefix of an increment-only log is increment-only -/
theorem IncOnly.of_prefix {l₁ l₂ : List LinEv} (h : IncOnly l₂) (hp : l₁ <+: l₂) : IncOnly l₁ :=
  fun x hx => h x (hp.subset hx)

/-- a prefix of a log that does not wrap does not wrap -/
theorem NoWrap.of_prefix {l₁ l₂ : List LinEv} (h : NoWrap l₂) (hp : l₁ <+: l₂) : NoWrap l₁ := by
  obtain ⟨t, rfl⟩ := hp
  unfold NoWrap at h ⊢
  rw [deltaSum_append] at h
  omega

/-- one operation of an increment-only log, on the integer cell: it is an operation, and when its
    delta does not wrap the new value is the old one plus the delta (as natural numbers) -/
theorem specApply_incOnly (v : UInt64) {op : String}
    (h : opName op = "get" ∨ opName op = "inc" ∨ opName op = "incby" ∨ opName op = "lflush")
    (hov : v.toNat + opDeltaNat op < 2 ^ 64) :
    ∃ v' rv, specApply false v op = some (v', rv) ∧ v'.toNat = v.toNat + opDeltaNat op := by
  by_cases hg : opName op = "get"
  · exact ⟨v, hexStr v, specApply_get _ _ hg, by simp [opDeltaNat, hg]⟩
  · have hgb : (opName op == "get") = false := by simpa using hg
    have hd : opDeltaNat op = (intDelta op).toNat := by simp [opDeltaNat, hgb]
    have hns : (opName op == "set" || opName op == "reset") = false := by
      rcases h with h | h | h | h <;> rw [h] <;> decide +kernel
    have hsub : isSubOp op = false := by
      unfold isSubOp
      rcases h with h | h | h | h <;> rw [h] <;> decide +kernel
    refine ⟨v + intDelta op, "", by simp [specApply, hgb, hns, hsub], ?_⟩
    rw [hd] at hov ⊢
    rw [UInt64.toNat_add, Nat.mod_eq_of_lt hov]

/-- generalised form of `int_values_monotone` (any start value `v` with `v + Σ deltas < 2^64`):
    every recorded value is at least `v`, and the values are sorted -/
theorem int_values_monotone_from (v : UInt64) (l : List LinEv) (hi : IncOnly l)
    (hw : v.toNat + deltaSum l < 2 ^ 64) :
    (∀ u ∈ valuesAlong false v l, v ≤ u) ∧ List.Pairwise (· ≤ ·) (valuesAlong false v l) := by
  induction l generalizing v with
  | nil => simp [valuesAlong]
  | cons x r ih =>
    rw [deltaSum_cons] at hw
    obtain ⟨v', rv, hsp, hv'⟩ := specApply_incOnly v (hi x (List.mem_cons_self ..)) (by omega)
    have hle : v ≤ v' := by rw [UInt64.le_iff_toNat_le]; omega
    obtain ⟨ih1, ih2⟩ := ih v' (fun y hy => hi y (List.mem_cons_of_mem _ hy)) (by omega)
    simp only [valuesAlong, hsp]
    refine ⟨?_, List.pairwise_cons.mpr ⟨ih1, ih2⟩⟩
    intro u hu
    rcases List.mem_cons.mp hu with rfl | hu
    · exact hle
    · exact UInt64.le_trans hle (ih1 u hu)

/-- **int_values_monotone** — on the integer cell, started from 0, a log of `get` / `inc` /
    `incby` / `lflush` operations whose deltas do not add up to `2^64`: the value of the cell after
    each committed operation, listed in commit order, is sorted non-decreasing -/
theorem int_values_monotone {l : List LinEv} (hi : IncOnly l) (hw : NoWrap l) :
    List.Pairwise (· ≤ ·) (valuesAlong false 0 l) :=
  (int_values_monotone_from 0 l hi (by simpa [NoWrap] using hw)).2

/-- the values at two positions `i < j` of such a log are ordered -/
theorem int_values_le {l : List LinEv} (hi : IncOnly l) (hw : NoWrap l) {i j : Nat} (hij : i < j)
    {vi vj : UInt64} (hvi : (valuesAlong false 0 l)[i]? = some vi)
    (hvj : (valuesAlong false 0 l)[j]? = some vj) : vi ≤ vj := by
  obtain ⟨hi', rfl⟩ := List.getElem?_eq_some_iff.mp hvi
  obtain ⟨hj', rfl⟩ := List.getElem?_eq_some_iff.mp hvj
  exact List.pairwise_iff_getElem.mp (int_values_monotone hi hw) i j hi' hj' hij

/-! ## `hexStr` is injective: the string a `get` returns determines the value it read -/

/-- the sixteen hexadecimal digit characters are distinct -/
theorem digitChar_inj16 : ∀ a b : Fin 16, Nat.digitChar a.val = Nat.digitChar b.val → a = b := by
  decide +kernel

/-- the base-16 digit list of a natural number determines the number -/
theorem toDigits16_inj : ∀ n m : Nat, Nat.toDigits 16 n = Nat.toDigits 16 m → n = m := by
  intro n
  induction n using Nat.strongRecOn with
  | _ n ih =>
    intro m h
    rw [Nat.toDigits_eq_if (by decide : 1 < 16) (n := n), Nat.toDigits_eq_if (by decide : 1 < 16) (n := m)] at h
    split at h <;> split at h
    · next hn hm =>
      simp only [List.cons.injEq, and_true] at h
      have := digitChar_inj16 ⟨n, hn⟩ ⟨m, hm⟩ h
      simpa using this
    · next hn hm =>
      have := congrArg List.length h
      have hp := Nat.length_toDigits_pos (b := 16) (n := m / 16)
      simp only [List.length_cons, List.length_nil, List.length_append] at this
      omega
    · next hn hm =>
      have := congrArg List.length h
      have hp := Nat.length_toDigits_pos (b := 16) (n := n / 16)
      simp only [List.length_cons, List.length_nil, List.length_append] at this
      omega
    · next hn hm =>
      obtain ⟨h1, h2⟩ := List.append_inj' h rfl
      simp only [List.cons.injEq, and_true] at h2
      have hq := ih (n / 16) (by omega) (m / 16) h1
      have hr := digitChar_inj16 ⟨n % 16, Nat.mod_lt _ (by decide)⟩ ⟨m % 16, Nat.mod_lt _ (by decide)⟩ h2
      have hr' : n % 16 = m % 16 := by simpa using hr
      omega

/-- the hexadecimal rendering of the cell value is injective: a `get` result determines the value -/
theorem hexStr_inj {a b : UInt64} (h : hexStr a = hexStr b) : a = b := by
  unfold hexStr at h
  have := toDigits16_inj _ _ (String.ofList_injective h)
  exact UInt64.toNat_inj.mp this

/-! ## reads of a sequential history -/

/-- **reads of an increment-only history never decrease** — a legal sequential history of the
    integer cell from 0 (`specRun`), increment-only and without wrap-around: two `get`s at positions
    `i < j` of the log returned `hexStr vi` and `hexStr vj`, where `vi`, `vj` are the values of the
    cell at those positions, and `vi ≤ vj` -/
theorem spec_reads_monotone {l : List LinEv} {w : UInt64} (hs : specRun false 0 l = some w)
    (hi : IncOnly l) (hw : NoWrap l) {i j : Nat} (hij : i < j) {x y : LinEv}
    (hx : l[i]? = some x) (hy : l[j]? = some y)
    (hgx : opName x.op = "get") (hgy : opName y.op = "get") :
    ∃ vi vj, (valuesAlong false 0 l)[i]? = some vi ∧ (valuesAlong false 0 l)[j]? = some vj ∧
      x.rv = hexStr vi ∧ y.rv = hexStr vj ∧ vi ≤ vj := by
  obtain ⟨vi, hvi, hri, _⟩ := specRun_get hs hx hgx
  obtain ⟨vj, hvj, hrj, _⟩ := specRun_get hs hy hgy
  exact ⟨vi, vj, hvi, hvj, hri, hrj, int_values_le hi hw hij hvi hvj⟩

/-- the same, stated on whatever values the two returned strings denote -/
theorem spec_reads_monotone' {l : List LinEv} {w : UInt64} (hs : specRun false 0 l = some w)
    (hi : IncOnly l) (hw : NoWrap l) {i j : Nat} (hij : i < j) {x y : LinEv}
    (hx : l[i]? = some x) (hy : l[j]? = some y)
    (hgx : opName x.op = "get") (hgy : opName y.op = "get")
    {a b : UInt64} (ha : x.rv = hexStr a) (hb : y.rv = hexStr b) : a ≤ b := by
  obtain ⟨vi, vj, _, _, hri, hrj, hle⟩ := spec_reads_monotone hs hi hw hij hx hy hgx hgy
  rw [hexStr_inj (ha.symm.trans hri), hexStr_inj (hb.symm.trans hrj)]
  exact hle

/-! ## positions of commits in a growing log -/

/-- the commits of a call in a concatenated log: those in the first part plus those in the second -/
theorem commits_append_list (l₁ l₂ : List LinEv) (t i : Nat) :
    commits (l₁ ++ l₂) t i = commits l₁ t i + commits l₂ t i := by
  simp [commits, List.filter_append]

/-- an entry of the log for call `i` of thread `t` counts as a commit of that call -/
theorem commits_pos_of_getElem {l : List LinEv} {p : Nat} {x : LinEv} {t i : Nat}
    (hx : l[p]? = some x) (hxt : x.tid = t ∧ x.idx = i) : 1 ≤ commits l t i := by
  have hm : x ∈ l.filter (fun x => x.tid == t && x.idx == i) := by
    rw [List.mem_filter]
    exact ⟨List.mem_of_getElem? hx, by simp [hxt.1, hxt.2]⟩
  exact List.length_pos_of_mem hm

/-- a call with no commit in `l₁` can only appear in `l₁ ++ ext` at a position past `l₁` -/
theorem commits_zero_pos {l₁ ext : List LinEv} {t i q : Nat} {y : LinEv}
    (c0 : commits l₁ t i = 0) (hy : (l₁ ++ ext)[q]? = some y) (hyt : y.tid = t ∧ y.idx = i) :
    l₁.length ≤ q := by
  by_cases hq : q < l₁.length
  · rw [List.getElem?_append_left hq] at hy
    have := commits_pos_of_getElem hy hyt
    omega
  · omega

/-- a call with as many commits in `l₁ ++ ext` as in `l₁` can only appear at a position inside `l₁` -/
theorem commits_same_pos {l₁ ext : List LinEv} {t i p : Nat} {x : LinEv}
    (c1 : commits (l₁ ++ ext) t i = commits l₁ t i) (hx : (l₁ ++ ext)[p]? = some x)
    (hxt : x.tid = t ∧ x.idx = i) : p < l₁.length := by
  by_cases hp : p < l₁.length
  · exact hp
  · rw [List.getElem?_append_right (by omega)] at hx
    have := commits_pos_of_getElem hx hxt
    rw [commits_append_list] at c1
    omega

/-! ## concrete operations (for the examples): `String.splitOn` is defined by well-founded recursion
and does not reduce, so its loop is unrolled on the literals, every test being a closed fact -/

/-- unroll `String.splitOn` on literals: every test of the loop is a closed fact -/
macro "split_on_lit" : tactic => `(tactic|
  (unfold String.splitOn
   rw [if_neg (by decide +kernel)]
   repeat
     (rw [String.splitOnAux]
      first
      | rw [if_pos (by decide +kernel)]
      | rw [if_neg (by decide +kernel), if_neg (by decide +kernel)]
      | (rw [if_neg (by decide +kernel), if_pos (by decide +kernel)]
         dsimp only
         first | rw [if_pos (by decide +kernel)] | rw [if_neg (by decide +kernel)]))
   decide +kernel))

/-- `"get"`, `"inc"`, `"reset"` contain no `:`: splitting gives the string itself -/
theorem splitOn_get : "get".splitOn ":" = ["get"] := by split_on_lit
theorem splitOn_inc : "inc".splitOn ":" = ["inc"] := by split_on_lit
theorem splitOn_reset : "reset".splitOn ":" = ["reset"] := by split_on_lit

/-- the names of the three literal operations used in the examples -/
theorem opName_get : opName "get" = "get" := by simp [opName, splitOn_get]
theorem opName_inc : opName "inc" = "inc" := by simp [opName, splitOn_inc]
theorem opName_reset : opName "reset" = "reset" := by simp [opName, splitOn_reset]

/-- closed facts about the literals of the examples -/
theorem u64OfInt_one : u64OfInt 1 = 1 := by decide +kernel
theorem u64OfInt_zero : u64OfInt 0 = 0 := by decide +kernel
theorem hexStr_one : hexStr 1 = "1" := by decide +kernel
theorem hexStr_zero : hexStr 0 = "0" := by decide +kernel

/-- `inc` on the integer cell adds one -/
theorem specApply_inc_lit (v : UInt64) : specApply false v "inc" = some (v + 1, "") := by
  simp [specApply, isSubOp, intDelta, opName_inc, u64OfInt_one]

/-- `reset` on the integer cell stores zero -/
theorem specApply_reset_lit (v : UInt64) : specApply false v "reset" = some (0, "") := by
  simp [specApply, opName_reset, u64OfInt_zero]

/-- `get` returns the rendering of the current value -/
theorem specApply_get_lit (float : Bool) (v : UInt64) : specApply float v "get" = some (v, hexStr v) :=
  specApply_get float v opName_get

end Prom.C01
