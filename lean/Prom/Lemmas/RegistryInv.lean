import Prom.Lemmas.RegistryHist
/-
Registry invariants over whole histories of register / unregister (C06): the id set is exactly the
ids of the currently registered collectors, the recorded dimension hashes are exactly those of every
descriptor ever admitted, and admission is characterised in those terms.
-/
namespace Prom.C06
open Prom

abbrev ins (m : List (Str × UInt64)) (kv : Str × UInt64) : List (Str × UInt64) := dimInsert m kv.1 kv.2

/-! ### folds of `dimInsert` -/

theorem fold_ins_absent : ∀ (kvs : List (Str × UInt64)) (m : List (Str × UInt64)) (n : Str),
    (∀ kv ∈ kvs, kv.1 ≠ n) → dimLookup (kvs.foldl ins m) n = dimLookup m n := by
  intro kvs
  induction kvs with
  | nil => intro m n _; rfl
  | cons kv t ih =>
    intro m n h
    simp only [List.foldl_cons]
    rw [ih _ _ (fun x hx => h x (by simp [hx]))]
    exact dimLookup_dimInsert_other m kv.1 n kv.2 (fun e => h kv (by simp) e.symm)

theorem fold_ins_present : ∀ (kvs : List (Str × UInt64)) (m : List (Str × UInt64)) (n : Str) (h : UInt64),
    (∃ kv ∈ kvs, kv.1 = n) → (∀ kv ∈ kvs, kv.1 = n → kv.2 = h) → dimLookup (kvs.foldl ins m) n = some h := by
  intro kvs
  induction kvs with
  | nil => intro m n h ⟨kv, hkv, _⟩; cases hkv
  | cons kv t ih =>
    intro m n h hex hall
    simp only [List.foldl_cons]
    by_cases ht : ∃ x ∈ t, x.1 = n
    · exact ih _ _ _ ht (fun x hx => hall x (by simp [hx]))
    · have habs : ∀ x ∈ t, x.1 ≠ n := fun x hx e => ht ⟨x, hx, e⟩
      rw [fold_ins_absent t _ n habs]
      obtain ⟨x, hx, hxn⟩ := hex
      rcases List.mem_cons.1 hx with rfl | hx
      · show dimLookup (dimInsert m x.1 x.2) n = some h
        rw [← hxn, dimLookup_dimInsert_same, hall x (by simp) hxn]
      · exact absurd hxn (habs x hx)

theorem mem_dimInsert {m : List (Str × UInt64)} {k : Str} {h : UInt64} {x : Str × UInt64}
    (hx : x ∈ dimInsert m k h) : x ∈ m ∨ x = (k, h) := by
  unfold dimInsert at hx
  rcases List.mem_append.1 hx with hx | hx
  · exact Or.inl (List.mem_filter.1 hx).1
  · exact Or.inr (by simpa using hx)

theorem mem_fold_ins : ∀ (kvs m : List (Str × UInt64)) (x : Str × UInt64), x ∈ kvs.foldl ins m → x ∈ kvs ∨ x ∈ m := by
  intro kvs
  induction kvs with
  | nil => intro m x h; exact Or.inr h
  | cons kv t ih =>
    intro m x h
    simp only [List.foldl_cons] at h
    rcases ih _ _ h with h | h
    · exact Or.inl (by simp [h])
    · rcases mem_dimInsert h with h | h
      · exact Or.inr h
      · exact Or.inl (by simp [h])

theorem key_kept_dimInsert {m : List (Str × UInt64)} {k k2 : Str} {h2 : UInt64} (hk : ∃ h, (k, h) ∈ m) :
    ∃ h, (k, h) ∈ dimInsert m k2 h2 := by
  obtain ⟨h, hm⟩ := hk
  unfold dimInsert
  by_cases e : k = k2
  · exact ⟨h2, by simp [e]⟩
  · refine ⟨h, List.mem_append.2 (Or.inl (List.mem_filter.2 ⟨hm, ?_⟩))⟩
    simpa using e

theorem key_kept_fold : ∀ (kvs m : List (Str × UInt64)) (k : Str), (∃ h, (k, h) ∈ m) → ∃ h, (k, h) ∈ kvs.foldl ins m := by
  intro kvs
  induction kvs with
  | nil => intro m k h; exact h
  | cons kv t ih => intro m k h; simp only [List.foldl_cons]; exact ih _ _ (key_kept_dimInsert h)

theorem key_of_fold : ∀ (kvs m : List (Str × UInt64)), ∀ kv ∈ kvs, ∃ h, (kv.1, h) ∈ kvs.foldl ins m := by
  intro kvs
  induction kvs with
  | nil => intro m kv h; cases h
  | cons a t ih =>
    intro m kv hkv
    simp only [List.foldl_cons]
    rcases List.mem_cons.1 hkv with rfl | hkv
    · apply key_kept_fold
      exact ⟨kv.2, by unfold ins dimInsert; simp⟩
    · exact ih _ kv hkv

/-! ### what the loop stages -/

def descKv (d : Desc) : Str × UInt64 := (d.fqName, d.dimHash)

theorem regLoop_nd (r : Reg) : ∀ (ds : List Desc) (ids : List UInt64) (nd : List (Str × UInt64)) (cid : UInt64)
    (res : List UInt64 × List (Str × UInt64) × UInt64),
    regLoop r ds ids nd cid = .ok res → res.2.1 = (ds.map descKv).foldl ins nd := by
  intro ds
  induction ds with
  | nil => intro ids nd cid res h; simp [regLoop] at h; subst h; rfl
  | cons d rest ih =>
    intro ids nd cid res h
    unfold regLoop at h
    by_cases hc : clashesCommon r.labels d = true
    · rw [if_pos hc] at h; cases h
    · rw [if_neg hc] at h
      by_cases hid : r.descIds.contains d.id = true
      · rw [if_pos hid] at h; cases h
      · rw [if_neg hid] at h
        obtain ⟨_, _, hrec⟩ := known_branch _ h
        rw [ih _ _ _ _ hrec]
        rfl

/-- success of the loop implies that the collector's own descriptors agree on shared names -/
theorem regLoop_self (r : Reg) : ∀ (ds : List Desc) (ids : List UInt64) (nd : List (Str × UInt64)) (cid : UInt64)
    (res : List UInt64 × List (Str × UInt64) × UInt64),
    regLoop r ds ids nd cid = .ok res →
      (∀ d ∈ ds, ∀ h, dimLookup nd d.fqName = some h → dimLookup r.dimHashes d.fqName = none → h = d.dimHash) ∧
      SelfConsistent ds := by
  intro ds
  induction ds with
  | nil => intro ids nd cid res _; exact ⟨(by intro d hd; cases hd), (by intro d hd; cases hd)⟩
  | cons d rest ih =>
    intro ids nd cid res hreg
    have hall := hreg
    unfold regLoop at hreg
    by_cases hc : clashesCommon r.labels d = true
    · rw [if_pos hc] at hreg; cases hreg
    · rw [if_neg hc] at hreg
      by_cases hid : r.descIds.contains d.id = true
      · rw [if_pos hid] at hreg; cases hreg
      · rw [if_neg hid] at hreg
        obtain ⟨hknown, _, hrec⟩ := known_branch _ hreg
        obtain ⟨ih1, ih2⟩ := ih _ _ _ _ hrec
        obtain ⟨ids', nd', cid'⟩ := res
        obtain ⟨hrecorded, _, _, _⟩ := regLoop_ok r _ _ _ _ _ _ _ hall
        -- the head against the staged map
        have hhead : ∀ h, dimLookup nd d.fqName = some h → dimLookup r.dimHashes d.fqName = none → h = d.dimHash := by
          intro h hl hnone
          apply hknown
          rw [hnone]
          exact hl
        -- the head against a later descriptor of the same name
        have hcross : ∀ x ∈ rest, x.fqName = d.fqName → x.dimHash = d.dimHash := by
          intro x hx hn
          cases hr : dimLookup r.dimHashes d.fqName with
          | some h0 =>
            have h1 := (hrecorded d (by simp)).2.2 h0 hr
            have h2 := (hrecorded x (by simp [hx])).2.2 h0 (by rw [hn]; exact hr)
            rw [← h1, ← h2]
          | none =>
            have := ih1 x hx d.dimHash (by rw [hn]; exact dimLookup_dimInsert_same nd d.fqName d.dimHash) (by rw [hn]; exact hr)
            exact this.symm
        constructor
        · intro x hx h hl hnone
          rcases List.mem_cons.1 hx with hxd | hx
          · subst hxd; exact hhead h hl hnone
          · by_cases hn : x.fqName = d.fqName
            · rw [hcross x hx hn]
              exact hhead h (by rw [← hn]; exact hl) (by rw [← hn]; exact hnone)
            · exact ih1 x hx h (by rw [dimLookup_dimInsert_other _ _ _ _ hn]; exact hl) hnone
        · intro a ha b hb e
          rcases List.mem_cons.1 ha with ha | ha <;> rcases List.mem_cons.1 hb with hb | hb
          · rw [ha, hb]
          · rw [ha] at e ⊢; exact (hcross b hb e.symm).symm
          · rw [hb] at e ⊢; exact hcross a ha e
          · exact ih2 a ha b hb e

/-! ### the state after a successful registration -/

abbrev cidOf (l : List UInt64) : UInt64 := l.foldl (· + ·) (0 : UInt64)

theorem register_ok_state (r : Reg) (c : Coll) (h : (r.register c).2 = .ok ()) :
    (r.register c).1 = { r with collectors := r.collectors ++ [(cidOf (c.descs.map (·.id)), c)],
                                descIds := r.descIds ++ c.descs.map (·.id),
                                dimHashes := (((c.descs.map descKv).foldl ins [])).foldl ins r.dimHashes } ∧
    r.collectors.any (·.1 == cidOf (c.descs.map (·.id))) = false ∧ SelfConsistent c.descs := by
  unfold Reg.register at h ⊢
  cases hl : regLoop r c.descs [] [] 0 with
  | error e => rw [hl] at h; simp at h
  | ok t =>
    obtain ⟨ids, nd, cid⟩ := t
    obtain ⟨_, h2, _, h4⟩ := regLoop_ok r _ _ _ _ _ _ _ hl
    have h5 := regLoop_nd r _ _ _ _ _ hl
    have h6 := (regLoop_self r _ _ _ _ _ hl).2
    simp only at h5
    rw [hl] at h
    simp only [] at h ⊢
    by_cases hany : r.collectors.any (·.1 == cid) = true
    · rw [if_pos hany] at h; cases h
    · rw [if_neg hany]
      have hany' : r.collectors.any (·.1 == cid) = false := (Bool.not_eq_true _).mp hany
      simp only [List.nil_append] at h2
      subst h2; subst h5
      have hc : cid = cidOf (c.descs.map (·.id)) := h4
      subst hc
      exact ⟨rfl, hany', h6⟩

/-- the recorded dimension hash of a name after a successful registration -/
theorem dims_after (m0 : List (Str × UInt64)) (ds : List Desc) (hself : SelfConsistent ds) (n : Str) :
    dimLookup (((ds.map descKv).foldl ins []).foldl ins m0) n =
      match ds.find? (·.fqName == n) with
      | some d => some d.dimHash
      | none => dimLookup m0 n := by
  cases hf : ds.find? (·.fqName == n) with
  | none =>
    simp only []
    apply fold_ins_absent
    intro kv hkv e
    rcases mem_fold_ins _ _ _ hkv with hk | hk
    · obtain ⟨d, hd, rfl⟩ := List.mem_map.1 hk
      have := List.find?_eq_none.1 hf d hd
      simp [descKv] at e
      simp [e] at this
    · cases hk
  | some d =>
    simp only []
    have hd := List.mem_of_find?_eq_some hf
    have hdn : d.fqName = n := by simpa using List.find?_some hf
    apply fold_ins_present
    · obtain ⟨h, hm⟩ := key_of_fold (ds.map descKv) [] (descKv d) (List.mem_map.2 ⟨d, hd, rfl⟩)
      exact ⟨_, hm, hdn⟩
    · intro kv hkv hkn
      rcases mem_fold_ins _ _ _ hkv with hk | hk
      · obtain ⟨d', hd', rfl⟩ := List.mem_map.1 hk
        simp only [descKv] at hkn ⊢
        exact hself d' hd' d hd (hkn.trans hdn.symm)
      · cases hk

/-! ### the invariant over histories -/

def curIds (r : Reg) : List UInt64 := r.collectors.flatMap (fun p => p.2.descs.map (·.id))

structure RegInv (r : Reg) (ever : List Desc) : Prop where
  ids_iff : ∀ i, i ∈ r.descIds ↔ i ∈ curIds r
  nodup : (curIds r).Nodup
  cid : ∀ p ∈ r.collectors, p.1 = cidOf (p.2.descs.map (·.id))
  dims : ∀ n h, dimLookup r.dimHashes n = some h ↔ ∃ e ∈ ever, e.fqName = n ∧ e.dimHash = h
  cons : SelfConsistent ever
  cur_ever : ∀ p ∈ r.collectors, ∀ d ∈ p.2.descs, d ∈ ever

theorem regInv_init (labels : Option (List (Str × Str))) (pref : Option Str) :
    RegInv { labels := labels, pref := pref } [] where
  ids_iff := by intro i; simp [curIds]
  nodup := by simp [curIds]
  cid := by intro p hp; cases hp
  dims := by intro n h; simp [dimLookup]
  cons := by intro d hd; cases hd
  cur_ever := by intro p hp; cases hp

/-- the three registry-level checks, in terms of the history -/
theorem descOk_iff {r : Reg} {ever : List Desc} (inv : RegInv r ever) (d : Desc) :
    DescOk r d ↔ clashesCommon r.labels d = false ∧ d.id ∉ curIds r ∧ ∀ e ∈ ever, e.fqName = d.fqName → e.dimHash = d.dimHash := by
  unfold DescOk
  constructor
  · rintro ⟨h1, h2, h3⟩
    refine ⟨h1, ?_, ?_⟩
    · intro hm
      have := (inv.ids_iff d.id).2 hm
      have hc : r.descIds.contains d.id = true := by simpa using this
      rw [h2] at hc; cases hc
    · intro e he hn
      exact (h3 e.dimHash ((inv.dims d.fqName e.dimHash).2 ⟨e, he, hn, rfl⟩)).symm ▸ rfl
  · rintro ⟨h1, h2, h3⟩
    refine ⟨h1, ?_, ?_⟩
    · have : d.id ∉ r.descIds := fun hm => h2 ((inv.ids_iff d.id).1 hm)
      simpa using this
    · intro h hl
      obtain ⟨e, he, hn, hh⟩ := (inv.dims d.fqName h).1 hl
      rw [← hh]; exact h3 e he hn

theorem regInv_register {r : Reg} {ever : List Desc} (inv : RegInv r ever) (c : Coll) (h : (r.register c).2 = .ok ()) :
    RegInv (r.register c).1 (ever ++ c.descs) := by
  obtain ⟨hst, hfree, hself⟩ := register_ok_state r c h
  obtain ⟨hok, hnd⟩ : (∀ d ∈ c.descs, DescOk r d) ∧ (c.descs.map (·.id)).Nodup := by
    have := by
      unfold Reg.register at h
      exact h
    unfold Reg.register at h
    cases hl : regLoop r c.descs [] [] 0 with
    | error e => rw [hl] at h; simp at h
    | ok t =>
      obtain ⟨ids, nd, cid⟩ := t
      obtain ⟨h1, h2, h3, _⟩ := regLoop_ok r _ _ _ _ _ _ _ hl
      exact ⟨h1, by simpa [h2] using h3 List.nodup_nil⟩
  rw [hst]
  have hcur : curIds { r with collectors := r.collectors ++ [(cidOf (c.descs.map (·.id)), c)],
                                descIds := r.descIds ++ c.descs.map (·.id),
                                dimHashes := (((c.descs.map descKv).foldl ins [])).foldl ins r.dimHashes }
      = curIds r ++ c.descs.map (·.id) := by
    simp [curIds, List.flatMap_append]
  constructor
  · intro i
    rw [hcur]
    simp only [List.mem_append]
    rw [inv.ids_iff i]
  · rw [hcur, List.nodup_append]
    refine ⟨inv.nodup, hnd, ?_⟩
    intro a ha b hb e
    subst e
    obtain ⟨d, hd, rfl⟩ := List.mem_map.1 hb
    have := ((descOk_iff inv d).1 (hok d hd)).2.1
    exact this ha
  · intro p hp
    simp only [List.mem_append, List.mem_singleton] at hp
    rcases hp with hp | rfl
    · exact inv.cid p hp
    · rfl
  · intro n h
    simp only
    rw [dims_after r.dimHashes c.descs hself n]
    cases hf : c.descs.find? (·.fqName == n) with
    | some d =>
      simp only []
      have hd := List.mem_of_find?_eq_some hf
      have hdn : d.fqName = n := by simpa using List.find?_some hf
      constructor
      · intro e
        exact ⟨d, by simp [hd], hdn, Option.some.inj e⟩
      · rintro ⟨e, he, hen, heh⟩
        rcases List.mem_append.1 he with he | he
        · have := ((descOk_iff inv d).1 (hok d hd)).2.2 e he (hen.trans hdn.symm)
          rw [← this, heh]
        · rw [← heh, hself e he d hd (hen.trans hdn.symm)]
    | none =>
      simp only []
      rw [inv.dims n h]
      constructor
      · rintro ⟨e, he, hh⟩; exact ⟨e, by simp [he], hh⟩
      · rintro ⟨e, he, hen, heh⟩
        rcases List.mem_append.1 he with he | he
        · exact ⟨e, he, hen, heh⟩
        · have := List.find?_eq_none.1 hf e he
          simp [hen] at this
  · intro a ha b hb e
    rcases List.mem_append.1 ha with ha | ha <;> rcases List.mem_append.1 hb with hb | hb
    · exact inv.cons a ha b hb e
    · exact ((descOk_iff inv b).1 (hok b hb)).2.2 a ha e
    · exact (((descOk_iff inv a).1 (hok a ha)).2.2 b hb e.symm).symm
    · exact hself a ha b hb e
  · intro p hp d hd
    simp only [List.mem_append, List.mem_singleton] at hp
    rcases hp with hp | rfl
    · exact List.mem_append.2 (Or.inl (inv.cur_ever p hp d hd))
    · exact List.mem_append.2 (Or.inr hd)

/-- the collector handed to `unregister` names the registered collector by its descriptors (not only
    by a colliding wrapping sum of ids) -/
def WellKeyed (r : Reg) (c : Coll) : Prop :=
  ∀ p ∈ r.collectors, p.1 = cidOf (distinctIds c.descs []) → p.2.descs.map (·.id) = distinctIds c.descs []

theorem nodup_flatMap_filter {α β} (f : α → List β) (q : α → Bool) : ∀ (l : List α), (l.flatMap f).Nodup → ((l.filter q).flatMap f).Nodup := by
  intro l
  induction l with
  | nil => intro h; simpa using h
  | cons a t ih =>
    intro h
    simp only [List.flatMap_cons, List.nodup_append] at h
    obtain ⟨h1, h2, h3⟩ := h
    by_cases hq : q a = true
    · simp only [List.filter_cons, hq, if_true, List.flatMap_cons, List.nodup_append]
      refine ⟨h1, ih h2, ?_⟩
      intro x hx y hy
      apply h3 x hx y
      obtain ⟨z, hz, hy⟩ := List.mem_flatMap.1 hy
      exact List.mem_flatMap.2 ⟨z, (List.mem_filter.1 hz).1, hy⟩
    · simp only [List.filter_cons, hq, Bool.false_eq_true, if_false]
      exact ih h2

theorem mem_two_collectors {r : Reg} (hn : (curIds r).Nodup) {p q : UInt64 × Coll} (hp : p ∈ r.collectors) (hq : q ∈ r.collectors)
    (hne : p.1 ≠ q.1) (i : UInt64) (hip : i ∈ p.2.descs.map (·.id)) (hiq : i ∈ q.2.descs.map (·.id)) : False := by
  unfold curIds at hn
  generalize r.collectors = l at hn hp hq
  induction l with
  | nil => cases hp
  | cons a t ih =>
    simp only [List.flatMap_cons, List.nodup_append] at hn
    obtain ⟨_, h2, h3⟩ := hn
    rcases List.mem_cons.1 hp with hpa | hp <;> rcases List.mem_cons.1 hq with hqa | hq
    · exact hne (by rw [hpa, hqa])
    · rw [hpa] at hip
      exact h3 i hip i (List.mem_flatMap.2 ⟨q, hq, hiq⟩) rfl
    · rw [hqa] at hiq
      exact h3 i hiq i (List.mem_flatMap.2 ⟨p, hp, hip⟩) rfl
    · exact ih h2 hp hq

theorem regInv_unregister {r : Reg} {ever : List Desc} (inv : RegInv r ever) (c : Coll) (hwk : WellKeyed r c)
    (h : (r.unregister c).2 = .ok ()) : RegInv (r.unregister c).1 ever := by
  have hany : r.collectors.any (·.1 == cidOf (distinctIds c.descs [])) = true := by
    unfold Reg.unregister at h
    simp only [] at h
    split at h
    · assumption
    · cases h
  have hst : (r.unregister c).1 =
      { r with
        collectors := r.collectors.filter (fun p => p.1 != cidOf (distinctIds c.descs []))
        descIds := r.descIds.filter (fun i => !((distinctIds c.descs []).contains i)) } := by
    unfold Reg.unregister
    simp only []
    rw [if_pos hany]
  obtain ⟨p0, hp0, hp0c⟩ := List.any_eq_true.1 hany
  have hp0c' : p0.1 = cidOf (distinctIds c.descs []) := by simpa using hp0c
  have hp0ids := hwk p0 hp0 hp0c'
  rw [hst]
  constructor
  · intro i
    simp only [curIds, List.mem_filter, List.mem_flatMap]
    constructor
    · rintro ⟨hi, hnot⟩
      obtain ⟨q, hq, hiq⟩ := List.mem_flatMap.1 ((inv.ids_iff i).1 hi)
      refine ⟨q, ⟨hq, ?_⟩, hiq⟩
      have : q.1 ≠ cidOf (distinctIds c.descs []) := by
        intro e
        have := hwk q hq e
        rw [this] at hiq
        simp at hnot
        exact hnot hiq
      simpa using this
    · rintro ⟨q, ⟨hq, hqc⟩, hiq⟩
      have hqc' : q.1 ≠ cidOf (distinctIds c.descs []) := by simpa using hqc
      refine ⟨(inv.ids_iff i).2 (List.mem_flatMap.2 ⟨q, hq, hiq⟩), ?_⟩
      have : i ∉ distinctIds c.descs [] := by
        intro hi
        rw [← hp0ids] at hi
        exact mem_two_collectors inv.nodup hp0 hq (by rw [hp0c']; exact fun e => hqc' e.symm) i hi hiq
      simpa using this
  · exact nodup_flatMap_filter _ _ _ inv.nodup
  · intro p hp; exact inv.cid p (List.mem_filter.1 hp).1
  · exact inv.dims
  · exact inv.cons
  · intro p hp; exact inv.cur_ever p (List.mem_filter.1 hp).1

/-! ### histories -/

inductive ROp
  | reg (c : Coll)
  | unreg (c : Coll)

/-- one call: the registry and the descriptors ever admitted -/
def everAfter : Except RErr Unit → List Desc → List Desc → List Desc
  | .ok _, ever, ds => ever ++ ds
  | .error _, ever, _ => ever

def stepR (s : Reg × List Desc) : ROp → Reg × List Desc
  | .reg c => ((s.1.register c).1, everAfter (s.1.register c).2 s.2 c.descs)
  | .unreg c => ((s.1.unregister c).1, s.2)

/-- every unregister call of the history is well keyed at its point -/
def WellKeyedHist : Reg × List Desc → List ROp → Prop
  | _, [] => True
  | s, .reg c :: ops => WellKeyedHist (stepR s (.reg c)) ops
  | s, .unreg c :: ops => WellKeyed s.1 c ∧ WellKeyedHist (stepR s (.unreg c)) ops

theorem regInv_step {s : Reg × List Desc} (inv : RegInv s.1 s.2) (op : ROp)
    (hwk : match op with | .unreg c => WellKeyed s.1 c | _ => True) : RegInv (stepR s op).1 (stepR s op).2 := by
  cases op with
  | reg c =>
    unfold stepR
    cases hr : (s.1.register c).2 with
    | ok u =>
      cases u
      simp only [hr, everAfter]
      exact regInv_register inv c hr
    | error e =>
      simp only [hr, everAfter]
      unfold Reg.register at hr ⊢
      cases hl : regLoop s.1 c.descs [] [] 0 with
      | error e' => simp only []; exact inv
      | ok t =>
        obtain ⟨ids, nd, cid⟩ := t
        rw [hl] at hr
        simp only [] at hr ⊢
        split
        · exact inv
        · rename_i hc; simp [hc] at hr
  | unreg c =>
    unfold stepR
    simp only []
    cases hr : (s.1.unregister c).2 with
    | ok u => cases u; exact regInv_unregister inv c hwk hr
    | error e =>
      have : (s.1.unregister c).1 = s.1 := by
        unfold Reg.unregister at hr ⊢
        simp only [] at hr ⊢
        split
        · rename_i hc; simp [hc] at hr
        · rfl
      rw [this]; exact inv

theorem regInv_history : ∀ (ops : List ROp) (s : Reg × List Desc), RegInv s.1 s.2 → WellKeyedHist s ops →
    RegInv (ops.foldl stepR s).1 (ops.foldl stepR s).2 := by
  intro ops
  induction ops with
  | nil => intro s inv _; exact inv
  | cons op t ih =>
    intro s inv hwk
    simp only [List.foldl_cons]
    cases op with
    | reg c => exact ih _ (regInv_step inv (.reg c) trivial) hwk
    | unreg c => exact ih _ (regInv_step inv (.unreg c) hwk.1) hwk.2

theorem distinctIds_of_nodup : ∀ (ds : List Desc) (acc : List UInt64), (acc ++ ds.map (·.id)).Nodup →
    distinctIds ds acc = acc ++ ds.map (·.id) := by
  intro ds
  induction ds with
  | nil => intro acc _; simp [distinctIds]
  | cons d t ih =>
    intro acc h
    have hd : acc.contains d.id = false := by
      have := (List.nodup_append.1 h).2.2
      have hne : d.id ∉ acc := fun hm => this d.id hm d.id (by simp) rfl
      simpa using hne
    unfold distinctIds
    simp only [hd, Bool.false_eq_true, if_false]
    rw [ih (acc ++ [d.id]) (by simpa [List.append_assoc] using h)]
    simp [List.append_assoc]

end Prom.C06
