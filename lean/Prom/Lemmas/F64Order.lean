import Prom.Base.F64
/- Order laws of the bit-level IEEE order (proved, no axioms, no `Float`). -/
namespace Prom

theorem f64Le_iff (a b : UInt64) :
    f64Le a b = true ↔ f64IsNaN a = false ∧ f64IsNaN b = false ∧ f64Key a ≤ f64Key b := by
  simp [f64Le, Bool.and_eq_true, and_assoc]

theorem f64Lt_iff (a b : UInt64) :
    f64Lt a b = true ↔ f64IsNaN a = false ∧ f64IsNaN b = false ∧ f64Key a < f64Key b := by
  simp [f64Lt, Bool.and_eq_true, and_assoc]

theorem f64Le_trans {a b c : UInt64} (h1 : f64Le a b = true) (h2 : f64Le b c = true) :
    f64Le a c = true := by
  simp only [f64Le_iff] at *
  exact ⟨h1.1, h2.2.1, by omega⟩

theorem f64Le_of_le_of_lt {a b c : UInt64} (h1 : f64Le a b = true) (h2 : f64Lt b c = true) :
    f64Le a c = true := by
  simp only [f64Le_iff, f64Lt_iff] at *
  exact ⟨h1.1, h2.2.1, by omega⟩

theorem f64Lt_trans {a b c : UInt64} (h1 : f64Lt a b = true) (h2 : f64Lt b c = true) :
    f64Lt a c = true := by
  simp only [f64Lt_iff] at *
  exact ⟨h1.1, h2.2.1, by omega⟩

theorem f64Le_refl {a : UInt64} (h : f64IsNaN a = false) : f64Le a a = true := by
  simp only [f64Le_iff]; exact ⟨h, h, by omega⟩

/-- total off NaN -/
theorem f64Le_total {a b : UInt64} (ha : f64IsNaN a = false) (hb : f64IsNaN b = false) :
    f64Le a b = true ∨ f64Le b a = true := by
  simp only [f64Le_iff]
  by_cases h : f64Key a ≤ f64Key b
  · exact Or.inl ⟨ha, hb, h⟩
  · exact Or.inr ⟨hb, ha, by omega⟩

/-- NaN is incomparable -/
theorem f64Le_nan_left {a : UInt64} (b : UInt64) (h : f64IsNaN a = true) : f64Le a b = false := by
  simp [f64Le, h]
theorem f64Le_nan_right (a : UInt64) {b : UInt64} (h : f64IsNaN b = true) : f64Le a b = false := by
  simp [f64Le, h]

theorem f64Le_false_iff {a b : UInt64} (ha : f64IsNaN a = false) (hb : f64IsNaN b = false) :
    f64Le a b = false ↔ f64Key b < f64Key a := by
  simp [f64Le, ha, hb]

/-- `!(a >= b)` on numbers is `a < b` -/
theorem f64_not_ge_iff_lt {a b : UInt64} (ha : f64IsNaN a = false) (hb : f64IsNaN b = false) :
    f64Ge a b = false ↔ f64Lt a b = true := by
  unfold f64Ge
  rw [f64Le_false_iff hb ha, f64Lt_iff]
  constructor
  · intro h; exact ⟨ha, hb, h⟩
  · intro h; exact h.2.2

theorem f64Lt_not_le {a b : UInt64} (h : f64Lt a b = true) : f64Le b a = false := by
  rw [f64Lt_iff] at h
  rw [f64Le_false_iff h.2.1 h.1]; exact h.2.2

/-- `-0.0` and `+0.0` compare equal. -/
theorem f64_zero_eq : f64Le 0x8000000000000000 0 = true ∧ f64Le 0 0x8000000000000000 = true := by
  decide

/-- `+Inf` is above every number. -/
theorem f64PosInf_not_nan : f64IsNaN f64PosInf = false := by decide

end Prom
