import Prom.Lemmas.PbRoundtrip
/-
The messages the library builds (`familyFields`) are already in the write order of the regenerated
writer table at every level, so the reader returns them unchanged (`canon … = id` on them).
These lemmas are about `Gen.writerTable`: a reordering of the writes in proto_model.rs breaks them.
-/
namespace Prom.C13
open Prom Prom.Pb

abbrev T := Prom.Gen.writerTable

theorem lkLabel : lookupMsg T "LabelPair" = some [⟨"name", 1, .str, false, .tagLenBytes⟩, ⟨"value", 2, .str, false, .tagLenBytes⟩] := by decide +kernel
theorem lkGauge : lookupMsg T "Gauge" = some [⟨"value", 1, .double, false, .tagFixed64⟩] := by decide +kernel
theorem lkCounter : lookupMsg T "Counter" = some [⟨"value", 1, .double, false, .tagFixed64⟩] := by decide +kernel
theorem lkQuantile : lookupMsg T "Quantile" = some [⟨"quantile", 1, .double, false, .tagFixed64⟩, ⟨"value", 2, .double, false, .tagFixed64⟩] := by decide +kernel
theorem lkSummary : lookupMsg T "Summary" = some [⟨"sample_count", 1, .uint64, false, .tagVarint⟩, ⟨"sample_sum", 2, .double, false, .tagFixed64⟩, ⟨"quantile", 3, (.msg "Quantile"), true, .tagLenBytes⟩] := by decide +kernel
theorem lkBucket : lookupMsg T "Bucket" = some [⟨"cumulative_count", 1, .uint64, false, .tagVarint⟩, ⟨"upper_bound", 2, .double, false, .tagFixed64⟩] := by decide +kernel
theorem lkHist : lookupMsg T "Histogram" = some [⟨"sample_count", 1, .uint64, false, .tagVarint⟩, ⟨"sample_sum", 2, .double, false, .tagFixed64⟩, ⟨"bucket", 3, (.msg "Bucket"), true, .tagLenBytes⟩] := by decide +kernel
theorem lkMetric : lookupMsg T "Metric" = some [⟨"label", 1, (.msg "LabelPair"), true, .tagLenBytes⟩, ⟨"gauge", 2, (.msg "Gauge"), false, .tagLenBytes⟩,
    ⟨"counter", 3, (.msg "Counter"), false, .tagLenBytes⟩, ⟨"summary", 4, (.msg "Summary"), false, .tagLenBytes⟩,
    ⟨"untyped", 5, (.msg "Untyped"), false, .tagLenBytes⟩, ⟨"histogram", 7, (.msg "Histogram"), false, .tagLenBytes⟩,
    ⟨"timestamp_ms", 6, .int64, false, .tagVarint⟩] := by decide +kernel
theorem lkFamily : lookupMsg T "MetricFamily" = some [⟨"name", 1, .str, false, .tagLenBytes⟩, ⟨"help", 2, .str, false, .tagLenBytes⟩,
    ⟨"type", 3, .enum, false, .tagVarint⟩, ⟨"metric", 4, (.msg "Metric"), true, .tagLenBytes⟩] := by decide +kernel

@[simp] theorem filter_const_false {α} (l : List α) : l.filter (fun _ => false) = [] := by induction l <;> simp_all
@[simp] theorem filter_const_true {α} (l : List α) : l.filter (fun _ => true) = l := by induction l <;> simp_all

theorem canon_label (d : Nat) (wf : WField) (h : wf.kind = .msg "LabelPair") (p : LabelPair) :
    canonV T (d + 1) wf (labelMsg p) = labelMsg p := by
  simp [canonV, labelMsg, h, lkLabel, emitOrder]

theorem canon_val (d : Nat) (v : MVal) :
    (emitOrder [⟨"label", 1, (.msg "LabelPair"), true, .tagLenBytes⟩, ⟨"gauge", 2, (.msg "Gauge"), false, .tagLenBytes⟩,
      ⟨"counter", 3, (.msg "Counter"), false, .tagLenBytes⟩, ⟨"summary", 4, (.msg "Summary"), false, .tagLenBytes⟩,
      ⟨"untyped", 5, (.msg "Untyped"), false, .tagLenBytes⟩, ⟨"histogram", 7, (.msg "Histogram"), false, .tagLenBytes⟩,
      ⟨"timestamp_ms", 6, .int64, false, .tagVarint⟩] (valFields v)).map (fun p => (p.1.name, canonV T (d + 2) p.1 p.2)) = valFields v := by
  cases v <;> simp [canonV, valFields, lkGauge, lkCounter, lkSummary, lkQuantile, lkHist, lkBucket, emitOrder, List.filter_map, Function.comp_def]

theorem canon_sample (d : Nat) (wf : WField) (h : wf.kind = .msg "Metric") (s : Sample) :
    canonV T (d + 3) wf (sampleMsg s) = sampleMsg s := by
  unfold sampleMsg
  cases hv : s.val <;> by_cases ht : (s.ts != 0) = true <;>
    simp [canonV, h, ht, valFields, labelMsg, lkMetric, lkLabel, lkGauge, lkCounter, lkSummary, lkQuantile, lkHist, lkBucket, emitOrder,
      List.filter_map, Function.comp_def]

theorem canon_family (d : Nat) (f : Family) : canon T (d + 4) "MetricFamily" (familyFields f) = familyFields f := by
  unfold canon familyFields
  simp [lkFamily, emitOrder, List.filter_map, Function.comp_def, canonV, canon_sample]

end Prom.C13
