import Prom.Base.Fnv
/- The separator-terminated encoding is injective on strings that do not contain the separator,
   and UTF-8 never contains 0xFF. -/
namespace Prom

def NoSep (s : UInt8) (x : Str) : Prop := ∀ b ∈ x, b ≠ s
abbrev NoFF (x : Str) : Prop := NoSep 0xFF x

theorem append_sep_inj (s : UInt8) : ∀ (x y r t : List UInt8), NoSep s x → NoSep s y →
    x ++ s :: r = y ++ s :: t → x = y ∧ r = t := by
  intro x
  induction x with
  | nil =>
    intro y r t _ hy h
    cases y with
    | nil => simpa using h
    | cons b y =>
      simp at h
      exact absurd h.1.symm (hy b (by simp))
  | cons a x ih =>
    intro y r t hx hy h
    cases y with
    | nil =>
      simp at h
      exact absurd h.1 (hx a (by simp))
    | cons b y =>
      simp at h
      obtain ⟨hab, ht⟩ := h
      have := ih y r t (fun c hc => hx c (by simp [hc])) (fun c hc => hy c (by simp [hc])) ht
      exact ⟨by simp [hab, this.1], this.2⟩

theorem sepEnc_inj (s : UInt8) : ∀ (xs ys : List Str), (∀ x ∈ xs, NoSep s x) → (∀ y ∈ ys, NoSep s y) →
    sepEnc s xs = sepEnc s ys → xs = ys := by
  intro xs
  induction xs with
  | nil =>
    intro ys _ _ h
    cases ys with
    | nil => rfl
    | cons y ys => simp [sepEnc] at h
  | cons x xs ih =>
    intro ys hx hy h
    cases ys with
    | nil => simp [sepEnc] at h
    | cons y ys =>
      simp only [sepEnc, List.flatMap_cons, List.append_assoc, List.singleton_append] at h
      have := append_sep_inj s x y _ _ (hx x (by simp)) (hy y (by simp)) h
      have h2 := ih ys (fun z hz => hx z (by simp [hz])) (fun z hz => hy z (by simp [hz])) this.2
      simp [this.1, h2]

theorem sepEnc_inj_iff (s : UInt8) (xs ys : List Str) (hx : ∀ x ∈ xs, NoSep s x) (hy : ∀ y ∈ ys, NoSep s y) :
    sepEnc s xs = sepEnc s ys ↔ xs = ys :=
  ⟨sepEnc_inj s xs ys hx hy, fun h => h ▸ rfl⟩

/-! ### UTF-8 (Lean core's `String.utf8EncodeChar`, the standard encoder) -/

theorem ofNat_ne_ff {k : Nat} (h : k < 255) : UInt8.ofNat k ≠ 0xFF := by
  intro e
  have := congrArg UInt8.toNat e
  simp at this
  omega

/-- no byte of a UTF-8 encoded character is 0xFF -/
theorem utf8_char_noFF (c : Char) : ∀ b ∈ String.utf8EncodeChar c, b ≠ 0xFF := by
  intro b hb
  unfold String.utf8EncodeChar at hb
  simp only [] at hb
  split at hb
  · simp only [List.mem_cons, List.not_mem_nil, or_false] at hb
    subst hb; exact ofNat_ne_ff (by omega)
  · split at hb
    · simp only [List.mem_cons, List.not_mem_nil, or_false] at hb
      rcases hb with rfl | rfl <;> exact ofNat_ne_ff (by omega)
    · split at hb
      · simp only [List.mem_cons, List.not_mem_nil, or_false] at hb
        rcases hb with rfl | rfl | rfl <;> exact ofNat_ne_ff (by omega)
      · simp only [List.mem_cons, List.not_mem_nil, or_false] at hb
        rcases hb with rfl | rfl | rfl | rfl <;> exact ofNat_ne_ff (by omega)

/-- every UTF-8 string (the encoding of any list of Unicode scalar values) is free of 0xFF:
    `SEPARATOR_BYTE` really separates. -/
theorem utf8_noFF (cs : List Char) : NoFF (cs.flatMap String.utf8EncodeChar) := by
  intro b hb
  rw [List.mem_flatMap] at hb
  obtain ⟨c, _, hc⟩ := hb
  exact utf8_char_noFF c b hc

theorem ofNat_not_lt_80 {k : Nat} (h1 : 128 ≤ k) (h2 : k < 256) : ¬ (UInt8.ofNat k < 0x80) := by
  intro hlt
  rw [UInt8.lt_iff_toNat_lt, UInt8.toNat_ofNat'] at hlt
  have : (0x80 : UInt8).toNat = 128 := by decide
  omega

/-- a byte < 0x80 in a UTF-8 encoded character means the character is that ASCII character:
    byte-level ASCII tests agree with char-level ASCII tests. -/
theorem utf8_char_ascii (c : Char) (b : UInt8) (hb : b ∈ String.utf8EncodeChar c) (h : b < 0x80) :
    String.utf8EncodeChar c = [b] ∧ b.toNat = c.val.toNat := by
  unfold String.utf8EncodeChar at hb ⊢
  simp only [] at hb ⊢
  split at hb
  · rename_i hv
    simp only [List.mem_cons, List.not_mem_nil, or_false] at hb
    subst hb
    rw [if_pos hv]
    refine ⟨rfl, ?_⟩
    rw [UInt8.toNat_ofNat']
    omega
  · split at hb
    · simp only [List.mem_cons, List.not_mem_nil, or_false] at hb
      rcases hb with rfl | rfl <;> exact absurd h (ofNat_not_lt_80 (by omega) (by omega))
    · split at hb
      · simp only [List.mem_cons, List.not_mem_nil, or_false] at hb
        rcases hb with rfl | rfl | rfl <;> exact absurd h (ofNat_not_lt_80 (by omega) (by omega))
      · simp only [List.mem_cons, List.not_mem_nil, or_false] at hb
        rcases hb with rfl | rfl | rfl | rfl <;> exact absurd h (ofNat_not_lt_80 (by omega) (by omega))

end Prom
