import Prom.Model.Conc
/-
Real-time order of a ghost commit log, once for all replay machines whose threads are `Conc.Th` and
whose log entries carry `(tid, idx)` = (thread, index of the call whose step appended the entry).

A machine state is seen through a `View`: its threads and the `(tid, idx)` of its log entries, in
log order. `Step` is what every accepted item of the vector machine does to the view, `StrictStep`
what every accepted item of the registry machine does (in addition: a thread whose call index does
not advance is busy afterwards). Everything below is about views only; `C10RealTime.lean` and
`C06RealTime.lean` show that the machines' items are such steps and transport the results.
-/
namespace Prom.RT
open Prom Prom.Conc

/-- the part of a machine state the real-time argument looks at -/
structure View (Pc : Type) where
  ths : List (Th Pc)
  log : List (Nat × Nat)

/-- a call of the thread is open (`pc`) or complete and waiting for its return mark (`retv`) -/
def busy {Pc} (th : Th Pc) : Bool := th.pc.isSome || th.retv.isSome

/-- one accepted item: one thread `t` is replaced, it keeps its program, its call index does not
    decrease, and the log stays as it is or gets ONE new entry `(t, idx of t)` - the latter only by a
    thread whose call is open (`pc ≠ none`), and then the call index stays -/
def Step {Pc} (v v' : View Pc) : Prop :=
  ∃ t th th', v.ths[t]? = some th ∧ v'.ths = v.ths.set t th' ∧ th'.ops = th.ops ∧ th.idx ≤ th'.idx ∧
    (v'.log = v.log ∨ (th'.idx = th.idx ∧ th.pc.isSome = true ∧ v'.log = v.log ++ [(t, th.idx)]))

/-- one accepted item of a machine without sub-calls: either a return mark (call index + 1, log
    unchanged), or the call index stays, the thread is busy afterwards, and the log stays or gets one
    entry `(t, idx of t)` appended by a thread whose call is open -/
def StrictStep {Pc} (v v' : View Pc) : Prop :=
  ∃ t th th', v.ths[t]? = some th ∧ v'.ths = v.ths.set t th' ∧ th'.ops = th.ops ∧
    ((th'.idx = th.idx + 1 ∧ v'.log = v.log) ∨
     (th'.idx = th.idx ∧ busy th' = true ∧
       (v'.log = v.log ∨ (th.pc.isSome = true ∧ v'.log = v.log ++ [(t, th.idx)]))))

/-- a strict step is a step -/
theorem StrictStep.toStep {Pc} {v v' : View Pc} (h : StrictStep v v') : Step v v' := by
  obtain ⟨t, th, th', hth, hs, hops, h⟩ := h
  refine ⟨t, th, th', hth, hs, hops, ?_⟩
  rcases h with ⟨hi, hl⟩ | ⟨hi, _, hl | ⟨hp, hl⟩⟩
  · exact ⟨by omega, .inl hl⟩
  · exact ⟨by omega, .inl hl⟩
  · exact ⟨by omega, .inr ⟨hi, hp, hl⟩⟩

/-- looking up a thread after one thread has been replaced -/
theorem getElem?_set_of_some {α} {l : List α} {t : Nat} {a : α} (ht : l[t]? = some a) (x : α) (u : Nat) :
    (l.set t x)[u]? = if t = u then some x else l[u]? := by
  have hlt : t < l.length := (List.getElem?_eq_some_iff.mp ht).1
  rw [List.getElem?_set]
  by_cases h : t = u
  · subst h; simp [hlt]
  · simp [h]

/-- a step keeps every thread, with its program, and call indices only grow -/
theorem Step.th_pres {Pc} {v v' : View Pc} (h : Step v v') {u : Nat} {thu : Th Pc} (hu : v.ths[u]? = some thu) :
    ∃ thu', v'.ths[u]? = some thu' ∧ thu'.ops = thu.ops ∧ thu.idx ≤ thu'.idx := by
  obtain ⟨t, th, th', hth, hs, hops, hidx, _⟩ := h
  rw [hs, getElem?_set_of_some hth]
  by_cases htu : t = u
  · subst htu
    rw [hth] at hu; cases hu
    exact ⟨th', by simp, hops, hidx⟩
  · exact ⟨thu, by simp [htu, hu], rfl, Nat.le_refl _⟩

/-- a step keeps the number of threads -/
theorem Step.length {Pc} {v v' : View Pc} (h : Step v v') : v'.ths.length = v.ths.length := by
  obtain ⟨t, th, th', _, hs, _⟩ := h
  rw [hs, List.length_set]

/-- a step only appends to the log -/
theorem Step.log_prefix {Pc} {v v' : View Pc} (h : Step v v') : v.log <+: v'.log := by
  obtain ⟨t, th, th', _, _, _, _, hl | ⟨_, _, hl⟩⟩ := h
  · rw [hl]; exact List.prefix_refl _
  · rw [hl]; exact List.prefix_append _ _

/-! ## the invariants -/

/-- every log entry belongs to an existing thread and to a call that thread has at least reached -/
def Bound {Pc} (v : View Pc) : Prop :=
  ∀ x ∈ v.log, ∃ th, v.ths[x.1]? = some th ∧ x.2 ≤ th.idx

/-- every log entry belongs to an existing thread, and to a call that has returned (`idx` below the
    thread's) or to the thread's current call, which is then open or complete (not "not started") -/
def Inv {Pc} (v : View Pc) : Prop :=
  ∀ x ∈ v.log, ∃ th, v.ths[x.1]? = some th ∧ (x.2 < th.idx ∨ (x.2 = th.idx ∧ busy th = true))

theorem Inv.bound {Pc} {v : View Pc} (h : Inv v) : Bound v := by
  intro x hx
  obtain ⟨th, hth, h⟩ := h x hx
  exact ⟨th, hth, by omega⟩

/-- `Bound` is preserved by every step -/
theorem Step.bound {Pc} {v v' : View Pc} (hb : Bound v) (h : Step v v') : Bound v' := by
  have old : ∀ x ∈ v.log, ∃ th, v'.ths[x.1]? = some th ∧ x.2 ≤ th.idx := by
    intro x hx
    obtain ⟨thx, hthx, hle⟩ := hb x hx
    obtain ⟨thx', h1, _, h2⟩ := h.th_pres hthx
    exact ⟨thx', h1, Nat.le_trans hle h2⟩
  obtain ⟨t, th, th', hth, hs, hops, hidx, hl | ⟨hi, _, hl⟩⟩ := h
  · intro x hx; rw [hl] at hx; exact old x hx
  · intro x hx
    rw [hl] at hx
    rcases List.mem_append.1 hx with hx | hx
    · exact old x hx
    · simp only [List.mem_singleton] at hx
      subst hx
      refine ⟨th', ?_, by simp only; omega⟩
      rw [hs, getElem?_set_of_some hth]; simp

/-- `Inv` is preserved by every strict step -/
theorem StrictStep.inv {Pc} {v v' : View Pc} (hv : Inv v) (h : StrictStep v v') : Inv v' := by
  obtain ⟨t, th, th', hth, hs, hops, hcase⟩ := h
  have hnew : v'.ths[t]? = some th' := by rw [hs, getElem?_set_of_some hth]; simp
  have old : ∀ x ∈ v.log, ∃ th, v'.ths[x.1]? = some th ∧ (x.2 < th.idx ∨ (x.2 = th.idx ∧ busy th = true)) := by
    intro x hx
    obtain ⟨thx, hthx, hle⟩ := hv x hx
    by_cases hxt : t = x.1
    · rw [← hxt, hth] at hthx; cases hthx
      refine ⟨th', hxt ▸ hnew, ?_⟩
      rcases hcase with ⟨hi, _⟩ | ⟨hi, hb, _⟩
      · left; omega
      · rcases hle with hlt | ⟨he, _⟩
        · left; omega
        · right; exact ⟨by omega, hb⟩
    · refine ⟨thx, ?_, hle⟩
      rw [hs, getElem?_set_of_some hth]; simp [hxt, hthx]
  rcases hcase with ⟨_, hl⟩ | ⟨hi, hb, hl | ⟨_, hl⟩⟩
  · intro x hx; rw [hl] at hx; exact old x hx
  · intro x hx; rw [hl] at hx; exact old x hx
  · intro x hx
    rw [hl] at hx
    rcases List.mem_append.1 hx with hx | hx
    · exact old x hx
    · simp only [List.mem_singleton] at hx
      subst hx
      exact ⟨th', hnew, .inr ⟨hi.symm, hb⟩⟩

/-- under `Bound`, a call the thread has not reached yet has no entry in the log -/
theorem Bound.no_entry_future {Pc} {v : View Pc} (hb : Bound v) {t i : Nat} {th : Th Pc}
    (hth : v.ths[t]? = some th) (hi : th.idx < i) : ∀ x ∈ v.log, x ≠ (t, i) := by
  intro x hx he
  subst he
  obtain ⟨th0, h0, hle⟩ := hb _ hx
  simp only at h0 hle
  rw [hth] at h0; cases h0
  omega

/-- under `Inv`, the next call of an idle thread (no call open, none waiting for its return mark)
    has no entry in the log -/
theorem Inv.no_entry_idle {Pc} {v : View Pc} (hv : Inv v) {t i : Nat} {th : Th Pc}
    (hth : v.ths[t]? = some th) (hi : i = th.idx) (hpc : th.pc = none) (hrv : th.retv = none) :
    ∀ x ∈ v.log, x ≠ (t, i) := by
  intro x hx he
  subst he
  obtain ⟨th0, h0, hle⟩ := hv _ hx
  simp only at h0 hle
  rw [hth] at h0; cases h0
  rcases hle with h | ⟨_, h⟩
  · omega
  · simp [busy, hpc, hrv] at h

/-! ## continuations -/

/-- `v'` continues `v`: same threads (programs kept, call indices only grown), the log of `v` is a
    prefix of the log of `v'`, and every entry appended since carries `(tid, idx)` of a call that had
    not returned in `v` (`idx` at least the thread's call index in `v`) -/
def Ext {Pc} (v v' : View Pc) : Prop :=
  v'.ths.length = v.ths.length ∧
  (∀ (t : Nat) (th : Th Pc), v.ths[t]? = some th → ∃ th' : Th Pc, v'.ths[t]? = some th' ∧ th'.ops = th.ops ∧ th.idx ≤ th'.idx) ∧
  ∃ ext, v'.log = v.log ++ ext ∧ ∀ x ∈ ext, ∃ th, v.ths[x.1]? = some th ∧ th.idx ≤ x.2

theorem Ext.refl {Pc} (v : View Pc) : Ext v v :=
  ⟨rfl, fun _ th h => ⟨th, h, rfl, Nat.le_refl _⟩, [], by simp, by simp⟩

/-- a continuation followed by a step is a continuation -/
theorem Ext.step {Pc} {v v' v'' : View Pc} (h : Ext v v') (hs : Step v' v'') : Ext v v'' := by
  obtain ⟨hlen, hpres, ext, hlog, hext⟩ := h
  refine ⟨hs.length.trans hlen, ?_, ?_⟩
  · intro t th hth
    obtain ⟨th1, h1, ho1, hi1⟩ := hpres t th hth
    obtain ⟨th2, h2, ho2, hi2⟩ := hs.th_pres h1
    exact ⟨th2, h2, ho2.trans ho1, Nat.le_trans hi1 hi2⟩
  · obtain ⟨t, th, th', hth, _, _, _, hl | ⟨_, _, hl⟩⟩ := hs
    · exact ⟨ext, by rw [hl, hlog], hext⟩
    · refine ⟨ext ++ [(t, th.idx)], by rw [hl, hlog, List.append_assoc], ?_⟩
      intro x hx
      rcases List.mem_append.1 hx with hx | hx
      · exact hext x hx
      · simp only [List.mem_singleton] at hx
        subst hx
        have hlt : t < v.ths.length := by
          rw [← hlen]; exact (List.getElem?_eq_some_iff.mp hth).1
        obtain ⟨th0, h0⟩ : ∃ th0, v.ths[t]? = some th0 := ⟨v.ths[t], List.getElem?_eq_getElem hlt⟩
        obtain ⟨th1, h1, _, hi1⟩ := hpres t th0 h0
        rw [hth] at h1; cases h1
        exact ⟨th0, h0, hi1⟩

theorem Ext.log_prefix {Pc} {v v' : View Pc} (h : Ext v v') : v.log <+: v'.log := by
  obtain ⟨_, _, ext, hlog, _⟩ := h
  exact ⟨ext, hlog.symm⟩

/-- the entries of a call that has returned in `v` are all in the log of `v` already: in every
    continuation they sit at positions below `v.log.length` -/
theorem Ext.returned_pos {Pc} {v v' : View Pc} (h : Ext v v') {t i : Nat} {th : Th Pc}
    (hth : v.ths[t]? = some th) (hi : i < th.idx) {p : Nat} (hp : v'.log[p]? = some (t, i)) :
    p < v.log.length := by
  obtain ⟨_, _, ext, hlog, hext⟩ := h
  rw [hlog, List.getElem?_append] at hp
  by_cases hlt : p < v.log.length
  · exact hlt
  · simp only [hlt, if_false] at hp
    obtain ⟨th0, h0, hle⟩ := hext _ (List.mem_of_getElem? hp)
    simp only at h0 hle
    rw [hth] at h0; cases h0
    omega

/-- the entries of a call that has no entry in the log of `v` sit, in every continuation, at
    positions from `v.log.length` on -/
theorem Ext.fresh_pos {Pc} {v v' : View Pc} (h : Ext v v') {t i : Nat}
    (hno : ∀ x ∈ v.log, x ≠ (t, i)) {q : Nat} (hq : v'.log[q]? = some (t, i)) :
    v.log.length ≤ q := by
  obtain ⟨_, _, ext, hlog, _⟩ := h
  rw [hlog, List.getElem?_append] at hq
  by_cases hlt : q < v.log.length
  · simp only [hlt, if_true] at hq
    exact absurd rfl (hno _ (List.mem_of_getElem? hq))
  · omega

/-- **real-time order on views**: a call `(t, i)` that has returned in `v` precedes, in the log of
    every continuation, every call `(t', i')` that has no entry in the log of `v` -/
theorem Ext.order {Pc} {v v' : View Pc} (h : Ext v v') {t i t' i' : Nat} {th : Th Pc}
    (hth : v.ths[t]? = some th) (hi : i < th.idx) (hno : ∀ x ∈ v.log, x ≠ (t', i'))
    {p q : Nat} (hp : v'.log[p]? = some (t, i)) (hq : v'.log[q]? = some (t', i')) : p < q := by
  have := h.returned_pos hth hi hp
  have := h.fresh_pos hno hq
  omega

/-! ## call and return marks -/

/-- an accepted call mark: the thread was idle; program and call index stay; afterwards the call is
    open with the program counter `mk op`, or (skipped call) complete -/
theorem openCall_ok {Pc} {th th' : Th Pc} {i op : String} {mk : String → Option Pc} {skip : String → Bool}
    (h : openCall th i op mk skip = .ok th') :
    th.pc = none ∧ th.retv = none ∧ th'.ops = th.ops ∧ th'.idx = th.idx ∧
      ((th'.retv = some "" ∧ th'.pc = none) ∨ (th'.pc = mk op ∧ th'.retv = none)) := by
  unfold openCall at h
  split at h
  · cases h
  · next hopen =>
    have hpc : th.pc = none := by cases hh : th.pc <;> simp_all
    have hrv : th.retv = none := by cases hh : th.retv <;> simp_all
    split at h
    · cases h
    · split at h
      · cases h
      · split at h
        · cases h; exact ⟨hpc, hrv, rfl, rfl, .inl ⟨rfl, hpc⟩⟩
        · cases h; exact ⟨hpc, hrv, rfl, rfl, .inr ⟨rfl, hrv⟩⟩

/-- an accepted return mark: the call was complete; the program stays, the call index advances by one -/
theorem closeCall_ok {Pc} {th th' : Th Pc} {i v : String} (h : closeCall th i v = .ok th') :
    th.retv.isSome = true ∧ th'.ops = th.ops ∧ th'.idx = th.idx + 1 ∧ th'.pc = th.pc ∧ th'.retv = none := by
  unfold closeCall at h
  split at h
  · cases h
  · next rv hrv =>
    split at h
    · cases h
    · split at h
      · cases h
      · cases h; exact ⟨by simp [hrv], rfl, rfl, rfl, rfl⟩

end Prom.RT
