import Prom.Lemmas.C01Mono
import Prom.Lemmas.F64Order
/-
C01 — whole-run monotonicity of the FLOAT counter cell (`float = true`).

IEEE addition is a parameter of the model (`f64Add` goes through Lean's opaque `Float`), so the one
fact needed about it is a named hypothesis: `AddMono` — adding a delta `>= +0` to a value `>= +0`
gives a result `>=` that value (IEEE `<=`, so in particular not NaN). Under it, an increment-only
log (`FloatIncOnly`) passes the executable check `floatStepsMonoB` (`floatStepsMonoB_of_addMono`);
the driver evaluates that check on the commit log of every replayed float-counter run, so the
hypothesis is discharged per run on exactly the additions that happened. From the check alone
(no assumption on `f64Add`) the values along the log are ordered (`float_values_le`) and so are the
results of two committed `get`s (`spec_reads_monotone_float`).
-/
namespace Prom.C01
open Prom Prom.Conc

/-- the assumed behaviour of IEEE-754 binary64 addition (round to nearest even): adding a
    non-negative, non-NaN delta to a non-negative, non-NaN value does not give a smaller value and
    does not give NaN -/
def AddMono : Prop :=
  ∀ v d : UInt64, f64Le 0 v = true → f64Le 0 d = true → f64Le v (f64Add v d) = true

/-- every operation of the log is a `get` or an add of a delta `>= +0` -/
def FloatIncOnly (l : List LinEv) : Prop := ∀ x ∈ l, floatIncOp x.op = true

/-- an add of the float flavour, in the specification: IEEE addition of its delta -/
theorem specApply_float_delta (v : UInt64) {op : String} {d : UInt64} (hd : floatDelta op = some d) :
    specApply true v op = some (f64Add v d, "") := by
  obtain ⟨hng, hns⟩ := floatDelta_some_names hd
  unfold specApply
  simp [hng, hns, hd]

/-- one step of the check -/
theorem floatStepsMonoB_cons {v : UInt64} {x : LinEv} {r : List LinEv}
    (hm : floatStepsMonoB v (x :: r) = true) :
    ∃ v' rv, specApply true v x.op = some (v', rv) ∧ f64Le v v' = true ∧ floatStepsMonoB v' r = true := by
  unfold floatStepsMonoB at hm
  split at hm
  · next v' rv hsp =>
    simp only [Bool.and_eq_true] at hm
    exact ⟨v', rv, hsp, hm.1, hm.2⟩
  · cases hm

/-- generalised form: every recorded value is `>=` the start value, and the values are sorted -/
theorem float_values_monotone_from (v : UInt64) (l : List LinEv) (hm : floatStepsMonoB v l = true) :
    (∀ u ∈ valuesAlong true v l, f64Le v u = true) ∧
      List.Pairwise (fun a b => f64Le a b = true) (valuesAlong true v l) := by
  induction l generalizing v with
  | nil => simp [valuesAlong]
  | cons x r ih =>
    obtain ⟨v', rv, hsp, hle, hr⟩ := floatStepsMonoB_cons hm
    obtain ⟨ih1, ih2⟩ := ih v' hr
    simp only [valuesAlong, hsp]
    refine ⟨?_, List.pairwise_cons.mpr ⟨ih1, ih2⟩⟩
    intro u hu
    rcases List.mem_cons.mp hu with rfl | hu
    · exact hle
    · exact f64Le_trans hle (ih1 u hu)

/-- what `floatStepsMonoB` establishes: any two values along the log are ordered as their positions -/
theorem float_values_le {v : UInt64} {l : List LinEv} (hm : floatStepsMonoB v l = true)
    {i j : Nat} (hij : i < j) {vi vj : UInt64}
    (hi : (valuesAlong true v l)[i]? = some vi) (hj : (valuesAlong true v l)[j]? = some vj) :
    f64Le vi vj = true := by
  obtain ⟨hi', rfl⟩ := List.getElem?_eq_some_iff.mp hi
  obtain ⟨hj', rfl⟩ := List.getElem?_eq_some_iff.mp hj
  exact List.pairwise_iff_getElem.mp (float_values_monotone_from v l hm).2 i j hi' hj' hij

/-- ... and every value along the log is `>=` the starting value -/
theorem float_values_ge_start {v : UInt64} {l : List LinEv} (hm : floatStepsMonoB v l = true)
    {i : Nat} {vi : UInt64} (hi : (valuesAlong true v l)[i]? = some vi) :
    f64Le v vi = true :=
  (float_values_monotone_from v l hm).1 vi (List.mem_of_getElem? hi)

/-- **reads of an increment-only float history never decrease** — a legal sequential history of the
    float cell from `+0` that passes the step check: two `get`s at positions `i < j` of the log
    returned `hexStr vi` and `hexStr vj`, the values of the cell at those positions, and
    `vi <= vj` in IEEE order -/
theorem spec_reads_monotone_float {l : List LinEv} {w : UInt64} (hs : specRun true 0 l = some w)
    (hm : floatStepsMonoB 0 l = true) {i j : Nat} (hij : i < j) {x y : LinEv}
    (hx : l[i]? = some x) (hy : l[j]? = some y)
    (hgx : opName x.op = "get") (hgy : opName y.op = "get") :
    ∃ vi vj, (valuesAlong true 0 l)[i]? = some vi ∧ (valuesAlong true 0 l)[j]? = some vj ∧
      x.rv = hexStr vi ∧ y.rv = hexStr vj ∧ f64Le vi vj = true := by
  obtain ⟨vi, hvi, hri, _⟩ := specRun_get hs hx hgx
  obtain ⟨vj, hvj, hrj, _⟩ := specRun_get hs hy hgy
  exact ⟨vi, vj, hvi, hvj, hri, hrj, float_values_le hm hij hvi hvj⟩

/-- under `AddMono` every increment-only log started from a value `>= +0` passes the step check -/
theorem floatStepsMonoB_of_addMono (ha : AddMono) {v : UInt64} {l : List LinEv}
    (hv : f64Le 0 v = true) (hi : FloatIncOnly l) : floatStepsMonoB v l = true := by
  induction l generalizing v with
  | nil => rfl
  | cons x r ih =>
    have hx := hi x (List.mem_cons_self ..)
    have hr : FloatIncOnly r := fun y hy => hi y (List.mem_cons_of_mem _ hy)
    have hnn : f64IsNaN v = false := ((f64Le_iff 0 v).mp hv).2.1
    unfold floatIncOp at hx
    by_cases hg : opName x.op = "get"
    · unfold floatStepsMonoB
      simp only [specApply_get true v hg, Bool.and_eq_true]
      exact ⟨f64Le_refl hnn, ih hv hr⟩
    · have hgb : (opName x.op == "get") = false := by simpa using hg
      rw [hgb, Bool.false_or] at hx
      split at hx
      · next d hd =>
        have hstep := ha v d hv hx
        unfold floatStepsMonoB
        simp only [specApply_float_delta v hd, Bool.and_eq_true]
        exact ⟨hstep, ih (f64Le_trans hv hstep) hr⟩
      · cases hx

/-- the check is not vacuous and not trivially true: it accepts `inc; get` from `+0` … -/
theorem floatStepsMonoB_accepts_example (h1 : f64Le 0 (f64Add 0 (f64OfInt 1)) = true) :
    floatStepsMonoB 0 [⟨0, 0, "inc", ""⟩, ⟨1, 0, "get", hexStr (f64Add 0 (f64OfInt 1))⟩] = true := by
  have hd : floatDelta "inc" = some (f64OfInt 1) := by simp [floatDelta, opName_inc]
  have hnn : f64IsNaN (f64Add 0 (f64OfInt 1)) = false := ((f64Le_iff _ _).mp h1).2.1
  simp only [floatStepsMonoB, specApply_float_delta 0 hd, specApply_get_lit, h1, f64Le_refl hnn,
    Bool.and_self]

/-- … and rejects a log whose only addition lowered the cell -/
theorem floatStepsMonoB_rejects (v : UInt64) (x : LinEv) (r : List LinEv) (d : UInt64)
    (hd : floatDelta x.op = some d) (hbad : f64Le v (f64Add v d) = false) :
    floatStepsMonoB v (x :: r) = false := by
  unfold floatStepsMonoB
  simp only [specApply_float_delta v hd, hbad, Bool.false_and]

end Prom.C01
