import Prom.Gen.Charsets
import Prom.Model.Desc
import Prom.Lemmas.Sep
/-
The character classes TRANSLATED from src/desc.rs (`Prom/Gen/Charsets.lean`, written by
translate/charsets.py: definitions over Unicode scalar values, `Char`) agree with the HAND-WRITTEN
model `Prom/Model/Desc.lean` (definitions over UTF-8 bytes).

* per character: a generated predicate holds of `c` exactly when `c` is ASCII and the byte-level
  class holds of the byte `c`;
* per string: `Gen.genIdentOk` on a list of characters is `isValidIdent` on the bytes of its UTF-8
  encoding (Lean core's `String.utf8EncodeChar`);
* the source may scan `input.chars()` or `input.bytes().map(char::from)` (`Gen.identScansBytes`):
  `genIdentOkSrc` is what it computes on a string either way; for predicates that reject every
  character ≥ U+0080 the two scans give the same answer (`ident_bytes_eq_chars`), so the per-string
  agreement holds for whichever one the source uses (`ident_src_agrees`).
-/
namespace Prom.CharsetsGen
open Prom

/-- the translator recognised every construct it met in src/desc.rs -/
theorem charsets_known : Gen.charsetsKnown = true := rfl

/-! ### UTF-8 facts in the form used here -/

/-- an ASCII character is encoded as the single byte of its code point -/
theorem enc_ascii (c : Char) (h : c.toNat < 128) : String.utf8EncodeChar c = [UInt8.ofNat c.toNat] := by
  have hv : c.val.toNat ≤ 127 := by
    have : c.toNat = c.val.toNat := rfl
    omega
  unfold String.utf8EncodeChar
  simp only []
  rw [if_pos hv]
  rfl

/-- every byte of the encoding of a non-ASCII character is ≥ 0x80 -/
theorem enc_nonascii (c : Char) (h : ¬ c.toNat < 128) : ∀ b ∈ String.utf8EncodeChar c, ¬ b < 0x80 := by
  intro b hb hlt
  have h2 := (utf8_char_ascii c b hb hlt).2
  have h3 : b.toNat < 128 := by
    have e : (0x80 : UInt8).toNat = 128 := by decide
    rw [UInt8.lt_iff_toNat_lt] at hlt; omega
  have : c.toNat = c.val.toNat := rfl
  omega

/-! ### byte-level classes versus character-level classes -/

/-- a byte-level class that contains ASCII bytes only -/
def AsciiOnly (P : UInt8 → Bool) : Prop := ∀ b, P b = true → b < 0x80

/-- the character-level predicate `Q` is the byte-level class `P`, restricted to ASCII characters -/
def Agrees (Q : Char → Bool) (P : UInt8 → Bool) : Prop :=
  ∀ c : Char, Q c = true ↔ c.toNat < 128 ∧ P (UInt8.ofNat c.toNat) = true

/-- a class checked on the 256 byte values is ASCII-only -/
theorem asciiOnly_of_fin (P : UInt8 → Bool)
    (h : ∀ n : Fin 256, P (UInt8.ofNat n.val) = true → n.val < 128) : AsciiOnly P := by
  intro b hb
  have hb' : P (UInt8.ofNat b.toNat) = true := by rw [UInt8.ofNat_toNat]; exact hb
  have := h ⟨b.toNat, b.toNat_lt⟩ hb'
  have e : (0x80 : UInt8).toNat = 128 := by decide
  rw [UInt8.lt_iff_toNat_lt]; simp only at this; omega

/-- agreement from (a) a check of the 128 ASCII code points and (b) falsity above them -/
theorem agrees_of_fin (Q : Char → Bool) (P : UInt8 → Bool)
    (hlo : ∀ n : Fin 128, Q (Char.ofNat n.val) = P (UInt8.ofNat n.val))
    (hhi : ∀ c : Char, ¬ c.toNat < 128 → Q c = false) : Agrees Q P := by
  intro c
  by_cases h : c.toNat < 128
  · have := hlo ⟨c.toNat, h⟩
    simp only [Char.ofNat_toNat] at this
    rw [this]
    exact ⟨fun hp => ⟨h, hp⟩, fun hp => hp.2⟩
  · rw [hhi c h]
    exact ⟨fun hp => Bool.noConfusion hp, fun hp => absurd hp.1 h⟩

/-- all bytes of one encoded character are in an ASCII-only class `P` exactly when the character
    is in the corresponding character class -/
theorem all_enc {Q : Char → Bool} {P : UInt8 → Bool} (hA : AsciiOnly P) (hQ : Agrees Q P) (c : Char) :
    (String.utf8EncodeChar c).all P = Q c := by
  by_cases h : c.toNat < 128
  · rw [enc_ascii c h]
    simp only [List.all_cons, List.all_nil, Bool.and_true]
    cases hq : Q c with
    | true => exact ((hQ c).1 hq).2
    | false =>
      cases hp : P (UInt8.ofNat c.toNat) with
      | false => rfl
      | true => rw [(hQ c).2 ⟨h, hp⟩] at hq; cases hq
  · have hq : Q c = false := by
      cases hq : Q c with
      | false => rfl
      | true => exact absurd ((hQ c).1 hq).1 h
    rw [hq]
    cases he : String.utf8EncodeChar c with
    | nil => exact absurd he String.utf8EncodeChar_ne_nil
    | cons b t =>
      have hb : b ∈ String.utf8EncodeChar c := by rw [he]; exact List.mem_cons_self
      have hnb : P b = false := by
        cases hp : P b with
        | false => rfl
        | true => exact absurd (hA b hp) (enc_nonascii c h b hb)
      simp only [List.all_cons, hnb, Bool.false_and]

/-- … and the same over a whole string -/
theorem all_flatMap_enc {Q : Char → Bool} {P : UInt8 → Bool} (hA : AsciiOnly P) (hQ : Agrees Q P)
    (cs : List Char) : (cs.flatMap String.utf8EncodeChar).all P = cs.all Q := by
  induction cs with
  | nil => rfl
  | cons c r ih =>
    rw [List.flatMap_cons, List.all_append, ih, all_enc hA hQ c, List.all_cons]

/-- **the generated control shape is the model's**: for any first/rest character predicates that
    agree with the byte-level classes `start` / `start ∪ digits`, `Gen.genIdentOk` on characters is
    `isValidIdent start` on the UTF-8 bytes -/
theorem ident_agrees (first rest : Char → Bool) (start : UInt8 → Bool)
    (hS : AsciiOnly start) (hR' : AsciiOnly (fun b => start b || isAsciiDigit b))
    (hF : Agrees first start) (hR : Agrees rest (fun b => start b || isAsciiDigit b)) (cs : List Char) :
    Gen.genIdentOk first rest cs = isValidIdent start (cs.flatMap String.utf8EncodeChar) := by
  cases cs with
  | nil => rfl
  | cons c r =>
    have hgen : Gen.genIdentOk first rest (c :: r) = (first c && r.all rest) := rfl
    rw [hgen, List.flatMap_cons, ← all_flatMap_enc hR' hR r]
    by_cases h : c.toNat < 128
    · rw [enc_ascii c h]
      have hfc : first c = start (UInt8.ofNat c.toNat) := by
        have := all_enc hS hF c
        rw [enc_ascii c h] at this
        simpa using this.symm
      rw [hfc]
      rfl
    · have hq : first c = false := by
        cases hq : first c with
        | false => rfl
        | true => exact absurd ((hF c).1 hq).1 h
      rw [hq, Bool.false_and]
      cases he : String.utf8EncodeChar c with
      | nil => exact absurd he String.utf8EncodeChar_ne_nil
      | cons b t =>
        have hb : b ∈ String.utf8EncodeChar c := by rw [he]; exact List.mem_cons_self
        have hnb : start b = false := by
          cases hp : start b with
          | false => rfl
          | true => exact absurd (hS b hp) (enc_nonascii c h b hb)
        simp only [List.cons_append, isValidIdent, hnb, Bool.false_and]

/-! ### scanning the UTF-8 bytes, each as a `char`, instead of the characters -/

/-- Rust's `char::from(b: u8)`: the scalar value U+0000..U+00FF with the value of the byte -/
def byteChar (b : UInt8) : Char := Char.ofNat b.toNat

theorem byteChar_toNat (b : UInt8) : (byteChar b).toNat = b.toNat := by
  have hb := b.toNat_lt
  have hv : Nat.isValidChar b.toNat := Or.inl (by omega)
  unfold byteChar
  rw [Char.ofNat, dif_pos hv]
  rfl

/-- the byte of an ASCII character, as a `char`, is that character -/
theorem byteChar_ofNat_toNat (c : Char) (h : c.toNat < 128) : byteChar (UInt8.ofNat c.toNat) = c := by
  unfold byteChar
  rw [UInt8.toNat_ofNat', Nat.mod_eq_of_lt (by omega), Char.ofNat_toNat]

/-- the list `input.bytes().map(char::from)` iterates over, for the string with the characters `cs` -/
def bytesAsChars (cs : List Char) : List Char := (cs.flatMap String.utf8EncodeChar).map byteChar

/-- a character-level predicate that rejects every character ≥ U+0080 -/
def HiFalse (Q : Char → Bool) : Prop := ∀ c : Char, ¬ c.toNat < 128 → Q c = false

/-- this is what agreement with a byte-level class gives (whatever the class) -/
theorem Agrees.hiFalse {Q : Char → Bool} {P : UInt8 → Bool} (hQ : Agrees Q P) : HiFalse Q := by
  intro c h
  cases hq : Q c with
  | false => rfl
  | true => exact absurd ((hQ c).1 hq).1 h

/-- every byte of a non-ASCII character, as a `char`, is rejected by such a predicate -/
theorem hiFalse_enc_nonascii {Q : Char → Bool} (hQ : HiFalse Q) (c : Char) (h : ¬ c.toNat < 128) :
    ∀ b ∈ String.utf8EncodeChar c, Q (byteChar b) = false := by
  intro b hb
  apply hQ
  rw [byteChar_toNat]
  have hnb := enc_nonascii c h b hb
  have e : (0x80 : UInt8).toNat = 128 := by decide
  rw [UInt8.lt_iff_toNat_lt] at hnb; omega

/-- all bytes-as-chars of one encoded character pass `Q` exactly when the character does -/
theorem all_enc_byteChar {Q : Char → Bool} (hQ : HiFalse Q) (c : Char) :
    ((String.utf8EncodeChar c).map byteChar).all Q = Q c := by
  by_cases h : c.toNat < 128
  · rw [enc_ascii c h]
    simp only [List.map_cons, List.map_nil, List.all_cons, List.all_nil, Bool.and_true,
      byteChar_ofNat_toNat c h]
  · rw [hQ c h]
    cases he : String.utf8EncodeChar c with
    | nil => exact absurd he String.utf8EncodeChar_ne_nil
    | cons b t =>
      have hb : b ∈ String.utf8EncodeChar c := by rw [he]; exact List.mem_cons_self
      simp only [List.map_cons, List.all_cons, hiFalse_enc_nonascii hQ c h b hb, Bool.false_and]

/-- … and the same over a whole string -/
theorem all_bytesAsChars {Q : Char → Bool} (hQ : HiFalse Q) (cs : List Char) :
    (bytesAsChars cs).all Q = cs.all Q := by
  unfold bytesAsChars
  induction cs with
  | nil => rfl
  | cons c r ih =>
    rw [List.flatMap_cons, List.map_append, List.all_append, ih, all_enc_byteChar hQ c, List.all_cons]

/-- **scanning bytes = scanning characters**: for first/rest predicates that reject every character
    ≥ U+0080, the generated control shape run over the UTF-8 bytes of a string, each turned into a
    `char`, answers what it answers run over the characters of the string. (A multi-byte character
    contributes 2-4 elements instead of one, every one of them ≥ U+0080: rejected either way.) -/
theorem ident_bytes_eq_chars (first rest : Char → Bool) (hF : HiFalse first) (hR : HiFalse rest)
    (cs : List Char) :
    Gen.genIdentOk first rest (bytesAsChars cs) = Gen.genIdentOk first rest cs := by
  cases cs with
  | nil => rfl
  | cons c r =>
    have hgen : ∀ x xs, Gen.genIdentOk first rest (x :: xs) = (first x && xs.all rest) := fun _ _ => rfl
    have hsplit : bytesAsChars (c :: r) = (String.utf8EncodeChar c).map byteChar ++ bytesAsChars r := by
      unfold bytesAsChars
      rw [List.flatMap_cons, List.map_append]
    rw [hsplit, hgen c r, ← all_bytesAsChars hR r]
    by_cases h : c.toNat < 128
    · rw [enc_ascii c h]
      simp only [List.map_cons, List.map_nil, List.cons_append, List.nil_append,
        byteChar_ofNat_toNat c h]
      exact hgen _ _
    · rw [hF c h, Bool.false_and]
      cases he : String.utf8EncodeChar c with
      | nil => exact absurd he String.utf8EncodeChar_ne_nil
      | cons b t =>
        have hb : b ∈ String.utf8EncodeChar c := by rw [he]; exact List.mem_cons_self
        rw [List.map_cons, List.cons_append, hgen, hiFalse_enc_nonascii hF c h b hb, Bool.false_and]

/-- **what the source computes on the string with the characters `cs`**: the generated control shape
    over `input.bytes().map(char::from)` or over `input.chars()`, as the translator found it
    (`Gen.identScansBytes`) -/
def genIdentOkSrc (first rest : Char → Bool) (cs : List Char) : Bool :=
  if Gen.identScansBytes then Gen.genIdentOk first rest (bytesAsChars cs) else Gen.genIdentOk first rest cs

/-- whichever of the two the source scans, predicates that reject every character ≥ U+0080 make it
    the scan of the characters -/
theorem genIdentOkSrc_eq_chars (first rest : Char → Bool) (hF : HiFalse first) (hR : HiFalse rest)
    (cs : List Char) : genIdentOkSrc first rest cs = Gen.genIdentOk first rest cs := by
  unfold genIdentOkSrc
  split
  · exact ident_bytes_eq_chars first rest hF hR cs
  · rfl

/-- `ident_agrees` for what the source computes, for either scan -/
theorem ident_src_agrees (first rest : Char → Bool) (start : UInt8 → Bool)
    (hS : AsciiOnly start) (hR' : AsciiOnly (fun b => start b || isAsciiDigit b))
    (hF : Agrees first start) (hR : Agrees rest (fun b => start b || isAsciiDigit b)) (cs : List Char) :
    genIdentOkSrc first rest cs = isValidIdent start (cs.flatMap String.utf8EncodeChar) := by
  rw [genIdentOkSrc_eq_chars first rest hF.hiFalse hR.hiFalse cs]
  exact ident_agrees first rest start hS hR' hF hR cs

/-! ### the four generated predicates -/

theorem labelStart_asciiOnly : AsciiOnly labelStart :=
  asciiOnly_of_fin _ (by decide +kernel)

theorem metricStart_asciiOnly : AsciiOnly metricStart :=
  asciiOnly_of_fin _ (by decide +kernel)

theorem labelRest_asciiOnly : AsciiOnly (fun b => labelStart b || isAsciiDigit b) :=
  asciiOnly_of_fin _ (by decide +kernel)

theorem metricRest_asciiOnly : AsciiOnly (fun b => metricStart b || isAsciiDigit b) :=
  asciiOnly_of_fin _ (by decide +kernel)

/-- above the ASCII range every range / equality test of the generated predicates fails -/
theorem hi_false (c : Char) (h : ¬ c.toNat < 128) :
    Gen.genLabelFirstOk c = false ∧ Gen.genLabelRestOk c = false ∧
    Gen.genMetricFirstOk c = false ∧ Gen.genMetricRestOk c = false := by
  simp only [Gen.genLabelFirstOk, Gen.genLabelRestOk, Gen.genMetricFirstOk, Gen.genMetricRestOk,
    Gen.genFirstBody, Gen.genRestBody, Gen.matches_charset_with_colon, Gen.matches_charset_without_colon,
    Bool.or_eq_false_iff, Bool.and_eq_false_iff, decide_eq_false_iff_not, beq_eq_false_iff_ne, ne_eq]
  omega

/-- `[a-zA-Z_]` translated from the source = `labelStart` on ASCII, nothing else -/
theorem label_first_agrees : Agrees Gen.genLabelFirstOk labelStart :=
  agrees_of_fin _ _ (by decide +kernel) (fun c h => (hi_false c h).1)

/-- `[a-zA-Z0-9_]` -/
theorem label_rest_agrees : Agrees Gen.genLabelRestOk (fun b => labelStart b || isAsciiDigit b) :=
  agrees_of_fin _ _ (by decide +kernel) (fun c h => (hi_false c h).2.1)

/-- `[a-zA-Z_:]` -/
theorem metric_first_agrees : Agrees Gen.genMetricFirstOk metricStart :=
  agrees_of_fin _ _ (by decide +kernel) (fun c h => (hi_false c h).2.2.1)

/-- `[a-zA-Z0-9_:]` -/
theorem metric_rest_agrees : Agrees Gen.genMetricRestOk (fun b => metricStart b || isAsciiDigit b) :=
  agrees_of_fin _ _ (by decide +kernel) (fun c h => (hi_false c h).2.2.2)

/-- translated metric-name validator = hand-written one, on the UTF-8 bytes -/
theorem metric_ident_agrees (cs : List Char) :
    Gen.genIdentOk Gen.genMetricFirstOk Gen.genMetricRestOk cs
      = isValidMetricName (cs.flatMap String.utf8EncodeChar) :=
  ident_agrees _ _ metricStart metricStart_asciiOnly metricRest_asciiOnly metric_first_agrees
    metric_rest_agrees cs

/-- translated label-name validator = hand-written one, on the UTF-8 bytes -/
theorem label_ident_agrees (cs : List Char) :
    Gen.genIdentOk Gen.genLabelFirstOk Gen.genLabelRestOk cs
      = isValidLabelName (cs.flatMap String.utf8EncodeChar) :=
  ident_agrees _ _ labelStart labelStart_asciiOnly labelRest_asciiOnly label_first_agrees
    label_rest_agrees cs

/-- what the source computes for metric names (over the characters or over the bytes, as translated)
    = hand-written validator on the UTF-8 bytes -/
theorem metric_ident_src_agrees (cs : List Char) :
    genIdentOkSrc Gen.genMetricFirstOk Gen.genMetricRestOk cs
      = isValidMetricName (cs.flatMap String.utf8EncodeChar) :=
  ident_src_agrees _ _ metricStart metricStart_asciiOnly metricRest_asciiOnly metric_first_agrees
    metric_rest_agrees cs

/-- … for label names -/
theorem label_ident_src_agrees (cs : List Char) :
    genIdentOkSrc Gen.genLabelFirstOk Gen.genLabelRestOk cs
      = isValidLabelName (cs.flatMap String.utf8EncodeChar) :=
  ident_src_agrees _ _ labelStart labelStart_asciiOnly labelRest_asciiOnly label_first_agrees
    label_rest_agrees cs

end Prom.CharsetsGen
