import Prom.Lemmas.C07Aux
import Prom.Lemmas.SampleOrder
/- Determinism of `gather` under permutation of the collected families (C07 `deterministic`). -/
namespace Prom.C07
open Prom

abbrev mergeStep (acc : List Family) (f : Family) : List Family := if f.samples.isEmpty then acc else famInsert f acc

theorem famInsert_names_iff (f : Family) (l : List Family) (x : Str) :
    x ∈ (famInsert f l).map (·.name) ↔ x = f.name ∨ x ∈ l.map (·.name) := by
  constructor
  · exact famInsert_names f l x
  · induction l with
    | nil => intro h; rcases h with h | h; simp [famInsert, h]; simp at h
    | cons g r ih =>
      intro h
      unfold famInsert
      split
      · rename_i he
        have he' : g.name = f.name := by simpa using he
        simp only [List.map_cons, List.mem_cons] at h ⊢
        rcases h with h | h | h
        · exact Or.inl (h.trans he'.symm)
        · exact Or.inl h
        · exact Or.inr h
      · split
        · simp only [List.map_cons, List.mem_cons] at h ⊢
          rcases h with h | h | h
          · exact Or.inl h
          · exact Or.inr (Or.inl h)
          · exact Or.inr (Or.inr h)
        · simp only [List.map_cons, List.mem_cons] at h ⊢
          rcases h with h | h | h
          · exact Or.inr (ih (Or.inl h))
          · exact Or.inl h
          · exact Or.inr (ih (Or.inr h))

theorem fold_names_iff (c : List Family) : ∀ (acc : List Family) (x : Str),
    x ∈ (c.foldl mergeStep acc).map (·.name) ↔ x ∈ acc.map (·.name) ∨ ∃ f ∈ c, f.samples ≠ [] ∧ f.name = x := by
  induction c with
  | nil => intro acc x; simp
  | cons f r ih =>
    intro acc x
    simp only [List.foldl_cons]
    rw [ih]
    unfold mergeStep
    by_cases he : f.samples.isEmpty = true
    · have hes : f.samples = [] := by simpa using he
      simp only [he, if_true]
      constructor
      · rintro (h | ⟨g, hg, hne, hn⟩)
        · exact Or.inl h
        · exact Or.inr ⟨g, by simp [hg], hne, hn⟩
      · rintro (h | ⟨g, hg, hne, hn⟩)
        · exact Or.inl h
        · rcases List.mem_cons.1 hg with rfl | hg
          · exact absurd hes hne
          · exact Or.inr ⟨g, hg, hne, hn⟩
    · have hne : f.samples ≠ [] := by simpa using he
      simp only [he, Bool.false_eq_true, if_false]
      rw [famInsert_names_iff]
      constructor
      · rintro ((h | h) | ⟨g, hg, hne', hn⟩)
        · exact Or.inr ⟨f, by simp, hne, h.symm⟩
        · exact Or.inl h
        · exact Or.inr ⟨g, by simp [hg], hne', hn⟩
      · rintro (h | ⟨g, hg, hne', hn⟩)
        · exact Or.inl (Or.inr h)
        · rcases List.mem_cons.1 hg with rfl | hg
          · exact Or.inl (Or.inl hn.symm)
          · exact Or.inr ⟨g, hg, hne', hn⟩

/-- the names of the merged families are exactly the names of the non-empty collected families -/
theorem merged_names_iff (c : List Family) (x : Str) :
    x ∈ (merged c).map (·.name) ↔ ∃ f ∈ c, f.samples ≠ [] ∧ f.name = x := by
  have := fold_names_iff c [] x
  have e : merged c = c.foldl mergeStep [] := rfl
  rw [e]
  simpa using this

/-- help and type of a merged family come from a non-empty collected family of that name -/
theorem fold_attrs (c : List Family) : ∀ (acc : List Family),
    (∀ g ∈ acc, ∃ f ∈ c, f.samples ≠ [] ∧ f.name = g.name ∧ f.help = g.help ∧ f.ty = g.ty) → True := fun _ _ => trivial

theorem merged_attrs_aux (all : List Family) : ∀ (rest acc : List Family), (∀ f ∈ rest, f ∈ all) →
    (∀ g ∈ acc, ∃ f ∈ all, f.samples ≠ [] ∧ f.name = g.name ∧ f.help = g.help ∧ f.ty = g.ty) →
    ∀ g ∈ rest.foldl mergeStep acc, ∃ f ∈ all, f.samples ≠ [] ∧ f.name = g.name ∧ f.help = g.help ∧ f.ty = g.ty := by
  intro rest
  induction rest with
  | nil => intro acc _ h; simpa using h
  | cons f r ih =>
    intro acc hsub hacc
    simp only [List.foldl_cons]
    apply ih _ (fun x hx => hsub x (by simp [hx]))
    unfold mergeStep
    by_cases he : f.samples.isEmpty = true
    · simpa [he] using hacc
    · have hne : f.samples ≠ [] := by simpa using he
      simp only [he, Bool.false_eq_true, if_false]
      intro g hg
      rcases famInsert_mem f acc g hg with rfl | hg | ⟨g0, hg0, _, rfl⟩
      · exact ⟨g, hsub g (by simp), hne, rfl, rfl, rfl⟩
      · exact hacc g hg
      · exact hacc g0 hg0

theorem merged_attrs (c : List Family) :
    ∀ g ∈ merged c, ∃ f ∈ c, f.samples ≠ [] ∧ f.name = g.name ∧ f.help = g.help ∧ f.ty = g.ty :=
  merged_attrs_aux c c [] (fun _ h => h) (by intro g hg; cases hg)

/-- in a list with pairwise distinct (strictly sorted) names, the samples filed under a member's name
    are that member's samples -/
theorem samplesOf_of_mem : ∀ (l : List Family), (l.map (·.name)).Pairwise (· < ·) → ∀ g ∈ l, samplesOf g.name l = g.samples := by
  intro l
  induction l with
  | nil => intro _ g hg; cases hg
  | cons a r ih =>
    intro hs g hg
    simp only [List.map_cons, List.pairwise_cons] at hs
    rw [samplesOf_cons]
    rcases List.mem_cons.1 hg with rfl | hg
    · have hnone : samplesOf g.name r = [] := by
        unfold samplesOf
        have : r.filter (fun x => x.name == g.name) = [] := by
          rw [List.filter_eq_nil_iff]
          intro x hx
          have hlt := hs.1 x.name (List.mem_map.2 ⟨x, hx, rfl⟩)
          have : x.name ≠ g.name := fun e => by rw [e] at hlt; exact List.lt_irrefl _ hlt
          simpa using this
        rw [this]; rfl
      simp [hnone]
    · have hlt := hs.1 g.name (List.mem_map.2 ⟨g, hg, rfl⟩)
      have hne : ¬ (a.name = g.name) := fun e => by rw [e] at hlt; exact List.lt_irrefl _ hlt
      have : (a.name == g.name) = false := by simpa using hne
      simp only [this, Bool.false_eq_true, if_false, List.nil_append]
      exact ih hs.2 g hg

/-- two strictly sorted lists with the same members are equal -/
theorem strict_sorted_ext : ∀ (l₁ l₂ : List Str), l₁.Pairwise (· < ·) → l₂.Pairwise (· < ·) → (∀ x, x ∈ l₁ ↔ x ∈ l₂) → l₁ = l₂ := by
  intro l₁ l₂ h1 h2 hm
  have hp : l₁.Perm l₂ := by
    apply (List.perm_ext_iff_of_nodup _ _).2 hm
    · exact h1.imp (fun h e => by rw [e] at h; exact List.lt_irrefl _ h)
    · exact h2.imp (fun h e => by rw [e] at h; exact List.lt_irrefl _ h)
  exact List.Perm.eq_of_pairwise (le := fun x y => x < y)
    (fun a b _ _ hab hba => absurd hba (List.lt_asymm hab)) h1 h2 hp

theorem map_eq_of_names {β : Type} (F : Family → β) : ∀ (L L' : List Family), L.map (·.name) = L'.map (·.name) →
    (∀ g ∈ L, ∀ g' ∈ L', g.name = g'.name → F g = F g') → L.map F = L'.map F := by
  intro L
  induction L with
  | nil => intro L' h _; cases L' with | nil => rfl | cons a t => simp at h
  | cons g r ih =>
    intro L' h hF
    cases L' with
    | nil => simp at h
    | cons g' r' =>
      simp only [List.map_cons, List.cons.injEq] at h ⊢
      exact ⟨hF g (by simp) g' (by simp) h.1, ih r' h.2 (fun a ha b hb e => hF a (by simp [ha]) b (by simp [hb]) e)⟩

theorem samplesOf_perm (n : Str) {c c' : List Family} (hp : c.Perm c') : (samplesOf n c).Perm (samplesOf n c') := by
  unfold samplesOf
  exact List.Perm.flatMap_right _ (hp.filter _)

end Prom.C07
