import Prom.Lemmas.C10Aux
import Prom.Lemmas.RealTime
import Prom.Lemmas.C01Mono
/-
C10 — the commit order of the vector machine is consistent with real time.

Every entry of the ghost commit log `VSt.lin` carries `(tid, idx)`: the thread whose step performed
the operation and that thread's call index `Th.idx` at that step. This file shows that every accepted
item of `Conc.vItem` is a `RT.Step` of the view (threads, `(tid, idx)` of the log), and transports the
invariant, the prefix property and the order theorem of `Lemmas/RealTime.lean` to the machine.

One peculiarity of this machine: the update through the handle a `with` returned is reported as a
SUB-call (`call <i>u inc` … `ret <i>u`) after call `i` has returned; it has no index of its own in the
program, the thread's call index is already `i + 1`, and it stays `i + 1` when the sub-call returns.
Its commit is therefore logged under `(tid, i + 1)` while the thread may be idle again afterwards
(`pc = none`, `retv = none`) - see `vec_real_time_order` in `Props/C10.lean` for what this means for
the formulation of "has not started".
-/
namespace Prom.C10
open Prom Prom.Conc Prom.RT Prom.C01

/-- the threads and the `(tid, idx)` of the commit log of a vector machine state -/
def vView (s : VSt) : View VPc := ⟨s.ths, s.lin.map fun e => (e.tid, e.idx)⟩

/-- the initial state of a program -/
def vInit (prog : List (List String)) : VSt := { ths := prog.map fun ops => { ops := ops } }

/-- `VRun s s'`: `s'` is reached from `s` by accepting items (a continuation of a run) -/
inductive VRun (s0 : VSt) : VSt → Prop
  | init : VRun s0 s0
  | step {s s' it} : VRun s0 s → vItem s it = .ok s' → VRun s0 s'

/-- continuations compose -/
theorem VRun.trans {s0 s1 s2 : VSt} (h1 : VRun s0 s1) (h2 : VRun s1 s2) : VRun s0 s2 := by
  induction h2 with
  | init => exact h1
  | step _ hs ih => exact .step ih hs

/-- the three acceptors of a handle update (`fetch_add`; load and compare-exchange of the loop form): the
    thread keeps program and call index and is busy afterwards; the commit log stays (load, failed exchange)
    or gets one entry tagged with this thread and its call index (`fetch_add`, successful exchange) -/
theorem vIncAdd_shape {s s' : VSt} {e : Ev} {th : Th VPc} {c : Nat} (h : vIncAdd s e th c = .ok s') :
    ∃ th', s'.ths = s.ths.set e.tid th' ∧ th'.ops = th.ops ∧ th'.idx = th.idx ∧ busy th' = true ∧
      (s'.lin = s.lin ∨ ∃ op res, s'.lin = s.lin ++ [⟨e.tid, th.idx, op, res⟩]) := by
  unfold vIncAdd at h
  rw [guard_ok] at h; obtain ⟨_, h⟩ := h
  rw [guard_ok] at h; obtain ⟨_, h⟩ := h
  split at h
  · cases h
  · next s1 hb =>
    obtain ⟨hths, _, hl⟩ := bindChild_ok hb
    cases h
    refine ⟨{ th with pc := none, retv := some "" }, ?_, rfl, rfl, rfl, .inr ⟨.inc c, (s1.spec.apply (.inc c)).2, ?_⟩⟩
    · show s1.ths.set _ _ = _
      rw [hths]
    · show s1.lin ++ _ = _
      rw [hl]

theorem vIncLoad_shape {s s' : VSt} {e : Ev} {th : Th VPc} {c : Nat} (h : vIncLoad s e th c = .ok s') :
    ∃ th', s'.ths = s.ths.set e.tid th' ∧ th'.ops = th.ops ∧ th'.idx = th.idx ∧ busy th' = true ∧
      (s'.lin = s.lin ∨ ∃ op res, s'.lin = s.lin ++ [⟨e.tid, th.idx, op, res⟩]) := by
  unfold vIncLoad at h
  rw [guard_ok] at h; obtain ⟨_, h⟩ := h
  rw [guard_ok] at h; obtain ⟨_, h⟩ := h
  split at h
  · cases h
  · next s1 hb =>
    obtain ⟨hths, _, hl⟩ := bindChild_ok hb
    cases h
    refine ⟨{ th with pc := some (.incCas c e.res) }, ?_, rfl, rfl, rfl, .inl hl⟩
    show s1.ths.set _ _ = _
    rw [hths]

theorem vIncCas_shape {s s' : VSt} {e : Ev} {th : Th VPc} {c : Nat} {cur : UInt64}
    (h : vIncCas s e th c cur = .ok s') :
    ∃ th', s'.ths = s.ths.set e.tid th' ∧ th'.ops = th.ops ∧ th'.idx = th.idx ∧ busy th' = true ∧
      (s'.lin = s.lin ∨ ∃ op res, s'.lin = s.lin ++ [⟨e.tid, th.idx, op, res⟩]) := by
  unfold vIncCas at h
  rw [guard_ok] at h; obtain ⟨_, h⟩ := h
  split at h
  · cases h
  · next s1 hb =>
    obtain ⟨hths, _, hl⟩ := bindChild_ok hb
    split at h
    · rw [guard_ok] at h; obtain ⟨_, h⟩ := h
      cases h
      refine ⟨{ th with pc := none, retv := some "" }, ?_, rfl, rfl, rfl, .inr ⟨.inc c, (s1.spec.apply (.inc c)).2, ?_⟩⟩
      · show s1.ths.set _ _ = _
        rw [hths]
      · show s1.lin ++ _ = _
        rw [hl]
    · rw [guard_ok] at h; obtain ⟨_, h⟩ := h
      cases h
      refine ⟨{ th with pc := some (.incRetry c e.res) }, ?_, rfl, rfl, rfl, .inl hl⟩
      show s1.ths.set _ _ = _
      rw [hths]

/-- an accepted event: it is a step of an OPEN call of its thread (`pc ≠ none`, i.e. after the call
    mark and before the return mark); the thread keeps program and call index and is busy afterwards;
    the commit log stays or gets one entry, tagged with this thread and its call index -/
theorem vStep_shape {s s' : VSt} {e : Ev} (h : vStep s e = .ok s') :
    ∃ th th', s.ths[e.tid]? = some th ∧ th.pc.isSome = true ∧ s'.ths = s.ths.set e.tid th' ∧
      th'.ops = th.ops ∧ th'.idx = th.idx ∧ busy th' = true ∧
      (s'.lin = s.lin ∨ ∃ op res, s'.lin = s.lin ++ [⟨e.tid, th.idx, op, res⟩]) := by
  unfold vStep at h
  split at h
  · cases h
  · next th hth =>
    split at h
    · cases h
    · next pc hpc =>
      have hp : th.pc.isSome = true := by simp [hpc]
      simp only at h
      split at h
      · -- start
        next op =>
        split at h
        · rw [guard_ok] at h; obtain ⟨_, h⟩ := h
          rw [guard_ok] at h; obtain ⟨_, h⟩ := h
          split at h
          · cases h; exact ⟨th, _, hth, hp, rfl, rfl, rfl, rfl, .inr ⟨_, _, rfl⟩⟩
          · cases h; exact ⟨th, _, hth, hp, rfl, rfl, rfl, rfl, .inl rfl⟩
        · split at h
          · rw [guard_ok] at h; obtain ⟨_, h⟩ := h
            rw [guard_ok] at h; obtain ⟨_, h⟩ := h
            cases h; exact ⟨th, _, hth, hp, rfl, rfl, rfl, rfl, .inr ⟨_, _, rfl⟩⟩
          · split at h
            · -- rm: pre-check under the read lock
              rw [guard_ok] at h; obtain ⟨_, h⟩ := h
              rw [guard_ok] at h; obtain ⟨_, h⟩ := h
              split at h
              · cases h; exact ⟨th, _, hth, hp, rfl, rfl, rfl, rfl, .inr ⟨_, _, rfl⟩⟩
              · cases h; exact ⟨th, _, hth, hp, rfl, rfl, rfl, rfl, .inl rfl⟩
            · split at h
              · -- reset: emptiness pre-check under the read lock
                rw [guard_ok] at h; obtain ⟨_, h⟩ := h
                rw [guard_ok] at h; obtain ⟨_, h⟩ := h
                split at h
                · cases h; exact ⟨th, _, hth, hp, rfl, rfl, rfl, rfl, .inr ⟨_, _, rfl⟩⟩
                · cases h; exact ⟨th, _, hth, hp, rfl, rfl, rfl, rfl, .inl rfl⟩
              · split at h
                · rw [guard_ok] at h; obtain ⟨_, h⟩ := h
                  rw [guard_ok] at h; obtain ⟨_, h⟩ := h
                  cases h; exact ⟨th, _, hth, hp, rfl, rfl, rfl, rfl, .inr ⟨_, _, rfl⟩⟩
                · cases h
      · -- rheld
        rw [guard_ok] at h; obtain ⟨_, h⟩ := h
        split at h
        · cases h; exact ⟨th, _, hth, hp, rfl, rfl, rfl, rfl, .inl rfl⟩
        · cases h; exact ⟨th, _, hth, hp, rfl, rfl, rfl, rfl, .inl rfl⟩
      · -- needW
        rw [guard_ok] at h; obtain ⟨_, h⟩ := h
        rw [guard_ok] at h; obtain ⟨_, h⟩ := h
        split at h
        · cases h; exact ⟨th, _, hth, hp, rfl, rfl, rfl, rfl, .inr ⟨_, _, rfl⟩⟩
        · cases h
      · -- wheld
        rw [guard_ok] at h; obtain ⟨_, h⟩ := h
        cases h; exact ⟨th, _, hth, hp, rfl, rfl, rfl, rfl, .inl rfl⟩
      · -- incChild
        split at h
        · obtain ⟨th', h1, h2, h3, h4, h5⟩ := vIncLoad_shape h
          exact ⟨th, th', hth, hp, h1, h2, h3, h4, h5⟩
        · obtain ⟨th', h1, h2, h3, h4, h5⟩ := vIncAdd_shape h
          exact ⟨th, th', hth, hp, h1, h2, h3, h4, h5⟩
      · -- incCas
        obtain ⟨th', h1, h2, h3, h4, h5⟩ := vIncCas_shape h
        exact ⟨th, th', hth, hp, h1, h2, h3, h4, h5⟩
      · -- incRetry
        split at h
        · obtain ⟨th', h1, h2, h3, h4, h5⟩ := vIncLoad_shape h
          exact ⟨th, th', hth, hp, h1, h2, h3, h4, h5⟩
        · obtain ⟨th', h1, h2, h3, h4, h5⟩ := vIncCas_shape h
          exact ⟨th, th', hth, hp, h1, h2, h3, h4, h5⟩
      · -- collecting
        split at h
        · rw [guard_ok] at h; obtain ⟨_, h⟩ := h
          cases h; exact ⟨th, _, hth, hp, rfl, rfl, rfl, rfl, .inl rfl⟩
        · rw [guard_ok] at h; obtain ⟨_, h⟩ := h
          rw [guard_ok] at h; obtain ⟨_, h⟩ := h
          split at h
          · cases h
          · cases h; exact ⟨th, _, hth, hp, rfl, rfl, rfl, rfl, .inl rfl⟩
      · -- rmRheld
        rw [guard_ok] at h; obtain ⟨_, h⟩ := h
        split at h
        · cases h; exact ⟨th, _, hth, hp, rfl, rfl, rfl, rfl, .inl rfl⟩
        · cases h; exact ⟨th, _, hth, hp, rfl, rfl, rfl, rfl, .inl rfl⟩
      · -- rmNeedW
        rw [guard_ok] at h; obtain ⟨_, h⟩ := h
        rw [guard_ok] at h; obtain ⟨_, h⟩ := h
        cases h; exact ⟨th, _, hth, hp, rfl, rfl, rfl, rfl, .inr ⟨_, _, rfl⟩⟩

/-- an accepted call mark (also of an `inc` sub-call): the log is unchanged, the thread keeps program
    and call index -/
theorem vCall_shape {s s' : VSt} {t : Nat} {i op : String} (h : vItem s (.call t i op) = .ok s') :
    ∃ th th', s.ths[t]? = some th ∧ s'.ths = s.ths.set t th' ∧ th'.ops = th.ops ∧ th'.idx = th.idx ∧
      s'.lin = s.lin := by
  simp only [vItem] at h
  split at h
  · cases h
  · next th hth =>
    split at h
    · split at h
      · split at h
        · next th' ho =>
          cases h
          obtain ⟨_, _, h1, h2, _⟩ := openCall_ok ho
          exact ⟨th, th', hth, rfl, h1, h2, rfl⟩
        · cases h
      · split at h
        · next th' ho =>
          cases h
          obtain ⟨_, _, h1, h2, _⟩ := openCall_ok ho
          exact ⟨th, th', hth, rfl, h1, h2, rfl⟩
        · cases h
    · split at h
      · split at h
        · cases h
        · split at h
          · cases h; exact ⟨th, _, hth, rfl, rfl, rfl, rfl⟩
          · cases h
      · split at h
        · next th' ho =>
          cases h
          obtain ⟨_, _, h1, h2, _⟩ := openCall_ok ho
          exact ⟨th, th', hth, rfl, h1, h2, rfl⟩
        · cases h

/-- an accepted return mark: the log is unchanged, the thread keeps its program, the call index
    advances by one (return of a call of the program) or stays (return of an `inc` sub-call) -/
theorem vRet_shape {s s' : VSt} {t : Nat} {i v : String} (h : vItem s (.ret t i v) = .ok s') :
    ∃ th th', s.ths[t]? = some th ∧ s'.ths = s.ths.set t th' ∧ th'.ops = th.ops ∧
      (th'.idx = th.idx ∨ th'.idx = th.idx + 1) ∧ s'.lin = s.lin := by
  simp only [vItem] at h
  split at h
  · cases h
  · next th hth =>
    split at h
    · split at h
      · cases h; exact ⟨th, _, hth, rfl, rfl, .inl rfl, rfl⟩
      · cases h
    · split at h
      · next th' hc =>
        cases h
        obtain ⟨_, h1, h2, _⟩ := closeCall_ok hc
        exact ⟨th, th', hth, rfl, h1, .inr h2, rfl⟩
      · cases h

/-- every accepted item of the vector machine is a `Step` of the view -/
theorem vItem_step {s s' : VSt} {it : Item} (h : vItem s it = .ok s') : Step (vView s) (vView s') := by
  cases it with
  | ev e =>
    obtain ⟨th, th', hth, hp, hs, hops, hidx, _, hl | ⟨op, res, hl⟩⟩ := vStep_shape h
    · exact ⟨e.tid, th, th', hth, hs, hops, by omega, .inl (by simp [vView, hl])⟩
    · exact ⟨e.tid, th, th', hth, hs, hops, by omega, .inr ⟨hidx, hp, by simp [vView, hl]⟩⟩
  | call t i op =>
    obtain ⟨th, th', hth, hs, hops, hidx, hl⟩ := vCall_shape h
    exact ⟨t, th, th', hth, hs, hops, by omega, .inl (by simp [vView, hl])⟩
  | ret t i v =>
    obtain ⟨th, th', hth, hs, hops, hidx, hl⟩ := vRet_shape h
    exact ⟨t, th, th', hth, hs, hops, by omega, .inl (by simp [vView, hl])⟩
  | other x => simp [vItem] at h

/-- **commits happen inside calls** — an accepted item that changes the commit log is an EVENT of a
    thread whose call is open (after its call mark, before its return mark: `pc ≠ none`), it appends
    exactly one entry, and that entry carries this thread and its current call index; call marks,
    return marks and all other events leave the log alone. (For the handle update reported as
    sub-call `<i>u` the open call is that sub-call, and the index is the thread's current one, `i + 1`.) -/
theorem vItem_commit_within_call {s s' : VSt} {it : Item} (h : vItem s it = .ok s') :
    s'.lin = s.lin ∨
    ∃ e th x, it = .ev e ∧ s.ths[e.tid]? = some th ∧ th.pc.isSome = true ∧
      s'.lin = s.lin ++ [x] ∧ x.tid = e.tid ∧ x.idx = th.idx ∧
      ∃ th', s'.ths[e.tid]? = some th' ∧ th'.idx = th.idx ∧ th'.ops = th.ops := by
  cases it with
  | ev e =>
    obtain ⟨th, th', hth, hp, hs, hops, hidx, _, hl | ⟨op, res, hl⟩⟩ := vStep_shape h
    · exact .inl hl
    · refine .inr ⟨e, th, _, rfl, hth, hp, hl, rfl, rfl, th', ?_, hidx, hops⟩
      rw [hs, getElem?_set_of_some hth]; simp
  | call t i op => obtain ⟨_, _, _, _, _, _, hl⟩ := vCall_shape h; exact .inl hl
  | ret t i v => obtain ⟨_, _, _, _, _, _, hl⟩ := vRet_shape h; exact .inl hl
  | other x => simp [vItem] at h

/-! ## along runs -/

/-- the initial view satisfies the invariant (its log is empty) -/
theorem vInit_bound (prog : List (List String)) : Bound (vView (vInit prog)) := by
  intro x hx; simp [vView, vInit] at hx

/-- **the invariant**: in every state of an accepted run, every entry of the commit log belongs to an
    existing thread and to a call that thread has at least reached (`e.idx ≤ idx` of thread `e.tid`) -/
theorem vRun_bound {prog : List (List String)} {s : VSt} (h : VRun (vInit prog) s) :
    ∀ e ∈ s.lin, ∃ th, s.ths[e.tid]? = some th ∧ e.idx ≤ th.idx := by
  have hb : Bound (vView s) := by
    induction h with
    | init => exact vInit_bound prog
    | step _ hs ih => exact (vItem_step hs).bound ih
  intro e he
  exact hb (e.tid, e.idx) (by simp only [vView, List.mem_map]; exact ⟨e, he, rfl⟩)

/-- a continuation of a run is a continuation of the view -/
theorem vRun_ext {s s' : VSt} (h : VRun s s') : Ext (vView s) (vView s') := by
  induction h with
  | init => exact Ext.refl _
  | step _ hs ih => exact ih.step (vItem_step hs)

/-- **the log only grows by appending**: whatever happens after a state, its commit log stays a
    prefix of the later one -/
theorem vRun_lin_prefix {s s' : VSt} (h : VRun s s') : s.lin <+: s'.lin := by
  induction h with
  | init => exact List.prefix_refl _
  | step _ hs ih => exact ih.trans (vTrans_lin_mono (vItem_trans hs))

/-- along any run a thread keeps its program, and its call index only grows -/
theorem vRun_th_pres {s s' : VSt} (h : VRun s s') {t : Nat} {th : Th VPc} (hth : s.ths[t]? = some th) :
    ∃ th', s'.ths[t]? = some th' ∧ th'.ops = th.ops ∧ th.idx ≤ th'.idx :=
  (vRun_ext h).2.1 t th hth

/-- **new entries belong to calls that had not returned**: the entries appended in a continuation
    `s → s'` carry `(tid, idx)` with `idx` at least the call index thread `tid` had in `s` -/
theorem vRun_new_entries {s s' : VSt} (h : VRun s s') :
    ∃ ext, s'.lin = s.lin ++ ext ∧ ∀ x ∈ ext, ∃ th, s.ths[x.tid]? = some th ∧ th.idx ≤ x.idx := by
  obtain ⟨ext, hext⟩ := vRun_lin_prefix h
  obtain ⟨_, _, ext', hlog, hnew⟩ := vRun_ext h
  refine ⟨ext, hext.symm, ?_⟩
  have : ext' = ext.map fun e => (e.tid, e.idx) := by
    simp only [vView, ← hext, List.map_append] at hlog
    exact (List.append_cancel_left hlog).symm
  subst this
  intro x hx
  exact hnew (x.tid, x.idx) (List.mem_map.2 ⟨x, hx, rfl⟩)

/-- positions in the commit log and in the view's log correspond -/
theorem vView_log_getElem? {s : VSt} {p : Nat} {x : VLin} (h : s.lin[p]? = some x) :
    (vView s).log[p]? = some (x.tid, x.idx) := by
  simp [vView, List.getElem?_map, h]

/-- "no entry of call `(t, i)` in the log", on the view -/
theorem vView_no_entry {s : VSt} {t i : Nat} (h : ∀ e ∈ s.lin, ¬ (e.tid = t ∧ e.idx = i)) :
    ∀ x ∈ (vView s).log, x ≠ (t, i) := by
  intro x hx he
  simp only [vView, List.mem_map] at hx
  obtain ⟨e, hel, hex⟩ := hx
  subst he
  simp only [Prod.mk.injEq] at hex
  exact h e hel hex

/-- a call the thread has not reached yet (`idx` of the thread `< i`) has no entry in the commit log -/
theorem vRun_no_entry_future {prog : List (List String)} {s : VSt} (h : VRun (vInit prog) s)
    {t i : Nat} {th : Th VPc} (hth : s.ths[t]? = some th) (hi : th.idx < i) :
    ∀ e ∈ s.lin, ¬ (e.tid = t ∧ e.idx = i) := by
  intro e he ⟨h1, h2⟩
  obtain ⟨th0, h0, hle⟩ := vRun_bound h e he
  rw [h1, hth] at h0; cases h0
  omega

/-- the entries of a call that has RETURNED in `s` are never added to: in every continuation they
    all sit inside the log of `s` -/
theorem vRun_returned_pos {s s' : VSt} (h' : VRun s s') {t i : Nat} {th : Th VPc}
    (hth : s.ths[t]? = some th) (hret : i < th.idx) {p : Nat} {x : VLin}
    (hx : s'.lin[p]? = some x) (hxt : x.tid = t ∧ x.idx = i) : p < s.lin.length := by
  have := (vRun_ext h').returned_pos (t := t) (i := i) hth hret
    (by rw [vView_log_getElem? hx, hxt.1, hxt.2])
  simpa [vView] using this

/-- **real-time order (general form)**: a call `(t, i)` that has returned in `s` precedes, in the commit
    log of every continuation, every entry of a call `(t', i')` that has no entry in the log of `s` -/
theorem vRun_real_time {s s' : VSt} (h' : VRun s s') {t i t' i' : Nat} {th : Th VPc}
    (hth : s.ths[t]? = some th) (hret : i < th.idx)
    (hno : ∀ e ∈ s.lin, ¬ (e.tid = t' ∧ e.idx = i'))
    {p q : Nat} {x y : VLin} (hx : s'.lin[p]? = some x) (hy : s'.lin[q]? = some y)
    (hxt : x.tid = t ∧ x.idx = i) (hyt : y.tid = t' ∧ y.idx = i') : p < q := by
  refine (vRun_ext h').order (t := t) (i := i) (t' := t') (i' := i') hth hret (vView_no_entry hno) ?_ ?_
  · rw [vView_log_getElem? hx, hxt.1, hxt.2]
  · rw [vView_log_getElem? hy, hyt.1, hyt.2]

/-- a run accepted item by item is a continuation -/
theorem runItems_vRun {s s' : VSt} {tr : List Item} {n : Nat} (h : runItems vItem s tr n = .ok s') :
    VRun s s' := by
  induction tr generalizing s n with
  | nil => simp only [runItems, Except.ok.injEq] at h; subst h; exact .init
  | cons it r ih =>
    simp only [runItems] at h
    split at h
    · next s1 h1 => exact VRun.trans (.step .init h1) (ih h)
    · cases h

/-- closed facts about the literals of the example below -/
theorem splitOn_with_a : "with:a".splitOn ":" = ["with", "a"] := by split_on_lit
theorem opName_with_a : opName "with:a" = "with" := by simp [opName, splitOn_with_a]
theorem opArg_with_a : opArg "with:a" = "a" := by simp [opArg, splitOn_with_a]
theorem endsWith_0u : "0u".endsWith "u" = true := by decide +kernel
theorem endsWith_0 : "0".endsWith "u" = false := by decide +kernel

/-- thread 0: `with(a)` (miss under the read lock, get-or-create under the write lock), returns; the
    update through the returned handle as sub-call `0u`. Then thread 1: `reset`, returns. -/
def subcallTrace : List Item :=
  [.call 0 "0" "with:a",
   .ev ⟨0, "R", "lk", "", 0, 0, 0, true⟩, .ev ⟨0, "r", "lk", "", 0, 0, 0, true⟩,
   .ev ⟨0, "X", "lk", "", 0, 0, 0, true⟩, .ev ⟨0, "x", "lk", "", 0, 0, 0, true⟩,
   .ret 0 "0" "h",
   .call 0 "0u" "inc", .ev ⟨0, "A", "c0", "Relaxed", 1, 0, 0, true⟩, .ret 0 "0u" "",
   .call 1 "0" "reset",
   .ev ⟨1, "X", "lk", "", 0, 0, 0, true⟩, .ev ⟨1, "x", "lk", "", 0, 0, 0, true⟩,
   .ret 1 "0" ""]


/-- closed facts about the literals of the runs below -/
theorem splitOn_rm_a : "rm:a".splitOn ":" = ["rm", "a"] := by split_on_lit
theorem opName_rm_a : opName "rm:a" = "rm" := by simp [opName, splitOn_rm_a]
theorem opArg_rm_a : opArg "rm:a" = "a" := by simp [opArg, splitOn_rm_a]
theorem endsWith_1 : "1".endsWith "u" = false := by decide +kernel

/-- one thread, `rm:a` on the empty vector: the key is looked up under the READ lock, it is absent, the
    call returns "err" - no write lock is taken -/
def rmAbsentTrace : List Item :=
  [.call 0 "0" "rm:a",
   .ev ⟨0, "R", "lk", "", 0, 0, 0, true⟩, .ev ⟨0, "r", "lk", "", 0, 0, 0, true⟩,
   .ret 0 "0" "err"]

/-- one thread: `with:a` (miss under the read lock, get-or-create under the write lock); then `rm:a`:
    the read-locked lookup finds the key, the read lock is released, the key is removed under the write
    lock, the call returns "ok" -/
def rmPresentTrace : List Item :=
  [.call 0 "0" "with:a",
   .ev ⟨0, "R", "lk", "", 0, 0, 0, true⟩, .ev ⟨0, "r", "lk", "", 0, 0, 0, true⟩,
   .ev ⟨0, "X", "lk", "", 0, 0, 0, true⟩, .ev ⟨0, "x", "lk", "", 0, 0, 0, true⟩,
   .ret 0 "0" "h",
   .call 0 "1" "rm:a",
   .ev ⟨0, "R", "lk", "", 0, 0, 0, true⟩, .ev ⟨0, "r", "lk", "", 0, 0, 0, true⟩,
   .ev ⟨0, "X", "lk", "", 0, 0, 0, true⟩, .ev ⟨0, "x", "lk", "", 0, 0, 0, true⟩,
   .ret 0 "1" "ok"]

/-- thread 0 as in `rmPresentTrace`, but thread 1 runs `reset` in the gap between thread 0's read-locked
    lookup (key present) and its write-locked remove: the write-locked remove decides, the call returns
    "err" -/
def rmGapTrace : List Item :=
  [.call 0 "0" "with:a",
   .ev ⟨0, "R", "lk", "", 0, 0, 0, true⟩, .ev ⟨0, "r", "lk", "", 0, 0, 0, true⟩,
   .ev ⟨0, "X", "lk", "", 0, 0, 0, true⟩, .ev ⟨0, "x", "lk", "", 0, 0, 0, true⟩,
   .ret 0 "0" "h",
   .call 0 "1" "rm:a",
   .ev ⟨0, "R", "lk", "", 0, 0, 0, true⟩, .ev ⟨0, "r", "lk", "", 0, 0, 0, true⟩,
   .call 1 "0" "reset",
   .ev ⟨1, "X", "lk", "", 0, 0, 0, true⟩, .ev ⟨1, "x", "lk", "", 0, 0, 0, true⟩,
   .ret 1 "0" "",
   .ev ⟨0, "X", "lk", "", 0, 0, 0, true⟩, .ev ⟨0, "x", "lk", "", 0, 0, 0, true⟩,
   .ret 0 "1" "err"]

/-- closed facts about the literals of the runs below -/
theorem splitOn_with_b : "with:b".splitOn ":" = ["with", "b"] := by split_on_lit
theorem opName_with_b : opName "with:b" = "with" := by simp [opName, splitOn_with_b]
theorem opArg_with_b : opArg "with:b" = "b" := by simp [opArg, splitOn_with_b]

/-- one thread, `reset` on the empty vector: the map is inspected under the READ lock, it is empty, the
    call returns - no write lock is taken -/
def resetEmptyTrace : List Item :=
  [.call 0 "0" "reset",
   .ev ⟨0, "R", "lk", "", 0, 0, 0, true⟩, .ev ⟨0, "r", "lk", "", 0, 0, 0, true⟩,
   .ret 0 "0" ""]

/-- one thread: `with:a` (miss under the read lock, get-or-create under the write lock); then `reset`:
    the read-locked check finds the map non-empty, the read lock is released, the map is cleared under
    the write lock, the call returns -/
def resetNonEmptyTrace : List Item :=
  [.call 0 "0" "with:a",
   .ev ⟨0, "R", "lk", "", 0, 0, 0, true⟩, .ev ⟨0, "r", "lk", "", 0, 0, 0, true⟩,
   .ev ⟨0, "X", "lk", "", 0, 0, 0, true⟩, .ev ⟨0, "x", "lk", "", 0, 0, 0, true⟩,
   .ret 0 "0" "h",
   .call 0 "1" "reset",
   .ev ⟨0, "R", "lk", "", 0, 0, 0, true⟩, .ev ⟨0, "r", "lk", "", 0, 0, 0, true⟩,
   .ev ⟨0, "X", "lk", "", 0, 0, 0, true⟩, .ev ⟨0, "x", "lk", "", 0, 0, 0, true⟩,
   .ret 0 "1" ""]

/-- thread 0 as in `resetNonEmptyTrace`, but thread 1 runs `with:b` in the gap between thread 0's
    read-locked check (map non-empty) and its write-locked section: the reset clears whatever the map
    holds when the write lock is taken - both children -/
def resetGapTrace : List Item :=
  [.call 0 "0" "with:a",
   .ev ⟨0, "R", "lk", "", 0, 0, 0, true⟩, .ev ⟨0, "r", "lk", "", 0, 0, 0, true⟩,
   .ev ⟨0, "X", "lk", "", 0, 0, 0, true⟩, .ev ⟨0, "x", "lk", "", 0, 0, 0, true⟩,
   .ret 0 "0" "h",
   .call 0 "1" "reset",
   .ev ⟨0, "R", "lk", "", 0, 0, 0, true⟩, .ev ⟨0, "r", "lk", "", 0, 0, 0, true⟩,
   .call 1 "0" "with:b",
   .ev ⟨1, "R", "lk", "", 0, 0, 0, true⟩, .ev ⟨1, "r", "lk", "", 0, 0, 0, true⟩,
   .ev ⟨1, "X", "lk", "", 0, 0, 0, true⟩, .ev ⟨1, "x", "lk", "", 0, 0, 0, true⟩,
   .ret 1 "0" "h",
   .ev ⟨0, "X", "lk", "", 0, 0, 0, true⟩, .ev ⟨0, "x", "lk", "", 0, 0, 0, true⟩,
   .ret 0 "1" ""]

/-- NOT accepted: as `resetNonEmptyTrace`, but the `reset` returns right after its read-locked check
    although the map was not empty (the write-locked section is skipped) -/
def resetSkippedTrace : List Item :=
  [.call 0 "0" "with:a",
   .ev ⟨0, "R", "lk", "", 0, 0, 0, true⟩, .ev ⟨0, "r", "lk", "", 0, 0, 0, true⟩,
   .ev ⟨0, "X", "lk", "", 0, 0, 0, true⟩, .ev ⟨0, "x", "lk", "", 0, 0, 0, true⟩,
   .ret 0 "0" "h",
   .call 0 "1" "reset",
   .ev ⟨0, "R", "lk", "", 0, 0, 0, true⟩, .ev ⟨0, "r", "lk", "", 0, 0, 0, true⟩,
   .ret 0 "1" ""]

/-! ### a handle update written as a load + compare-exchange loop -/

/-- one thread: `with:a` (miss under the read lock, get-or-create under the write lock), then the update
    through the returned handle (sub-call `0u`) written as a loop: a Relaxed load of the child's cell (0) and a
    successful Relaxed compare-exchange 0 -> 1 -/
def casIncTrace : List Item :=
  [.call 0 "0" "with:a",
   .ev ⟨0, "R", "lk", "", 0, 0, 0, true⟩, .ev ⟨0, "r", "lk", "", 0, 0, 0, true⟩,
   .ev ⟨0, "X", "lk", "", 0, 0, 0, true⟩, .ev ⟨0, "x", "lk", "", 0, 0, 0, true⟩,
   .ret 0 "0" "h",
   .call 0 "0u" "inc",
   .ev ⟨0, "L", "c0", "Relaxed", 0, 0, 0, true⟩, .ev ⟨0, "C", "c0", "Relaxed", 0, 1, 0, true⟩,
   .ret 0 "0u" ""]

/-- the common beginning of the two-thread runs: thread 0 creates the child of `a` (miss, write lock), thread 1
    finds it under the read lock; both open their update sub-call and both LOAD 0 from the child's cell; thread 1's
    compare-exchange 0 -> 1 succeeds and its sub-call returns; thread 0's compare-exchange 0 -> 1 then FAILS and
    reports the value it found, 1 -/
def casIncRacePrefix : List Item :=
  [.call 0 "0" "with:a",
   .ev ⟨0, "R", "lk", "", 0, 0, 0, true⟩, .ev ⟨0, "r", "lk", "", 0, 0, 0, true⟩,
   .ev ⟨0, "X", "lk", "", 0, 0, 0, true⟩, .ev ⟨0, "x", "lk", "", 0, 0, 0, true⟩,
   .ret 0 "0" "h",
   .call 1 "0" "with:a",
   .ev ⟨1, "R", "lk", "", 0, 0, 0, true⟩, .ev ⟨1, "r", "lk", "", 0, 0, 0, true⟩,
   .ret 1 "0" "h",
   .call 0 "0u" "inc",
   .ev ⟨0, "L", "c0", "Relaxed", 0, 0, 0, true⟩,
   .call 1 "0u" "inc",
   .ev ⟨1, "L", "c0", "Relaxed", 0, 0, 0, true⟩, .ev ⟨1, "C", "c0", "Relaxed", 0, 1, 0, true⟩,
   .ret 1 "0u" "",
   .ev ⟨0, "C", "c0", "Relaxed", 0, 1, 1, false⟩]

/-- two threads increment the same child; thread 0's first exchange fails and the loop goes on AT ONCE with the
    value the failed exchange reported: compare-exchange 1 -> 2 succeeds -/
def casIncRetryTrace : List Item :=
  casIncRacePrefix ++ [.ev ⟨0, "C", "c0", "Relaxed", 1, 2, 1, true⟩, .ret 0 "0u" ""]

/-- as `casIncRetryTrace`, but after the failed exchange the loop LOADS AGAIN (1) before the exchange 1 -> 2 -/
def casIncReloadTrace : List Item :=
  casIncRacePrefix ++ [.ev ⟨0, "L", "c0", "SeqCst", 0, 0, 1, true⟩, .ev ⟨0, "C", "c0", "AcqRel", 1, 2, 1, true⟩, .ret 0 "0u" ""]

/-- NOT accepted (a lost update): as `casIncRacePrefix`, but thread 0's exchange 0 -> 1 claims SUCCESS although
    the child holds 1 by then -/
def casIncStaleTrace : List Item :=
  casIncRacePrefix.take 16 ++ [.ev ⟨0, "C", "c0", "Relaxed", 0, 1, 0, true⟩, .ret 0 "0u" ""]

/-- NOT accepted: the uncontended loop of `casIncTrace`, but the exchange installs 2 instead of 0 + 1 -/
def casIncWrongNewTrace : List Item :=
  casIncTrace.take 8 ++ [.ev ⟨0, "C", "c0", "Relaxed", 0, 2, 0, true⟩, .ret 0 "0u" ""]

/-- NOT accepted: as `casIncRacePrefix`, but thread 0's failed exchange reports 0 although the child holds 1 -/
def casIncWrongReportTrace : List Item :=
  casIncRacePrefix.take 16 ++ [.ev ⟨0, "C", "c0", "Relaxed", 0, 1, 0, false⟩]

end Prom.C10
