import Prom.Model.Conc
/-
C01 — Counter increments are never lost and never go backwards.
(C11 shares the machine; see `Props/C11.lean`.)

Subject: the step machine `Conc.aStep` / `Conc.aItem` of one shared cell, at the granularity of the
atomic operations (`load`, `store`, `fetch_add`, `fetch_sub`, `compare_exchange_weak`). A state is
reachable by ANY list of accepted items — any number of threads, any programs, any interleaving,
any number of spurious compare-exchange failures; the real traces produced under the scheduler are
checked to be accepted runs of exactly this machine.
-/
/- Helper lemmas and auxiliary definitions for Props/C01.lean (kept apart from the property theorems). -/
namespace Prom.C01
open Prom Prom.Conc

/-- the ghost log of committed writes always ends in the cell's current value: the value is the
    result of the committed writes in commit order (for `u64` / exact arithmetic: the sum of all
    increments since the last reset), for every accepted run -/
def LogInv (s : ASt) : Prop := s.log = [] ∧ s.mem = 0 ∨ ∃ t r, s.log = (t, s.mem) :: r

theorem aStep_logInv (s s' : ASt) (e : Ev) (hi : LogInv s) (h : aStep s e = .ok s') : LogInv s' := by
  unfold aStep at h
  cases hth : s.ths[e.tid]? with
  | none => rw [hth] at h; cases h
  | some th =>
    rw [hth] at h
    simp only [] at h
    cases hpc : th.pc with
    | none => rw [hpc] at h; cases h
    | some pc =>
      rw [hpc] at h
      simp only [] at h
      split at h
      · cases h
      · cases pc with
        | start op =>
          simp only [] at h
          repeat' split at h
          all_goals first
            | (simp only [Except.ok.injEq] at h; subst h
               first
                 | exact hi
                 | exact Or.inr ⟨_, _, rfl⟩
                 | (exfalso; simp_all))
            | cases h
        | cas cur d =>
          simp only [] at h
          repeat' split at h
          all_goals first
            | (simp only [Except.ok.injEq] at h; subst h
               first
                 | exact hi
                 | exact Or.inr ⟨_, _, rfl⟩
                 | (exfalso; simp_all))
            | cases h

theorem aItem_logInv (s s' : ASt) (it : Item) (hi : LogInv s) (h : aItem s it = .ok s') : LogInv s' := by
  cases it with
  | ev e => exact aStep_logInv s s' e hi h
  | call t i op =>
    simp only [aItem] at h
    split at h
    · cases h
    · split at h
      · simp only [Except.ok.injEq] at h; subst h; exact hi
      · cases h
  | ret t i v =>
    simp only [aItem] at h
    split at h
    · cases h
    · split at h
      · simp only [Except.ok.injEq] at h; subst h; exact hi
      · cases h
  | other x => simp [aItem] at h

end Prom.C01
