import Prom.Lemmas.Guard
/-
C01 — Counter increments are never lost and never go backwards.
(C11 shares the machine; see `Props/C11.lean`.)

Subject: the step machine `Conc.aStep` / `Conc.aItem` of one shared cell, at the granularity of the
atomic operations (`load`, `store`, `swap`, `fetch_add`, `fetch_sub`, `compare_exchange(_weak)`). A state is
reachable by ANY list of accepted items — any number of threads, any programs, any interleaving,
any number of spurious compare-exchange failures; the real traces produced under the scheduler are
checked to be accepted runs of exactly this machine.
-/
/- Helper lemmas and auxiliary definitions for Props/C01.lean (kept apart from the property theorems). -/
namespace Prom.C01
open Prom Prom.Conc

/-- run the sequential specification over a commit log, checking every recorded return value;
    `some v` = the log is a legal sequential history ending in the value `v` -/
def specRun (float : Bool) : UInt64 → List LinEv → Option UInt64
  | v, [] => some v
  | v, l :: r =>
    match specApply float v l.op with
    | some (v', rv) => if rv = l.rv then specRun float v' r else none
    | none => none

theorem specRun_append (float : Bool) (v : UInt64) (l : List LinEv) (x : LinEv) :
    specRun float v (l ++ [x]) = (specRun float v l).bind fun v' => specRun float v' [x] := by
  induction l generalizing v with
  | nil => simp [specRun]
  | cons a r ih =>
    simp only [List.cons_append, specRun]
    split
    · split
      · exact ih _
      · rfl
    · rfl

/-- the cell holds the value the sequential specification reaches by running the committed
    operations in commit order, and every committed operation returned what the specification returns
    at that point -/
def LinInv (s : ASt) : Prop := specRun s.float 0 s.lin = some s.mem

/-- a float delta exists only for the add-like operations: not for `get`, `set`, `reset` -/
theorem floatDelta_some_names {op : String} {d : UInt64} (hd : floatDelta op = some d) :
    (opName op == "get") = false ∧ (opName op == "set" || opName op == "reset") = false := by
  constructor
  · cases hh : opName op == "get"
    · rfl
    · simp only [beq_iff_eq] at hh; simp [floatDelta, hh] at hd
  · cases hh : (opName op == "set" || opName op == "reset")
    · rfl
    · simp only [Bool.or_eq_true, beq_iff_eq] at hh
      rcases hh with hh | hh <;> simp [floatDelta, hh] at hd

/-- the value the compare-exchange of an add installs, when it expects the cell's CURRENT value, is the value the
    sequential specification of that add gives - in both flavours -/
theorem casNew_spec {float : Bool} {op : String} {v w : UInt64} (h : casNew float op v = some w) :
    specApply float v op = some (w, "") := by
  unfold casNew at h
  split at h
  · next hf =>
    cases hd : floatDelta op with
    | none => simp [hd] at h
    | some d =>
      simp only [hd, Option.map_some, Option.some.injEq] at h
      obtain ⟨hng, hns⟩ := floatDelta_some_names hd
      unfold specApply
      simp [hng, hns, hf, hd, h]
  · next hf =>
    simp only at h
    split at h
    · cases h
    · next hn =>
      simp only [Option.some.injEq] at h
      simp only [Bool.or_eq_true, not_or, Bool.not_eq_true] at hn
      have hf' : float = false := by simpa using hf
      unfold specApply
      simp [hn.1.1, hn.1.2, hn.2, hf', h]

/-- a first step that completes its call takes effect as the specification says, on the current value -/
theorem aEvStart_commit {float : Bool} {mem : UInt64} {op : String} {e : Ev} {mem' : UInt64} {rv : String}
    (h : aEvStart float mem op e = .ok (mem', .inr rv)) : specApply float mem op = some (mem', rv) := by
  unfold aEvStart at h
  simp only at h
  unfold specApply
  simp only
  split at h
  · next hg =>
    rw [guard_ok] at h; obtain ⟨_, h⟩ := h; cases h
    simp [hg]
  · next hg =>
    split at h
    · next hs =>
      rw [guard_ok] at h; obtain ⟨_, h⟩ := h; cases h
      simp [hg, hs]
    · next hs =>
      split at h
      · next hf =>
        split at h
        · cases h
        · rw [guard_ok] at h; obtain ⟨_, h⟩ := h; cases h
      · next hf =>
        split at h
        · rw [guard_ok] at h; obtain ⟨_, h⟩ := h; cases h
        · rw [guard_ok] at h; obtain ⟨_, h⟩ := h; cases h
          simp [hg, hs, hf]

/-- a compare-exchange that completes its call succeeded: it found exactly the expected value `cur` in the cell
    and installed `casNew float op cur`, the add applied to that value -/
theorem aEvCas_success_new {float : Bool} {mem : UInt64} {op : String} {cur : UInt64} {e : Ev} {mem' : UInt64} {rv : String}
    (h : aEvCas float mem op cur e = .ok (mem', .inr rv)) :
    mem = cur ∧ casNew float op mem = some mem' ∧ rv = "" ∧ e.k = "C" ∧ e.ok = true ∧ e.res = mem := by
  unfold aEvCas at h
  split at h
  · cases h
  · next newv hd =>
    rw [guard_ok] at h; obtain ⟨hg, h⟩ := h
    simp only [Bool.and_eq_true, beq_iff_eq] at hg
    split at h
    · next hok =>
      rw [guard_ok] at h; obtain ⟨hc, h⟩ := h
      simp only [Bool.and_eq_true, beq_iff_eq] at hc
      cases h
      refine ⟨hc.1, ?_, rfl, hg.1.1.1, hok, ?_⟩
      · rw [hc.1]; exact hd
      · rw [hc.1]; exact hc.2
    · rw [guard_ok] at h; obtain ⟨_, h⟩ := h; cases h

/-- a compare-exchange that completes its call takes effect as the specification says, on the current value -/
theorem aEvCas_commit {float : Bool} {mem : UInt64} {op : String} {cur : UInt64} {e : Ev} {mem' : UInt64} {rv : String}
    (h : aEvCas float mem op cur e = .ok (mem', .inr rv)) : specApply float mem op = some (mem', rv) := by
  obtain ⟨_, hn, hr, _⟩ := aEvCas_success_new h
  rw [hr]; exact casNew_spec hn

/-- what `aEv` is at each program counter, once the location is the cell's: at `retry cur` a load is
    handled as at `start`, any other event as at `cas cur` -/
theorem aEv_cases {float : Bool} {mem : UInt64} {op : String} {pc : APc} {e : Ev} {r : UInt64 × (APc ⊕ String)}
    (h : aEv float mem op pc e = .ok r) :
    (aEvStart float mem op e = .ok r ∧ (pc = .start ∨ ∃ cur, pc = .retry cur ∧ e.k = "L")) ∨
    (∃ cur, aEvCas float mem op cur e = .ok r ∧ (pc = .cas cur ∨ (pc = .retry cur ∧ e.k ≠ "L"))) := by
  unfold aEv at h
  split at h
  · cases h
  · cases pc with
    | start => exact .inl ⟨h, .inl rfl⟩
    | cas cur => exact .inr ⟨cur, h, .inl rfl⟩
    | retry cur =>
      simp only at h
      split at h
      · next hk => exact .inl ⟨h, .inr ⟨cur, rfl, by simpa using hk⟩⟩
      · next hk => exact .inr ⟨cur, h, .inr ⟨rfl, by simpa using hk⟩⟩

/-- an event that completes its call takes effect as the specification says, on the *current* value -/
theorem aEv_commit {float : Bool} {mem : UInt64} {op : String} {pc : APc} {e : Ev} {mem' : UInt64} {rv : String}
    (h : aEv float mem op pc e = .ok (mem', .inr rv)) : specApply float mem op = some (mem', rv) := by
  rcases aEv_cases h with ⟨h, _⟩ | ⟨cur, h, _⟩
  · exact aEvStart_commit h
  · exact aEvCas_commit h

/-- a first step after which the call continues is the load of an add written as a loop (float; integer):
    nothing changes, next is the compare-exchange expecting the value loaded -/
theorem aEvStart_continue {float : Bool} {mem : UInt64} {op : String} {e : Ev} {mem' : UInt64} {pc' : APc}
    (h : aEvStart float mem op e = .ok (mem', .inl pc')) : mem' = mem ∧ pc' = .cas mem ∧ e.k = "L" := by
  unfold aEvStart at h
  simp only at h
  split at h
  · rw [guard_ok] at h; obtain ⟨_, h⟩ := h; cases h
  · split at h
    · rw [guard_ok] at h; obtain ⟨_, h⟩ := h; cases h
    · split at h
      · split at h
        · cases h
        · rw [guard_ok] at h; obtain ⟨hg, h⟩ := h; cases h
          simp only [Bool.and_eq_true, beq_iff_eq] at hg
          exact ⟨rfl, rfl, hg.1.1⟩
      · split at h
        · next hk =>
          rw [guard_ok] at h; obtain ⟨_, h⟩ := h; cases h
          exact ⟨rfl, rfl, by simpa using hk⟩
        · rw [guard_ok] at h; obtain ⟨_, h⟩ := h; cases h

/-- a compare-exchange after which the call continues failed, reported the current value, changed nothing
    and leaves the thread at `retry` of that value -/
theorem aEvCas_continue {float : Bool} {mem : UInt64} {op : String} {cur : UInt64} {e : Ev} {mem' : UInt64} {pc' : APc}
    (h : aEvCas float mem op cur e = .ok (mem', .inl pc')) : mem' = mem ∧ pc' = .retry mem ∧ e.ok = false ∧ e.res = mem := by
  unfold aEvCas at h
  split at h
  · cases h
  · rw [guard_ok] at h; obtain ⟨_, h⟩ := h
    split at h
    · rw [guard_ok] at h; obtain ⟨_, h⟩ := h; cases h
    · next hok =>
      rw [guard_ok] at h; obtain ⟨hr, h⟩ := h; cases h
      exact ⟨rfl, rfl, by simpa using hok, by simpa using hr⟩

/-- every event the compare-exchange arm accepts is a compare-exchange -/
theorem aEvCas_kind {float : Bool} {mem : UInt64} {op : String} {cur : UInt64} {e : Ev} {r : UInt64 × (APc ⊕ String)}
    (h : aEvCas float mem op cur e = .ok r) : e.k = "C" := by
  unfold aEvCas at h
  split at h
  · cases h
  · rw [guard_ok] at h; obtain ⟨hg, _⟩ := h
    simp only [Bool.and_eq_true, beq_iff_eq] at hg
    exact hg.1.1.1

/-- an event that does not complete its call (the load of an add written as a loop, a failed
    compare-exchange) leaves the cell as it was -/
theorem aEv_continue {float : Bool} {mem : UInt64} {op : String} {pc : APc} {e : Ev} {mem' : UInt64} {pc' : APc}
    (h : aEv float mem op pc e = .ok (mem', .inl pc')) : mem' = mem := by
  rcases aEv_cases h with ⟨h, _⟩ | ⟨cur, h, _⟩
  · exact (aEvStart_continue h).1
  · exact (aEvCas_continue h).1


def skipOp (op : String) : Bool := opName op == "lflush" && parseIntArg (opArg op) == 0

/-- the shape of an accepted item of the cell machine -/
inductive AShape (s s' : ASt) : Prop
  /-- an event that completes its call: it takes effect now -/
  | commit (e : Ev) (th : Th APc) (pc : APc) (rv : String) (mem' : UInt64)
      (hth : s.ths[e.tid]? = some th) (hpc : th.pc = some pc)
      (hev : aEv s.float s.mem (th.ops.getD th.idx "") pc e = .ok (mem', .inr rv))
      (hs : s' = { s with mem := mem', ths := s.ths.set e.tid { th with pc := none, retv := some rv },
                          lin := s.lin ++ [⟨e.tid, th.idx, th.ops.getD th.idx "", rv⟩] })
  /-- an event after which the call continues (load of an add written as a loop, failed compare-exchange) -/
  | cont (e : Ev) (th : Th APc) (pc pc' : APc)
      (hth : s.ths[e.tid]? = some th) (hpc : th.pc = some pc)
      (hs : s' = { s with ths := s.ths.set e.tid { th with pc := some pc' } })
  /-- a call mark -/
  | callSkip (t : Nat) (th : Th APc) (hth : s.ths[t]? = some th) (hpc : th.pc = none) (hrv : th.retv = none)
      (hsk : skipOp (th.ops.getD th.idx "") = true)
      (hs : s' = { s with ths := s.ths.set t { th with retv := some "" } })
  | callOpen (t : Nat) (th : Th APc) (hth : s.ths[t]? = some th) (hpc : th.pc = none) (hrv : th.retv = none)
      (hsk : skipOp (th.ops.getD th.idx "") = false)
      (hs : s' = { s with ths := s.ths.set t { th with pc := some .start } })
  /-- a return mark -/
  | ret (t : Nat) (th : Th APc) (rv : String) (hth : s.ths[t]? = some th) (hrv : th.retv = some rv)
      (hs : s' = { s with ths := s.ths.set t { th with idx := th.idx + 1, retv := none } })

theorem aItem_shape {s s' : ASt} {it : Item} (h : aItem s it = .ok s') : AShape s s' := by
  cases it with
  | ev e =>
    simp only [aItem, aStep] at h
    split at h
    · cases h
    · next th hth =>
      split at h
      · cases h
      · next pc hpc =>
        split at h
        · cases h
        · next mem' pc' hev =>
          cases h
          have := aEv_continue hev; subst this
          exact .cont e th pc pc' hth hpc rfl
        · next mem' rv hev =>
          cases h
          exact .commit e th pc rv mem' hth hpc hev rfl
  | call t i op =>
    simp only [aItem] at h
    split at h
    · cases h
    · next th hth =>
      split at h
      · next th' ho =>
        cases h
        unfold openCall at ho
        split at ho
        · cases ho
        · next hopen =>
          have hpc : th.pc = none := by cases hh : th.pc <;> simp_all
          have hrv : th.retv = none := by cases hh : th.retv <;> simp_all
          split at ho
          · cases ho
          · split at ho
            · cases ho
            · next hop =>
              have hop' : th.ops.getD th.idx "" = op := by simpa using hop
              subst hop'
              split at ho
              · next hsk =>
                cases ho
                exact .callSkip t th hth hpc hrv hsk rfl
              · next hsk =>
                cases ho
                have : skipOp (th.ops.getD th.idx "") = false := by
                  simpa [skipOp] using hsk
                exact .callOpen t th hth hpc hrv this rfl
      · cases h
  | ret t i v =>
    simp only [aItem] at h
    split at h
    · cases h
    · next th hth =>
      split at h
      · next th' hc =>
        cases h
        unfold closeCall at hc
        split at hc
        · cases hc
        · next rv hrv =>
          split at hc
          · cases hc
          · split at hc
            · cases hc
            · cases hc
              exact .ret t th rv hth hrv rfl
      · cases h
  | other x => simp [aItem] at h

theorem aItem_linInv {s s' : ASt} {it : Item} (hi : LinInv s) (h : aItem s it = .ok s') : LinInv s' := by
  cases aItem_shape h with
  | commit e th pc rv mem' hth hpc hev hs =>
    subst hs
    unfold LinInv at hi ⊢
    simp only [specRun_append, hi, Option.bind_some, specRun, aEv_commit hev, if_true]
  | cont e th pc pc' hth hpc hs => subst hs; exact hi
  | callSkip t th hth hpc hrv hsk hs => subst hs; exact hi
  | callOpen t th hth hpc hrv hsk hs => subst hs; exact hi
  | ret t th rv hth hrv hs => subst hs; exact hi

/-- number of commits of call `i` of thread `t` -/
def commits (lin : List LinEv) (t i : Nat) : Nat := (lin.filter fun x => x.tid == t && x.idx == i).length

theorem commits_append (lin : List LinEv) (x : LinEv) (t i : Nat) :
    commits (lin ++ [x]) t i = commits lin t i + (if x.tid = t ∧ x.idx = i then 1 else 0) := by
  unfold commits
  rw [List.filter_append, List.length_append]
  congr 1
  by_cases h : x.tid = t ∧ x.idx = i
  · simp [h]
  · simp only [h, if_false]
    have : (x.tid == t && x.idx == i) = false := by
      simp only [not_and] at h
      cases h1 : x.tid == t <;> simp_all
    simp [List.filter_cons, this]

/-- **exactly once**: every call that has returned took effect exactly once (a local flush of zero:
    not at all, as in the code), the call in progress at most once — exactly once as soon as its last
    step is done —, and no call that has not started took effect; a call's return value is the one
    recorded with its commit -/
structure OnceInv (s : ASt) : Prop where
  wf : ∀ (t : Nat) (th : Th APc), s.ths[t]? = some th → (th.pc.isSome → th.retv = none ∧ skipOp (th.ops.getD th.idx "") = false)
  cnt : ∀ (t : Nat) (th : Th APc), s.ths[t]? = some th → ∀ i, commits s.lin t i =
      if i < th.idx then (if skipOp (th.ops.getD i "") then 0 else 1)
      else if i = th.idx ∧ th.retv.isSome ∧ skipOp (th.ops.getD i "") = false then 1 else 0
  rvs : ∀ (t : Nat) (th : Th APc) (rv : String), s.ths[t]? = some th → th.retv = some rv → skipOp (th.ops.getD th.idx "") = false →
      (⟨t, th.idx, th.ops.getD th.idx "", rv⟩ : LinEv) ∈ s.lin

theorem getElem?_set_cases {α} (l : List α) (i j : Nat) (a x : α) (h : (l.set i a)[j]? = some x) :
    (j = i ∧ x = a) ∨ (j ≠ i ∧ l[j]? = some x) := by
  rw [List.getElem?_set] at h
  split at h
  · next hij =>
    split at h
    · cases h; exact .inl ⟨hij.symm, rfl⟩
    · cases h
  · next hij => exact .inr ⟨fun e => hij e.symm, h⟩

theorem aItem_onceInv {s s' : ASt} {it : Item} (I : OnceInv s) (h : aItem s it = .ok s') : OnceInv s' := by
  cases aItem_shape h with
  | commit e th pc rv mem' hth hpc hev hs =>
    subst hs
    have hw := I.wf e.tid th hth (by simp [hpc])
    refine ⟨?_, ?_, ?_⟩
    · intro t x hx hp
      rcases getElem?_set_cases _ _ _ _ _ hx with ⟨_, rfl⟩ | ⟨_, hx⟩
      · simp at hp
      · exact I.wf t x hx hp
    · intro t x hx i
      simp only [commits_append]
      rcases getElem?_set_cases _ _ _ _ _ hx with ⟨rfl, rfl⟩ | ⟨hne, hx⟩
      · rw [I.cnt e.tid th hth i]
        simp only [hw.1, Option.isSome_none, Bool.false_eq_true, false_and, and_false, if_false, true_and,
          Option.isSome_some]
        have hw2 : skipOp (th.ops[th.idx]?.getD "") = false := by simpa using hw.2
        by_cases h1 : i < th.idx
        · have : ¬ th.idx = i := by omega
          simp [h1, this]
        · by_cases h2 : i = th.idx
          · subst h2; simp [hw2]
          · have : ¬ th.idx = i := fun e => h2 e.symm
            simp [h1, h2, this]
      · rw [I.cnt t x hx i]
        have : ¬ (e.tid = t ∧ th.idx = i) := fun hh => hne hh.1.symm
        simp [this]
    · intro t x rv' hx hrv hsk
      rcases getElem?_set_cases _ _ _ _ _ hx with ⟨rfl, rfl⟩ | ⟨_, hx⟩
      · simp only [Option.some.injEq] at hrv; subst hrv
        simp
      · exact List.mem_append_left _ (I.rvs t x rv' hx hrv hsk)
  | cont e th pc pc' hth hpc hs =>
    subst hs
    have hw := I.wf e.tid th hth (by simp [hpc])
    refine ⟨?_, ?_, ?_⟩
    · intro t x hx hp
      rcases getElem?_set_cases _ _ _ _ _ hx with ⟨_, rfl⟩ | ⟨_, hx⟩
      · exact hw
      · exact I.wf t x hx hp
    · intro t x hx i
      rcases getElem?_set_cases _ _ _ _ _ hx with ⟨rfl, rfl⟩ | ⟨_, hx⟩
      · exact I.cnt e.tid th hth i
      · exact I.cnt t x hx i
    · intro t x rv' hx hrv hsk
      rcases getElem?_set_cases _ _ _ _ _ hx with ⟨rfl, rfl⟩ | ⟨_, hx⟩
      · exact I.rvs e.tid th rv' hth hrv hsk
      · exact I.rvs t x rv' hx hrv hsk
  | callSkip t0 th hth hpc hrv hsk hs =>
    subst hs
    have hsk' : skipOp (th.ops[th.idx]?.getD "") = true := by simpa using hsk
    refine ⟨?_, ?_, ?_⟩
    · intro t x hx hp
      rcases getElem?_set_cases _ _ _ _ _ hx with ⟨_, rfl⟩ | ⟨_, hx⟩
      · simp [hpc] at hp
      · exact I.wf t x hx hp
    · intro t x hx i
      rcases getElem?_set_cases _ _ _ _ _ hx with ⟨rfl, rfl⟩ | ⟨_, hx⟩
      · rw [I.cnt t th hth i]
        by_cases h1 : i < th.idx
        · simp [h1]
        · by_cases h2 : i = th.idx
          · subst h2; simp [hrv, hsk']
          · simp [h1, h2]
      · exact I.cnt t x hx i
    · intro t x rv' hx hrv' hsk2
      rcases getElem?_set_cases _ _ _ _ _ hx with ⟨rfl, rfl⟩ | ⟨_, hx⟩
      · simp only at hsk2; rw [hsk] at hsk2; cases hsk2
      · exact I.rvs t x rv' hx hrv' hsk2
  | callOpen t0 th hth hpc hrv hsk hs =>
    subst hs
    refine ⟨?_, ?_, ?_⟩
    · intro t x hx hp
      rcases getElem?_set_cases _ _ _ _ _ hx with ⟨_, rfl⟩ | ⟨_, hx⟩
      · exact ⟨hrv, hsk⟩
      · exact I.wf t x hx hp
    · intro t x hx i
      rcases getElem?_set_cases _ _ _ _ _ hx with ⟨rfl, rfl⟩ | ⟨_, hx⟩
      · exact I.cnt t th hth i
      · exact I.cnt t x hx i
    · intro t x rv' hx hrv' hsk2
      rcases getElem?_set_cases _ _ _ _ _ hx with ⟨rfl, rfl⟩ | ⟨_, hx⟩
      · simp [hrv] at hrv'
      · exact I.rvs t x rv' hx hrv' hsk2
  | ret t0 th rv hth hrv hs =>
    subst hs
    have hpcn : th.pc = none := by
      cases hh : th.pc with
      | none => rfl
      | some pc => have := (I.wf t0 th hth (by simp [hh])).1; rw [this] at hrv; cases hrv
    refine ⟨?_, ?_, ?_⟩
    · intro t x hx hp
      rcases getElem?_set_cases _ _ _ _ _ hx with ⟨_, rfl⟩ | ⟨_, hx⟩
      · simp [hpcn] at hp
      · exact I.wf t x hx hp
    · intro t x hx i
      rcases getElem?_set_cases _ _ _ _ _ hx with ⟨rfl, rfl⟩ | ⟨_, hx⟩
      · rw [I.cnt t th hth i]
        simp only [hrv, Option.isSome_some, true_and, Option.isSome_none, Bool.false_eq_true, false_and, and_false, if_false]
        by_cases h1 : i < th.idx
        · have : i < th.idx + 1 := by omega
          simp [h1, this]
        · by_cases h2 : i = th.idx
          · subst h2
            cases hsk : skipOp (th.ops[th.idx]?.getD "") <;> simp [hsk]
          · have : ¬ i < th.idx + 1 := by omega
            simp [h1, h2, this]
      · exact I.cnt t x hx i
    · intro t x rv' hx hrv' hsk
      rcases getElem?_set_cases _ _ _ _ _ hx with ⟨rfl, rfl⟩ | ⟨_, hx⟩
      · simp at hrv'
      · exact I.rvs t x rv' hx hrv' hsk

/-- the commit log only grows, at its end: the order in which operations took effect is never revised -/
theorem aItem_lin_mono {s s' : ASt} {it : Item} (h : aItem s it = .ok s') : s.lin <+: s'.lin := by
  cases aItem_shape h with
  | commit e th pc rv mem' hth hpc hev hs => subst hs; exact List.prefix_append _ _
  | cont e th pc pc' hth hpc hs => subst hs; exact List.prefix_refl _
  | callSkip t th hth hpc hrv hsk hs => subst hs; exact List.prefix_refl _
  | callOpen t th hth hpc hrv hsk hs => subst hs; exact List.prefix_refl _
  | ret t th rv hth hrv hs => subst hs; exact List.prefix_refl _

end Prom.C01
