import Prom.Model.TextParse
/-
C04 — Text exposition is a faithful, parseable rendering of the gathered state.
`fmt` (Rust's `f64::to_string`) is a parameter; the hypotheses the theorems need about it
(`FmtOk`: no LF, no quote, no backslash, no blank; reads back to the same value) are checked by the
driver for every value of every run.
-/
/- Helper lemmas and auxiliary definitions for Props/C04.lean (kept apart from the property theorems). -/
namespace Prom.C04
open Prom Prom.Text Prom.TextParse

theorem escByte_bs (q : Bool) : escByte q 92 = [92, 92] := by simp [escByte]

theorem escByte_lf (q : Bool) : escByte q 10 = [92, 110] := by
  have : ((10 : UInt8) == 92) = false := by decide
  simp [escByte, this]

theorem escByte_quote : escByte true 34 = [92, 34] := by
  have h1 : ((34 : UInt8) == 92) = false := by decide
  have h2 : ((34 : UInt8) == 10) = false := by decide
  simp [escByte, h1, h2]

theorem escByte_other (q : Bool) (b : UInt8) (h1 : b ≠ 92) (h2 : b ≠ 10) (h3 : ¬ (q = true ∧ b = 34)) :
    escByte q b = [b] := by
  have hc : (q && b == 34) = false := by cases q <;> simp_all
  simp [escByte, h1, h2, hc]

theorem unescape_cons_other (q : Bool) (b : UInt8) (r : Str) (h : b ≠ 92) :
    unescape q (b :: r) = (unescape q r).map (b :: ·) := by
  rw [unescape.eq_def]
  split
  · rename_i heq; cases heq
  · rename_i heq; injection heq with ha _; exact absurd ha.symm (by simpa using h.symm) |> False.elim
  · rename_i heq; injection heq with ha _; exact absurd ha.symm (by simpa using h.symm) |> False.elim
  · rename_i heq; injection heq with ha _; exact absurd ha.symm (by simpa using h.symm) |> False.elim
  · rename_i heq; injection heq with ha _; exact absurd ha.symm (by simpa using h.symm) |> False.elim
  · rename_i heq
    injection heq with ha ht
    subst ha; subst ht
    rfl

theorem readQuoted_cons_other (b : UInt8) (r acc : Str) (h1 : b ≠ 92) (h2 : b ≠ 34) :
    readQuoted (b :: r) acc = readQuoted r (b :: acc) := by
  rw [readQuoted.eq_def]
  split
  · rename_i heq; cases heq
  · rename_i heq; injection heq with ha _; exact absurd ha.symm (by simpa using h1.symm) |> False.elim
  · rename_i heq; injection heq with ha _; exact absurd ha.symm (by simpa using h2.symm) |> False.elim
  · rename_i heq
    injection heq with ha ht
    subst ha; subst ht
    rfl

/-- number of line feeds -/
def lfCount (s : Str) : Nat := s.count 10

theorem lfCount_append (a b : Str) : lfCount (a ++ b) = lfCount a + lfCount b := by simp [lfCount]

end Prom.C04
