import Prom.Lemmas.HistRefine
/-
Ghost bookkeeping of the replay machine: what a collect call returns, and where its cut lies
relative to the call's own start and end (the real-time part of C02).
-/
namespace Prom.HM
open Prom Prom.Conc Hp

def cutOfPc (pc : Pc) : Option (List Obs) := pc.task.bind cutOf

/-- what one accepted event does to the ghost data -/
def GhostEff (k : Nat) (c c' : Hp.St) (pc pc' : Pc) (cuts cuts' : Cuts) : Prop :=
  (cutOfPc pc' = cutOfPc pc ∧ cuts' = cuts ∧ c'.snaps = c.snaps) ∨
  (cutOfPc pc = none ∧ cutOfPc pc' = some c.claimed ∧ cuts' = cuts ∧ c'.snaps = c.snaps) ∨
  (∃ S ov taken, cutOfPc pc = some S ∧ pc'.task = none ∧
      cuts' = cuts ++ [⟨pc.c0, S, c.claimed, showSnap k ov taken⟩] ∧ c'.snaps = c.snaps ++ [(⟨ov, taken⟩, S)])

theorem casLoop_c0 {e : Ev} {c : Hp.St} {pc : Pc} {b : Bool} {cell : Nat} {a : Int} {onOk r : Res}
    (h : casLoop e c pc b cell a onOk = .ok r) : (r.2.1.c0 = pc.c0 ∧ r.1 = c ∧ r.2.1.task = pc.task) ∨ r = onOk := by
  unfold casLoop at h
  split at h
  · unfold casLoad at h
    rw [guard_ok] at h; obtain ⟨_, h⟩ := h; cases h; exact .inl ⟨rfl, rfl, rfl⟩
  · split at h
    · unfold casLoad at h
      rw [guard_ok] at h; obtain ⟨_, h⟩ := h; cases h; exact .inl ⟨rfl, rfl, rfl⟩
    · rw [guard_ok] at h; obtain ⟨_, h⟩ := h
      split at h
      · rw [guard_ok] at h; obtain ⟨_, h⟩ := h; cases h; exact .inr rfl
      · rw [guard_ok] at h; obtain ⟨_, h⟩ := h; cases h; exact .inl ⟨rfl, rfl, rfl⟩

/-- what the check of one event does to the ghost data (`c0` is kept) -/
theorem evStep1_ghost {k : Nat} {c : Hp.St} {cuts : Cuts} {e : Ev} {pc : Pc} {c' : Hp.St} {pc' : Pc}
    {rv : Option String} {cuts' : Cuts}
    (h : evStep1 k c cuts e pc = .ok ((c', pc', rv), cuts')) :
    pc'.c0 = pc.c0 ∧ GhostEff k c c' pc pc' cuts cuts' := by
  unfold evStep1 at h
  simp only at h
  split at h
  · rw [plainR_ok, guard_ok] at h
    obtain ⟨⟨_, h⟩, hc⟩ := h; cases h
    exact ⟨rfl, .inl ⟨rfl, hc, rfl⟩⟩
  · next o ht =>
    rw [plainR_ok] at h
    obtain ⟨h, hc⟩ := h
    rcases fetchAdd_cases h with ⟨⟨ic, f, hr⟩, hfl, hfk⟩ | ⟨hr, hfok, hfl, hfo, hfr, hfk⟩
    · cases hr; exact ⟨rfl, .inl ⟨rfl, hc, rfl⟩⟩
    · cases hr
      exact ⟨rfl, .inl ⟨by simp [cutOfPc, ht, cutOf], hc, rfl⟩⟩
  · next o b p l ht =>
    simp only [obsEntry] at h
    split at h
    · rw [plainR_ok] at h
      obtain ⟨h, hc⟩ := h
      rcases fetchAdd_cases h with ⟨⟨ic, f, hr⟩, hfl, hfk⟩ | ⟨hr, hfok, hfl, hfo, hfr, hfk⟩
      · cases hr; exact ⟨rfl, .inl ⟨rfl, hc, rfl⟩⟩
      · cases hr
        exact ⟨rfl, .inl ⟨by simp [cutOfPc, ht, cutOf], hc, rfl⟩⟩
    · rw [plainR_ok] at h
      obtain ⟨h, hc⟩ := h
      rcases casLoop_c0 h with ⟨h1, h2, h3⟩ | h1
      · simp only at h1 h2 h3; subst h2
        exact ⟨h1, .inl ⟨by simp [cutOfPc, h3], hc, rfl⟩⟩
      · cases h1
        exact ⟨rfl, .inl ⟨by simp [cutOfPc, ht, cutOf], hc, rfl⟩⟩
  · next o b ht =>
    rw [plainR_ok] at h
    obtain ⟨h, hc⟩ := h
    rcases fetchAdd_cases h with ⟨⟨ic, f, hr⟩, hfl, hfk⟩ | ⟨hr, hfok, hfl, hfo, hfr, hfk⟩
    · cases hr; exact ⟨rfl, .inl ⟨rfl, hc, rfl⟩⟩
    · cases hr
      exact ⟨rfl, .inl ⟨by simp [cutOfPc, ht, cutOf], hc, rfl⟩⟩
  · next ht =>
    rw [plainR_ok, guard_ok] at h
    obtain ⟨⟨_, h⟩, hc⟩ := h; cases h
    exact ⟨rfl, .inl ⟨by simp [cutOfPc, ht, cutOf], hc, rfl⟩⟩
  · next ht =>
    split at h
    · split at h
      · rw [plainR_ok, guard_ok] at h
        obtain ⟨⟨_, h⟩, hc⟩ := h; cases h
        exact ⟨rfl, .inl ⟨rfl, hc, rfl⟩⟩
      · split at h
        · rw [plainR_ok, guard_ok] at h
          obtain ⟨⟨_, h⟩, hc⟩ := h; cases h
          exact ⟨rfl, .inl ⟨rfl, hc, rfl⟩⟩
        · rw [plainR_ok, guard_ok] at h
          obtain ⟨⟨_, h⟩, hc⟩ := h; cases h
          exact ⟨rfl, .inl ⟨by simp [cutOfPc, ht, cutOf], hc, rfl⟩⟩
    · rw [plainR_ok] at h
      obtain ⟨h, hc⟩ := h
      rcases fetchAdd_cases h with ⟨⟨ic, f, hr⟩, hfl, hfk⟩ | ⟨hr, hfok, hfl, hfo, hfr, hfk⟩
      · cases hr; exact ⟨rfl, .inl ⟨rfl, hc, rfl⟩⟩
      · cases hr
        exact ⟨rfl, .inr (.inl ⟨by simp [cutOfPc, ht, cutOf], by simp [cutOfPc, cutOf], hc, rfl⟩)⟩
  · next cold ov S ht =>
    split at h
    · rw [plainR_ok, guard_ok] at h
      obtain ⟨⟨_, h⟩, hc⟩ := h; cases h
      exact ⟨rfl, .inl ⟨rfl, hc, rfl⟩⟩
    · rw [plainR_ok, guard_ok] at h
      obtain ⟨⟨_, h⟩, hc⟩ := h
      split at h
      · rw [guard_ok] at h
        obtain ⟨_, h⟩ := h; cases h
        exact ⟨rfl, .inl ⟨by simp [cutOfPc, ht, cutOf], hc, rfl⟩⟩
      · rw [guard_ok] at h
        obtain ⟨_, h⟩ := h; cases h
        exact ⟨rfl, .inl ⟨rfl, hc, rfl⟩⟩
  · next cold ov todo taken S ht =>
    obtain ⟨h0, _, ⟨⟨todo', taken', ht'⟩, hc, hs, _⟩ | ⟨_, ht', hc, hs, _⟩⟩ := colStep_cases ht h
    · exact ⟨h0, .inl ⟨by simp [cutOfPc, ht, ht', cutOf], hc, hs⟩⟩
    · exact ⟨h0, .inr (.inr ⟨S, ov, taken, by simp [cutOfPc, ht, cutOf], ht', hc, hs⟩)⟩


/-- what one accepted event does to the ghost data (`c0` is kept) -/
theorem evStep_ghost {k : Nat} {c : Hp.St} {cuts : Cuts} {e : Ev} {pc : Pc} {c' : Hp.St} {pc' : Pc}
    {rv : Option String} {cuts' : Cuts}
    (h : evStep k c cuts e pc = .ok ((c', pc', rv), cuts')) :
    pc'.c0 = pc.c0 ∧ GhostEff k c c' pc pc' cuts cuts' := by
  exact evStep1_ghost h

/-- the shape of an accepted item: an event of an open call, or a call / return mark -/
theorem item_shape {s s' : St} {it : Item} (h : item s it = .ok s') :
    (∃ e th pc c' pc' rv cuts' th', s.ths[e.tid]? = some th ∧ th.pc = some pc ∧
        evStep s.bounds.length s.core s.cuts e pc = .ok ((c', pc', rv), cuts') ∧
        s' = { s with core := c', cuts := cuts', ths := s.ths.set e.tid th',
                      tags := if c'.claimed.length > s.core.claimed.length then s.tags ++ [(e.tid, th.idx)] else s.tags } ∧
        (th'.pc = some pc' ∨ th'.pc = none)) ∨
    (∃ t th th', s.ths[t]? = some th ∧ s' = { s with ths := s.ths.set t th' } ∧
        (th'.pc = th.pc ∨ ∃ op pc, th'.pc = some pc ∧ planCall s op = .ok (some pc))) := by
  cases it with
  | ev e =>
    simp only [item] at h
    split at h
    · cases h
    · next th hth =>
      split at h
      · cases h
      · next pc hpc =>
        split at h
        · cases h
        · next c' pc' rv cuts' hev =>
          split at h
          · cases h
            exact .inl ⟨e, th, pc, c', pc', none, cuts', _, hth, hpc, hev, rfl, .inl rfl⟩
          · next v =>
            split at h
            · cases h
            · cases h
              exact .inl ⟨e, th, pc, c', pc', some v, cuts', _, hth, hpc, hev, rfl, .inr rfl⟩
  | call t i op =>
    simp only [item] at h
    split at h
    · cases h
    · next th hth =>
      split at h
      · cases h
      · next plan hplan =>
        split at h
        · cases h
        · split at h
          · cases h
          · split at h
            · cases h
            · split at h
              · cases h
                exact .inr ⟨t, th, _, hth, rfl, .inl rfl⟩
              · next pc =>
                cases h
                exact .inr ⟨t, th, _, hth, rfl, .inr ⟨op, pc, rfl, hplan⟩⟩
  | ret t i v =>
    simp only [item] at h
    split at h
    · cases h
    · next th hth =>
      split at h
      · next th' hc =>
        cases h
        exact .inr ⟨t, th, th', hth, rfl, .inl (closeCall_pc hc)⟩
      · cases h
  | other x => simp [item] at h

theorem planObs_c0 {k : Nat} {n : String} {o : Obs} {pc : Pc} (h : planObs k n o = .ok (some pc)) : pc.c0 = [] := by
  unfold planObs at h
  split at h
  · cases h
  · split at h
    · cases h; rfl
    · cases h

theorem planCall_c0 {s : St} {op : String} {pc : Pc} (h : planCall s op = .ok (some pc)) :
    pc.c0 = [] ∨ pc.c0 = s.core.claimed := by
  unfold planCall at h
  simp only at h
  split at h
  · exact .inl (planObs_c0 h)
  · split at h
    · cases h; right; rfl
    · split at h
      · cases h; left; rfl
      · split at h
        · cases h; left; rfl
        · cases h

theorem planCall_nocut {s : St} {op : String} {pc : Pc} (h : planCall s op = .ok (some pc)) : cutOfPc pc = none := by
  rcases planCall_cases h with ⟨o, ho, _⟩ | hc | hn <;> simp [cutOfPc, *, cutOf]

theorem evStep_claimed {k : Nat} {c : Hp.St} {cuts : Cuts} {e : Ev} {pc : Pc} {c' : Hp.St} {pc' : Pc}
    {rv : Option String} {cuts' : Cuts}
    (h : evStep k c cuts e pc = .ok ((c', pc', rv), cuts')) : c.claimed <+: c'.claimed := by
  rcases evStep_refines h [] [] with he | hs | ⟨ts, hs1, hs2⟩
  · have : (withTasks c' ([] ++ pc'.task.toList ++ [])).claimed = (withTasks c ([] ++ pc.task.toList ++ [])).claimed :=
      congrArg Hp.St.claimed he
    simp only [withTasks] at this
    rw [this]; exact List.prefix_refl _
  · have := claimed_mono hs
    simpa [withTasks] using this
  · have := claimed_mono hs2
    simpa [withTasks] using this

/-- the real-time / value invariant of the replay machine -/
structure CutInv (s : St) : Prop where
  thr : ∀ th ∈ s.ths, ∀ pc, th.pc = some pc → pc.c0 <+: s.core.claimed ∧ ∀ S, cutOfPc pc = some S → pc.c0 <+: S
  recs : ∀ r ∈ s.cuts, r.c0 <+: r.cut ∧ r.cut <+: r.c1 ∧ r.c1 <+: s.core.claimed
  vals : ∀ r ∈ s.cuts, ∃ snap, (snap, r.cut) ∈ s.core.snaps ∧ r.rv = showSnap s.bounds.length snap.count snap.cell

theorem cutInv_init (bounds prog) : CutInv (init bounds prog) := by
  refine ⟨?_, ?_, ?_⟩
  · intro th hth pc hpc
    simp only [init, List.mem_map] at hth
    obtain ⟨ops, _, rfl⟩ := hth
    simp at hpc
  · intro r hr; simp [init] at hr
  · intro r hr; simp [init] at hr

theorem mem_filterMap_taskOf {ths : List (Th Pc)} {i : Nat} {th : Th Pc} {pc : Pc} {t : Task}
    (h : ths[i]? = some th) (hpc : th.pc = some pc) (ht : pc.task = some t) : t ∈ ths.filterMap taskOf := by
  rw [List.mem_filterMap]
  exact ⟨th, List.mem_of_getElem? h, by simp [taskOf, hpc, ht]⟩

theorem cutInv_step {bounds prog} {s s' : St} {it : Item} (hr : MReach bounds prog s) (I : CutInv s)
    (h : item s it = .ok s') : CutInv s' := by
  have hb' : s'.bounds = s.bounds := (item_refines h).1
  rcases item_shape h with ⟨e, th, pc, c', pc', rv, cuts', th', hth, hpc, hev, rfl, hth'⟩ | ⟨t, th, th', hth, rfl, hpc'⟩
  · have hmono := evStep_claimed hev
    obtain ⟨hc0, hg⟩ := evStep_ghost hev
    have hmem : th ∈ s.ths := List.mem_of_getElem? hth
    have hold := I.thr th hmem pc hpc
    have hsn : ∀ x ∈ s.core.snaps, x ∈ c'.snaps := by
      intro x hx
      rcases hg with ⟨_, _, h3⟩ | ⟨_, _, _, h3⟩ | ⟨S, ov, taken, _, _, _, h3⟩ <;> rw [h3] <;> simp [hx]
    refine ⟨?_, ?_, ?_⟩
    · intro x hx pcx hpcx
      rcases List.mem_or_eq_of_mem_set hx with hx | rfl
      · have := I.thr x hx pcx hpcx
        exact ⟨this.1.trans hmono, this.2⟩
      · rcases hth' with h1 | h1
        · rw [h1] at hpcx; cases hpcx
          refine ⟨hc0 ▸ hold.1.trans hmono, ?_⟩
          intro S hS
          rw [hc0]
          rcases hg with ⟨h1, _, _⟩ | ⟨_, h2, _, _⟩ | ⟨_, _, _, _, h2, _, _⟩
          · exact hold.2 S (h1 ▸ hS)
          · rw [h2] at hS; cases hS; exact hold.1
          · simp [cutOfPc, h2] at hS
        · rw [h1] at hpcx; cases hpcx
    · intro r hr'
      simp only at hr'
      rcases hg with ⟨_, h2, _⟩ | ⟨_, _, h2, _⟩ | ⟨S, ov, taken, hS, _, h2, _⟩
      · rw [h2] at hr'; have := I.recs r hr'; exact ⟨this.1, this.2.1, this.2.2.trans hmono⟩
      · rw [h2] at hr'; have := I.recs r hr'; exact ⟨this.1, this.2.1, this.2.2.trans hmono⟩
      · rw [h2] at hr'
        simp only [List.mem_append, List.mem_singleton] at hr'
        rcases hr' with hr' | rfl
        · have := I.recs r hr'; exact ⟨this.1, this.2.1, this.2.2.trans hmono⟩
        · -- the new record: c0 ≤ S by the thread invariant, S ≤ claimed by the order invariant of the proof model
          obtain ⟨t, htk, hct⟩ : ∃ t, pc.task = some t ∧ cutOf t = some S := by
            simp only [cutOfPc] at hS
            cases hh : pc.task with
            | none => simp [hh] at hS
            | some t => exact ⟨t, rfl, by simpa [hh] using hS⟩
          have hO := ord_reach (mreach_reach hr)
          have := hO.taskPre t (mem_filterMap_taskOf hth hpc htk) S hct
          exact ⟨hold.2 S hS, this.1, hmono⟩
    · intro r hr'
      simp only at hr'
      rcases hg with ⟨_, h2, _⟩ | ⟨_, _, h2, _⟩ | ⟨S, ov, taken, hS, _, h2, h3⟩
      · rw [h2] at hr'; obtain ⟨snap, h1, h2⟩ := I.vals r hr'; exact ⟨snap, hsn _ h1, h2⟩
      · rw [h2] at hr'; obtain ⟨snap, h1, h2⟩ := I.vals r hr'; exact ⟨snap, hsn _ h1, h2⟩
      · rw [h2] at hr'
        simp only [List.mem_append, List.mem_singleton] at hr'
        rcases hr' with hr' | rfl
        · obtain ⟨snap, h1, h2⟩ := I.vals r hr'; exact ⟨snap, hsn _ h1, h2⟩
        · exact ⟨⟨ov, taken⟩, by rw [h3]; simp, rfl⟩
  · refine ⟨?_, I.recs, I.vals⟩
    intro x hx pcx hpcx
    rcases List.mem_or_eq_of_mem_set hx with hx | rfl
    · exact I.thr x hx pcx hpcx
    · rcases hpc' with h1 | ⟨op, pc, h1, hplan⟩
      · exact I.thr th (List.mem_of_getElem? hth) pcx (h1 ▸ hpcx)
      · rw [h1] at hpcx; cases hpcx
        refine ⟨?_, ?_⟩
        · rcases planCall_c0 hplan with h0 | h0 <;> rw [h0]
          · exact List.nil_prefix
          · exact List.prefix_refl _
        · intro S hS; rw [planCall_nocut hplan] at hS; cases hS

theorem cutInv_reach {bounds prog s} (h : MReach bounds prog s) : CutInv s := by
  induction h with
  | init => exact cutInv_init _ _
  | step hr hs ih => exact cutInv_step hr ih hs

end Prom.HM
