import Prom.Model.Local
import Prom.Lemmas.Vec
/-
C12 (local vectors) — whole-history conservation for `VW` (Prom/Model/Local.lean).

The model itself is not changed.  This file adds
* the operation type `VOpL` and the step function `VW.step` (one constructor per model operation,
  plus direct updates of the shared vector),
* ghost quantities that are *functions of the operation history*: what an operation puts in
  (`VW.input`) and what it deliberately throws away (`VW.discards`), summed over a history by
  `VW.totalIn` / `VW.totalDiscarded`,
* the well-formedness invariant `VWf` and the one-step lemmas `step_wf`, `step_conserve`.

All amounts are measured through a selector `sel : Nat → Bool` on child ids: `sel := fun _ => true`
gives the grand total, `sel := (· == id)` gives the account of one child.
-/
namespace Prom

/-- operations on a shared vector with any number of local handles (handles are list positions) -/
inductive VOpL
  | lwith (h : Nat) (vals : List Str) (d : Nat)   -- local.with_label_values(vals).inc_by(d)
  | lflush (h : Nat)
  | lremove (h : Nat) (vals : List Str)           -- local.remove_label_values(vals)
  | lclone (h : Nat)
  | ldrop (h : Nat)
  | lnew                                          -- vec.local()
  | swith (vals : List Str) (d : Nat)             -- direct update through the shared vector
  | sremove (vals : List Str)                     -- vec.remove_label_values(vals)
  | sreset                                        -- vec.reset()
deriving Repr

/-- one step; a panicking `lwith` (wrong cardinality / child build error) leaves the state as it was -/
def VW.step (w : VW) : VOpL → VW
  | .lwith h vals d => (w.lwith h vals d).getD w
  | .lflush h => w.lflush h
  | .lremove h vals => (w.lremove h vals).1
  | .lclone h => w.lclone h
  | .ldrop h => w.ldrop h
  | .lnew => { w with locals := w.locals ++ [some {}] }
  | .swith vals d =>
    match withLabelValues w.v vals with
    | (v', .ok id) => { w with v := v'.bump id d }
    | (v', .error _) => { w with v := v' }
  | .sremove vals => { w with v := (removeLabelValues w.v vals).1 }
  | .sreset => { w with v := w.v.reset }

/-- the child id on which `lwith h vals d` books its amount (`none`: dropped/unknown handle, or panic) -/
def VW.lwithTarget (w : VW) (h : Nat) (vals : List Str) : Option Nat :=
  match w.locals[h]? with
  | some (some lv) =>
    match hashLabelValues w.v vals with
    | .error _ => none
    | .ok k =>
      match cacheFind lv.cache k with
      | some (id, _) => some id
      | none =>
        match getOrCreate w.v k vals with
        | (_, .ok id) => some id
        | (_, .error _) => none
  | _ => none

/-- `x` if selected, else nothing -/
def pick (b : Bool) (x : Nat) : Nat := if b then x else 0

/-- ghost: the amount operation `op` puts into the system in state `w`, as far as it is booked on a
    selected child.  An `lwith` on a dropped or non-existent handle, or one that panics, puts in
    nothing (and changes nothing). -/
def VW.input (sel : Nat → Bool) (w : VW) : VOpL → Nat
  | .lwith h vals d =>
    match w.lwithTarget h vals with
    | some id => pick (sel id) d
    | none => 0
  | .swith vals d =>
    match (withLabelValues w.v vals).2 with
    | .ok id => pick (sel id) d
    | .error _ => 0
  | _ => 0

/-- value held by the stored children with a selected id (`off` = id of the first list element) -/
def wsum (sel : Nat → Bool) : Nat → List Child → Nat
  | _, [] => 0
  | off, c :: r => pick (sel off) c.val + wsum sel (off + 1) r

/-- value held by all selected children EVER created (attached or detached) -/
def storeHeld (sel : Nat → Bool) (v : MVec) : Nat := wsum sel 0 v.store

/-- pending amount of a cache that is booked on selected children -/
def cacheHeld (sel : Nat → Bool) (c : List (UInt64 × Nat × Nat)) : Nat :=
  (c.map fun e => pick (sel e.2.1) e.2.2).sum

/-- selected pending amount of one handle (`none` = dropped: nothing) -/
def optHeld (sel : Nat → Bool) : Option LVec → Nat
  | some lv => cacheHeld sel lv.cache
  | none => 0

/-- pending amounts of all live local handles -/
def localsHeld (sel : Nat → Bool) (ls : List (Option LVec)) : Nat := (ls.map (optHeld sel)).sum

/-- everything the system holds: children ever created + pending in live local caches -/
def VW.held (sel : Nat → Bool) (w : VW) : Nat := storeHeld sel w.v + localsHeld sel w.locals

/-- ghost: the amount operation `op` deliberately throws away in state `w`.  Counter flavour
    (`flushOnDrop = false`): a dropped local discards all it has pending, `lremove` discards the
    pending amount of the cached entry of that key.  Histogram flavour: nothing, ever. -/
def VW.discards (sel : Nat → Bool) (w : VW) : VOpL → Nat
  | .ldrop h =>
    if w.flushOnDrop then 0 else
    match w.locals[h]? with
    | some (some lv) => cacheHeld sel lv.cache
    | _ => 0
  | .lremove h vals =>
    if w.flushOnDrop then 0 else
    match w.locals[h]? with
    | some (some lv) =>
      match hashLabelValues w.v vals with
      | .error _ => 0
      | .ok k =>
        match cacheFind lv.cache k with
        | some (id, p) => pick (sel id) p
        | none => 0
    | _ => 0
  | _ => 0

/-- ghost: total input of a history started in `w` -/
def VW.totalIn (sel : Nat → Bool) (w : VW) : List VOpL → Nat
  | [] => 0
  | op :: r => w.input sel op + (w.step op).totalIn sel r

/-- ghost: total discarded by a history started in `w` -/
def VW.totalDiscarded (sel : Nat → Bool) (w : VW) : List VOpL → Nat
  | [] => 0
  | op :: r => w.discards sel op + (w.step op).totalDiscarded sel r

/-- a cache is in order: keys pairwise distinct, every cached child id exists (`n` = store size) -/
def CacheOk (n : Nat) (c : List (UInt64 × Nat × Nat)) : Prop :=
  (c.map (·.1)).Nodup ∧ ∀ e ∈ c, e.2.1 < n

/-- well-formedness: every id in the key map and in every live cache denotes a stored child; cache
    keys are distinct.  (Without it `MVec.bump` on an unknown id would silently lose the amount.) -/
def VWf (w : VW) : Prop :=
  (∀ p ∈ w.v.children, p.2 < w.v.store.length) ∧
  ∀ lv, some lv ∈ w.locals → CacheOk w.v.store.length lv.cache

/-- a new vector with no children and no local handles -/
def VW.fresh (names : List Str) (consts : List LabelPair) (buildFails flushOnDrop : Bool) : VW :=
  { v := { names, consts, buildFails, children := [], store := [] }, locals := [], flushOnDrop }

/-- pending amount of one handle (`none` = dropped: nothing) -/
def optPending : Option LVec → Nat
  | some lv => (lv.cache.map (·.2.2)).sum
  | none => 0

/-- total value of all children ever created -/
def MVec.storeTotal (v : MVec) : Nat := (v.store.map (·.val)).sum

/-- total pending in all live local caches -/
def pendingTotal (ls : List (Option LVec)) : Nat := (ls.map optPending).sum

end Prom

namespace Prom.C12
open Prom

/-! ### `pick`, `wsum` -/

/-- picking from nothing gives nothing -/
@[simp] theorem pick_zero (b : Bool) : pick b 0 = 0 := by unfold pick; split <;> rfl
/-- `pick` is additive -/
theorem pick_add (b : Bool) (x y : Nat) : pick b (x + y) = pick b x + pick b y := by
  unfold pick; split <;> simp
/-- a selected amount counts fully -/
@[simp] theorem pick_true (x : Nat) : pick true x = x := rfl
/-- an unselected amount counts as nothing -/
@[simp] theorem pick_false (x : Nat) : pick false x = 0 := rfl

/-- the held value of an appended store splits -/
theorem wsum_append (sel : Nat → Bool) (off : Nat) (l r : List Child) :
    wsum sel off (l ++ r) = wsum sel off l + wsum sel (off + l.length) r := by
  induction l generalizing off with
  | nil => simp [wsum]
  | cons c t ih =>
    simp only [List.cons_append, wsum, ih, List.length_cons]
    have : off + 1 + t.length = off + (t.length + 1) := by omega
    rw [this]; omega

/-- adding `d` to the stored child at position `i` adds `d` iff that id is selected -/
theorem wsum_modify (sel : Nat → Bool) (off : Nat) (l : List Child) (i d : Nat) (hi : i < l.length) :
    wsum sel off (l.modify i (fun c => { c with val := c.val + d })) = wsum sel off l + pick (sel (off + i)) d := by
  induction l generalizing off i with
  | nil => simp at hi
  | cons c t ih =>
    cases i with
    | zero =>
      simp only [List.modify_zero_cons, wsum, pick_add, Nat.add_zero]
      omega
    | succ i =>
      simp only [List.length_cons, Nat.add_lt_add_iff_right] at hi
      simp only [List.modify_succ_cons, wsum, ih (off + 1) i hi]
      have : off + 1 + i = off + (i + 1) := by omega
      rw [this]; omega

/-- nothing is held if no id from `off` on is selected -/
theorem wsum_eq_zero (sel : Nat → Bool) (off : Nat) (l : List Child) (h : ∀ i, off ≤ i → sel i = false) :
    wsum sel off l = 0 := by
  induction l generalizing off with
  | nil => rfl
  | cons c t ih =>
    simp only [wsum, h off (Nat.le_refl _), pick_false, Nat.zero_add]
    exact ih (off + 1) (fun i hi => h i (by omega))

/-- selecting the single id `off + j` gives the value of the `j`-th child -/
theorem wsum_single (off j : Nat) (l : List Child) :
    wsum (fun i => i == off + j) off l = ((l[j]?).map (·.val)).getD 0 := by
  induction l generalizing off j with
  | nil => rfl
  | cons c t ih =>
    cases j with
    | zero =>
      simp only [wsum, Nat.add_zero, beq_self_eq_true, pick_true, List.getElem?_cons_zero, Option.map_some,
        Option.getD_some]
      rw [wsum_eq_zero]
      · rfl
      · intro i hi; simp; omega
    | succ j =>
      have e : (fun i => i == off + (j + 1)) = (fun i => i == (off + 1) + j) := by
        funext i; congr 1; omega
      have hne : (off == off + (j + 1)) = false := by simp
      simp only [wsum, hne, pick_false, Nat.zero_add, List.getElem?_cons_succ]
      rw [e]
      exact ih (off + 1) j

/-- selecting everything gives the plain sum of the child values -/
theorem wsum_all (off : Nat) (l : List Child) : wsum (fun _ => true) off l = (l.map (·.val)).sum := by
  induction l generalizing off with
  | nil => rfl
  | cons c t ih => simp [wsum, ih]

/-- the account of one child is its value -/
theorem storeHeld_single (v : MVec) (id : Nat) : storeHeld (fun i => i == id) v = v.valOf id := by
  have := wsum_single 0 id v.store
  simp only [Nat.zero_add] at this
  exact this

/-- selecting everything gives the total of all children ever created -/
theorem storeHeld_all (v : MVec) : storeHeld (fun _ => true) v = (v.store.map (·.val)).sum := wsum_all 0 _

/-! ### the shared vector -/

/-- an update creates or destroys no child -/
theorem bump_length (v : MVec) (id d : Nat) : (v.bump id d).store.length = v.store.length := by
  simp [MVec.bump]

/-- an update of an existing child by `d` adds `d` to its account -/
theorem bump_held (sel : Nat → Bool) (v : MVec) (id d : Nat) (hi : id < v.store.length) :
    storeHeld sel (v.bump id d) = storeHeld sel v + pick (sel id) d := by
  unfold storeHeld MVec.bump
  have := wsum_modify sel 0 v.store id d hi
  simpa using this

/-- flushing an empty cache does nothing -/
theorem flushCache_nil (v : MVec) : flushCache v [] = v := rfl
/-- flushing goes entry by entry -/
theorem flushCache_cons (v : MVec) (e) (c) : flushCache v (e :: c) = flushCache (v.bump e.2.1 e.2.2) c := rfl

/-- a flush creates or destroys no child -/
theorem flushCache_length (v : MVec) (c) : (flushCache v c).store.length = v.store.length := by
  induction c generalizing v with
  | nil => rfl
  | cons e t ih => rw [flushCache_cons, ih, bump_length]

/-- a flush does not touch the key map -/
theorem flushCache_children (v : MVec) (c) : (flushCache v c).children = v.children := by
  induction c generalizing v with
  | nil => rfl
  | cons e t ih => rw [flushCache_cons, ih]; rfl

/-- a flush of a cache with valid ids moves exactly its pending amounts into the children -/
theorem flushCache_held (sel : Nat → Bool) (v : MVec) (c : List (UInt64 × Nat × Nat))
    (hc : ∀ e ∈ c, e.2.1 < v.store.length) :
    storeHeld sel (flushCache v c) = storeHeld sel v + cacheHeld sel c := by
  induction c generalizing v with
  | nil => simp [flushCache_nil, cacheHeld]
  | cons e t ih =>
    rw [flushCache_cons, ih]
    · rw [bump_held sel v _ _ (hc e (List.mem_cons_self ..))]
      simp only [cacheHeld, List.map_cons, List.sum_cons]
      omega
    · intro e' he'
      rw [bump_length]
      exact hc e' (List.mem_cons_of_mem _ he')

/-- `getOrCreate` keeps all values (a new child starts at 0), never shrinks the store, keeps the key map's ids valid and returns a valid id -/
theorem getOrCreate_facts {v v' : MVec} {k : UInt64} {vals : List Str} {r : Except VErr Nat}
    (h : getOrCreate v k vals = (v', r)) (hr : ∀ p ∈ v.children, p.2 < v.store.length) (sel : Nat → Bool) :
    storeHeld sel v' = storeHeld sel v ∧ v.store.length ≤ v'.store.length ∧
    (∀ p ∈ v'.children, p.2 < v'.store.length) ∧ (∀ id, r = .ok id → id < v'.store.length) := by
  unfold getOrCreate at h
  cases hl : lookupKey v k with
  | some id =>
    rw [hl] at h
    simp only [Prod.mk.injEq] at h
    obtain ⟨rfl, rfl⟩ := h
    refine ⟨rfl, Nat.le_refl _, hr, ?_⟩
    intro id' e
    cases e
    have := afind_some (by rw [← lookupKey_eq]; exact hl)
    exact hr _ this
  | none =>
    rw [hl] at h
    simp only [] at h
    split at h
    · simp only [Prod.mk.injEq] at h
      obtain ⟨rfl, rfl⟩ := h
      exact ⟨rfl, Nat.le_refl _, hr, fun _ e => by cases e⟩
    · simp only [Prod.mk.injEq] at h
      obtain ⟨rfl, rfl⟩ := h
      refine ⟨?_, by simp, ?_, ?_⟩
      · simp [storeHeld, wsum_append, wsum]
      · intro p hp
        simp only [List.length_append, List.length_cons, List.length_nil]
        rcases List.mem_append.1 hp with hp | hp
        · have := hr p hp; omega
        · simp at hp; subst hp; simp
      · intro id e
        cases e
        simp

/-- `removeKey` keeps the store and only unlinks keys -/
theorem removeKey_facts (v : MVec) (k : UInt64) :
    (removeKey v k).1.store = v.store ∧ ∀ p ∈ (removeKey v k).1.children, p ∈ v.children := by
  unfold removeKey
  cases lookupKey v k with
  | none => exact ⟨rfl, fun _ h => h⟩
  | some id => exact ⟨rfl, fun p h => (List.mem_filter.1 h).1⟩

/-! ### caches -/

/-- `cacheFind` unfolds along the list -/
theorem cacheFind_cons (e : UInt64 × Nat × Nat) (t) (k : UInt64) :
    cacheFind (e :: t) k = if e.1 == k then some e.2 else cacheFind t k := by
  unfold cacheFind
  rw [List.find?_cons]
  split <;> simp_all

/-- a cache hit is an entry of the cache -/
theorem cacheFind_mem {c : List (UInt64 × Nat × Nat)} {k : UInt64} {id p : Nat}
    (h : cacheFind c k = some (id, p)) : (k, id, p) ∈ c := by
  induction c with
  | nil => simp [cacheFind] at h
  | cons e t ih =>
    rw [cacheFind_cons] at h
    split at h
    · rename_i hk
      have hk' : e.1 = k := by simpa using hk
      obtain ⟨a, b⟩ := e
      simp only at hk' h
      cases h; subst hk'
      exact List.mem_cons_self ..
    · exact List.mem_cons_of_mem _ (ih h)

/-- a cache miss: no entry has the key -/
theorem cacheFind_none {c : List (UInt64 × Nat × Nat)} {k : UInt64} (h : cacheFind c k = none) :
    ∀ e ∈ c, e.1 ≠ k := by
  induction c with
  | nil => intro e he; cases he
  | cons e t ih =>
    rw [cacheFind_cons] at h
    split at h
    · cases h
    · rename_i hk
      intro e' he'
      rcases List.mem_cons.1 he' with rfl | he'
      · simpa using hk
      · exact ih h e' he'

/-- the `lwith` cache update of the entry of key `k` -/
local macro "cacheUpd" k:term:max id:term:max q:term:max : term =>
  `(fun e : UInt64 × Nat × Nat => if e.1 == $k then ($k, $id, $q) else e)

/-- the `lwith` cache update keeps the keys -/
theorem cacheUpd_keys (k : UInt64) (id q : Nat) (c : List (UInt64 × Nat × Nat)) :
    (c.map (cacheUpd k id q)).map (·.1) = c.map (·.1) := by
  rw [List.map_map]
  apply List.map_congr_left
  intro e _
  simp only [Function.comp]
  split
  · rename_i hk; simpa using Eq.symm (by simpa using hk : e.1 = k)
  · rfl

/-- the `lwith` cache update does nothing where the key does not occur -/
theorem cacheUpd_notin (k : UInt64) (id q : Nat) (c : List (UInt64 × Nat × Nat)) (h : ∀ e ∈ c, e.1 ≠ k) :
    c.map (cacheUpd k id q) = c := by
  have : ∀ e ∈ c, (cacheUpd k id q) e = _root_.id e := by
    intro e he
    have : (e.1 == k) = false := by simpa using h e he
    simp [this]
  rw [List.map_congr_left this, List.map_id]

/-- pending amount of a cache, head and tail -/
theorem cacheHeld_cons (sel : Nat → Bool) (e) (t) :
    cacheHeld sel (e :: t) = pick (sel e.2.1) e.2.2 + cacheHeld sel t := by
  simp [cacheHeld]

/-- pending amount of an appended cache splits -/
theorem cacheHeld_append (sel : Nat → Bool) (a b) :
    cacheHeld sel (a ++ b) = cacheHeld sel a + cacheHeld sel b := by
  simp [cacheHeld]

/-- distinct keys: the head key does not occur in the tail -/
theorem nodup_tail_notin {e : UInt64 × Nat × Nat} {t : List (UInt64 × Nat × Nat)}
    (hn : ((e :: t).map (·.1)).Nodup) : ∀ e' ∈ t, e'.1 ≠ e.1 := by
  simp only [List.map_cons, List.nodup_cons] at hn
  intro e' he' heq
  apply hn.1
  rw [← heq]
  exact List.mem_map.2 ⟨e', he', rfl⟩

/-- a cache hit adds `d` to exactly one entry -/
theorem cacheHeld_upd (sel : Nat → Bool) {c : List (UInt64 × Nat × Nat)} {k : UInt64} {id p : Nat} (d : Nat)
    (hn : (c.map (·.1)).Nodup) (hf : cacheFind c k = some (id, p)) :
    cacheHeld sel (c.map (cacheUpd k id (p + d))) = cacheHeld sel c + pick (sel id) d := by
  induction c with
  | nil => simp [cacheFind] at hf
  | cons e t ih =>
    rw [cacheFind_cons] at hf
    split at hf
    · rename_i hk
      have hk' : e.1 = k := by simpa using hk
      obtain ⟨a, b⟩ := e
      simp only at hk' hf
      cases hf; subst hk'
      have hnot := nodup_tail_notin hn
      rw [List.map_cons, cacheUpd_notin _ _ _ _ hnot]
      simp only [beq_self_eq_true, if_true, cacheHeld_cons, pick_add]
      omega
    · rename_i hk
      have hn' : (t.map (·.1)).Nodup := by
        simp only [List.map_cons, List.nodup_cons] at hn; exact hn.2
      rw [List.map_cons]
      simp only [hk, Bool.false_eq_true, if_false]
      rw [cacheHeld_cons, cacheHeld_cons, ih hn' hf]
      omega

/-- removing the entry of key `k` takes out exactly its pending amount -/
theorem cacheHeld_filter_some (sel : Nat → Bool) {c : List (UInt64 × Nat × Nat)} {k : UInt64} {id p : Nat}
    (hn : (c.map (·.1)).Nodup) (hf : cacheFind c k = some (id, p)) :
    cacheHeld sel (c.filter (·.1 != k)) + pick (sel id) p = cacheHeld sel c := by
  induction c with
  | nil => simp [cacheFind] at hf
  | cons e t ih =>
    rw [cacheFind_cons] at hf
    split at hf
    · rename_i hk
      have hk' : e.1 = k := by simpa using hk
      obtain ⟨a, b⟩ := e
      simp only at hk' hf
      cases hf; subst hk'
      have hnot := nodup_tail_notin hn
      have hfil : t.filter (·.1 != a) = t := by
        rw [List.filter_eq_self]
        intro e' he'
        simpa using hnot e' he'
      simp only [List.filter_cons, bne_self_eq_false, Bool.false_eq_true, if_false, hfil, cacheHeld_cons]
      omega
    · rename_i hk
      have hn' : (t.map (·.1)).Nodup := by
        simp only [List.map_cons, List.nodup_cons] at hn; exact hn.2
      have hne : (e.1 != k) = true := by simpa using hk
      simp only [List.filter_cons, hne, if_true, cacheHeld_cons]
      have := ih hn' hf
      omega

/-- removing a key that is not cached changes nothing -/
theorem cache_filter_none {c : List (UInt64 × Nat × Nat)} {k : UInt64} (hf : cacheFind c k = none) :
    c.filter (·.1 != k) = c := by
  rw [List.filter_eq_self]
  intro e he
  simpa using cacheFind_none hf e he

/-- a flushed cache has nothing pending -/
theorem cacheHeld_zeroed (sel : Nat → Bool) (c : List (UInt64 × Nat × Nat)) :
    cacheHeld sel (c.map fun e => (e.1, e.2.1, 0)) = 0 := by
  induction c with
  | nil => rfl
  | cons e t ih => rw [List.map_cons, cacheHeld_cons, ih]; simp

/-- a cache stays in order when the store grows -/
theorem CacheOk.mono {n m : Nat} {c} (h : CacheOk n c) (hnm : n ≤ m) : CacheOk m c :=
  ⟨h.1, fun e he => Nat.lt_of_lt_of_le (h.2 e he) hnm⟩

/-- the empty cache is in order -/
theorem cacheOk_nil (n : Nat) : CacheOk n [] := ⟨by simp, fun _ h => by cases h⟩

/-! ### the handle list -/

/-- replacing one handle changes the pending total by the difference -/
theorem localsHeld_set (sel : Nat → Bool) {ls : List (Option LVec)} {i : Nat} {o : Option LVec} (n : Option LVec)
    (h : ls[i]? = some o) :
    localsHeld sel (ls.set i n) + optHeld sel o = localsHeld sel ls + optHeld sel n := by
  unfold localsHeld
  induction ls generalizing i with
  | nil => simp at h
  | cons a t ih =>
    cases i with
    | zero => simp at h; subst h; simp; omega
    | succ i =>
      simp at h
      have := ih h
      simp only [List.set_cons_succ, List.map_cons, List.sum_cons]
      omega

/-- a new handle adds its pending amount -/
theorem localsHeld_append (sel : Nat → Bool) (ls : List (Option LVec)) (o : Option LVec) :
    localsHeld sel (ls ++ [o]) = localsHeld sel ls + optHeld sel o := by
  simp [localsHeld]

/-- an element found by index is a member -/
theorem mem_of_getElem? {α} {l : List α} {i : Nat} {a : α} (h : l[i]? = some a) : a ∈ l :=
  List.mem_of_getElem? h

/-! ### one step: well-formedness and conservation -/

/-- well-formedness of a successor state: ids in the key map valid, store not shrunk, every live cache either old or in order -/
theorem wf_mk {w : VW} (hw : VWf w) {v' : MVec} {ls' : List (Option LVec)} {f : Bool}
    (hc : ∀ p ∈ v'.children, p.2 < v'.store.length) (hlen : w.v.store.length ≤ v'.store.length)
    (hl : ∀ lv, some lv ∈ ls' → some lv ∈ w.locals ∨ CacheOk v'.store.length lv.cache) :
    VWf ⟨v', ls', f⟩ := by
  refine ⟨hc, ?_⟩
  intro lv hlv
  rcases hl lv hlv with hm | hok
  · exact CacheOk.mono (hw.2 lv hm) hlen
  · exact hok

/-- a live cache after replacing handle `i`: an old one or the new one -/
theorem mem_set_some {ls : List (Option LVec)} {i : Nat} {x lv : LVec} (h : some lv ∈ ls.set i (some x)) :
    some lv ∈ ls ∨ lv = x := by
  rcases List.mem_or_eq_of_mem_set h with hm | he
  · exact Or.inl hm
  · cases he; exact Or.inr rfl

/-- a live cache after dropping handle `i` is an old one -/
theorem mem_set_none {ls : List (Option LVec)} {i : Nat} {lv : LVec} (h : some lv ∈ ls.set i none) :
    some lv ∈ ls := by
  rcases List.mem_or_eq_of_mem_set h with hm | he
  · exact hm
  · cases he

/-- `lwith`: well-formedness is kept; held afterwards = held before + accepted amount -/
theorem lwith_facts (sel : Nat → Bool) (w : VW) (hw : VWf w) (h : Nat) (vals : List Str) (d : Nat) :
    VWf ((w.lwith h vals d).getD w) ∧
    ((w.lwith h vals d).getD w).held sel = w.held sel + w.input sel (.lwith h vals d) := by
  cases hl : w.locals[h]? with
  | none => simp only [VW.lwith, VW.input, VW.lwithTarget, hl, Option.getD_some]; exact ⟨hw, rfl⟩
  | some o =>
    cases o with
    | none => simp only [VW.lwith, VW.input, VW.lwithTarget, hl, Option.getD_some]; exact ⟨hw, rfl⟩
    | some lv =>
      cases hh : hashLabelValues w.v vals with
      | error e => simp only [VW.lwith, VW.input, VW.lwithTarget, hl, hh, Option.getD_none]; exact ⟨hw, rfl⟩
      | ok k =>
        have hok := hw.2 lv (List.mem_of_getElem? hl)
        cases hf : cacheFind lv.cache k with
        | some ip =>
          obtain ⟨id, p⟩ := ip
          simp only [VW.lwith, VW.input, VW.lwithTarget, hl, hh, hf, Option.getD_some]
          constructor
          · apply wf_mk hw hw.1 (Nat.le_refl _)
            intro lv' hlv'
            rcases mem_set_some hlv' with hm | he
            · exact Or.inl hm
            · right
              subst he
              refine ⟨by rw [cacheUpd_keys]; exact hok.1, ?_⟩
              intro e he
              obtain ⟨e0, he0, rfl⟩ := List.mem_map.1 he
              split
              · exact hok.2 (k, id, p) (cacheFind_mem hf)
              · exact hok.2 e0 he0
          · unfold VW.held
            simp only []
            have := localsHeld_set sel (some ⟨lv.cache.map (cacheUpd k id (p + d))⟩) hl
            simp only [optHeld] at this
            rw [cacheHeld_upd sel d hok.1 hf] at this
            omega
        | none =>
          cases hg : getOrCreate w.v k vals with
          | mk v' r =>
            cases r with
            | error e => simp only [VW.lwith, VW.input, VW.lwithTarget, hl, hh, hf, hg, Option.getD_none]; exact ⟨hw, rfl⟩
            | ok id =>
              obtain ⟨h1, h2, h3, h4⟩ := getOrCreate_facts hg hw.1 sel
              simp only [VW.lwith, VW.input, VW.lwithTarget, hl, hh, hf, hg, Option.getD_some]
              constructor
              · apply wf_mk hw h3 h2
                intro lv' hlv'
                rcases mem_set_some hlv' with hm | he
                · exact Or.inl hm
                · right
                  subst he
                  refine ⟨?_, ?_⟩
                  · simp only [List.map_append, List.map_cons, List.map_nil]
                    rw [List.nodup_append]
                    refine ⟨hok.1, by simp, ?_⟩
                    intro a ha b hb e
                    simp at hb; subst hb
                    obtain ⟨e0, he0, hea⟩ := List.mem_map.1 ha
                    exact cacheFind_none hf e0 he0 (hea.trans e)
                  · intro e he
                    rcases List.mem_append.1 he with he | he
                    · exact Nat.lt_of_lt_of_le (hok.2 e he) h2
                    · simp at he; subst he; exact h4 id rfl
              · unfold VW.held
                simp only []
                have := localsHeld_set sel (some ⟨lv.cache ++ [(k, id, d)]⟩) hl
                simp only [optHeld, cacheHeld_append, cacheHeld_cons] at this
                simp only [cacheHeld, List.map_nil, List.sum_nil] at this
                rw [h1]
                omega

/-- `lflush`: well-formedness is kept; only moves pending amounts into children -/
theorem lflush_facts (sel : Nat → Bool) (w : VW) (hw : VWf w) (h : Nat) :
    VWf (w.lflush h) ∧ (w.lflush h).held sel = w.held sel := by
  unfold VW.lflush
  cases hl : w.locals[h]? with
  | none => exact ⟨hw, rfl⟩
  | some o =>
    cases o with
    | none => exact ⟨hw, rfl⟩
    | some lv =>
      simp only []
      have hok := hw.2 lv (List.mem_of_getElem? hl)
      constructor
      · apply wf_mk hw
        · rw [flushCache_children, flushCache_length]; exact hw.1
        · rw [flushCache_length]; exact Nat.le_refl _
        · intro lv' hlv'
          rcases mem_set_some hlv' with hm | he
          · exact Or.inl hm
          · right
            subst he
            rw [flushCache_length]
            refine ⟨?_, ?_⟩
            · rw [List.map_map]; exact hok.1
            · intro e he
              obtain ⟨e0, he0, rfl⟩ := List.mem_map.1 he
              exact hok.2 e0 he0
      · unfold VW.held
        simp only []
        have := localsHeld_set sel (some ⟨lv.cache.map fun e => (e.1, e.2.1, 0)⟩) hl
        simp only [optHeld, cacheHeld_zeroed] at this
        rw [flushCache_held sel _ _ hok.2]
        omega

/-- the shared vector after `lremove` dropped the cached local of key `k` (histogram flavour: flushed) -/
def lremoveV1 (w : VW) (lv : LVec) (k : UInt64) : MVec :=
  match cacheFind lv.cache k with
  | some (id, p) => if w.flushOnDrop then w.v.bump id p else w.v
  | none => w.v

/-- `lremove` on a live handle with the right cardinality, in closed form -/
theorem lremove_eq (w : VW) (h : Nat) (vals : List Str) (lv : LVec) (k : UInt64)
    (hl : w.locals[h]? = some (some lv)) (hh : hashLabelValues w.v vals = .ok k) :
    (w.lremove h vals).1 =
      { w with v := (removeKey (lremoveV1 w lv k) k).1,
               locals := w.locals.set h (some ⟨lv.cache.filter (·.1 != k)⟩) } := by
  unfold VW.lremove lremoveV1
  simp only [hl, hh]
  rfl

/-- `lremove`: well-formedness is kept; held afterwards + discarded = held before -/
theorem lremove_facts (sel : Nat → Bool) (w : VW) (hw : VWf w) (h : Nat) (vals : List Str) :
    VWf (w.lremove h vals).1 ∧
    (w.lremove h vals).1.held sel + w.discards sel (.lremove h vals) = w.held sel := by
  cases hl : w.locals[h]? with
  | none => simp only [VW.lremove, VW.discards, hl, ite_self, Nat.add_zero]; exact ⟨hw, trivial⟩
  | some o =>
    cases o with
    | none => simp only [VW.lremove, VW.discards, hl, ite_self, Nat.add_zero]; exact ⟨hw, trivial⟩
    | some lv =>
      cases hh : hashLabelValues w.v vals with
      | error e => simp only [VW.lremove, VW.discards, hl, hh, ite_self, Nat.add_zero]; exact ⟨hw, trivial⟩
      | ok k =>
        rw [lremove_eq w h vals lv k hl hh]
        have hok := hw.2 lv (List.mem_of_getElem? hl)
        have hv1len : (lremoveV1 w lv k).store.length = w.v.store.length := by
          unfold lremoveV1; split
          · split
            · exact bump_length ..
            · rfl
          · rfl
        have hv1ch : (lremoveV1 w lv k).children = w.v.children := by
          unfold lremoveV1; split
          · split <;> rfl
          · rfl
        have hrk := removeKey_facts (lremoveV1 w lv k) k
        have hlen2 : (removeKey (lremoveV1 w lv k) k).1.store.length = w.v.store.length := by
          rw [hrk.1, hv1len]
        constructor
        · apply wf_mk hw
          · intro p hp
            have := hrk.2 p hp
            rw [hv1ch] at this
            rw [hlen2]
            exact hw.1 p this
          · rw [hlen2]; exact Nat.le_refl _
          · intro lv' hlv'
            rcases mem_set_some hlv' with hm | he
            · exact Or.inl hm
            · right
              subst he
              rw [hlen2]
              refine ⟨?_, fun e he => hok.2 e (List.mem_filter.1 he).1⟩
              exact List.Nodup.sublist (List.Sublist.map _ (List.filter_sublist ..)) hok.1
        · unfold VW.held
          simp only [VW.discards, hl, hh]
          have hset := localsHeld_set sel (some ⟨lv.cache.filter (·.1 != k)⟩) hl
          simp only [optHeld] at hset
          have hs2 : storeHeld sel (removeKey (lremoveV1 w lv k) k).1 = storeHeld sel (lremoveV1 w lv k) := by
            unfold storeHeld; rw [hrk.1]
          rw [hs2]
          cases hf : cacheFind lv.cache k with
          | none =>
            have hv1 : lremoveV1 w lv k = w.v := by unfold lremoveV1; rw [hf]
            rw [hv1]
            rw [cache_filter_none hf] at hset ⊢
            simp only [ite_self]
            omega
          | some ip =>
            obtain ⟨id, p⟩ := ip
            have hfil := cacheHeld_filter_some sel hok.1 hf
            have hid : id < w.v.store.length := hok.2 _ (cacheFind_mem hf)
            cases hfd : w.flushOnDrop with
            | true =>
              have hv1 : lremoveV1 w lv k = w.v.bump id p := by unfold lremoveV1; rw [hf]; simp only [hfd, if_true]
              rw [hv1, bump_held sel _ _ _ hid]
              simp only [if_true]
              omega
            | false =>
              have hv1 : lremoveV1 w lv k = w.v := by
                unfold lremoveV1; rw [hf]; simp only [hfd, Bool.false_eq_true, if_false]
              rw [hv1]
              simp only [Bool.false_eq_true, if_false]
              omega

/-- `lclone`: well-formedness is kept; the clone holds nothing -/
theorem lclone_facts (sel : Nat → Bool) (w : VW) (hw : VWf w) (h : Nat) :
    VWf (w.lclone h) ∧ (w.lclone h).held sel = w.held sel := by
  unfold VW.lclone
  cases hl : w.locals[h]? with
  | none => exact ⟨hw, rfl⟩
  | some o =>
    cases o with
    | none =>
      simp only []
      constructor
      · apply wf_mk hw hw.1 (Nat.le_refl _)
        intro lv hlv
        rcases List.mem_append.1 hlv with hm | hm
        · exact Or.inl hm
        · simp at hm
      · unfold VW.held; simp only [localsHeld_append, optHeld]; omega
    | some lv0 =>
      simp only []
      constructor
      · apply wf_mk hw hw.1 (Nat.le_refl _)
        intro lv hlv
        rcases List.mem_append.1 hlv with hm | hm
        · exact Or.inl hm
        · simp at hm; subst hm; exact Or.inr (cacheOk_nil _)
      · unfold VW.held; simp only [localsHeld_append, optHeld, cacheHeld, List.map_nil, List.sum_nil]; omega

/-- `ldrop`: well-formedness is kept; held afterwards + discarded = held before -/
theorem ldrop_facts (sel : Nat → Bool) (w : VW) (hw : VWf w) (h : Nat) :
    VWf (w.ldrop h) ∧ (w.ldrop h).held sel + w.discards sel (.ldrop h) = w.held sel := by
  cases hl : w.locals[h]? with
  | none => simp only [VW.ldrop, VW.discards, hl, ite_self, Nat.add_zero]; exact ⟨hw, trivial⟩
  | some o =>
    cases o with
    | none => simp only [VW.ldrop, VW.discards, hl, ite_self, Nat.add_zero]; exact ⟨hw, trivial⟩
    | some lv =>
      have hok := hw.2 lv (List.mem_of_getElem? hl)
      have hset := localsHeld_set sel none hl
      simp only [optHeld] at hset
      cases hfd : w.flushOnDrop with
      | true =>
        simp only [VW.ldrop, VW.discards, hl, hfd, if_true]
        constructor
        · rw [← hfd]
          apply wf_mk hw
          · rw [flushCache_children, flushCache_length]; exact hw.1
          · rw [flushCache_length]; exact Nat.le_refl _
          · intro lv' hlv'; exact Or.inl (mem_set_none hlv')
        · unfold VW.held
          simp only []
          rw [flushCache_held sel _ _ hok.2]
          omega
      | false =>
        simp only [VW.ldrop, VW.discards, hl, hfd, Bool.false_eq_true, if_false]
        constructor
        · rw [← hfd]
          apply wf_mk hw hw.1 (Nat.le_refl _)
          intro lv' hlv'; exact Or.inl (mem_set_none hlv')
        · unfold VW.held
          simp only []
          omega

/-- a new local handle holds nothing -/
theorem lnew_facts (sel : Nat → Bool) (w : VW) (hw : VWf w) :
    VWf { w with locals := w.locals ++ [some {}] } ∧
    ({ w with locals := w.locals ++ [some {}] } : VW).held sel = w.held sel := by
  constructor
  · apply wf_mk hw hw.1 (Nat.le_refl _)
    intro lv hlv
    rcases List.mem_append.1 hlv with hm | hm
    · exact Or.inl hm
    · simp at hm; subst hm; exact Or.inr (cacheOk_nil _)
  · unfold VW.held; simp only [localsHeld_append, optHeld, cacheHeld, List.map_nil, List.sum_nil]; omega

/-- direct update: well-formedness is kept; held afterwards = held before + accepted amount -/
theorem swith_facts (sel : Nat → Bool) (w : VW) (hw : VWf w) (vals : List Str) (d : Nat) :
    VWf (w.step (.swith vals d)) ∧
    (w.step (.swith vals d)).held sel = w.held sel + w.input sel (.swith vals d) := by
  cases hh : hashLabelValues w.v vals with
  | error e => simp only [VW.step, VW.input, withLabelValues, hh]; exact ⟨hw, rfl⟩
  | ok k =>
    cases hg : getOrCreate w.v k vals with
    | mk v' r =>
      obtain ⟨h1, h2, h3, h4⟩ := getOrCreate_facts hg hw.1 sel
      cases r with
      | error e =>
        simp only [VW.step, VW.input, withLabelValues, hh, hg]
        constructor
        · exact wf_mk hw h3 h2 (fun lv hlv => Or.inl hlv)
        · unfold VW.held; simp only []; rw [h1]; omega
      | ok id =>
        simp only [VW.step, VW.input, withLabelValues, hh, hg]
        constructor
        · apply wf_mk hw
          · rw [bump_length]; exact h3
          · rw [bump_length]; exact h2
          · exact fun lv hlv => Or.inl hlv
        · unfold VW.held; simp only []
          rw [bump_held sel _ _ _ (h4 id rfl), h1]; omega

/-- direct remove: only unlinks a key -/
theorem sremove_facts (sel : Nat → Bool) (w : VW) (hw : VWf w) (vals : List Str) :
    VWf (w.step (.sremove vals)) ∧ (w.step (.sremove vals)).held sel = w.held sel := by
  cases hh : hashLabelValues w.v vals with
  | error e => simp only [VW.step, removeLabelValues, hh]; exact ⟨hw, trivial⟩
  | ok k =>
    simp only [VW.step, removeLabelValues, hh]
    have hrk := removeKey_facts w.v k
    constructor
    · apply wf_mk hw
      · intro p hp; rw [hrk.1]; exact hw.1 p (hrk.2 p hp)
      · rw [hrk.1]; exact Nat.le_refl _
      · exact fun lv hlv => Or.inl hlv
    · unfold VW.held storeHeld; simp only []; rw [hrk.1]

/-- direct reset: only unlinks all keys -/
theorem sreset_facts (sel : Nat → Bool) (w : VW) (hw : VWf w) :
    VWf (w.step .sreset) ∧ (w.step .sreset).held sel = w.held sel := by
  unfold VW.step
  constructor
  · apply wf_mk hw
    · intro p hp; simp [MVec.reset] at hp
    · exact Nat.le_refl _
    · exact fun lv hlv => Or.inl hlv
  · rfl

/-- one step keeps the state well-formed -/
theorem step_wf (w : VW) (op : VOpL) (hw : VWf w) : VWf (w.step op) := by
  cases op with
  | lwith h vals d => exact (lwith_facts (fun _ => true) w hw h vals d).1
  | lflush h => exact (lflush_facts (fun _ => true) w hw h).1
  | lremove h vals => exact (lremove_facts (fun _ => true) w hw h vals).1
  | lclone h => exact (lclone_facts (fun _ => true) w hw h).1
  | ldrop h => exact (ldrop_facts (fun _ => true) w hw h).1
  | lnew => exact (lnew_facts (fun _ => true) w hw).1
  | swith vals d => exact (swith_facts (fun _ => true) w hw vals d).1
  | sremove vals => exact (sremove_facts (fun _ => true) w hw vals).1
  | sreset => exact (sreset_facts (fun _ => true) w hw).1

/-- one step: what is held afterwards plus what the step threw away = what was held before plus
    what the step put in -/
theorem step_conserve (sel : Nat → Bool) (w : VW) (op : VOpL) (hw : VWf w) :
    (w.step op).held sel + w.discards sel op = w.held sel + w.input sel op := by
  cases op with
  | lwith h vals d => have := (lwith_facts sel w hw h vals d).2; simp only [VW.step, VW.discards]; omega
  | lflush h => have := (lflush_facts sel w hw h).2; simp only [VW.step, VW.discards, VW.input]; omega
  | lremove h vals => have := (lremove_facts sel w hw h vals).2; simp only [VW.step, VW.input]; omega
  | lclone h => have := (lclone_facts sel w hw h).2; simp only [VW.step, VW.discards, VW.input]; omega
  | ldrop h => have := (ldrop_facts sel w hw h).2; simp only [VW.step, VW.input]; omega
  | lnew => have := (lnew_facts sel w hw).2; simp only [VW.step, VW.discards, VW.input]; omega
  | swith vals d => have := (swith_facts sel w hw vals d).2; simp only [VW.discards]; omega
  | sremove vals => have := (sremove_facts sel w hw vals).2; simp only [VW.discards, VW.input]; omega
  | sreset => have := (sreset_facts sel w hw).2; simp only [VW.discards, VW.input]; omega

/-- no step changes the flavour -/
theorem step_flushOnDrop (w : VW) (op : VOpL) : (w.step op).flushOnDrop = w.flushOnDrop := by
  cases op with
  | lwith h vals d =>
    simp only [VW.step, VW.lwith]
    split
    · split
      · rfl
      · split
        · rfl
        · split <;> rfl
    · rfl
  | lflush h => simp only [VW.step, VW.lflush]; split <;> rfl
  | lremove h vals =>
    simp only [VW.step, VW.lremove]
    split
    · split <;> rfl
    · rfl
  | lclone h => simp only [VW.step, VW.lclone]; split <;> rfl
  | ldrop h => simp only [VW.step, VW.ldrop]; split <;> rfl
  | lnew => rfl
  | swith vals d => simp only [VW.step]; split <;> rfl
  | sremove vals => rfl
  | sreset => rfl

/-- histogram flavour: no step ever discards anything -/
theorem discards_flush (sel : Nat → Bool) (w : VW) (op : VOpL) (hf : w.flushOnDrop = true) :
    w.discards sel op = 0 := by
  cases op <;> simp [VW.discards, hf]

/-! ### histories -/

/-- well-formedness along a history -/
theorem run_wf (w : VW) (hw : VWf w) (ops : List VOpL) : VWf (ops.foldl VW.step w) := by
  induction ops generalizing w with
  | nil => exact hw
  | cons op r ih => exact ih _ (step_wf w op hw)

/-- conservation along a history (induction over the operation list) -/
theorem run_conserve (sel : Nat → Bool) (w : VW) (hw : VWf w) (ops : List VOpL) :
    (ops.foldl VW.step w).held sel + w.totalDiscarded sel ops = w.held sel + w.totalIn sel ops := by
  induction ops generalizing w with
  | nil => rfl
  | cons op r ih =>
    have h1 := ih _ (step_wf w op hw)
    have h2 := step_conserve sel w op hw
    simp only [List.foldl_cons, VW.totalDiscarded, VW.totalIn]
    omega

/-- no history changes the flavour -/
theorem run_flushOnDrop (w : VW) (ops : List VOpL) : (ops.foldl VW.step w).flushOnDrop = w.flushOnDrop := by
  induction ops generalizing w with
  | nil => rfl
  | cons op r ih => rw [List.foldl_cons, ih, step_flushOnDrop]

/-- histogram flavour: a history discards nothing -/
theorem totalDiscarded_flush (sel : Nat → Bool) (w : VW) (hf : w.flushOnDrop = true) (ops : List VOpL) :
    w.totalDiscarded sel ops = 0 := by
  induction ops generalizing w with
  | nil => rfl
  | cons op r ih =>
    simp only [VW.totalDiscarded, discards_flush sel w op hf, Nat.zero_add]
    exact ih _ (by rw [step_flushOnDrop]; exact hf)

/-- a new vector is well-formed -/
theorem fresh_wf (names consts bf fod) : VWf (VW.fresh names consts bf fod) := by
  constructor
  · intro p hp; cases hp
  · intro lv hlv; cases hlv

/-- a new vector holds nothing -/
theorem fresh_held (sel : Nat → Bool) (names consts bf fod) : (VW.fresh names consts bf fod).held sel = 0 := rfl

/-- selecting everything gives the plain pending sum of a cache -/
theorem cacheHeld_all (c : List (UInt64 × Nat × Nat)) : cacheHeld (fun _ => true) c = (c.map (·.2.2)).sum := by
  simp [cacheHeld]

/-- selecting everything gives the plain pending total -/
theorem localsHeld_all (ls : List (Option LVec)) : localsHeld (fun _ => true) ls = pendingTotal ls := by
  unfold localsHeld pendingTotal
  apply congrArg
  apply List.map_congr_left
  intro o _
  cases o with
  | none => rfl
  | some lv => exact cacheHeld_all lv.cache

/-- selecting everything: total of all children ever created + total pending -/
theorem held_all (w : VW) : w.held (fun _ => true) = w.v.storeTotal + pendingTotal w.locals := by
  unfold VW.held MVec.storeTotal
  rw [storeHeld_all, localsHeld_all]

/-- selecting one child: its value + what is pending for it -/
theorem held_single (w : VW) (id : Nat) :
    w.held (fun i => i == id) = w.v.valOf id + localsHeld (fun i => i == id) w.locals := by
  unfold VW.held
  rw [storeHeld_single]

/-! ### flush -/

/-- modifying with a function that fixes every element changes nothing -/
theorem modify_fix {α} (l : List α) (i : Nat) (f : α → α) (hf : ∀ a, f a = a) : l.modify i f = l := by
  induction l generalizing i with
  | nil => cases i <;> rfl
  | cons a t ih =>
    cases i with
    | zero => simp [List.modify_zero_cons, hf]
    | succ i => simp [List.modify_succ_cons, ih]

/-- an update by 0 changes nothing -/
theorem bump_zero (v : MVec) (id : Nat) : v.bump id 0 = v := by
  unfold MVec.bump
  have : v.store.modify id (fun c => { c with val := c.val + 0 }) = v.store := modify_fix _ _ _ (fun c => rfl)
  rw [this]

/-- flushing a cache with nothing pending changes nothing -/
theorem flushCache_zero (v : MVec) (c : List (UInt64 × Nat × Nat)) (h : ∀ e ∈ c, e.2.2 = 0) :
    flushCache v c = v := by
  induction c generalizing v with
  | nil => rfl
  | cons e t ih =>
    rw [flushCache_cons, h e (List.mem_cons_self ..), bump_zero]
    exact ih v (fun e' he' => h e' (List.mem_cons_of_mem _ he'))

/-- an index with an element is in range -/
theorem lt_of_getElem? {α} {l : List α} {i : Nat} {a : α} (h : l[i]? = some a) : i < l.length := by
  rcases Nat.lt_or_ge i l.length with h' | h'
  · exact h'
  · rw [List.getElem?_eq_none_iff.2 h'] at h; cases h

end Prom.C12
