import Prom.Model.RegMachine
import Prom.Lemmas.Guard
/-
Concurrent use of one registry (C06 / C14, area `creg`): the replay machine `RM.step` touches the
registry only through `rEff`, i.e. by performing one operation of the sequential registry model and
recording it; helper lemmas for `Props/C06.registry_linearizable`.
-/
namespace Prom.C06
open Prom Prom.Conc Prom.RM

/-- run the sequential registry model over a commit log, checking every recorded result -/
def specRunR (colls : List Coll) : Reg → List RLin → Option Reg
  | r, [] => some r
  | r, l :: t => if (specApply colls r l.op).2 = l.res then specRunR colls (specApply colls r l.op).1 t else none

theorem specRunR_append (colls : List Coll) (r : Reg) (l : List RLin) (x : RLin) :
    specRunR colls r (l ++ [x]) = (specRunR colls r l).bind fun r' => specRunR colls r' [x] := by
  induction l generalizing r with
  | nil => simp [specRunR]
  | cons a t ih =>
    simp only [List.cons_append, specRunR]
    split
    · exact ih _
    · rfl

inductive RTrans (s s' : RM.St) : Prop
  | frame (hc : s'.colls = s.colls) (hr : s'.reg = s.reg) (hl : s'.lin = s.lin)
  | eff (t i : Nat) (op : ROp) (hc : s'.colls = s.colls) (hr : s'.reg = (rEff s t i op).1.reg) (hl : s'.lin = (rEff s t i op).1.lin)

theorem rStep_trans {s s' : RM.St} {e : Ev} (h : RM.step s e = .ok s') : RTrans s s' := by
  unfold RM.step at h
  split at h
  · cases h
  · split at h
    · cases h
    · simp only at h
      split at h
      · -- start
        split at h
        · cases h
        · rw [guard_ok] at h; obtain ⟨_, h⟩ := h
          rw [guard_ok] at h; obtain ⟨_, h⟩ := h
          cases h; exact .eff e.tid _ .gather rfl rfl rfl
        · next rop _ _ =>
          rw [guard_ok] at h; obtain ⟨_, h⟩ := h
          rw [guard_ok] at h; obtain ⟨_, h⟩ := h
          cases h; exact .eff e.tid _ rop rfl rfl rfl
      · -- held
        split at h
        · rw [guard_ok] at h; obtain ⟨_, h⟩ := h
          cases h; exact .frame rfl rfl rfl
        · rw [guard_ok] at h; obtain ⟨_, h⟩ := h
          cases h; exact .frame rfl rfl rfl

theorem rItem_trans {s s' : RM.St} {it : Item} (h : RM.item s it = .ok s') : RTrans s s' := by
  cases it with
  | ev e => exact rStep_trans h
  | call t i op =>
    simp only [RM.item] at h
    repeat' split at h
    all_goals first
      | (cases h; done)
      | (cases h; exact .frame rfl rfl rfl)
  | ret t i v =>
    simp only [RM.item] at h
    repeat' split at h
    all_goals first
      | (cases h; done)
      | (cases h; exact .frame rfl rfl rfl)
  | other x => simp [RM.item] at h

end Prom.C06
