import Prom.Model.RegMachine
import Prom.Lemmas.Guard
/-
Concurrent use of one registry (C06 / C14, area `creg`): the replay machine `RM.step` touches the
registry only through `rEff`, i.e. by performing one operation of the sequential registry model and
recording it; helper lemmas for `Props/C06.registry_linearizable`.
-/
namespace Prom.C06
open Prom Prom.Conc Prom.RM

/-- run the sequential registry model over a commit log, checking every recorded result -/
def specRunR (colls : List Coll) : Reg → List RLin → Option Reg
  | r, [] => some r
  | r, l :: t => if (specApply colls r l.op).2 = l.res then specRunR colls (specApply colls r l.op).1 t else none

theorem specRunR_append (colls : List Coll) (r : Reg) (l : List RLin) (x : RLin) :
    specRunR colls r (l ++ [x]) = (specRunR colls r l).bind fun r' => specRunR colls r' [x] := by
  induction l generalizing r with
  | nil => simp [specRunR]
  | cons a t ih =>
    simp only [List.cons_append, specRunR]
    split
    · exact ih _
    · rfl

inductive RTrans (s s' : RM.St) : Prop
  | frame (hc : s'.colls = s.colls) (hr : s'.reg = s.reg) (hl : s'.lin = s.lin)
  | eff (t i : Nat) (op : ROp) (hc : s'.colls = s.colls) (hr : s'.reg = (rEff s t i op).1.reg) (hl : s'.lin = (rEff s t i op).1.lin)

theorem rStep_trans {s s' : RM.St} {e : Ev} (h : RM.step s e = .ok s') : RTrans s s' := by
  unfold RM.step at h
  split at h
  · cases h
  · split at h
    · cases h
    · simp only at h
      split at h
      · -- start
        split at h
        · cases h
        · rw [guard_ok] at h; obtain ⟨_, h⟩ := h
          rw [guard_ok] at h; obtain ⟨_, h⟩ := h
          cases h; exact .eff e.tid _ .gather rfl rfl rfl
        · next i _ =>
          -- unregister: the pre-check under the read lock, or the write-locked section at once
          split at h
          · rw [guard_ok] at h; obtain ⟨_, h⟩ := h
            rw [guard_ok] at h; obtain ⟨_, h⟩ := h
            split at h
            · cases h; exact .eff e.tid _ (.unregister i) rfl rfl rfl
            · cases h; exact .frame rfl rfl rfl
          · rw [guard_ok] at h; obtain ⟨_, h⟩ := h
            rw [guard_ok] at h; obtain ⟨_, h⟩ := h
            cases h; exact .eff e.tid _ (.unregister i) rfl rfl rfl
        · next rop _ _ _ =>
          rw [guard_ok] at h; obtain ⟨_, h⟩ := h
          rw [guard_ok] at h; obtain ⟨_, h⟩ := h
          cases h; exact .eff e.tid _ rop rfl rfl rfl
      · -- held
        split at h
        · rw [guard_ok] at h; obtain ⟨_, h⟩ := h
          cases h; exact .frame rfl rfl rfl
        · rw [guard_ok] at h; obtain ⟨_, h⟩ := h
          cases h; exact .frame rfl rfl rfl
      · -- unrRheld: the read unlock of the pre-check
        rw [guard_ok] at h; obtain ⟨_, h⟩ := h
        split at h
        · cases h; exact .frame rfl rfl rfl
        · cases h; exact .frame rfl rfl rfl
      · -- unrNeedW: the write-locked section after the pre-check
        next i _ =>
        rw [guard_ok] at h; obtain ⟨_, h⟩ := h
        rw [guard_ok] at h; obtain ⟨_, h⟩ := h
        cases h; exact .eff e.tid _ (.unregister i) rfl rfl rfl

theorem rItem_trans {s s' : RM.St} {it : Item} (h : RM.item s it = .ok s') : RTrans s s' := by
  cases it with
  | ev e => exact rStep_trans h
  | call t i op =>
    simp only [RM.item] at h
    repeat' split at h
    all_goals first
      | (cases h; done)
      | (cases h; exact .frame rfl rfl rfl)
  | ret t i v =>
    simp only [RM.item] at h
    repeat' split at h
    all_goals first
      | (cases h; done)
      | (cases h; exact .frame rfl rfl rfl)
  | other x => simp [RM.item] at h

/-! ### the pre-checked `unregister`: a read-locked lookup before the write-locked section -/

/-- the result strings of a refused call are not "ok" -/
theorem showErr_ne_ok (e : RErr) : showErr e ≠ "ok" := by
  cases e <;> decide

/-- `specApply` of an unregister, collector `i` given -/
theorem specApply_unreg_some {colls : List Coll} {i : Nat} {c : Coll} (hc : colls[i]? = some c) (r : Reg) :
    RM.specApply colls r (.unregister i) =
      ((r.unregister c).1, match (r.unregister c).2 with | .ok _ => "ok" | .error e => showErr e) := by
  simp only [RM.specApply, hc]
  rcases r.unregister c with ⟨r', _ | _⟩ <;> rfl

/-- `specApply` of an unregister, no collector `i` -/
theorem specApply_unreg_none {colls : List Coll} {i : Nat} (hc : colls[i]? = none) (r : Reg) :
    RM.specApply colls r (.unregister i) = (r, "no-coll") := by
  simp only [RM.specApply, hc]

/-- the pre-check `unregFails` is exactly "the specification's unregister, run on the current
    registry, would not answer ok" -/
theorem unregFails_iff (colls : List Coll) (r : Reg) (i : Nat) :
    unregFails colls r i = true ↔ (RM.specApply colls r (.unregister i)).2 ≠ "ok" := by
  rcases hc : colls[i]? with _ | c
  · rw [specApply_unreg_none hc]
    simp only [unregFails, hc]
    decide
  · rw [specApply_unreg_some hc]
    simp only [unregFails, hc]
    rcases (r.unregister c).2 with e | u
    · simpa using showErr_ne_ok e
    · simp

/-- a refused unregister of the model returns the registry unchanged (the lemma behind
    `Props/C06.unregister_fail_noop`) -/
theorem unregister_error_noop (r : Reg) (c : Coll) (e : RErr) (h : (r.unregister c).2 = .error e) :
    (r.unregister c).1 = r := by
  unfold Reg.unregister at *
  simp only [] at h ⊢
  split
  · rename_i hc; simp [hc] at h
  · rfl

/-- **what is committed under the read lock changes nothing**: when the pre-check says the
    specification's unregister fails, performing it leaves the registry as it is -/
theorem unregFails_noop (colls : List Coll) (r : Reg) (i : Nat) (h : unregFails colls r i = true) :
    (RM.specApply colls r (.unregister i)).1 = r := by
  rcases hc : colls[i]? with _ | c
  · rw [specApply_unreg_none hc]
  · rw [specApply_unreg_some hc]
    simp only [unregFails, hc] at h
    rcases h2 : (r.unregister c).2 with e | u
    · exact unregister_error_noop r c e h2
    · rw [h2] at h; cases h

/-- the read lock of a pre-checked `unregister i` whose collector is NOT registered (the
    specification's unregister would fail): the step is accepted when no writer holds the lock, it
    commits `.unregister i` for this call with the specification's (error) result, leaves the registry
    as it is, adds the thread to the readers, and the call goes on to the read unlock with that result
    (`unrRheld i (some rv)`) -/
theorem step_unreg_precheck_absent {s : RM.St} {e : Ev} {th : Th RPc} {op : String} {i : Nat}
    (hth : s.ths[e.tid]? = some th) (hpc : th.pc = some (.start op)) (hop : parseOp op = some (.unregister i))
    (hk : e.k = "R") (hloc : e.loc = "lk") (hw : s.lockW = none) (hf : unregFails s.colls s.reg i = true) :
    RM.step s e = .ok { s with
      lin := s.lin ++ [⟨e.tid, th.idx, .unregister i, (specApply s.colls s.reg (.unregister i)).2⟩],
      lockR := e.tid :: s.lockR,
      ths := s.ths.set e.tid { th with pc := some (.unrRheld i (some (specApply s.colls s.reg (.unregister i)).2)) } } := by
  have hn := unregFails_noop s.colls s.reg i hf
  unfold RM.step
  simp only [hth, hpc, hop, hk, hloc, hw, hf, Conc.guard, rEff, hn, beq_self_eq_true, Option.isNone_none, if_true]

/-- the read lock of a pre-checked `unregister i` whose collector IS registered: the step is accepted
    when no writer holds the lock, NOTHING is committed (registry and log as they are), the thread
    joins the readers and goes on to the read unlock without a result (`unrRheld i none`) -/
theorem step_unreg_precheck_present {s : RM.St} {e : Ev} {th : Th RPc} {op : String} {i : Nat}
    (hth : s.ths[e.tid]? = some th) (hpc : th.pc = some (.start op)) (hop : parseOp op = some (.unregister i))
    (hk : e.k = "R") (hloc : e.loc = "lk") (hw : s.lockW = none) (hf : unregFails s.colls s.reg i = false) :
    RM.step s e = .ok { s with
      lockR := e.tid :: s.lockR,
      ths := s.ths.set e.tid { th with pc := some (.unrRheld i none) } } := by
  unfold RM.step
  simp only [hth, hpc, hop, hk, hloc, hw, hf, Conc.guard, beq_self_eq_true, Option.isNone_none, if_true]
  rfl

/-- the read unlock of the pre-check: with a committed result the call is complete and will return
    that result (no write lock is taken); without one the thread expects the write lock (`unrNeedW`) -/
theorem step_unreg_precheck_unlock {s : RM.St} {e : Ev} {th : Th RPc} {i : Nat} {done : Option String}
    (hth : s.ths[e.tid]? = some th) (hpc : th.pc = some (.unrRheld i done)) (hk : e.k = "r") (hloc : e.loc = "lk") :
    RM.step s e = .ok { s with
      lockR := s.lockR.erase e.tid,
      ths := s.ths.set e.tid (match done with
        | some rv => { th with pc := none, retv := some rv }
        | none => { th with pc := some (.unrNeedW i) }) } := by
  unfold RM.step
  simp only [hth, hpc, hk, hloc, Conc.guard, beq_self_eq_true, Bool.and_self, if_true]
  cases done <;> rfl

/-- the write lock after a pre-check that found the collector: accepted when the lock is free; the
    specification's unregister is performed and recorded on the registry as it is NOW (so an unregister
    of another thread in the gap makes it fail), and its result is what the call will return -/
theorem step_unreg_needW {s : RM.St} {e : Ev} {th : Th RPc} {i : Nat}
    (hth : s.ths[e.tid]? = some th) (hpc : th.pc = some (.unrNeedW i)) (hk : e.k = "X") (hloc : e.loc = "lk")
    (hw : s.lockW = none) (hr : s.lockR = []) :
    RM.step s e = .ok { s with
      reg := (specApply s.colls s.reg (.unregister i)).1,
      lin := s.lin ++ [⟨e.tid, th.idx, .unregister i, (specApply s.colls s.reg (.unregister i)).2⟩],
      lockW := some e.tid,
      ths := s.ths.set e.tid { th with pc := some (.held true (specApply s.colls s.reg (.unregister i)).2) } } := by
  unfold RM.step
  simp only [hth, hpc, hk, hloc, hw, hr, Conc.guard, rEff, beq_self_eq_true, Option.isNone_none, List.isEmpty_nil,
    Bool.and_self, if_true]

/-- **the registry changes only at write-lock acquisitions**: an accepted event other than an "X" (in
    particular the read lock of a `gather` or of a pre-checked `unregister`, although the latter may
    COMMIT an unregister there) leaves the registry exactly as it is -/
theorem rStep_reg_unchanged {s s' : RM.St} {e : Ev} (h : RM.step s e = .ok s') (hk : e.k ≠ "X") :
    s'.reg = s.reg := by
  have hx : ∀ b : Bool, ((e.k == "X") && b) = true → False := by
    intro b hb
    simp only [Bool.and_eq_true, beq_iff_eq] at hb
    exact hk hb.1
  unfold RM.step at h
  split at h
  · cases h
  · split at h
    · cases h
    · simp only at h
      split at h
      · split at h
        · cases h
        · rw [guard_ok] at h; obtain ⟨_, h⟩ := h
          rw [guard_ok] at h; obtain ⟨_, h⟩ := h
          cases h; rfl
        · next i _ =>
          split at h
          · rw [guard_ok] at h; obtain ⟨_, h⟩ := h
            rw [guard_ok] at h; obtain ⟨_, h⟩ := h
            split at h
            · next hf => cases h; exact unregFails_noop _ _ _ hf
            · cases h; rfl
          · rw [guard_ok] at h; exact (hx _ h.1).elim
        · rw [guard_ok] at h; exact (hx _ h.1).elim
      · split at h
        · rw [guard_ok] at h; obtain ⟨_, h⟩ := h
          cases h; rfl
        · rw [guard_ok] at h; obtain ⟨_, h⟩ := h
          cases h; rfl
      · rw [guard_ok] at h; obtain ⟨_, h⟩ := h
        split at h
        · cases h; rfl
        · cases h; rfl
      · rw [guard_ok] at h; exact (hx _ h.1).elim

end Prom.C06
