import Prom.Model.Conc
/-
The release/acquire hand-off ("message passing through a counter that is only ever modified by
read-modify-writes"), formalised on a trace in SC order. Core Lean only.

The replay machines (`Prom/Model/HistMachine.lean`, …) interpret a trace as a sequentially consistent
interleaving. What the C++/Rust memory model adds is the question whether the plain-ordered (Relaxed)
writes a thread made BEFORE it published HAPPEN-BEFORE what another thread does AFTER it saw the
publication. This file defines, on a trace whose order is taken as the modification order of every
location (and as the reads-from order: a read reads the last write before it), the relations

  `po` (program order), `rf` (reads-from), release sequences (C++20: a release write followed in the
  modification order of its location by read-modify-writes only), `sw` (synchronizes-with) and
  `hb` = (po ∪ sw)⁺,

and proves
  * `handoff_hb`   : if a location is only ever modified by RMWs, EVERY release write to it
                     synchronizes with EVERY later acquire read of it, so whatever is program-ordered
                     before the release happens-before whatever is program-ordered after the acquire;
  * `handoff_needs_release`, `handoff_needs_acquire` : with the orderings of the real histogram code
                     but the publish weakened to Relaxed (resp. the spin weakened to Relaxed) the edge
                     is absent: `hb` is exactly program order and the observer's bucket write does NOT
                     happen-before the collector's swap of that bucket.
Fences and consume are not modelled (the code under study uses neither).
-/
namespace Prom.Handoff
open Prom

/-- one memory event: who, where, whether it reads / writes (an RMW does both), and whether its
    ordering has release (Release/AcqRel/SeqCst) resp. acquire (Acquire/AcqRel/SeqCst) semantics -/
structure MEv where
  tid : Nat
  loc : String
  rd : Bool
  wr : Bool
  rel : Bool
  acq : Bool
deriving DecidableEq, Repr

/-- the ordering string has release semantics -/
def relOrd (o : String) : Bool := o == "Release" || o == "AcqRel" || o == "SeqCst"
/-- the ordering string has acquire semantics -/
def acqOrd (o : String) : Bool := o == "Acquire" || o == "AcqRel" || o == "SeqCst"

/-- the memory event of a trace event. Loads read; stores write; fetch_add / fetch_sub / swap and a
    SUCCESSFUL compare-exchange are RMWs; a FAILED compare-exchange is a read only, and because the
    trace records the success ordering only (the failure ordering is a separate argument of the real
    call) it is conservatively given no acquire semantics. Lock events (K/k, R/r, X/x) are not memory
    events of this model: they neither read nor write. -/
def ofEv (e : Conc.Ev) : MEv :=
  { tid := e.tid
    loc := e.loc
    rd := e.k == "L" || e.k == "A" || e.k == "U" || e.k == "W" || e.k == "C"
    wr := e.k == "S" || e.k == "A" || e.k == "U" || e.k == "W" || (e.k == "C" && e.ok)
    rel := relOrd e.ord
    acq := acqOrd e.ord && !(e.k == "C" && !e.ok) }

/-! ### the relations of a trace (positions are indices; trace order = modification order) -/

/-- program order: same thread, earlier in the trace -/
def po (tr : List MEv) (i j : Nat) : Prop :=
  i < j ∧ ∃ a b, tr[i]? = some a ∧ tr[j]? = some b ∧ a.tid = b.tid

/-- position `k` holds a write to location `l` -/
def isWr (tr : List MEv) (l : String) (k : Nat) : Bool :=
  match tr[k]? with
  | some e => e.wr && decide (e.loc = l)
  | none => false

/-- position `k` holds a read-modify-write -/
def isRMW (tr : List MEv) (k : Nat) : Bool :=
  match tr[k]? with
  | some e => e.rd && e.wr
  | none => false

/-- the last write to `l` strictly before position `j` (`none`: the initial value is still there) -/
def lastWr (tr : List MEv) (l : String) : Nat → Option Nat
  | 0 => none
  | j + 1 => if isWr tr l j then some j else lastWr tr l j

/-- reads-from: a reading event at `j` reads the last write to its location before `j` -/
def rf (tr : List MEv) (j : Nat) : Option Nat :=
  match tr[j]? with
  | some e => if e.rd then lastWr tr e.loc j else none
  | none => none

/-- `w` belongs to the release sequence headed by `i` (C++20 [intro.races]/5): `i` is a release write,
    `w` is `i` or a later write to the same location, and every write to that location after `i` up
    to and including `w` is a read-modify-write -/
def inRelSeq (tr : List MEv) (i w : Nat) : Prop :=
  ∃ h, tr[i]? = some h ∧ h.wr = true ∧ h.rel = true ∧ i ≤ w ∧ isWr tr h.loc w = true ∧
    ∀ k, i < k → k ≤ w → isWr tr h.loc k = true → isRMW tr k = true

/-- synchronizes-with: `j` is an acquire read that reads from a member of the release sequence
    headed by the release write `i` -/
def sw (tr : List MEv) (i j : Nat) : Prop :=
  ∃ a w, tr[j]? = some a ∧ a.rd = true ∧ a.acq = true ∧ rf tr j = some w ∧ inRelSeq tr i w

/-- happens-before: the transitive closure of program order and synchronizes-with -/
inductive hb (tr : List MEv) : Nat → Nat → Prop
  | po {i j} : po tr i j → hb tr i j
  | sw {i j} : sw tr i j → hb tr i j
  | trans {i j k} : hb tr i j → hb tr j k → hb tr i k

/-! ### the definitions mean what they say -/

/-- `isWr` unfolded -/
theorem isWr_iff {tr : List MEv} {l : String} {k : Nat} :
    isWr tr l k = true ↔ ∃ e, tr[k]? = some e ∧ e.wr = true ∧ e.loc = l := by
  unfold isWr
  cases he : tr[k]? <;> simp

/-- `isRMW` unfolded -/
theorem isRMW_iff {tr : List MEv} {k : Nat} :
    isRMW tr k = true ↔ ∃ e, tr[k]? = some e ∧ e.rd = true ∧ e.wr = true := by
  unfold isRMW
  cases he : tr[k]? <;> simp

/-- `lastWr tr l j = some w` iff `w` is a write to `l` before `j` and no write to `l` lies between -/
theorem lastWr_eq_some_iff {tr : List MEv} {l : String} {j w : Nat} :
    lastWr tr l j = some w ↔ w < j ∧ isWr tr l w = true ∧ ∀ k, w < k → k < j → isWr tr l k = false := by
  induction j with
  | zero => simp [lastWr]
  | succ j ih =>
    unfold lastWr
    by_cases hj : isWr tr l j = true
    · simp only [hj, if_true, Option.some.injEq]
      constructor
      · intro h; subst h
        exact ⟨Nat.lt_succ_self _, hj, fun k h1 h2 => absurd h2 (by omega)⟩
      · rintro ⟨h1, _, h3⟩
        rcases Nat.lt_or_ge w j with hlt | hge
        · have := h3 j hlt (Nat.lt_succ_self _); rw [hj] at this; cases this
        · omega
    · have hj' : isWr tr l j = false := by simpa using hj
      simp only [hj', Bool.false_eq_true, if_false, ih]
      constructor
      · rintro ⟨h1, h2, h3⟩
        refine ⟨by omega, h2, fun k hk1 hk2 => ?_⟩
        rcases Nat.lt_or_ge k j with hlt | hge
        · exact h3 k hk1 hlt
        · have : k = j := by omega
          subst this; exact hj'
      · rintro ⟨h1, h2, h3⟩
        have hne : w ≠ j := by intro h; subst h; rw [hj'] at h2; cases h2
        exact ⟨by omega, h2, fun k hk1 hk2 => h3 k hk1 (by omega)⟩

/-- `lastWr tr l j = none` iff there is no write to `l` before `j` -/
theorem lastWr_eq_none_iff {tr : List MEv} {l : String} {j : Nat} :
    lastWr tr l j = none ↔ ∀ k, k < j → isWr tr l k = false := by
  induction j with
  | zero => simp [lastWr]
  | succ j ih =>
    unfold lastWr
    by_cases hj : isWr tr l j = true
    · simp only [hj, if_true]
      constructor
      · intro h; cases h
      · intro h; have := h j (Nat.lt_succ_self _); rw [hj] at this; cases this
    · have hj' : isWr tr l j = false := by simpa using hj
      simp only [hj', Bool.false_eq_true, if_false, ih]
      constructor
      · intro h k hk
        rcases Nat.lt_or_ge k j with hlt | hge
        · exact h k hlt
        · have : k = j := by omega
          subst this; exact hj'
      · intro h k hk; exact h k (by omega)

/-- a write to `l` at `p < j` forces the last write before `j` to exist and to lie at or after `p` -/
theorem lastWr_ge {tr : List MEv} {l : String} {p j : Nat} (hpj : p < j) (hp : isWr tr l p = true) :
    ∃ w, lastWr tr l j = some w ∧ p ≤ w ∧ w < j ∧ isWr tr l w = true := by
  cases h : lastWr tr l j with
  | none => rw [lastWr_eq_none_iff] at h; rw [h p hpj] at hp; cases hp
  | some w =>
    obtain ⟨h1, h2, h3⟩ := lastWr_eq_some_iff.mp h
    refine ⟨w, rfl, ?_, h1, h2⟩
    rcases Nat.lt_or_ge w p with hlt | hge
    · rw [h3 p hlt hpj] at hp; cases hp
    · exact hge

/-- `rf j = some w` iff `j` is a reading event, `w` an earlier write to `j`'s location, and no write
    to that location lies between them -/
theorem rf_eq_some_iff {tr : List MEv} {j w : Nat} :
    rf tr j = some w ↔ ∃ e, tr[j]? = some e ∧ e.rd = true ∧ w < j ∧ isWr tr e.loc w = true ∧
      ∀ k, w < k → k < j → isWr tr e.loc k = false := by
  unfold rf
  cases he : tr[j]? with
  | none => simp
  | some e =>
    by_cases hr : e.rd = true
    · simp [hr, lastWr_eq_some_iff]
    · simp [hr]

/-- reads-from points backwards in the trace -/
theorem rf_lt {tr : List MEv} {j w : Nat} (h : rf tr j = some w) : w < j := by
  obtain ⟨_, _, _, h, _⟩ := rf_eq_some_iff.mp h; exact h

/-- program order is transitive -/
theorem po_trans {tr : List MEv} {i j k : Nat} (h1 : po tr i j) (h2 : po tr j k) : po tr i k := by
  obtain ⟨hij, a, b, ha, hb, hab⟩ := h1
  obtain ⟨hjk, b', c, hb', hc, hbc⟩ := h2
  rw [hb] at hb'; cases hb'
  exact ⟨by omega, a, c, ha, hc, hab.trans hbc⟩

/-- synchronizes-with goes forwards in the trace (the head of a release sequence precedes its
    members, a read follows the write it reads from) -/
theorem sw_lt {tr : List MEv} {i j : Nat} (h : sw tr i j) : i < j := by
  obtain ⟨a, w, _, _, _, hrf, h', _, _, _, hiw, _⟩ := h
  have := rf_lt hrf; omega

/-- happens-before is contained in the trace order (so it is irreflexive: the SC interleaving is
    consistent with it) -/
theorem hb_lt {tr : List MEv} {i j : Nat} (h : hb tr i j) : i < j := by
  induction h with
  | po h => exact h.1
  | sw h => exact sw_lt h
  | trans _ _ ih1 ih2 => omega

/-- without a synchronizes-with edge, happens-before is just program order -/
theorem hb_sub_po_of_no_sw {tr : List MEv} (hs : ∀ i j, ¬ sw tr i j) {i j : Nat} (h : hb tr i j) :
    po tr i j := by
  induction h with
  | po h => exact h
  | sw h => exact absurd h (hs _ _)
  | trans _ _ ih1 ih2 => exact po_trans ih1 ih2

/-! ### the hand-off -/

/-- **handoff_sw** — if every write to location `c` in the trace is a read-modify-write, then a
    release write to `c` at `p` synchronizes with EVERY later acquire read (or RMW) of `c`, no matter
    how many other threads modified `c` in between: the value read at `a` was written by a member of
    the release sequence headed by `p`. (The head itself need not be an RMW.) -/
theorem handoff_sw {tr : List MEv} {c : String} {p a : Nat} {ep ea : MEv}
    (hc : ∀ (k : Nat) (e : MEv), tr[k]? = some e → e.loc = c → e.wr = true → e.rd = true)
    (hpa : p < a)
    (hp : tr[p]? = some ep) (hpl : ep.loc = c) (hpw : ep.wr = true) (hprel : ep.rel = true)
    (ha : tr[a]? = some ea) (hal : ea.loc = c) (hard : ea.rd = true) (haacq : ea.acq = true) :
    sw tr p a := by
  have hpW : isWr tr c p = true := isWr_iff.mpr ⟨ep, hp, hpw, hpl⟩
  obtain ⟨w, hw, hpw', _, hwW⟩ := lastWr_ge hpa hpW
  refine ⟨ea, w, ha, hard, haacq, ?_, ep, hp, hpw, hprel, hpw', by rw [hpl]; exact hwW, ?_⟩
  · unfold rf; rw [ha]; simp only [hard, if_true, hal]; exact hw
  · intro k _ _ hk
    rw [hpl] at hk
    obtain ⟨e, he, hew, hel⟩ := isWr_iff.mp hk
    exact isRMW_iff.mpr ⟨e, he, hc k e he hel hew, hew⟩

/-- **handoff_hb** — the hand-off through a counter that is only ever modified by RMWs. If every
    write to `c` in the trace is an RMW, `p < a`, `tr[p]` is a release write (RMW) on `c` and `tr[a]` an
    acquire read (or RMW) of `c`, then `p` synchronizes with `a`; hence every event `e` of the
    publishing thread before (or at) `p` happens-before every event `f` of the acquiring thread after
    (or at) `a`: the observer's earlier plain writes happen-before everything the collector does after
    its successful spin. -/
theorem handoff_hb {tr : List MEv} {c : String} {p a : Nat} {ep ea : MEv}
    (hc : ∀ (k : Nat) (e : MEv), tr[k]? = some e → e.loc = c → e.wr = true → e.rd = true)
    (hpa : p < a)
    (hp : tr[p]? = some ep) (hpl : ep.loc = c) (hpw : ep.wr = true) (hprel : ep.rel = true)
    (ha : tr[a]? = some ea) (hal : ea.loc = c) (hard : ea.rd = true) (haacq : ea.acq = true) :
    sw tr p a ∧
    (∀ e f, po tr e p → po tr a f → hb tr e f) ∧
    (∀ e, po tr e p → hb tr e a) ∧ (∀ f, po tr a f → hb tr p f) := by
  have hsw := handoff_sw hc hpa hp hpl hpw hprel ha hal hard haacq
  exact ⟨hsw, fun e f he hf => .trans (.trans (.po he) (.sw hsw)) (.po hf),
    fun e he => .trans (.po he) (.sw hsw), fun f hf => .trans (.sw hsw) (.po hf)⟩

/-! ### the orderings are needed: two four-event traces

Both use the events of the real histogram code (`observe`: `fetch_add` Relaxed on a bucket, then the
publish `fetch_add` on the shard's count; `collect`: the spin compare-exchange on the count, then a
`swap` AcqRel of the bucket) with ONE ordering weakened. -/

/-- the trace with the observer's publish weakened to Relaxed (thread 0 observes, thread 1 collects) -/
def evsRelaxedPublish : List Conc.Ev :=
  [⟨0, "A", "s0b0", "Relaxed", 1, 0, 0, true⟩,     -- observer: bucket += 1
   ⟨0, "A", "s0c", "Relaxed", 1, 0, 0, true⟩,      -- observer: count += 1, RELAXED instead of Release
   ⟨1, "C", "s0c", "Acquire", 1, 0, 1, true⟩,      -- collector: spin cas 1 -> 0 succeeds, Acquire
   ⟨1, "W", "s0b0", "AcqRel", 0, 0, 1, true⟩]      -- collector: swap the bucket to 0, reads 1

/-- the trace with the collector's spin weakened to Relaxed -/
def evsRelaxedSpin : List Conc.Ev :=
  [⟨0, "A", "s0b0", "Relaxed", 1, 0, 0, true⟩,     -- observer: bucket += 1
   ⟨0, "A", "s0c", "Release", 1, 0, 0, true⟩,      -- observer: count += 1, Release
   ⟨1, "C", "s0c", "Relaxed", 1, 0, 1, true⟩,      -- collector: spin cas succeeds, RELAXED instead of Acquire
   ⟨1, "W", "s0b0", "AcqRel", 0, 0, 1, true⟩]      -- collector: swap the bucket to 0, reads 1

/-- the correct protocol, for comparison -/
def evsGood : List Conc.Ev :=
  [⟨0, "A", "s0b0", "Relaxed", 1, 0, 0, true⟩,
   ⟨0, "A", "s0c", "Release", 1, 0, 0, true⟩,
   ⟨1, "C", "s0c", "Acquire", 1, 0, 1, true⟩,
   ⟨1, "W", "s0b0", "AcqRel", 0, 0, 1, true⟩]

def trRelaxedPublish : List MEv := evsRelaxedPublish.map ofEv
def trRelaxedSpin : List MEv := evsRelaxedSpin.map ofEv
def trGood : List MEv := evsGood.map ofEv

/-- the memory events of `trRelaxedPublish`, spelled out -/
theorem trRelaxedPublish_eq : trRelaxedPublish =
    [⟨0, "s0b0", true, true, false, false⟩, ⟨0, "s0c", true, true, false, false⟩,
     ⟨1, "s0c", true, true, false, true⟩, ⟨1, "s0b0", true, true, true, true⟩] := by
  decide +kernel

/-- the memory events of `trRelaxedSpin`, spelled out -/
theorem trRelaxedSpin_eq : trRelaxedSpin =
    [⟨0, "s0b0", true, true, false, false⟩, ⟨0, "s0c", true, true, true, false⟩,
     ⟨1, "s0c", true, true, false, false⟩, ⟨1, "s0b0", true, true, true, true⟩] := by
  decide +kernel

/-- the memory events of `trGood`, spelled out -/
theorem trGood_eq : trGood =
    [⟨0, "s0b0", true, true, false, false⟩, ⟨0, "s0c", true, true, true, false⟩,
     ⟨1, "s0c", true, true, false, true⟩, ⟨1, "s0b0", true, true, true, true⟩] := by
  decide +kernel

/-- a position that holds an event lies inside the trace -/
theorem lt_length_of_getElem? {tr : List MEv} {i : Nat} {e : MEv} (h : tr[i]? = some e) : i < tr.length := by
  obtain ⟨h', _⟩ := List.getElem?_eq_some_iff.mp h; exact h'

/-- a trace without release writes has no synchronizes-with edge at all -/
theorem no_sw_of_no_release_write {tr : List MEv}
    (h : ∀ (k : Nat) (e : MEv), tr[k]? = some e → e.wr = true → e.rel = false) : ∀ i j, ¬ sw tr i j := by
  rintro i j ⟨_, _, _, _, _, _, hd, hi, hwr, hrel, _⟩
  rw [h i hd hi hwr] at hrel; cases hrel

/-- a trace without acquire reads has no synchronizes-with edge at all -/
theorem no_sw_of_no_acquire_read {tr : List MEv}
    (h : ∀ (k : Nat) (e : MEv), tr[k]? = some e → e.rd = true → e.acq = false) : ∀ i j, ¬ sw tr i j := by
  rintro i j ⟨a, _, hj, hrd, hacq, _⟩
  rw [h j a hj hrd] at hacq; cases hacq

/-- program order in terms of the thread ids of the trace -/
theorem po_iff_tids {tr : List MEv} {i j : Nat} :
    po tr i j ↔ i < j ∧ ∃ t, (tr.map (·.tid))[i]? = some t ∧ (tr.map (·.tid))[j]? = some t := by
  unfold po
  simp only [List.getElem?_map, Option.map_eq_some_iff]
  constructor
  · rintro ⟨h, a, b, ha, hb, hab⟩
    exact ⟨h, a.tid, ⟨a, ha, rfl⟩, ⟨b, hb, hab.symm⟩⟩
  · rintro ⟨h, t, ⟨a, ha, hat⟩, ⟨b, hb, hbt⟩⟩
    exact ⟨h, a, b, ha, hb, hat.trans hbt.symm⟩

/-- program order of a trace in which thread 0 makes the first two and thread 1 the last two events -/
theorem po_two_two {tr : List MEv} (ht : tr.map (·.tid) = [0, 0, 1, 1]) {i j : Nat} :
    po tr i j ↔ (i = 0 ∧ j = 1) ∨ (i = 2 ∧ j = 3) := by
  rw [po_iff_tids, ht]
  constructor
  · rintro ⟨hij, t, hi, hj⟩
    have hj4 : j < 4 := by
      obtain ⟨h', _⟩ := List.getElem?_eq_some_iff.mp hj; simpa using h'
    have : j = 0 ∨ j = 1 ∨ j = 2 ∨ j = 3 := by omega
    rcases this with rfl | rfl | rfl | rfl
    · omega
    · have : i = 0 := by omega
      subst this; simp
    · have : i = 0 ∨ i = 1 := by omega
      rcases this with rfl | rfl <;> simp at hi hj <;> omega
    · have : i = 0 ∨ i = 1 ∨ i = 2 := by omega
      rcases this with rfl | rfl | rfl <;> simp at hi hj <;> omega
  · rintro (⟨rfl, rfl⟩ | ⟨rfl, rfl⟩)
    · exact ⟨by omega, 0, by simp, by simp⟩
    · exact ⟨by omega, 1, by simp, by simp⟩

/-- no synchronizes-with edge in the trace with the relaxed publish: its only release write is the
    collector's last event, which nothing reads -/
theorem no_sw_relaxedPublish : ∀ i j, ¬ sw trRelaxedPublish i j := by
  rintro i j ⟨a, w, hj, _, _, hrf, hd, hi, _, hrel, hiw, _⟩
  have hwj := rf_lt hrf
  have hj4 := lt_length_of_getElem? hj
  rw [trRelaxedPublish_eq] at hi hj4
  simp only [List.length_cons, List.length_nil] at hj4
  have : i = 0 ∨ i = 1 ∨ i = 2 := by omega
  rcases this with rfl | rfl | rfl <;> simp at hi <;> subst hi <;> simp at hrel

/-- no synchronizes-with edge in the trace with the relaxed spin: its only acquire read is the
    collector's swap of the bucket, which reads the observer's relaxed bucket write -/
theorem no_sw_relaxedSpin : ∀ i j, ¬ sw trRelaxedSpin i j := by
  rintro i j ⟨a, w, hj, _, hacq, hrf, hd, hi, _, hrel, hiw, _⟩
  have hj4 := lt_length_of_getElem? hj
  have hj' := hj
  rw [trRelaxedSpin_eq] at hj' hj4
  simp only [List.length_cons, List.length_nil] at hj4
  have : j = 0 ∨ j = 1 ∨ j = 2 ∨ j = 3 := by omega
  rcases this with rfl | rfl | rfl | rfl
  · simp at hj'; subst hj'; simp at hacq
  · simp at hj'; subst hj'; simp at hacq
  · simp at hj'; subst hj'; simp at hacq
  · have h3 : rf trRelaxedSpin 3 = some 0 := by decide +kernel
    rw [h3] at hrf; cases hrf
    have : i = 0 := by omega
    subst this
    rw [trRelaxedSpin_eq] at hi
    simp at hi; subst hi; simp at hrel

/-- **handoff_needs_release** — the observer's publish weakened to Relaxed, everything else as in the
    real code. In the SC interleaving the collector's spin reads the publish (`rf 2 = 1`) and its swap
    reads the observer's bucket write (`rf 3 = 0`), but happens-before is exactly program order —
    `0 → 1` and `2 → 3` — so the observer's bucket write does NOT happen-before the collector's swap
    of that bucket: the memory model allows the collector to pass the spin and still miss the write. -/
theorem handoff_needs_release :
    rf trRelaxedPublish 2 = some 1 ∧ rf trRelaxedPublish 3 = some 0 ∧
    (∀ i j, hb trRelaxedPublish i j ↔ (i = 0 ∧ j = 1) ∨ (i = 2 ∧ j = 3)) ∧
    ¬ hb trRelaxedPublish 0 3 := by
  have ht : trRelaxedPublish.map (·.tid) = [0, 0, 1, 1] := by rw [trRelaxedPublish_eq]; rfl
  have hchar : ∀ i j, hb trRelaxedPublish i j ↔ (i = 0 ∧ j = 1) ∨ (i = 2 ∧ j = 3) := fun i j =>
    ⟨fun h => (po_two_two ht).mp (hb_sub_po_of_no_sw no_sw_relaxedPublish h),
     fun h => .po ((po_two_two ht).mpr h)⟩
  refine ⟨by decide +kernel, by decide +kernel, hchar, ?_⟩
  intro h
  have := (hchar 0 3).mp h
  omega

/-- **handoff_needs_acquire** — the collector's spin weakened to Relaxed, everything else as in the
    real code (Release publish). Again the spin reads the publish and the swap reads the bucket write,
    but happens-before is exactly program order and the observer's bucket write does NOT
    happen-before the collector's swap. -/
theorem handoff_needs_acquire :
    rf trRelaxedSpin 2 = some 1 ∧ rf trRelaxedSpin 3 = some 0 ∧
    (∀ i j, hb trRelaxedSpin i j ↔ (i = 0 ∧ j = 1) ∨ (i = 2 ∧ j = 3)) ∧
    ¬ hb trRelaxedSpin 0 3 := by
  have ht : trRelaxedSpin.map (·.tid) = [0, 0, 1, 1] := by rw [trRelaxedSpin_eq]; rfl
  have hchar : ∀ i j, hb trRelaxedSpin i j ↔ (i = 0 ∧ j = 1) ∨ (i = 2 ∧ j = 3) := fun i j =>
    ⟨fun h => (po_two_two ht).mp (hb_sub_po_of_no_sw no_sw_relaxedSpin h),
     fun h => .po ((po_two_two ht).mpr h)⟩
  refine ⟨by decide +kernel, by decide +kernel, hchar, ?_⟩
  intro h
  have := (hchar 0 3).mp h
  omega

/-- **handoff_good** — with both orderings in place (`trGood`) the same four events DO have the edge:
    the publish synchronizes with the spin and the bucket write happens-before the swap (an instance of
    `handoff_hb`; shows its hypotheses are satisfiable by the protocol's events) -/
theorem handoff_good : sw trGood 1 2 ∧ hb trGood 0 3 := by
  have ht : trGood.map (·.tid) = [0, 0, 1, 1] := by rw [trGood_eq]; rfl
  have hc : ∀ (k : Nat) (e : MEv), trGood[k]? = some e → e.loc = "s0c" → e.wr = true → e.rd = true := by
    intro k e he _ _
    have hk := lt_length_of_getElem? he
    rw [trGood_eq] at he hk
    simp only [List.length_cons, List.length_nil] at hk
    have : k = 0 ∨ k = 1 ∨ k = 2 ∨ k = 3 := by omega
    rcases this with rfl | rfl | rfl | rfl <;> simp at he <;> subst he <;> rfl
  have h := handoff_hb (tr := trGood) (c := "s0c") (p := 1) (a := 2)
    (ep := ⟨0, "s0c", true, true, true, false⟩) (ea := ⟨1, "s0c", true, true, false, true⟩)
    hc (by omega) (by rw [trGood_eq]; rfl) rfl rfl rfl (by rw [trGood_eq]; rfl) rfl rfl rfl
  exact ⟨h.1, h.2.1 0 3 ((po_two_two ht).mpr (.inl ⟨rfl, rfl⟩)) ((po_two_two ht).mpr (.inr ⟨rfl, rfl⟩))⟩

/-! ### from the orderings the replay machines check to the flags of `ofEv` -/

/-- the replay check "at least Release" is exactly "has release semantics" (for every ordering
    string, in particular for the five real ones) -/
theorem ordGe_release_eq (o : String) : Conc.ordGe o "Release" = relOrd o := by
  unfold Conc.ordGe relOrd
  have h1 : ("Release" == "Relaxed") = false := by decide +kernel
  have h2 : ("Release" == "Acquire") = false := by decide +kernel
  have h3 : ("Release" == "Release") = true := by decide +kernel
  rw [h1, h2, h3]
  cases (o == "Release") <;> cases (o == "SeqCst") <;> cases (o == "AcqRel") <;> rfl

/-- the replay check "at least Acquire" is exactly "has acquire semantics" -/
theorem ordGe_acquire_eq (o : String) : Conc.ordGe o "Acquire" = acqOrd o := by
  unfold Conc.ordGe acqOrd
  have h1 : ("Acquire" == "Relaxed") = false := by decide +kernel
  have h2 : ("Acquire" == "Acquire") = true := by decide +kernel
  rw [h1, h2]
  cases (o == "Acquire") <;> cases (o == "SeqCst") <;> cases (o == "AcqRel") <;> rfl

/-- the five orderings and their semantics: which are accepted as "at least Release" / "at least
    Acquire", and that these are exactly the ones with `rel` / `acq` set -/
theorem ordGe_table :
    ∀ o ∈ ["Relaxed", "Acquire", "Release", "AcqRel", "SeqCst"],
      (Conc.ordGe o "Release" = true ↔ o = "Release" ∨ o = "AcqRel" ∨ o = "SeqCst") ∧
      (Conc.ordGe o "Acquire" = true ↔ o = "Acquire" ∨ o = "AcqRel" ∨ o = "SeqCst") ∧
      (Conc.ordGe o "Release" = true → relOrd o = true) ∧
      (Conc.ordGe o "Acquire" = true → acqOrd o = true) := by
  intro o _
  rw [ordGe_release_eq, ordGe_acquire_eq]
  refine ⟨?_, ?_, id, id⟩ <;> simp [relOrd, acqOrd, or_assoc]

/-- an event accepted as "at least Release" has `rel` set -/
theorem ofEv_rel_of_ordGe {e : Conc.Ev} (h : Conc.ordGe e.ord "Release" = true) : (ofEv e).rel = true := by
  rw [ordGe_release_eq] at h; exact h

/-- an event accepted as "at least Acquire" has `acq` set, unless it is a failed compare-exchange -/
theorem ofEv_acq_of_ordGe {e : Conc.Ev} (h : Conc.ordGe e.ord "Acquire" = true)
    (hok : e.k = "C" → e.ok = true) : (ofEv e).acq = true := by
  rw [ordGe_acquire_eq] at h
  by_cases hk : e.k = "C"
  · simp [ofEv, h, hok hk]
  · simp [ofEv, h, hk]

/-- a fetch_add is an RMW; a compare-exchange always reads, and writes iff it succeeded: an event of
    kind "A" or "C" that writes also reads -/
theorem ofEv_rmw_of_kind {e : Conc.Ev} (hk : e.k = "A" ∨ e.k = "C") :
    (ofEv e).rd = true ∧ ((ofEv e).wr = true ↔ (e.k = "A" ∨ e.ok = true)) := by
  rcases hk with hk | hk <;> simp [ofEv, hk]

end Prom.Handoff
