import Prom.Model.Histogram
import Prom.Lemmas.F64Order
/- Helper lemmas for C08 (and the sequential side of C02/C03/C12). -/
namespace Prom

/-- strictly increasing numbers -/
def StrictIncr : List UInt64 → Prop
  | [] => True
  | [a] => f64IsNaN a = false
  | a :: b :: r => f64Lt a b = true ∧ StrictIncr (b :: r)

theorem bucketsOk_iff (bs : List UInt64) : bucketsOk bs = true ↔ StrictIncr bs := by
  induction bs with
  | nil => simp [bucketsOk, StrictIncr]
  | cons a r ih =>
    cases r with
    | nil => simp [bucketsOk, StrictIncr]
    | cons b r =>
      simp only [bucketsOk, StrictIncr, Bool.and_eq_true, Bool.not_eq_true'] at *
      rw [ih]
      constructor
      · rintro ⟨⟨ha, hge⟩, hs⟩
        have hb : f64IsNaN b = false := by
          cases r with
          | nil => simpa [StrictIncr] using hs
          | cons c r => exact ((f64Lt_iff _ _).1 hs.1).1
        exact ⟨(f64_not_ge_iff_lt ha hb).1 hge, hs⟩
      · rintro ⟨hlt, hs⟩
        have h := (f64Lt_iff _ _).1 hlt
        exact ⟨⟨h.1, (f64_not_ge_iff_lt h.1 h.2.1).2 hlt⟩, hs⟩

theorem StrictIncr.tail {a : UInt64} {r : List UInt64} (h : StrictIncr (a :: r)) : StrictIncr r := by
  cases r with
  | nil => trivial
  | cons b r => exact h.2

theorem StrictIncr.head_notNaN {a : UInt64} {r : List UInt64} (h : StrictIncr (a :: r)) :
    f64IsNaN a = false := by
  cases r with
  | nil => exact h
  | cons b r => exact ((f64Lt_iff _ _).1 h.1).1

theorem StrictIncr.head_lt {a : UInt64} {r : List UInt64} (h : StrictIncr (a :: r)) :
    ∀ x ∈ r, f64Lt a x = true := by
  induction r generalizing a with
  | nil => intro x hx; cases hx
  | cons b r ih =>
    intro x hx
    cases hx with
    | head => exact h.1
    | tail _ hx => exact f64Lt_trans h.1 (ih h.2 x hx)

theorem StrictIncr.notNaN {bs : List UInt64} (h : StrictIncr bs) : ∀ x ∈ bs, f64IsNaN x = false := by
  induction bs with
  | nil => intro x hx; cases hx
  | cons a r ih =>
    intro x hx
    cases hx with
    | head => exact h.head_notNaN
    | tail _ hx => exact ih h.tail x hx

theorem getElem?_mem' {α} {l : List α} {i : Nat} {b : α} (h : l[i]? = some b) : b ∈ l :=
  List.mem_of_getElem? h

/-- the first-match rule against sorted bounds is the `<=` rule -/
theorem findBucket_spec {bounds : List UInt64} (hs : StrictIncr bounds) (v : UInt64) :
    ∀ i b, bounds[i]? = some b →
      match findBucket bounds v with
      | some j => j < bounds.length ∧ (j ≤ i ↔ f64Le v b = true)
      | none => f64Le v b = false := by
  induction bounds with
  | nil => intro i b h; simp at h
  | cons a r ih =>
    intro i b hb
    unfold findBucket
    by_cases hva : f64Le v a = true
    · simp only [hva, if_true]
      refine ⟨by simp, ?_⟩
      cases i with
      | zero => simp at hb; subst hb; simp [hva]
      | succ i =>
        simp at hb
        have := hs.head_lt b (getElem?_mem' hb)
        simp [f64Le_of_le_of_lt hva this]
    · simp only [hva]
      have hva' : f64Le v a = false := by simpa using hva
      cases i with
      | zero =>
        simp at hb; subst hb
        cases hf : findBucket r v with
        | none => simpa using hva'
        | some j =>
          have := ih hs.tail
          simp [hva']
          have h0 := hs.tail
          -- j < r.length comes from the spec at any index; derive directly
          clear this h0
          have : j < r.length := by
            clear ih hva hva' hs
            induction r generalizing j with
            | nil => simp [findBucket] at hf
            | cons c r ih2 =>
              unfold findBucket at hf
              by_cases hc : f64Le v c = true
              · simp [hc] at hf; subst hf; simp
              · simp [hc] at hf
                obtain ⟨k, hk, rfl⟩ := hf
                have := ih2 k hk
                simp; omega
          omega
      | succ i =>
        simp at hb
        have := ih hs.tail i b hb
        cases hf : findBucket r v with
        | none => simp [hf] at this ⊢; exact this
        | some j =>
          simp [hf] at this ⊢
          exact ⟨this.1, this.2⟩

theorem cumulate_getElem? (cs : List Nat) : ∀ (acc i : Nat),
    (cumulate acc cs)[i]? = if i < cs.length then some (acc + (cs.take (i + 1)).sum) else none := by
  induction cs with
  | nil => intro acc i; simp [cumulate]
  | cons c r ih =>
    intro acc i
    cases i with
    | zero => simp [cumulate]
    | succ i =>
      simp only [cumulate, List.getElem?_cons_succ, ih, List.length_cons, List.take_succ_cons,
        List.sum_cons]
      by_cases h : i < r.length
      · simp [h]; omega
      · simp [h]

theorem cumulate_length (cs : List Nat) : ∀ acc, (cumulate acc cs).length = cs.length := by
  induction cs with
  | nil => intro; rfl
  | cons c r ih => intro acc; simp [cumulate, ih]

theorem bumpAt_length (cs : List Nat) : ∀ j d, (bumpAt cs j d).length = cs.length := by
  induction cs with
  | nil => intro j d; rfl
  | cons c r ih => intro j d; cases j <;> simp [bumpAt, ih]

theorem bumpAt_take_sum (cs : List Nat) : ∀ (j d i : Nat), j < cs.length →
    ((bumpAt cs j d).take (i + 1)).sum = (cs.take (i + 1)).sum + (if j ≤ i then d else 0) := by
  induction cs with
  | nil => intro j d i h; simp at h
  | cons c r ih =>
    intro j d i hj
    cases j with
    | zero => simp [bumpAt]; omega
    | succ j =>
      cases i with
      | zero => simp [bumpAt]
      | succ i =>
        have := ih j d i (by simpa using hj)
        simp only [bumpAt, List.take_succ_cons, List.sum_cons, this]
        by_cases h : j ≤ i <;> simp [h] <;> omega

end Prom
