import Prom.Lemmas.HistCuts
/-
The ghost list `HM.St.tags` (parallel to `core.claimed`: thread id and call index of the call whose
claim step put the observation there) and the per-thread half of C02: the observations of one thread
are claimed in program order, so a cut — a prefix of the claim order — never contains a thread's
later observation without its earlier ones.
-/
namespace Prom.HM
open Prom Prom.Conc Hp

/-- what one accepted event does to `claimed`: nothing, or (only from an `obsStart` task: the claim
    step) it appends that task's observation; and an event leaves its call in an `obsStart` task only if it
    is a stutter of the claim written as a compare-exchange loop (its load, a failed exchange): the task is
    the one it was and nothing has been claimed -/
theorem evStep1_claim {k : Nat} {c : Hp.St} {cuts : Cuts} {e : Ev} {pc : Pc} {c' : Hp.St} {pc' : Pc}
    {rv : Option String} {cuts' : Cuts}
    (h : evStep1 k c cuts e pc = .ok ((c', pc', rv), cuts')) :
    ((∀ o, pc'.task ≠ some (.obsStart o)) ∨ (pc'.task = pc.task ∧ c'.claimed = c.claimed)) ∧
    (c'.claimed = c.claimed ∨ ∃ o, pc.task = some (.obsStart o) ∧ c'.claimed = c.claimed ++ [o]) := by
  unfold evStep1 at h
  simp only at h
  split at h
  · next ht =>
    rw [plainR_ok, guard_ok] at h
    obtain ⟨⟨_, h⟩, _⟩ := h; cases h
    exact ⟨.inl (fun o ho => by simp [ht] at ho), .inl rfl⟩
  · next o ht =>
    rw [plainR_ok] at h
    obtain ⟨h, _⟩ := h
    rcases fetchAdd_cases h with ⟨⟨ic, f, hr⟩, hfl, hfk⟩ | ⟨hr, hfok, hfl, hfo, hfr, hfk⟩
    · cases hr; exact ⟨.inr ⟨rfl, rfl⟩, .inl rfl⟩
    · cases hr
      exact ⟨.inl (fun o ho => by simp at ho), .inr ⟨o, ht, rfl⟩⟩
  · next o b p l ht =>
    simp only [obsEntry] at h
    split at h
    · rw [plainR_ok] at h
      obtain ⟨h, _⟩ := h
      rcases fetchAdd_cases h with ⟨⟨ic, f, hr⟩, hfl, hfk⟩ | ⟨hr, hfok, hfl, hfo, hfr, hfk⟩
      · cases hr; exact ⟨.inl (fun o ho => by simp [ht] at ho), .inl rfl⟩
      · cases hr
        exact ⟨.inl (fun o ho => by simp at ho), .inl rfl⟩
    · rw [plainR_ok] at h
      obtain ⟨h, _⟩ := h
      rcases casLoop_c0 h with ⟨_, h2, h3⟩ | h1
      · simp only at h2 h3; subst h2
        exact ⟨.inl (fun o ho => by simp [h3, ht] at ho), .inl rfl⟩
      · cases h1
        exact ⟨.inl (fun o ho => by simp at ho), .inl rfl⟩
  · next o b ht =>
    rw [plainR_ok] at h
    obtain ⟨h, _⟩ := h
    rcases fetchAdd_cases h with ⟨⟨ic, f, hr⟩, hfl, hfk⟩ | ⟨hr, hfok, hfl, hfo, hfr, hfk⟩
    · cases hr; exact ⟨.inl (fun o ho => by simp [ht] at ho), .inl rfl⟩
    · cases hr
      exact ⟨.inl (fun o ho => by simp at ho), .inl rfl⟩
  · next ht =>
    rw [plainR_ok, guard_ok] at h
    obtain ⟨⟨_, h⟩, _⟩ := h; cases h
    exact ⟨.inl (fun o ho => by simp at ho), .inl rfl⟩
  · next ht =>
    split at h
    · split at h
      · rw [plainR_ok, guard_ok] at h
        obtain ⟨⟨_, h⟩, _⟩ := h; cases h
        exact ⟨.inl (fun o ho => by simp [ht] at ho), .inl rfl⟩
      · split at h
        · rw [plainR_ok, guard_ok] at h
          obtain ⟨⟨_, h⟩, _⟩ := h; cases h
          exact ⟨.inl (fun o ho => by simp [ht] at ho), .inl rfl⟩
        · rw [plainR_ok, guard_ok] at h
          obtain ⟨⟨_, h⟩, _⟩ := h; cases h
          exact ⟨.inl (fun o ho => by simp at ho), .inl rfl⟩
    · rw [plainR_ok] at h
      obtain ⟨h, _⟩ := h
      rcases fetchAdd_cases h with ⟨⟨ic, f, hr⟩, hfl, hfk⟩ | ⟨hr, hfok, hfl, hfo, hfr, hfk⟩
      · cases hr; exact ⟨.inl (fun o ho => by simp [ht] at ho), .inl rfl⟩
      · cases hr
        exact ⟨.inl (fun o ho => by simp at ho), .inl rfl⟩
  · next cold ov S ht =>
    split at h
    · rw [plainR_ok, guard_ok] at h
      obtain ⟨⟨_, h⟩, _⟩ := h; cases h
      exact ⟨.inl (fun o ho => by simp [ht] at ho), .inl rfl⟩
    · rw [plainR_ok, guard_ok] at h
      obtain ⟨⟨_, h⟩, _⟩ := h
      split at h
      · rw [guard_ok] at h
        obtain ⟨_, h⟩ := h; cases h
        exact ⟨.inl (fun o ho => by simp at ho), .inl rfl⟩
      · rw [guard_ok] at h
        obtain ⟨_, h⟩ := h; cases h
        exact ⟨.inl (fun o ho => by simp [ht] at ho), .inl rfl⟩
  · next cold ov todo taken S ht =>
    obtain ⟨_, hcl, ⟨⟨todo', taken', ht'⟩, _⟩ | ⟨_, ht', _⟩⟩ := colStep_cases ht h
    · exact ⟨.inl (fun o ho => by simp [ht'] at ho), .inl hcl⟩
    · exact ⟨.inl (fun o ho => by simp [ht'] at ho), .inl hcl⟩

/-- what one accepted event does to `claimed`: nothing, or (only from an `obsStart` task: the claim
    step) it appends that task's observation; and an event leaves its call in an `obsStart` task only if it
    is a stutter of the claim written as a compare-exchange loop: same task, nothing claimed -/
theorem evStep_claim {k : Nat} {c : Hp.St} {cuts : Cuts} {e : Ev} {pc : Pc} {c' : Hp.St} {pc' : Pc}
    {rv : Option String} {cuts' : Cuts}
    (h : evStep k c cuts e pc = .ok ((c', pc', rv), cuts')) :
    ((∀ o, pc'.task ≠ some (.obsStart o)) ∨ (pc'.task = pc.task ∧ c'.claimed = c.claimed)) ∧
    (c'.claimed = c.claimed ∨ ∃ o, pc.task = some (.obsStart o) ∧ c'.claimed = c.claimed ++ [o]) := by
  exact evStep1_claim h

/-- the thread can still perform the claim step of the call with its current index: it is between
    calls (the next call has index `idx`), or its open call has not claimed yet -/
def CanClaim (th : Th Pc) : Prop :=
  (th.pc = none ∧ th.retv = none) ∨ ∃ pc o, th.pc = some pc ∧ pc.task = some (.obsStart o)

/-- the shape of an accepted item with everything the tag invariant needs: an event of thread `e.tid`
    (same call index afterwards, the call has claimed or can never claim; the tag list grows by
    `(e.tid, idx)` exactly when `claimed` grows; or - a stutter of the claim written as a loop - it could
    claim before, still can, and nothing was claimed), a call mark (the thread was between calls; same
    index), or a return mark (index + 1) -/
theorem item_shape_tags {s s' : St} {it : Item} (h : item s it = .ok s') :
    (∃ e th pc c' pc' rv cuts' th', s.ths[e.tid]? = some th ∧ th.pc = some pc ∧
        evStep s.bounds.length s.core s.cuts e pc = .ok ((c', pc', rv), cuts') ∧
        s' = { s with core := c', cuts := cuts', ths := s.ths.set e.tid th',
                      tags := if c'.claimed.length > s.core.claimed.length then s.tags ++ [(e.tid, th.idx)] else s.tags } ∧
        th'.idx = th.idx ∧ (¬ CanClaim th' ∨ (CanClaim th ∧ c'.claimed = s.core.claimed))) ∨
    (∃ t th th', s.ths[t]? = some th ∧ s' = { s with ths := s.ths.set t th' } ∧
        ((CanClaim th ∧ th'.idx = th.idx) ∨ th'.idx = th.idx + 1)) := by
  cases it with
  | ev e =>
    simp only [item] at h
    split at h
    · cases h
    · next th hth =>
      split at h
      · cases h
      · next pc hpc =>
        split at h
        · cases h
        · next c' pc' rv cuts' hev =>
          have hno := (evStep_claim hev).1
          split at h
          · cases h
            refine .inl ⟨e, th, pc, c', pc', none, cuts', _, hth, hpc, hev, rfl, rfl, ?_⟩
            rcases hno with hno | ⟨hsame, hcl⟩
            · left
              rintro (⟨h1, _⟩ | ⟨pcx, o, h1, h2⟩)
              · simp at h1
              · simp only [Option.some.injEq] at h1; subst h1; exact hno o h2
            · by_cases hcan : CanClaim { th with pc := some pc' }
              · right
                rcases hcan with ⟨h1, _⟩ | ⟨pcx, o, h1, h2⟩
                · simp at h1
                · simp only [Option.some.injEq] at h1; subst h1
                  exact ⟨.inr ⟨pc, o, hpc, by rw [← hsame]; exact h2⟩, hcl⟩
              · exact .inl hcan
          · next v =>
            split at h
            · cases h
            · cases h
              refine .inl ⟨e, th, pc, c', pc', some v, cuts', _, hth, hpc, hev, rfl, rfl, .inl ?_⟩
              rintro (⟨_, h1⟩ | ⟨pcx, o, h1, _⟩)
              · simp at h1
              · simp at h1
  | call t i op =>
    simp only [item] at h
    split at h
    · cases h
    · next th hth =>
      split at h
      · cases h
      · next plan hplan =>
        split at h
        · cases h
        · next hopen =>
          have hcc : CanClaim th := by
            left
            cases h1 : th.pc <;> cases h2 : th.retv <;> simp_all
          split at h
          · cases h
          · split at h
            · cases h
            · split at h
              · cases h
                exact .inr ⟨t, th, _, hth, rfl, .inl ⟨hcc, rfl⟩⟩
              · next pc =>
                cases h
                exact .inr ⟨t, th, _, hth, rfl, .inl ⟨hcc, rfl⟩⟩
  | ret t i v =>
    simp only [item] at h
    split at h
    · cases h
    · next th hth =>
      split at h
      · next th' hc =>
        cases h
        refine .inr ⟨t, th, th', hth, rfl, .inr ?_⟩
        unfold closeCall at hc
        split at hc
        · cases hc
        · split at hc
          · cases hc
          · split at hc
            · cases hc
            · cases hc; rfl
      · cases h
  | other x => simp [item] at h

/-- the invariant of the tag list: it is parallel to `claimed`; the tags of one thread have strictly
    increasing call indices; every tag belongs to an existing thread, its call index is at most that
    thread's current index, and strictly below it while the thread can still claim in the call with
    the current index (i.e. unless the open call has already claimed) -/
structure TagInv (s : St) : Prop where
  len : s.tags.length = s.core.claimed.length
  sorted : s.tags.Pairwise (fun a b => a.1 = b.1 → a.2 < b.2)
  bound : ∀ p ∈ s.tags, ∃ th, s.ths[p.1]? = some th ∧ p.2 ≤ th.idx ∧ (CanClaim th → p.2 < th.idx)

theorem tagInv_init (bounds prog) : TagInv (init bounds prog) := by
  refine ⟨rfl, ?_, ?_⟩
  · simp [init]
  · intro p hp; simp [init] at hp

theorem tagInv_step {s s' : St} {it : Item} (I : TagInv s) (h : item s it = .ok s') : TagInv s' := by
  rcases item_shape_tags h with ⟨e, th, pc, c', pc', rv, cuts', th', hth, hpc, hev, rfl, hidx, hnc⟩ |
      ⟨t, th, th', hth, rfl, hcase⟩
  · have hlt : e.tid < s.ths.length := (List.getElem?_eq_some_iff.mp hth).1
    -- the thread of an old tag after the step
    have hold : ∀ p ∈ s.tags, ∃ x, (s.ths.set e.tid th')[p.1]? = some x ∧ p.2 ≤ x.idx ∧ (CanClaim x → p.2 < x.idx) := by
      intro p hp
      obtain ⟨x, hx, h1, h2⟩ := I.bound p hp
      by_cases hpe : e.tid = p.1
      · have hxe : x = th := by rw [← hpe, hth] at hx; cases hx; rfl
        subst hxe
        refine ⟨th', ?_, ?_, fun hc => ?_⟩
        · rw [← hpe, List.getElem?_set_self hlt]
        · omega
        · rcases hnc with hnc | ⟨hcan, _⟩
          · exact absurd hc hnc
          · have := h2 hcan; omega
      · exact ⟨x, by rw [List.getElem?_set_ne hpe]; exact hx, h1, h2⟩
    rcases (evStep_claim hev).2 with hcl | ⟨o, ho, hcl⟩
    · -- no claim: the tag list stays
      have hif : (if c'.claimed.length > s.core.claimed.length then s.tags ++ [(e.tid, th.idx)] else s.tags) = s.tags := by
        rw [hcl]; simp
      refine ⟨?_, ?_, ?_⟩
      · show (if c'.claimed.length > s.core.claimed.length then s.tags ++ [(e.tid, th.idx)] else s.tags).length = c'.claimed.length
        rw [hif, hcl]; exact I.len
      · simp only [hif]; exact I.sorted
      · simp only [hif]; exact hold
    · -- the claim step: one more tag, above all earlier tags of this thread
      have hif : (if c'.claimed.length > s.core.claimed.length then s.tags ++ [(e.tid, th.idx)] else s.tags)
          = s.tags ++ [(e.tid, th.idx)] := by
        rw [hcl]; simp
      have hcan : CanClaim th := .inr ⟨pc, o, hpc, ho⟩
      refine ⟨?_, ?_, ?_⟩
      · show (if c'.claimed.length > s.core.claimed.length then s.tags ++ [(e.tid, th.idx)] else s.tags).length = c'.claimed.length
        rw [hif, hcl, List.length_append, List.length_append, I.len]; rfl
      · simp only [hif]
        rw [List.pairwise_append]
        refine ⟨I.sorted, by simp, ?_⟩
        intro a ha b hb hab
        simp only [List.mem_singleton] at hb; subst hb
        obtain ⟨x, hx, _, h2⟩ := I.bound a ha
        simp only at hab
        rw [hab, hth] at hx; cases hx
        exact h2 hcan
      · simp only [hif]
        intro p hp
        rcases List.mem_append.mp hp with hp | hp
        · exact hold p hp
        · simp only [List.mem_singleton] at hp; subst hp
          refine ⟨th', by simp only; rw [List.getElem?_set_self hlt], by simp only; omega, fun hc => ?_⟩
          rcases hnc with hnc | ⟨_, hsame⟩
          · exact absurd hc hnc
          · rw [hsame] at hcl; simp at hcl
  · have hlt : t < s.ths.length := (List.getElem?_eq_some_iff.mp hth).1
    refine ⟨I.len, I.sorted, ?_⟩
    intro p hp
    obtain ⟨x, hx, h1, h2⟩ := I.bound p hp
    by_cases hpe : t = p.1
    · rw [← hpe, hth] at hx; cases hx
      refine ⟨th', by simp only; rw [← hpe, List.getElem?_set_self hlt], ?_, ?_⟩
      · rcases hcase with ⟨_, hi⟩ | hi <;> omega
      · intro _
        rcases hcase with ⟨hc, hi⟩ | hi
        · have := h2 hc; omega
        · omega
    · exact ⟨x, by simp only; rw [List.getElem?_set_ne hpe]; exact hx, h1, h2⟩

theorem tagInv_reach {bounds prog s} (h : MReach bounds prog s) : TagInv s := by
  induction h with
  | init => exact tagInv_init _ _
  | step _ hs ih => exact tagInv_step ih hs

/-- (a) the tag list is parallel to the claim order: one tag per claimed observation -/
theorem tags_length {bounds prog s} (h : MReach bounds prog s) : s.tags.length = s.core.claimed.length :=
  (tagInv_reach h).len

/-- (b) **a thread's observations are claimed in program order**: along the claim order, the call
    indices of the observations of one thread are strictly increasing (in particular a call claims
    at most once) -/
theorem tags_thread_increasing {bounds prog s} (h : MReach bounds prog s) :
    ∀ i j (hij : i < j) (hj : j < s.tags.length),
      (s.tags[i]'(Nat.lt_trans hij hj)).1 = (s.tags[j]).1 → (s.tags[i]'(Nat.lt_trans hij hj)).2 < (s.tags[j]).2 := by
  intro i j hij hj heq
  exact (List.pairwise_iff_getElem.mp (tagInv_reach h).sorted) i j (Nat.lt_trans hij hj) hj hij heq

/-- every tag names an existing thread and a call that thread has opened: its index is at most the
    thread's current call index -/
theorem tags_bound {bounds prog s} (h : MReach bounds prog s) :
    ∀ p ∈ s.tags, ∃ th, s.ths[p.1]? = some th ∧ p.2 ≤ th.idx ∧ (CanClaim th → p.2 < th.idx) :=
  (tagInv_reach h).bound

/-- the positions of a returned cut are positions of the claim order: the cut is the first
    `r.cut.length` claimed observations -/
theorem cut_eq_take {bounds prog s} (h : MReach bounds prog s) :
    ∀ r ∈ s.cuts, r.cut.length ≤ s.core.claimed.length ∧ r.cut = s.core.claimed.take r.cut.length := by
  intro r hr
  have I := (cutInv_reach h).recs r hr
  have hp : r.cut <+: s.core.claimed := I.2.1.trans I.2.2
  exact ⟨hp.length_le, (List.prefix_iff_eq_take.mp hp)⟩

/-- (c) **cut_per_thread_prefix** — if a returned cut contains position `j` of the claim order, it
    contains every position `i` that holds an observation of the same thread from an earlier call:
    a snapshot never contains a thread's later observation without its earlier ones -/
theorem cut_per_thread_prefix {bounds prog s} (h : MReach bounds prog s) :
    ∀ r ∈ s.cuts, ∀ i j t a b, s.tags[i]? = some (t, a) → s.tags[j]? = some (t, b) → a < b →
      j < r.cut.length → i < r.cut.length := by
  intro r hr i j t a b hi hj hab hjr
  obtain ⟨hi', hie⟩ := List.getElem?_eq_some_iff.mp hi
  obtain ⟨hj', hje⟩ := List.getElem?_eq_some_iff.mp hj
  by_cases hij : j < i
  · have := tags_thread_increasing h j i hij hi' (by rw [hie, hje])
    rw [hie, hje] at this
    simp only at this
    omega
  · by_cases hji : i = j
    · subst hji; rw [hie] at hje; cases hje; omega
    · omega

/-! ### what a tag means: the observation at a tagged position is the one the program's call makes -/

/-- the exact shape of an accepted item: what it does to the thread it belongs to -/
theorem item_exact {s s' : St} {it : Item} (h : item s it = .ok s') :
    (∃ e th pc c' pc' rv cuts' th', s.ths[e.tid]? = some th ∧ th.pc = some pc ∧
        evStep s.bounds.length s.core s.cuts e pc = .ok ((c', pc', rv), cuts') ∧
        s' = { s with core := c', cuts := cuts', ths := s.ths.set e.tid th',
                      tags := if c'.claimed.length > s.core.claimed.length then s.tags ++ [(e.tid, th.idx)] else s.tags } ∧
        (th' = { th with pc := some pc' } ∨ ∃ v, th' = { th with pc := none, retv := some v })) ∨
    (∃ t th th', s.ths[t]? = some th ∧ s' = { s with ths := s.ths.set t th' } ∧
        ((th.pc = none ∧ th.retv = none ∧
            (th' = { th with retv := some "" } ∨
             ∃ pc, th' = { th with pc := some pc } ∧ planCall s (th.ops.getD th.idx "") = .ok (some pc))) ∨
         (∃ rv, th.retv = some rv ∧ th' = { th with idx := th.idx + 1, retv := none }))) := by
  cases it with
  | ev e =>
    simp only [item] at h
    split at h
    · cases h
    · next th hth =>
      split at h
      · cases h
      · next pc hpc =>
        split at h
        · cases h
        · next c' pc' rv cuts' hev =>
          split at h
          · cases h
            exact .inl ⟨e, th, pc, c', pc', none, cuts', _, hth, hpc, hev, rfl, .inl rfl⟩
          · next v =>
            split at h
            · cases h
            · cases h
              exact .inl ⟨e, th, pc, c', pc', some v, cuts', _, hth, hpc, hev, rfl, .inr ⟨v, rfl⟩⟩
  | call t i op =>
    simp only [item] at h
    split at h
    · cases h
    · next th hth =>
      split at h
      · cases h
      · next plan hplan =>
        split at h
        · cases h
        · next hopen =>
          have hcc : th.pc = none ∧ th.retv = none := by
            cases h1 : th.pc <;> cases h2 : th.retv <;> simp_all
          split at h
          · cases h
          · split at h
            · cases h
            · next hop =>
              have hop' : th.ops.getD th.idx "" = op := by simpa using hop
              split at h
              · cases h
                exact .inr ⟨t, th, _, hth, rfl, .inl ⟨hcc.1, hcc.2, .inl rfl⟩⟩
              · next pc =>
                cases h
                exact .inr ⟨t, th, _, hth, rfl, .inl ⟨hcc.1, hcc.2, .inr ⟨pc, rfl, by rw [hop']; exact hplan⟩⟩⟩
  | ret t i v =>
    simp only [item] at h
    split at h
    · cases h
    · next th hth =>
      split at h
      · next th' hc =>
        cases h
        refine .inr ⟨t, th, th', hth, rfl, .inr ?_⟩
        unfold closeCall at hc
        split at hc
        · cases hc
        · next rv hrv =>
          split at hc
          · cases hc
          · split at hc
            · cases hc
            · cases hc; exact ⟨rv, hrv, rfl⟩
      · cases h
  | other x => simp [item] at h

/-- a call that starts as an observer task observes what its operation string says -/
theorem planCall_tagObs {s : St} {op : String} {pc : Pc} {o : Obs} (h : planCall s op = .ok (some pc))
    (ho : pc.task = some (.obsStart o)) : o = obsOfVals s.bounds (callVals op) := by
  unfold planCall at h
  simp only at h
  split at h
  · have := (planObs_cases h).1
    rw [ho] at this
    simpa using this
  · split at h
    · cases h; simp at ho
    · split at h
      · cases h; simp at ho
      · split at h
        · cases h; simp at ho
        · cases h

theorem forall_set {α} {l : List α} {u : Nat} {a' : α} {P : Nat → α → Prop}
    (h : ∀ t x, l[t]? = some x → P t x) (h' : P u a') : ∀ t x, (l.set u a')[t]? = some x → P t x := by
  intro t x hx
  by_cases htu : u = t
  · subst htu
    rw [List.getElem?_set] at hx
    simp only [if_true] at hx
    split at hx
    · cases hx; exact h'
    · cases hx
  · rw [List.getElem?_set_ne htu] at hx
    exact h t x hx

/-- the threads run the program; a call is either stepping or complete; an observer call that has
    not claimed yet carries the observation its operation string denotes; and so does every tagged
    position of the claim order -/
structure TagObsInv (bounds : List UInt64) (prog : List (List String)) (s : St) : Prop where
  ops : ∀ (t : Nat) (th : Th Pc), s.ths[t]? = some th → prog[t]? = some th.ops
  excl : ∀ (t : Nat) (th : Th Pc), s.ths[t]? = some th → th.pc = none ∨ th.retv = none
  start : ∀ (t : Nat) (th : Th Pc), s.ths[t]? = some th → ∀ (pc : Pc) (o : Obs), th.pc = some pc →
    pc.task = some (.obsStart o) → o = obsOfVals bounds (callVals (th.ops.getD th.idx ""))
  tagObs : ∀ (i t k : Nat), s.tags[i]? = some (t, k) → ∃ ops : List String, prog[t]? = some ops ∧
    s.core.claimed[i]? = some (obsOfVals bounds (callVals (ops.getD k "")))

theorem tagObsInv_init (bounds prog) : TagObsInv bounds prog (init bounds prog) := by
  refine ⟨?_, ?_, ?_, ?_⟩
  · intro t th hth
    simp only [init, List.getElem?_map] at hth
    cases hp : prog[t]? with
    | none => simp [hp] at hth
    | some ops => simp [hp] at hth; subst hth; rfl
  · intro t th hth
    simp only [init, List.getElem?_map] at hth
    cases hp : prog[t]? with
    | none => simp [hp] at hth
    | some ops => simp [hp] at hth; subst hth; left; rfl
  · intro t th hth pc o hpc
    simp only [init, List.getElem?_map] at hth
    cases hp : prog[t]? with
    | none => simp [hp] at hth
    | some ops => simp [hp] at hth; subst hth; simp at hpc
  · intro i t k h; simp [init] at h

theorem tagObsInv_step {bounds prog} {s s' : St} {it : Item} (hr : MReach bounds prog s) (I : TagObsInv bounds prog s)
    (h : item s it = .ok s') : TagObsInv bounds prog s' := by
  have hb := mreach_bounds hr
  have T := tagInv_reach hr
  rcases item_exact h with ⟨e, th, pc, c', pc', rv, cuts', th', hth, hpc, hev, rfl, hth'⟩ |
      ⟨t, th, th', hth, rfl, hcase⟩
  · have hno := (evStep_claim hev).1
    have hops : th'.ops = th.ops := by rcases hth' with rfl | ⟨v, rfl⟩ <;> rfl
    have hidx : th'.idx = th.idx := by rcases hth' with rfl | ⟨v, rfl⟩ <;> rfl
    refine ⟨?_, ?_, ?_, ?_⟩
    · exact forall_set (P := fun t (x : Th Pc) => prog[t]? = some x.ops) I.ops (hops ▸ I.ops _ _ hth)
    · refine forall_set (P := fun _ (x : Th Pc) => x.pc = none ∨ x.retv = none) I.excl ?_
      rcases hth' with rfl | ⟨v, rfl⟩
      · right
        rcases I.excl _ _ hth with h1 | h1
        · rw [hpc] at h1; cases h1
        · exact h1
      · left; rfl
    · refine forall_set (P := fun _ (x : Th Pc) => ∀ (pc : Pc) (o : Obs), x.pc = some pc → pc.task = some (.obsStart o) →
          o = obsOfVals bounds (callVals (x.ops.getD x.idx ""))) I.start ?_
      intro pcx o h1 h2
      rcases hth' with rfl | ⟨v, rfl⟩
      · simp only [Option.some.injEq] at h1; subst h1
        rcases hno with hno | ⟨hsame, _⟩
        · exact absurd h2 (hno o)
        · exact I.start _ _ hth pc o hpc (hsame ▸ h2)
      · simp at h1
    · intro i t k hi
      simp only at hi ⊢
      rcases (evStep_claim hev).2 with hcl | ⟨o, ho, hcl⟩
      · rw [hcl] at hi ⊢
        simp only [gt_iff_lt, Nat.lt_irrefl, if_false] at hi
        exact I.tagObs i t k hi
      · rw [hcl] at hi ⊢
        simp only [List.length_append, List.length_singleton, gt_iff_lt, Nat.lt_succ_self, if_true] at hi
        by_cases hlt : i < s.tags.length
        · rw [List.getElem?_append_left hlt] at hi
          rw [List.getElem?_append_left (T.len ▸ hlt)]
          exact I.tagObs i t k hi
        · by_cases heq : i = s.tags.length
          · subst heq
            rw [List.getElem?_append_right (Nat.le_refl _)] at hi
            simp only [Nat.sub_self, List.getElem?_cons_zero, Option.some.injEq, Prod.mk.injEq] at hi
            obtain ⟨rfl, rfl⟩ := hi
            refine ⟨th.ops, I.ops _ _ hth, ?_⟩
            rw [T.len, List.getElem?_append_right (Nat.le_refl _)]
            simp only [Nat.sub_self, List.getElem?_cons_zero, Option.some.injEq]
            exact I.start _ _ hth pc o hpc ho
          · rw [List.getElem?_eq_none (by simp; omega)] at hi; cases hi
  · refine ⟨?_, ?_, ?_, I.tagObs⟩
    · refine forall_set (P := fun t (x : Th Pc) => prog[t]? = some x.ops) I.ops ?_
      have := I.ops _ _ hth
      rcases hcase with ⟨_, _, rfl | ⟨pc, rfl, _⟩⟩ | ⟨rv, _, rfl⟩ <;> exact this
    · refine forall_set (P := fun _ (x : Th Pc) => x.pc = none ∨ x.retv = none) I.excl ?_
      rcases hcase with ⟨h1, h2, rfl | ⟨pc, rfl, _⟩⟩ | ⟨rv, _, rfl⟩
      · left; exact h1
      · right; exact h2
      · right; rfl
    · refine forall_set (P := fun _ (x : Th Pc) => ∀ (pc : Pc) (o : Obs), x.pc = some pc → pc.task = some (.obsStart o) →
          o = obsOfVals bounds (callVals (x.ops.getD x.idx ""))) I.start ?_
      intro pcx o h1 h2
      rcases hcase with ⟨h3, _, rfl | ⟨pc, rfl, hplan⟩⟩ | ⟨rv, hrv, rfl⟩
      · simp only at h1; rw [h3] at h1; cases h1
      · simp only [Option.some.injEq] at h1; subst h1
        rw [← hb]; exact planCall_tagObs hplan h2
      · simp only at h1
        rcases I.excl _ _ hth with h4 | h4
        · rw [h4] at h1; cases h1
        · rw [h4] at hrv; cases hrv

theorem tagObsInv_reach {bounds prog s} (h : MReach bounds prog s) : TagObsInv bounds prog s := by
  induction h with
  | init => exact tagObsInv_init _ _
  | step hr hs ih => exact tagObsInv_step hr ih hs

/-- **what a tag means** — if position `i` of the claim order is tagged `(t, k)`, then thread `t` of
    the program exists and the observation claimed at position `i` is exactly the one its `k`-th call
    (`obs:v` / `flush:v1+v2+…`) makes -/
theorem tag_obs {bounds prog s} (h : MReach bounds prog s) :
    ∀ (i t k : Nat), s.tags[i]? = some (t, k) → ∃ ops : List String, prog[t]? = some ops ∧
      s.core.claimed[i]? = some (obsOfVals bounds (callVals (ops.getD k ""))) :=
  (tagObsInv_reach h).tagObs

end Prom.HM
