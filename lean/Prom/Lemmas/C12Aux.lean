import Prom.Model.Local
/-
C12 — Local (unsync) metrics hand over exactly what they accumulated.
Induction over any operation list and any number of handles (handles are list positions; clones
and new locals append).
-/
/- Helper lemmas and auxiliary definitions for Props/C12.lean (kept apart from the property theorems). -/
namespace Prom.C12
open Prom

theorem sum_set {l : List Nat} {i p : Nat} (v : Nat) (h : l[i]? = some p) :
    (l.set i v).sum + p = l.sum + v := by
  induction l generalizing i with
  | nil => simp at h
  | cons a t ih =>
    cases i with
    | zero => simp at h; subst h; simp; omega
    | succ i =>
      simp at h
      have := ih h
      simp only [List.set_cons_succ, List.sum_cons]
      omega

def CInv (w : CW) : Prop := w.shared + w.locals.sum + w.discarded = w.totalIn

theorem cstep_inv (w : CW) (op : COp) (h : CInv w) : CInv (w.step op) := by
  unfold CInv at *
  cases op with
  | linc hd d =>
    simp only [CW.step]
    cases hl : w.locals[hd]? with
    | none => simpa using h
    | some p =>
      simp only []
      have := sum_set (p + d) hl
      omega
  | lflush hd =>
    simp only [CW.step]
    cases hl : w.locals[hd]? with
    | none => simpa using h
    | some p =>
      simp only []
      split
      · exact h
      · have := sum_set 0 hl
        simp only []
        omega
  | lreset hd =>
    simp only [CW.step]
    cases hl : w.locals[hd]? with
    | none => simpa using h
    | some p =>
      simp only []
      have := sum_set 0 hl
      omega
  | lclone hd =>
    simp only [CW.step]
    cases hl : w.locals[hd]? with
    | none => simpa using h
    | some p => simp only [List.sum_append, List.sum_cons, List.sum_nil]; omega
  | lnew => simp only [CW.step, List.sum_append, List.sum_cons, List.sum_nil]; omega
  | sinc d => simp only [CW.step]; omega
  | sreset => simp only [CW.step]; omega

theorem pending_set {ls : List (Option LH)} {i : Nat} {o : Option LH} (n : Option LH) (h : ls[i]? = some o) :
    pendingCount (ls.set i n) + optCount o = pendingCount ls + optCount n := by
  unfold pendingCount
  induction ls generalizing i with
  | nil => simp at h
  | cons a t ih =>
    cases i with
    | zero => simp at h; subst h; simp; omega
    | succ i =>
      simp at h
      have := ih h
      simp only [List.set_cons_succ, List.map_cons, List.sum_cons]
      omega

theorem absorb_count (add) (h : Hist) (l : LH) : (h.absorb add l).count = h.count + l.count := by
  unfold Hist.absorb
  split
  · rename_i hc; have : l.count = 0 := by simpa using hc
    omega
  · rfl

def HInv (w : HW) : Prop := w.shared.count + pendingCount w.locals + w.discardedObs = w.totalObs

theorem hstep_inv (add) (w : HW) (op : HOp) (h : HInv w) : HInv (w.step add op) := by
  unfold HInv at *
  cases op with
  | lobs hd v =>
    simp only [HW.step]
    cases hl : w.locals[hd]? with
    | none => simpa using h
    | some o =>
      cases o with
      | none => simpa using h
      | some l =>
        simp only []
        have := pending_set (some (l.observe add w.shared.bounds v)) hl
        have e1 : optCount (some (l.observe add w.shared.bounds v)) = l.count + 1 := rfl
        have e2 : optCount (some l) = l.count := rfl
        omega
  | lflush hd =>
    simp only [HW.step]
    cases hl : w.locals[hd]? with
    | none => simpa using h
    | some o =>
      cases o with
      | none => simpa using h
      | some l =>
        simp only []
        have := pending_set (some (LH.empty w.shared.bounds.length)) hl
        have e1 : optCount (some (LH.empty w.shared.bounds.length)) = 0 := rfl
        have e2 : optCount (some l) = l.count := rfl
        rw [absorb_count]
        omega
  | lclear hd =>
    simp only [HW.step]
    cases hl : w.locals[hd]? with
    | none => simpa using h
    | some o =>
      cases o with
      | none => simpa using h
      | some l =>
        simp only []
        have := pending_set (some (LH.empty w.shared.bounds.length)) hl
        have e1 : optCount (some (LH.empty w.shared.bounds.length)) = 0 := rfl
        have e2 : optCount (some l) = l.count := rfl
        omega
  | lclone hd =>
    simp only [HW.step]
    cases hl : w.locals[hd]? with
    | none => simpa using h
    | some o =>
      cases o with
      | none => simp only [pendingCount, List.map_append, List.sum_append] at *; simpa [optCount] using h
      | some l => simp only [pendingCount, List.map_append, List.sum_append] at *; simpa [optCount, LH.empty] using h
  | ldrop hd =>
    simp only [HW.step]
    cases hl : w.locals[hd]? with
    | none => simpa using h
    | some o =>
      cases o with
      | none => simpa using h
      | some l =>
        simp only []
        have := pending_set none hl
        have e1 : optCount none = 0 := rfl
        have e2 : optCount (some l) = l.count := rfl
        rw [absorb_count]
        omega
  | lnew => simp only [HW.step, pendingCount, List.map_append, List.sum_append] at *; simpa [optCount, LH.empty] using h
  | sobs v => simp only [HW.step, Hist.observe]; omega

end Prom.C12
