import Prom.Base.Bytes
/- Insertion sort: permutation, sortedness, uniqueness of the sorted permutation. -/
namespace Prom
variable {α : Type}

theorem insertBy_perm (le : α → α → Bool) (a : α) (l : List α) : (insertBy le a l).Perm (a :: l) := by
  induction l with
  | nil => exact List.Perm.refl _
  | cons b r ih =>
    unfold insertBy
    split
    · exact (List.Perm.cons b ih).trans (List.Perm.swap a b r)
    · exact List.Perm.refl _

theorem foldl_insertBy_perm (le : α → α → Bool) (l : List α) : ∀ acc,
    (l.foldl (fun acc a => insertBy le a acc) acc).Perm (acc ++ l) := by
  induction l with
  | nil => intro acc; simp
  | cons a r ih =>
    intro acc
    simp only [List.foldl_cons]
    refine (ih _).trans ?_
    exact (List.Perm.append_right r (insertBy_perm le a acc)).trans (List.perm_middle.symm)

theorem stableSortBy_perm (le : α → α → Bool) (l : List α) : (stableSortBy le l).Perm l := by
  simpa [stableSortBy] using foldl_insertBy_perm le l []

theorem insertBy_pairwise {le : α → α → Bool}
    (trans : ∀ a b c, le a b = true → le b c = true → le a c = true)
    (total : ∀ a b, le a b = true ∨ le b a = true)
    (a : α) {l : List α} (h : l.Pairwise (fun x y => le x y = true)) :
    (insertBy le a l).Pairwise (fun x y => le x y = true) := by
  induction l with
  | nil => simp [insertBy]
  | cons b r ih =>
    rw [List.pairwise_cons] at h
    unfold insertBy
    split
    · rename_i hba
      rw [List.pairwise_cons]
      refine ⟨?_, ih h.2⟩
      intro x hx
      have := (insertBy_perm le a r).subset hx
      rcases List.mem_cons.1 this with rfl | hx'
      · exact hba
      · exact h.1 x hx'
    · rename_i hba
      have hab : le a b = true := by
        rcases total a b with h' | h'
        · exact h'
        · exact absurd h' hba
      rw [List.pairwise_cons]
      refine ⟨?_, List.pairwise_cons.2 h⟩
      intro x hx
      rcases List.mem_cons.1 hx with rfl | hx'
      · exact hab
      · exact trans _ _ _ hab (h.1 x hx')

theorem foldl_insertBy_pairwise {le : α → α → Bool}
    (trans : ∀ a b c, le a b = true → le b c = true → le a c = true)
    (total : ∀ a b, le a b = true ∨ le b a = true) (l : List α) :
    ∀ acc, acc.Pairwise (fun x y => le x y = true) →
      (l.foldl (fun acc a => insertBy le a acc) acc).Pairwise (fun x y => le x y = true) := by
  induction l with
  | nil => intro acc h; simpa
  | cons a r ih => intro acc h; simp only [List.foldl_cons]; exact ih _ (insertBy_pairwise trans total a h)

theorem stableSortBy_pairwise {le : α → α → Bool}
    (trans : ∀ a b c, le a b = true → le b c = true → le a c = true)
    (total : ∀ a b, le a b = true ∨ le b a = true) (l : List α) :
    (stableSortBy le l).Pairwise (fun x y => le x y = true) :=
  foldl_insertBy_pairwise trans total l [] List.Pairwise.nil

/-- two permutations sort to the same list when `le` is antisymmetric on their elements -/
theorem stableSortBy_perm_eq {le : α → α → Bool}
    (trans : ∀ a b c, le a b = true → le b c = true → le a c = true)
    (total : ∀ a b, le a b = true ∨ le b a = true)
    {l₁ l₂ : List α} (hp : l₁.Perm l₂)
    (anti : ∀ a b, a ∈ l₁ → b ∈ l₁ → le a b = true → le b a = true → a = b) :
    stableSortBy le l₁ = stableSortBy le l₂ := by
  apply List.Perm.eq_of_pairwise (le := fun x y => le x y = true)
  · intro a b ha hb h1 h2
    have ha' : a ∈ l₁ := (stableSortBy_perm le l₁).subset ha
    have hb' : b ∈ l₁ := hp.symm.subset ((stableSortBy_perm le l₂).subset hb)
    exact anti a b ha' hb' h1 h2
  · exact stableSortBy_pairwise trans total l₁
  · exact stableSortBy_pairwise trans total l₂
  · exact (stableSortBy_perm le l₁).trans (hp.trans (stableSortBy_perm le l₂).symm)

/-- a sorted list is a fixed point -/
theorem insertBy_of_all_le {le : α → α → Bool} (a : α) (l : List α) (h : ∀ x ∈ l, le x a = true) :
    insertBy le a l = l ++ [a] := by
  induction l with
  | nil => rfl
  | cons b r ih =>
    unfold insertBy
    rw [if_pos (h b (by simp)), ih (fun x hx => h x (by simp [hx]))]
    rfl

theorem eq_of_nodup_map {α β : Type} (f : α → β) : ∀ {l : List α}, (l.map f).Nodup →
    ∀ {x y : α}, x ∈ l → y ∈ l → f x = f y → x = y := by
  intro l
  induction l with
  | nil => intro _ x y hx; cases hx
  | cons a t ih =>
    intro hn x y hx hy e
    simp only [List.map_cons, List.nodup_cons] at hn
    rcases List.mem_cons.1 hx with hxa | hxt
    · rcases List.mem_cons.1 hy with hya | hyt
      · rw [hxa, hya]
      · exact absurd (List.mem_map.2 ⟨y, hyt, by rw [← e, hxa]⟩) hn.1
    · rcases List.mem_cons.1 hy with hya | hyt
      · exact absurd (List.mem_map.2 ⟨x, hxt, by rw [e, hya]⟩) hn.1
      · exact ih hn.2 hxt hyt e


/-! ### the byte-string order -/

theorem strLe_iff (a b : Str) : strLe a b = true ↔ a ≤ b := by simp [strLe]

theorem strLe_trans (a b c : Str) (h1 : strLe a b = true) (h2 : strLe b c = true) : strLe a c = true := by
  rw [strLe_iff] at *; exact List.le_trans h1 h2

theorem strLe_total (a b : Str) : strLe a b = true ∨ strLe b a = true := by
  rw [strLe_iff, strLe_iff]; exact List.le_total a b

theorem strLe_antisymm (a b : Str) (h1 : strLe a b = true) (h2 : strLe b a = true) : a = b := by
  rw [strLe_iff] at *; exact Std.le_antisymm h1 h2

theorem strLe_refl (a : Str) : strLe a a = true := by
  rcases strLe_total a a with h | h <;> exact h

end Prom
