import Prom.Model.PbDecode
import Prom.Gen.PbTables
/-
C13 — Protobuf exposition decodes to the gathered state.
`writerTable` is regenerated from proto/proto_model.rs (what the code writes), `schema` from
proto/proto_model.proto (what the format declares), by two different parsers; their compatibility
is a theorem re-checked on every run.
-/
/- Helper lemmas and auxiliary definitions for Props/C13.lean (kept apart from the property theorems). -/
namespace Prom.C13
open Prom Prom.Pb

def kindCompat : FKind → FKind → Bool
  | .str, .str | .double, .double | .uint64, .uint64 | .int64, .int64 => true
  | .enum _, .enum _ => true
  | .msg a, .msg b => a == b
  | _, _ => false

def sizeOk (w : WField) : Bool :=
  match w.kind, w.size with
  | .str, .tagLenBytes | .msg _, .tagLenBytes | .double, .tagFixed64 => true
  | .uint64, .tagVarint | .int64, .tagVarint | .enum _, .tagVarint => true
  | _, _ => false

/-- every message the code writes is declared; every written field is declared with the same
    name, number, repetition and a compatible type; every declared field is written; field
    numbers are pairwise distinct (on both sides) and within protobuf's range 1 ‥ 2^29-1; the size rule of `compute_size` matches the wire kind -/
def Compatible (wt : List (String × List WField)) (sch : List (String × List SField)) : Bool :=
  wt.length == sch.length &&
  wt.all fun (name, wfs) =>
    match lookupMsg sch name with
    | none => false
    | some sfs =>
      wfs.length == sfs.length &&
      (wfs.map (·.num)).Nodup && (sfs.map (·.num)).Nodup &&
      wfs.all (fun w => sizeOk w && decide (0 < w.num) && decide (w.num < 536870912) && sfs.any fun s => s.name == w.name && s.num == w.num && s.repeated == w.repeated && kindCompat w.kind s.kind) &&
      sfs.all (fun s => wfs.any fun w => s.name == w.name && s.num == w.num)

theorem toUInt8_toNat (n : Nat) (h : n < 256) : n.toUInt8.toNat = n := by
  show (UInt8.ofNat n).toNat = n
  rw [UInt8.toNat_ofNat']
  omega

theorem varint_roundtrip_fuel : ∀ (f n : Nat) (rest : List UInt8), n < 128 ^ (f + 1) →
    readVarint (f + 1) (varintFuel (f + 1) n ++ rest) = some (n, rest) := by
  intro f
  induction f with
  | zero =>
    intro n rest h
    have hn : n < 128 := by simpa using h
    have hb : n.toUInt8 < 128 := by
      rw [UInt8.lt_iff_toNat_lt, toUInt8_toNat n (by omega)]
      show n < 128
      exact hn
    simp [varintFuel, hn, readVarint, hb, toUInt8_toNat n (by omega)]
  | succ f ih =>
    intro n rest h
    unfold varintFuel
    by_cases hn : n < 128
    · have hb : n.toUInt8 < 128 := by
        rw [UInt8.lt_iff_toNat_lt, toUInt8_toNat n (by omega)]
        show n < 128
        exact hn
      simp [hn, readVarint, hb, toUInt8_toNat n (by omega)]
    · simp only [hn, if_false, List.cons_append]
      have hbyte : (n % 128 + 128).toUInt8.toNat = n % 128 + 128 := toUInt8_toNat _ (by omega)
      have hb : ¬ ((n % 128 + 128).toUInt8 < 128) := by
        rw [UInt8.lt_iff_toNat_lt, hbyte]
        show ¬ (n % 128 + 128 < 128)
        omega
      have hdiv : n / 128 < 128 ^ (f + 1) := by
        have : 128 ^ (f + 1 + 1) = 128 * 128 ^ (f + 1) := by rw [Nat.pow_succ]; omega
        rw [this] at h
        exact Nat.div_lt_of_lt_mul h
      unfold readVarint
      simp only [hb, if_false]
      rw [ih (n / 128) rest hdiv]
      simp only [hbyte]
      congr 1
      congr 1
      omega

end Prom.C13
