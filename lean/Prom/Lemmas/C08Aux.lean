import Prom.Lemmas.Histogram
/-
C08 — Bucket counts follow `value <= upper bound` for every input.
Property theorems only. `add` (f64 addition) is a parameter: every statement
holds for every `add`, in particular for IEEE addition with its rounding.
-/
/- Helper lemmas and auxiliary definitions for Props/C08.lean (kept apart from the property theorems). -/
namespace Prom.C08
open Prom

/-- the list the code validates: the defaults when the request is empty -/
def effective (defaults bs : List UInt64) : List UInt64 := if bs.isEmpty then defaults else bs

theorem dropLast_strictIncr : ∀ {bs : List UInt64}, StrictIncr bs → StrictIncr bs.dropLast
  | [], _ => trivial
  | [_], _ => trivial
  | [a, _], h => by
      show f64IsNaN a = false
      exact ((f64Lt_iff _ _).1 h.1).1
  | a :: b :: c :: r, h => by
      have ih := dropLast_strictIncr (bs := b :: c :: r) h.2
      simp only [List.dropLast_cons_cons] at ih ⊢
      cases hr : (c :: r).dropLast with
      | nil =>
        rw [hr] at ih
        exact ⟨h.1, ih⟩
      | cons d r' =>
        rw [hr] at ih
        exact ⟨h.1, ih⟩

end Prom.C08
