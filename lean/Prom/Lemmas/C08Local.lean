import Prom.Lemmas.C08Aux
import Prom.Model.Local
import Prom.Gen.Consts
/- Helper lemmas for the local-histogram part of Props/C08.lean: a local histogram buckets by the
   same first-match rule as the shared one, and a flush adds its bucket counts position-wise. -/
namespace Prom.C08
open Prom

/-- the bucketing rule shared by `Hist.observe` and `LH.observe`: bump the first bucket whose
    bound is `>= v`, if any -/
def bucketStep (bounds : List UInt64) (cs : List Nat) (v : UInt64) : List Nat :=
  match findBucket bounds v with
  | some i => bumpAt cs i 1
  | none => cs

/-- `findBucket` only returns positions of the bound list (no strictness assumption needed) -/
theorem findBucket_lt : ∀ (bounds : List UInt64) (v : UInt64) (i : Nat),
    findBucket bounds v = some i → i < bounds.length
  | [], _, _, h => by simp [findBucket] at h
  | b :: r, v, i, h => by
    unfold findBucket at h
    by_cases hb : f64Le v b = true
    · simp only [hb, if_true, Option.some.injEq] at h
      subst h; simp
    · have hb' : f64Le v b = false := by simpa using hb
      simp only [hb', Bool.false_eq_true, if_false] at h
      cases hf : findBucket r v with
      | none => rw [hf] at h; simp at h
      | some j =>
        rw [hf] at h
        simp only [Option.map_some, Option.some.injEq] at h
        have := findBucket_lt r v j hf
        subst h
        simp only [List.length_cons]; omega

theorem bucketStep_length (bounds : List UInt64) (cs : List Nat) (v : UInt64) :
    (bucketStep bounds cs v).length = cs.length := by
  unfold bucketStep
  cases findBucket bounds v <;> simp [bumpAt_length]

theorem foldl_bucketStep_length (bounds : List UInt64) (vs : List UInt64) :
    ∀ cs : List Nat, (vs.foldl (bucketStep bounds) cs).length = cs.length := by
  induction vs with
  | nil => intro cs; rfl
  | cons v r ih => intro cs; rw [List.foldl_cons, ih, bucketStep_length]

/-- adding an all-zero local adds nothing -/
theorem addCounts_replicate_zero : ∀ (hc : List Nat) (n : Nat), addCounts hc (List.replicate n 0) = hc
  | [], n => by cases n <;> simp [addCounts, List.replicate]
  | a :: r, 0 => by simp [addCounts]
  | a :: r, n + 1 => by
    simp only [List.replicate_succ, addCounts, Nat.add_zero, List.cons.injEq, true_and]
    exact addCounts_replicate_zero r n

/-- bumping a position of the local before the flush = bumping it in the shared counts after the
    flush, as long as the position exists in the local -/
theorem addCounts_bumpAt : ∀ (hc lc : List Nat) (i d : Nat), i < lc.length →
    addCounts hc (bumpAt lc i d) = bumpAt (addCounts hc lc) i d
  | _, [], _, _, h => by simp at h
  | [], b :: s, 0, d, _ => by simp [addCounts, bumpAt]
  | [], b :: s, i + 1, d, _ => by simp [addCounts, bumpAt]
  | a :: r, b :: s, 0, d, _ => by simp [addCounts, bumpAt]; omega
  | a :: r, b :: s, i + 1, d, h => by
    simp only [addCounts, bumpAt, List.cons.injEq, true_and]
    exact addCounts_bumpAt r s i d (by simpa using h)

theorem addCounts_bucketStep (bounds : List UInt64) (hc lc : List Nat) (v : UInt64)
    (hl : lc.length = bounds.length) :
    addCounts hc (bucketStep bounds lc v) = bucketStep bounds (addCounts hc lc) v := by
  unfold bucketStep
  cases hf : findBucket bounds v with
  | none => rfl
  | some i =>
    simp only []
    exact addCounts_bumpAt hc lc i 1 (by rw [hl]; exact findBucket_lt bounds v i hf)

theorem addCounts_foldl_bucketStep (bounds : List UInt64) (hc : List Nat) (vs : List UInt64) :
    ∀ lc : List Nat, lc.length = bounds.length →
      addCounts hc (vs.foldl (bucketStep bounds) lc) = vs.foldl (bucketStep bounds) (addCounts hc lc) := by
  induction vs with
  | nil => intro lc _; rfl
  | cons v r ih =>
    intro lc hl
    rw [List.foldl_cons, List.foldl_cons, ih _ (by rw [bucketStep_length, hl]),
      addCounts_bucketStep bounds hc lc v hl]

/-- the local histogram after a list of observations, field by field -/
theorem lh_observeAll (add : UInt64 → UInt64 → UInt64) (bounds : List UInt64) (vs : List UInt64) :
    ∀ l : LH,
      (vs.foldl (LH.observe add bounds) l).counts = vs.foldl (bucketStep bounds) l.counts ∧
      (vs.foldl (LH.observe add bounds) l).count = l.count + vs.length ∧
      (vs.foldl (LH.observe add bounds) l).sum = vs.foldl add l.sum := by
  induction vs with
  | nil => intro l; exact ⟨rfl, rfl, rfl⟩
  | cons v r ih =>
    intro l
    obtain ⟨h1, h2, h3⟩ := ih (LH.observe add bounds l v)
    simp only [List.foldl_cons]
    refine ⟨by rw [h1]; rfl, ?_, by rw [h3]; rfl⟩
    rw [h2]
    show l.count + 1 + r.length = l.count + (r.length + 1)
    omega

/-- the shared histogram after a list of direct observations, field by field -/
theorem hist_observeAll (add : UInt64 → UInt64 → UInt64) (vs : List UInt64) :
    ∀ h : Hist,
      (h.observeAll add vs).bounds = h.bounds ∧
      (h.observeAll add vs).counts = vs.foldl (bucketStep h.bounds) h.counts ∧
      (h.observeAll add vs).count = h.count + vs.length ∧
      (h.observeAll add vs).sum = vs.foldl add h.sum := by
  induction vs with
  | nil => intro h; exact ⟨rfl, rfl, rfl, rfl⟩
  | cons v r ih =>
    intro h
    obtain ⟨h0, h1, h2, h3⟩ := ih (Hist.observe add h v)
    have hb : (Hist.observe add h v).bounds = h.bounds := rfl
    simp only [Hist.observeAll, List.foldl_cons] at h0 h1 h2 h3 ⊢
    refine ⟨by rw [h0, hb], by rw [h1, hb]; rfl, ?_, by rw [h3]; rfl⟩
    rw [h2]
    show h.count + 1 + r.length = h.count + (r.length + 1)
    omega

/-- with an associative addition the local path's sum can be re-bracketed -/
theorem foldl_assoc (add : UInt64 → UInt64 → UInt64)
    (hassoc : ∀ a b c, add (add a b) c = add a (add b c)) (vs : List UInt64) :
    ∀ a z, add a (vs.foldl add z) = vs.foldl add (add a z) := by
  induction vs with
  | nil => intro a z; rfl
  | cons v r ih => intro a z; rw [List.foldl_cons, List.foldl_cons, ih, hassoc]

/-! ### the same, inside the world of local handles (`HW.step`) -/

/-- observing on handle `k` only changes handle `k`, by `LH.observe` with the shared bounds -/
theorem world_lobs_all (add : UInt64 → UInt64 → UInt64) (k : Nat) (vs : List UInt64) :
    ∀ (w : HW) (l : LH), w.locals[k]? = some (some l) →
      ((vs.map (HOp.lobs k)).foldl (HW.step add) w).shared = w.shared ∧
      ((vs.map (HOp.lobs k)).foldl (HW.step add) w).locals[k]? =
        some (some (vs.foldl (LH.observe add w.shared.bounds) l)) := by
  induction vs with
  | nil => intro w l hl; exact ⟨rfl, hl⟩
  | cons v r ih =>
    intro w l hl
    have hlt : k < w.locals.length := by
      rcases Nat.lt_or_ge k w.locals.length with h' | h'
      · exact h'
      · rw [List.getElem?_eq_none_iff.2 h'] at hl; cases hl
    have hstep : w.step add (.lobs k v) =
        { w with locals := w.locals.set k (some (l.observe add w.shared.bounds v)), totalObs := w.totalObs + 1 } := by
      simp only [HW.step, hl]
    have hl' : (w.step add (.lobs k v)).locals[k]? = some (some (l.observe add w.shared.bounds v)) := by
      rw [hstep]; simp [hlt]
    have hs' : (w.step add (.lobs k v)).shared = w.shared := by rw [hstep]
    obtain ⟨h1, h2⟩ := ih (w.step add (.lobs k v)) _ hl'
    simp only [List.map_cons, List.foldl_cons]
    exact ⟨by rw [h1, hs'], by rw [h2, hs']⟩

/-- a flush of a live handle puts `Hist.absorb` of its local into the shared histogram -/
theorem world_lflush_shared (add : UInt64 → UInt64 → UInt64) (w : HW) (k : Nat) (l : LH)
    (hl : w.locals[k]? = some (some l)) :
    (w.step add (.lflush k)).shared = w.shared.absorb add l := by
  simp only [HW.step, hl]

end Prom.C08
