import Prom.Model.Registry
import Prom.Lemmas.Sort
/- Lemmas about the merge step of `gather` (C07, C14). -/
namespace Prom

theorem strLt_iff (a b : Str) : strLt a b = true ↔ a < b := by simp [strLt]

theorem str_lt_trans {a b c : Str} (h1 : a < b) (h2 : b < c) : a < c := List.lt_trans h1 h2

/-- trichotomy of the byte-string order -/
theorem str_lt_of_not_lt_of_ne {a b : Str} (h1 : ¬ a < b) (h2 : a ≠ b) : b < a := by
  have hle : b ≤ a := List.not_lt.1 h1
  rcases List.le_iff_lt_or_eq.1 hle with h | h
  · exact h
  · exact absurd h.symm h2

/-- names of the merged association after inserting `f` -/
theorem famInsert_names (f : Family) : ∀ (l : List Family) (x : Str),
    x ∈ (famInsert f l).map (·.name) → x = f.name ∨ x ∈ l.map (·.name) := by
  intro l
  induction l with
  | nil => intro x hx; simp [famInsert] at hx; exact Or.inl hx
  | cons g r ih =>
    intro x hx
    unfold famInsert at hx
    split at hx
    · simp at hx ⊢; rcases hx with h | h
      · exact Or.inr (Or.inl h)
      · exact Or.inr (Or.inr h)
    · split at hx
      · simp at hx ⊢; rcases hx with h | h | h
        · exact Or.inl h
        · exact Or.inr (Or.inl h)
        · exact Or.inr (Or.inr h)
      · simp only [List.map_cons, List.mem_cons] at hx ⊢
        rcases hx with h | h
        · exact Or.inr (Or.inl h)
        · rcases ih x h with h' | h'
          · exact Or.inl h'
          · exact Or.inr (Or.inr h')

/-- the association stays strictly sorted by name (what makes it a BTreeMap) -/
theorem famInsert_sorted (f : Family) : ∀ (l : List Family),
    (l.map (·.name)).Pairwise (· < ·) → ((famInsert f l).map (·.name)).Pairwise (· < ·) := by
  intro l
  induction l with
  | nil => intro _; simp [famInsert]
  | cons g r ih =>
    intro h
    simp only [List.map_cons, List.pairwise_cons] at h
    unfold famInsert
    split
    · simp only [List.map_cons, List.pairwise_cons]; exact h
    · rename_i hne
      have hne' : g.name ≠ f.name := by simpa using hne
      split
      · rename_i hlt
        have hlt' : f.name < g.name := (strLt_iff _ _).1 hlt
        simp only [List.map_cons, List.pairwise_cons]
        refine ⟨?_, h⟩
        intro x hx
        rcases List.mem_cons.1 hx with rfl | hx
        · exact hlt'
        · exact str_lt_trans hlt' (h.1 x hx)
      · rename_i hlt
        have hnlt : ¬ f.name < g.name := fun h' => hlt ((strLt_iff _ _).2 h')
        have hgf : g.name < f.name := str_lt_of_not_lt_of_ne hnlt (fun e => hne' e.symm)
        simp only [List.map_cons, List.pairwise_cons]
        refine ⟨?_, ih h.2⟩
        intro x hx
        rcases famInsert_names f r x hx with rfl | hx
        · exact hgf
        · exact h.1 x hx

/-- all samples filed under name `n` -/
def samplesOf (n : Str) (l : List Family) : List Sample := (l.filter (·.name == n)).flatMap (·.samples)

theorem samplesOf_cons (n : Str) (g : Family) (r : List Family) :
    samplesOf n (g :: r) = (if g.name == n then g.samples else []) ++ samplesOf n r := by
  unfold samplesOf
  by_cases h : (g.name == n) = true <;> simp [List.filter_cons, h]

/-- merging keeps every sample exactly once under its name -/
theorem famInsert_samples (f : Family) (n : Str) : ∀ (l : List Family),
    (samplesOf n (famInsert f l)).Perm (samplesOf n l ++ (if f.name == n then f.samples else [])) := by
  intro l
  induction l with
  | nil =>
    unfold famInsert
    rw [samplesOf_cons]
    simp [samplesOf]
  | cons g r ih =>
    unfold famInsert
    split
    · rename_i he
      have he' : g.name = f.name := by simpa using he
      rw [samplesOf_cons, samplesOf_cons]
      simp only [he']
      by_cases hn : (f.name == n) = true
      · simp only [hn, if_true]
        rw [List.append_assoc, List.append_assoc]
        exact List.Perm.append_left _ List.perm_append_comm
      · simp [hn]
    · split
      · rw [samplesOf_cons]
        exact List.perm_append_comm
      · rw [samplesOf_cons, samplesOf_cons, List.append_assoc]
        exact List.Perm.append_left _ ih

theorem famInsert_mem (f : Family) : ∀ (l : List Family) (g : Family), g ∈ famInsert f l →
    g = f ∨ g ∈ l ∨ ∃ g0 ∈ l, g0.name = f.name ∧ g = { g0 with samples := g0.samples ++ f.samples } := by
  intro l
  induction l with
  | nil => intro g hg; simp [famInsert] at hg; exact Or.inl hg
  | cons a r ih =>
    intro g hg
    unfold famInsert at hg
    split at hg
    · rename_i he
      have he' : a.name = f.name := by simpa using he
      rcases List.mem_cons.1 hg with rfl | hg
      · exact Or.inr (Or.inr ⟨a, by simp, he', rfl⟩)
      · exact Or.inr (Or.inl (by simp [hg]))
    · split at hg
      · rcases List.mem_cons.1 hg with rfl | hg
        · exact Or.inl rfl
        · exact Or.inr (Or.inl hg)
      · rcases List.mem_cons.1 hg with rfl | hg
        · exact Or.inr (Or.inl (by simp))
        · rcases ih g hg with h | h | ⟨g0, hg0, h1, h2⟩
          · exact Or.inl h
          · exact Or.inr (Or.inl (by simp [h]))
          · exact Or.inr (Or.inr ⟨g0, by simp [hg0], h1, h2⟩)

end Prom
