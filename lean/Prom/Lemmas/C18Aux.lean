import Prom.Model.Timer
/-
C18 — A timer records its duration exactly once, or never when discarded.
-/
/- Helper lemmas and auxiliary definitions for Props/C18.lean (kept apart from the property theorems). -/
namespace Prom.C18
open Prom

/-- live timers never hold buffered observations and have not observed yet; ended timers hold none -/
def TimerOk (t : Timer) : Prop := t.buf = 0 ∧ (t.alive = true → t.observed = false)

def TInv (w : TW) : Prop := w.shared + w.parent = w.ended + w.closures + w.direct ∧ ∀ t ∈ w.timers, TimerOk t

theorem set_ok {l : List Timer} {i : Nat} {t' : Timer} (h : ∀ t ∈ l, TimerOk t) (ht : TimerOk t') :
    ∀ t ∈ l.set i t', TimerOk t := by
  intro t hm
  rcases List.mem_or_eq_of_mem_set hm with h' | h'
  · exact h t h'
  · rw [h']; exact ht

/-- the parent local histogram is never touched by its timers (they record into a private clone) -/
theorem withTimer_parent (w : TW) (i : Nat) (f : Timer → Timer × Nat) (e : Bool) :
    (w.withTimer i f e).parent = w.parent := by
  unfold TW.withTimer
  cases w.timers[i]? with
  | none => rfl
  | some t => simp only []; split <;> rfl

end Prom.C18
