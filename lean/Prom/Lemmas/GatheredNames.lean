import Prom.Lemmas.GatherDet
import Prom.Lemmas.Desc
/-
C09, gathered part: what the names of a gathered sample are made of. Helper lemmas for
`Props/C09.gathered_names_valid`.
-/
namespace Prom.C09
open Prom Prom.C07

/-- every sample of a merged family is a sample of a collected family of the same name -/
theorem merged_sample_origin (collected : List Family) (g : Family) (hg : g ∈ merged collected) (s : Sample)
    (hs : s ∈ g.samples) : ∃ f ∈ collected, f.name = g.name ∧ s ∈ f.samples := by
  have hsorted : ((merged collected).map (·.name)).Pairwise (· < ·) := merged_sorted_aux collected [] (by simp)
  have h1 : samplesOf g.name (merged collected) = g.samples := samplesOf_of_mem _ hsorted g hg
  have hp : (samplesOf g.name (merged collected)).Perm (samplesOf g.name collected) := by
    have := merged_samples_aux g.name collected []
    simpa [merged, samplesOf] using this
  have : s ∈ samplesOf g.name collected := hp.subset (by rw [h1]; exact hs)
  unfold samplesOf at this
  obtain ⟨f, hf, hsf⟩ := List.mem_flatMap.1 this
  have hf' := List.mem_filter.1 hf
  exact ⟨f, hf'.1, by simpa using hf'.2, hsf⟩

/-- identifiers: all bytes of a valid name are "rest" bytes -/
theorem validIdent_all (start : UInt8 → Bool) (hs : ∀ b, start b = true → (start b || isAsciiDigit b) = true) :
    ∀ (s : Str), isValidIdent start s = true → s.all (fun b => start b || isAsciiDigit b) = true := by
  intro s h
  cases s with
  | nil => simp [isValidIdent] at h
  | cons c r =>
    simp only [isValidIdent, Bool.and_eq_true] at h
    simp only [List.all_cons, Bool.and_eq_true]
    exact ⟨hs c h.1, h.2⟩

/-- prefix `p`, an underscore, then `n`: a valid metric name when both parts are -/
theorem prefixed_name_valid {p n : Str} (hp : isValidMetricName p = true) (hn : isValidMetricName n = true) :
    isValidMetricName (p ++ [us] ++ n) = true := by
  cases p with
  | nil => simp [isValidMetricName, isValidIdent] at hp
  | cons c r =>
    have hn' := validIdent_all metricStart (fun b h => by simp [h]) n hn
    simp only [isValidMetricName, isValidIdent, Bool.and_eq_true] at hp ⊢
    simp only [List.cons_append, isValidIdent, Bool.and_eq_true, List.all_append, List.all_cons, List.all_nil,
      Bool.and_true]
    exact ⟨hp.1, ⟨hp.2, by decide⟩, hn'⟩

/-- the label names `make_label_pairs` produces are the descriptor's variable and const label names,
    each once -/
theorem makeLabelPairs_names {d : Desc} {vals : List Str} {ls : List LabelPair}
    (h : makeLabelPairs d vals = .ok ls) :
    (ls.map (·.name)).Perm (d.varLabels ++ d.constPairs.map (·.name)) := by
  unfold makeLabelPairs at h
  split at h
  · cases h
  · next hlen =>
    have hlen' : d.varLabels.length = vals.length := by simpa using hlen
    split at h
    · next h0 =>
      cases h
      have : d.varLabels.length + d.constPairs.length = 0 := by simpa using h0
      have h1 : d.varLabels = [] := List.length_eq_zero_iff.1 (by omega)
      have h2 : d.constPairs = [] := List.length_eq_zero_iff.1 (by omega)
      simp [h1, h2]
    · split at h
      · next he =>
        cases h
        have : d.varLabels = [] := by simpa using he
        simp [this]
      · cases h
        have hp := (stableSortBy_perm lpLe ((d.varLabels.zip vals).map (fun p => (⟨p.1, p.2⟩ : LabelPair)) ++ d.constPairs)).map (·.name)
        refine hp.trans ?_
        simp only [List.map_append, List.map_map]
        have : ((d.varLabels.zip vals).map ((fun x : LabelPair => x.name) ∘ fun p => (⟨p.1, p.2⟩ : LabelPair))) = d.varLabels := by
          have e : ((fun x : LabelPair => x.name) ∘ fun p : Str × Str => (⟨p.1, p.2⟩ : LabelPair)) = Prod.fst := rfl
          rw [e, List.map_fst_zip (by omega)]
        rw [this]

/-- the registry's common label pairs are a permutation of its label map -/
theorem commonPairs_names (m : List (Str × Str)) :
    ((commonPairs (some m)).map (·.name)).Perm (m.map (·.1)) := by
  unfold commonPairs
  have := (stableSortBy_perm lpLe (m.map fun kv => (⟨kv.1, kv.2⟩ : LabelPair))).map (·.name)
  refine this.trans ?_
  simp [List.map_map, Function.comp_def]

/-- a registration that succeeds has checked every descriptor against the common labels -/
theorem regLoop_noclash (r : Reg) : ∀ (ds : List Desc) (ids : List UInt64) (nd : List (Str × UInt64)) (cid : UInt64)
    (res : List UInt64 × List (Str × UInt64) × UInt64), regLoop r ds ids nd cid = .ok res →
    ∀ d ∈ ds, clashesCommon r.labels d = false := by
  intro ds
  induction ds with
  | nil => intro _ _ _ _ _ d hd; cases hd
  | cons a rest ih =>
    intro ids nd cid res h d hd
    unfold regLoop at h
    split at h
    · cases h
    · next hc =>
      have hca : clashesCommon r.labels a = false := by simpa using hc
      split at h
      · cases h
      · have hrest : ∀ d ∈ rest, clashesCommon r.labels d = false := by
          simp only at h
          split at h
          · split at h
            · cases h
            · split at h
              · cases h
              · exact ih _ _ _ _ h
          · split at h
            · cases h
            · exact ih _ _ _ _ h
        rcases List.mem_cons.1 hd with rfl | hd
        · exact hca
        · exact hrest d hd

end Prom.C09
