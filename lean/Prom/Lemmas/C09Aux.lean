import Prom.Lemmas.Desc
/-
C09 — Only well-formed, pairwise distinct names reach an exposed sample.
Strings are UTF-8 byte lists; `ascii_bytes_iff_ascii_chars` ties the byte-level character
classes to Unicode characters (a byte < 0x80 in a UTF-8 string is exactly an ASCII character).
(The gathered-sample part, with registry prefix and common labels, is in `Props/C07.lean`-
side model `gathered_names_valid` below once the registry model is imported.)
-/
/- Helper lemmas and auxiliary definitions for Props/C09.lean (kept apart from the property theorems). -/
namespace Prom.C09
open Prom

/-- `[a-zA-Z_:]` / `[a-zA-Z0-9_:]` as explicit byte ranges -/
def MetricStartByte (b : UInt8) : Prop :=
  (0x41 ≤ b ∧ b ≤ 0x5A) ∨ (0x61 ≤ b ∧ b ≤ 0x7A) ∨ b = 0x5F ∨ b = 0x3A

def MetricRestByte (b : UInt8) : Prop := MetricStartByte b ∨ (0x30 ≤ b ∧ b ≤ 0x39)

def LabelStartByte (b : UInt8) : Prop :=
  (0x41 ≤ b ∧ b ≤ 0x5A) ∨ (0x61 ≤ b ∧ b ≤ 0x7A) ∨ b = 0x5F

def LabelRestByte (b : UInt8) : Prop := LabelStartByte b ∨ (0x30 ≤ b ∧ b ≤ 0x39)

theorem labelStart_iff (b : UInt8) : labelStart b = true ↔ LabelStartByte b := by
  simp [labelStart, isAsciiAlpha, LabelStartByte, Bool.or_eq_true, Bool.and_eq_true, or_assoc]

theorem metricStart_iff (b : UInt8) : metricStart b = true ↔ MetricStartByte b := by
  simp [metricStart, labelStart, isAsciiAlpha, MetricStartByte, Bool.or_eq_true, Bool.and_eq_true, or_assoc]

end Prom.C09
