import Prom.Model.Vec
import Prom.Lemmas.Sort
import Prom.Lemmas.Sep
/- Association-list facts behind the metric-vector model (C05, C10). -/
namespace Prom

def afind (l : List (UInt64 × Nat)) (k : UInt64) : Option Nat := (l.find? (·.1 == k)).map (·.2)

theorem lookupKey_eq (v : MVec) (k : UInt64) : lookupKey v k = afind v.children k := rfl

theorem afind_some {l : List (UInt64 × Nat)} {k : UInt64} {id : Nat} (h : afind l k = some id) :
    (k, id) ∈ l := by
  unfold afind at h
  cases hf : l.find? (·.1 == k) with
  | none => rw [hf] at h; cases h
  | some p =>
    rw [hf] at h
    simp at h
    have hm := List.mem_of_find?_eq_some hf
    have hp := List.find?_some hf
    simp at hp
    obtain ⟨a, b⟩ := p
    simp at h hp
    subst h; subst hp
    exact hm

theorem afind_none {l : List (UInt64 × Nat)} {k : UInt64} : afind l k = none ↔ ∀ p ∈ l, p.1 ≠ k := by
  unfold afind
  simp [List.find?_eq_none]

theorem afind_of_mem {l : List (UInt64 × Nat)} (hn : (l.map (·.1)).Nodup) {k : UInt64} {id : Nat}
    (h : (k, id) ∈ l) : afind l k = some id := by
  induction l with
  | nil => cases h
  | cons p t ih =>
    simp only [List.map_cons, List.nodup_cons] at hn
    unfold afind
    rcases List.mem_cons.1 h with rfl | h
    · simp
    · have hne : p.1 ≠ k := by
        intro e
        apply hn.1
        rw [e]
        exact List.mem_map.2 ⟨(k, id), h, rfl⟩
      have : (p.1 == k) = false := by simpa using hne
      simp only [List.find?_cons, this]
      exact ih hn.2 h

theorem afind_append_new {l : List (UInt64 × Nat)} {k k' : UInt64} {id : Nat} (h : afind l k = none) :
    afind (l ++ [(k, id)]) k' = if k' = k then some id else afind l k' := by
  unfold afind at *
  rw [List.find?_append]
  by_cases e : k' = k
  · subst e
    simp only [if_true]
    simp at h
    have : l.find? (fun x => x.1 == k') = none := by
      rw [List.find?_eq_none]; intro x hx; simpa using h x.1 x.2 hx
    simp [this]
  · simp only [e, if_false]
    cases hf : l.find? (fun x => x.1 == k') with
    | some p => simp
    | none =>
      have : ((k, id).1 == k') = false := by simp; exact fun h => e h.symm
      simp [List.find?_cons, this]

/-- well-formedness of a vector: keys pairwise distinct, ids pairwise distinct, ids in range -/
structure VecInv (v : MVec) : Prop where
  keys : (v.children.map (·.1)).Nodup
  ids : (v.children.map (·.2)).Nodup
  range : ∀ p ∈ v.children, p.2 < v.store.length

theorem getOrCreate_inv {v v' : MVec} {k : UInt64} {vals : List Str} {r : Except VErr Nat}
    (hi : VecInv v) (h : getOrCreate v k vals = (v', r)) : VecInv v' := by
  unfold getOrCreate at h
  cases hl : lookupKey v k with
  | some id => rw [hl] at h; simp at h; rw [← h.1]; exact hi
  | none =>
    rw [hl] at h
    simp only [] at h
    split at h
    · simp at h; rw [← h.1]; exact hi
    · simp at h
      rw [← h.1]
      have hnone := afind_none.1 (by rw [← lookupKey_eq]; exact hl)
      refine ⟨?_, ?_, ?_⟩
      · simp only [List.map_append, List.map_cons, List.map_nil]
        rw [List.nodup_append]
        refine ⟨hi.keys, by simp, ?_⟩
        intro a ha b hb e
        simp at hb; subst hb
        obtain ⟨p, hp, hpa⟩ := List.mem_map.1 ha
        exact hnone p hp (hpa.trans e)
      · simp only [List.map_append, List.map_cons, List.map_nil]
        rw [List.nodup_append]
        refine ⟨hi.ids, by simp, ?_⟩
        intro a ha b hb e
        simp at hb; subst hb
        obtain ⟨p, hp, hpa⟩ := List.mem_map.1 ha
        have := hi.range p hp
        omega
      · intro p hp
        simp only [List.length_append, List.length_cons, List.length_nil]
        rcases List.mem_append.1 hp with hp | hp
        · have := hi.range p hp; omega
        · simp at hp; subst hp; simp

end Prom
