import Prom.Model.Desc
import Prom.Lemmas.Sort
import Prom.Lemmas.Sep
/- Helper lemmas about `Desc.new` (C09, C15). -/
namespace Prom

theorem mem_insertBy {α : Type} (le : α → α → Bool) (a x : α) (l : List α) :
    x ∈ insertBy le a l ↔ x = a ∨ x ∈ l := by
  rw [(insertBy_perm le a l).mem_iff]; simp

theorem contains_iff_mem (l : List Str) (x : Str) : l.contains x = true ↔ x ∈ l := by
  simp

theorem setInsert_eq_none (s : List Str) (x : Str) : setInsert s x = none ↔ x ∈ s := by
  unfold setInsert; split <;> simp_all

theorem setInsert_eq_some (s r : List Str) (x : Str) :
    setInsert s x = some r ↔ x ∉ s ∧ r = insertBy strLe x s := by
  unfold setInsert; split <;> simp_all [eq_comm]

/-- what the first loop of `Desc::new` computes: membership of the resulting set -/
theorem constNames_mem : ∀ (cl : List (Str × Str)) (acc r : List Str), constNames cl acc = some r →
    ∀ x, x ∈ r ↔ x ∈ acc ∨ x ∈ cl.map (·.1) := by
  intro cl
  induction cl with
  | nil => intro acc r h x; simp [constNames] at h; subst h; simp
  | cons p t ih =>
    intro acc r h x
    obtain ⟨k, v⟩ := p
    unfold constNames at h
    split at h
    · cases h
    · cases hs : setInsert acc k with
      | none => rw [hs] at h; cases h
      | some acc' =>
        rw [hs] at h
        simp only [] at h
        obtain ⟨_, rfl⟩ := (setInsert_eq_some _ _ _).1 hs
        rw [ih _ _ h x, mem_insertBy]
        simp only [List.map_cons, List.mem_cons]
        constructor
        · rintro ((h1 | h1) | h1)
          · exact Or.inr (Or.inl h1)
          · exact Or.inl h1
          · exact Or.inr (Or.inr h1)
        · rintro (h1 | h1 | h1)
          · exact Or.inl (Or.inr h1)
          · exact Or.inl (Or.inl h1)
          · exact Or.inr h1

/-- the first loop succeeds exactly when every const label name is valid and none repeats -/
theorem constNames_isSome_iff : ∀ (cl : List (Str × Str)) (acc : List Str),
    (constNames cl acc).isSome = true ↔
      (∀ p ∈ cl, isValidLabelName p.1 = true) ∧ (cl.map (·.1)).Nodup ∧ ∀ p ∈ cl, p.1 ∉ acc := by
  intro cl
  induction cl with
  | nil => intro acc; simp [constNames]
  | cons p t ih =>
    intro acc
    obtain ⟨k, v⟩ := p
    unfold constNames
    by_cases hv : isValidLabelName k = true
    · simp only [hv, Bool.not_true, Bool.false_eq_true, if_false]
      cases hs : setInsert acc k with
      | none =>
        have := (setInsert_eq_none _ _).1 hs
        simp only [Option.isSome_none, Bool.false_eq_true, false_iff]
        intro ⟨_, _, h3⟩
        exact h3 (k, v) (by simp) this
      | some acc' =>
        obtain ⟨hk, rfl⟩ := (setInsert_eq_some _ _ _).1 hs
        simp only []
        rw [ih]
        simp only [List.mem_cons, List.map_cons, List.nodup_cons, forall_eq_or_imp, hv, true_and, hk,
          not_false_eq_true, mem_insertBy, not_or]
        constructor
        · rintro ⟨h1, h2, h3⟩
          refine ⟨h1, ⟨?_, h2⟩, fun p hp => (h3 p hp).2⟩
          intro hmem
          rw [List.mem_map] at hmem
          obtain ⟨q, hq, hqk⟩ := hmem
          exact (h3 q hq).1 hqk
        · rintro ⟨h1, ⟨h2, h3⟩, h4⟩
          refine ⟨h1, h3, fun p hp => ⟨?_, h4 p hp⟩⟩
          intro e
          exact h2 (List.mem_map.2 ⟨p, hp, e⟩)
    · have hv' : isValidLabelName k = false := by simpa using hv
      simp only [hv', Bool.not_false, if_true, Option.isSome_none, Bool.false_eq_true, false_iff]
      intro ⟨h1, _⟩
      exact hv (h1 (k, v) (by simp))

theorem varNames_mem : ∀ (vl : List Str) (acc r : List Str), varNames vl acc = some r →
    ∀ x, x ∈ r ↔ x ∈ acc ∨ x ∈ vl.map (dollar :: ·) := by
  intro vl
  induction vl with
  | nil => intro acc r h x; simp [varNames] at h; subst h; simp
  | cons n t ih =>
    intro acc r h x
    unfold varNames at h
    split at h
    · cases h
    · split at h
      · cases h
      · cases hs : setInsert acc (dollar :: n) with
        | none => rw [hs] at h; cases h
        | some acc' =>
          rw [hs] at h
          simp only [] at h
          obtain ⟨_, rfl⟩ := (setInsert_eq_some _ _ _).1 hs
          rw [ih _ _ h x, mem_insertBy]
          simp only [List.map_cons, List.mem_cons]
          constructor
          · rintro ((h1 | h1) | h1)
            · exact Or.inr (Or.inl h1)
            · exact Or.inl h1
            · exact Or.inr (Or.inr h1)
          · rintro (h1 | h1 | h1)
            · exact Or.inl (Or.inr h1)
            · exact Or.inl (Or.inl h1)
            · exact Or.inr h1

/-- the variable-label loop succeeds exactly when every name is valid, none repeats, none is
    already in the set unprefixed (a const label) or `$`-prefixed -/
theorem varNames_isSome_iff : ∀ (vl : List Str) (acc : List Str),
    (varNames vl acc).isSome = true ↔
      (∀ n ∈ vl, isValidLabelName n = true) ∧ vl.Nodup ∧ ∀ n ∈ vl, n ∉ acc ∧ (dollar :: n) ∉ acc := by
  intro vl
  induction vl with
  | nil => intro acc; simp [varNames]
  | cons n t ih =>
    intro acc
    unfold varNames
    by_cases hv : isValidLabelName n = true
    · simp only [hv, Bool.not_true, Bool.false_eq_true, if_false]
      by_cases hc : acc.contains n = true
      · simp only [hc, if_true, Option.isSome_none, Bool.false_eq_true, false_iff]
        intro ⟨_, _, h3⟩
        exact (h3 n (by simp)).1 ((contains_iff_mem _ _).1 hc)
      · simp only [hc, Bool.false_eq_true, if_false]
        have hc' : n ∉ acc := fun h => hc ((contains_iff_mem _ _).2 h)
        cases hs : setInsert acc (dollar :: n) with
        | none =>
          have := (setInsert_eq_none _ _).1 hs
          simp only [Option.isSome_none, Bool.false_eq_true, false_iff]
          intro ⟨_, _, h3⟩
          exact (h3 n (by simp)).2 this
        | some acc' =>
          obtain ⟨hk, rfl⟩ := (setInsert_eq_some _ _ _).1 hs
          simp only []
          rw [ih]
          simp only [List.mem_cons, List.nodup_cons, forall_eq_or_imp, hv, true_and, hk, hc',
            not_false_eq_true, mem_insertBy, not_or, and_self]
          constructor
          · rintro ⟨h1, h2, h3⟩
            refine ⟨h1, ⟨?_, h2⟩, fun m hm => ⟨(h3 m hm).1.2, (h3 m hm).2.2⟩⟩
            intro hmem
            have := (h3 n hmem).2.1
            exact this rfl
          · rintro ⟨h1, ⟨h2, h3⟩, h4⟩
            refine ⟨h1, h3, fun m hm => ⟨⟨?_, (h4 m hm).1⟩, ⟨?_, (h4 m hm).2⟩⟩⟩
            · intro e
              -- m = dollar :: n is impossible: m is a valid label name
              have hvm := h1 m hm
              subst e
              simp [isValidLabelName, isValidIdent, labelStart, isAsciiAlpha, dollar] at hvm
            · intro e
              injection e with _ e2
              subst e2
              exact h2 hm
    · have hv' : isValidLabelName n = false := by simpa using hv
      simp only [hv', Bool.not_false, if_true, Option.isSome_none, Bool.false_eq_true, false_iff]
      intro ⟨h1, _⟩
      exact hv (h1 n (by simp))

/-- a valid label name does not start with `$` -/
theorem valid_not_dollar {n : Str} (h : isValidLabelName n = true) : ∀ m, n ≠ dollar :: m := by
  intro m e
  subst e
  simp [isValidLabelName, isValidIdent, labelStart, isAsciiAlpha, dollar] at h

end Prom

namespace Prom

/-! ### order independence of `Desc::new` (C15 `order_free`) -/

theorem strLe_trans' : ∀ a b c : Str, strLe a b = true → strLe b c = true → strLe a c = true := strLe_trans
theorem strLe_total' : ∀ a b : Str, strLe a b = true ∨ strLe b a = true := strLe_total

/-- the first loop inserts the keys one by one into the sorted set -/
theorem constNames_sorted_perm : ∀ (cl : List (Str × Str)) (acc r : List Str), constNames cl acc = some r →
    acc.Pairwise (fun x y => strLe x y = true) →
    r.Pairwise (fun x y => strLe x y = true) ∧ r.Perm (acc ++ cl.map (·.1)) := by
  intro cl
  induction cl with
  | nil => intro acc r h hs; simp [constNames] at h; subst h; exact ⟨hs, by simp⟩
  | cons p t ih =>
    intro acc r h hs
    obtain ⟨k, v⟩ := p
    unfold constNames at h
    split at h
    · cases h
    · cases hs' : setInsert acc k with
      | none => rw [hs'] at h; cases h
      | some acc' =>
        rw [hs'] at h
        simp only [] at h
        obtain ⟨_, rfl⟩ := (setInsert_eq_some _ _ _).1 hs'
        obtain ⟨h1, h2⟩ := ih _ _ h (insertBy_pairwise strLe_trans' strLe_total' k hs)
        refine ⟨h1, h2.trans ?_⟩
        simp only [List.map_cons]
        exact (List.Perm.append_right _ (insertBy_perm strLe k acc)).trans (by simpa using (List.perm_middle (a := k) (l₁ := acc) (l₂ := List.map (·.1) t)).symm)

theorem sorted_perm_eq {l₁ l₂ : List Str} (h1 : l₁.Pairwise (fun x y => strLe x y = true))
    (h2 : l₂.Pairwise (fun x y => strLe x y = true)) (hp : l₁.Perm l₂) : l₁ = l₂ :=
  List.Perm.eq_of_pairwise (le := fun x y => strLe x y = true)
    (fun a b _ _ hab hba => strLe_antisymm a b hab hba) h1 h2 hp

/-- the sorted name set does not depend on the iteration order of the const-label map -/
theorem constNames_perm_invariant (cl cl' : List (Str × Str)) (hp : cl.Perm cl') :
    constNames cl [] = constNames cl' [] := by
  have hiff := constNames_isSome_iff cl []
  have hiff' := constNames_isSome_iff cl' []
  have hcond : ((∀ p ∈ cl, isValidLabelName p.1 = true) ∧ (cl.map (·.1)).Nodup ∧ ∀ p ∈ cl, p.1 ∉ ([] : List Str)) ↔
      ((∀ p ∈ cl', isValidLabelName p.1 = true) ∧ (cl'.map (·.1)).Nodup ∧ ∀ p ∈ cl', p.1 ∉ ([] : List Str)) := by
    have hm : ∀ p, p ∈ cl ↔ p ∈ cl' := fun p => hp.mem_iff
    have hn : (cl.map (·.1)).Nodup ↔ (cl'.map (·.1)).Nodup := (hp.map _).nodup_iff
    constructor
    · rintro ⟨a, b, _⟩; exact ⟨fun p h => a p ((hm p).2 h), hn.1 b, by simp⟩
    · rintro ⟨a, b, _⟩; exact ⟨fun p h => a p ((hm p).1 h), hn.2 b, by simp⟩
  cases h1 : constNames cl [] with
  | none =>
    cases h2 : constNames cl' [] with
    | none => rfl
    | some r' =>
      exfalso
      have : (constNames cl []).isSome = true := hiff.2 (hcond.2 (hiff'.1 (by rw [h2]; rfl)))
      rw [h1] at this; cases this
  | some r =>
    cases h2 : constNames cl' [] with
    | none =>
      exfalso
      have : (constNames cl' []).isSome = true := hiff'.2 (hcond.1 (hiff.1 (by rw [h1]; rfl)))
      rw [h2] at this; cases this
    | some r' =>
      obtain ⟨s1, p1⟩ := constNames_sorted_perm cl [] r h1 List.Pairwise.nil
      obtain ⟨s2, p2⟩ := constNames_sorted_perm cl' [] r' h2 List.Pairwise.nil
      have : r.Perm r' := by
        simp only [List.nil_append] at p1 p2
        exact p1.trans ((hp.map _).trans p2.symm)
      rw [sorted_perm_eq s1 s2 this]

/-- looking a key up does not depend on the order of the map when keys are unique -/
theorem lookup_perm_invariant {cl cl' : List (Str × Str)} (hp : cl.Perm cl') (hn : (cl.map (·.1)).Nodup) (k : Str) :
    lookup cl k = lookup cl' k := by
  have key : ∀ (l : List (Str × Str)), (l.map (·.1)).Nodup → ∀ v, (k, v) ∈ l → lookup l k = v := by
    intro l
    induction l with
    | nil => intro _ v h; cases h
    | cons q t ih =>
      intro hnd v hm
      simp only [List.map_cons, List.nodup_cons] at hnd
      unfold lookup
      rcases List.mem_cons.1 hm with rfl | hm
      · simp
      · have hne : q.1 ≠ k := by
          intro e; apply hnd.1; rw [e]; exact List.mem_map.2 ⟨(k, v), hm, rfl⟩
        have : (q.1 == k) = false := by simpa using hne
        simp only [List.find?_cons, this]
        exact ih hnd.2 v hm
  by_cases hk : ∃ v, (k, v) ∈ cl
  · obtain ⟨v, hv⟩ := hk
    rw [key cl hn v hv, key cl' ((hp.map _).nodup_iff.1 hn) v (hp.mem_iff.1 hv)]
  · have none1 : ∀ (l : List (Str × Str)), (¬ ∃ v, (k, v) ∈ l) → lookup l k = [] := by
      intro l hl
      unfold lookup
      have : l.find? (·.1 == k) = none := by
        rw [List.find?_eq_none]
        intro x hx hxk
        apply hl
        have : x.1 = k := by simpa using hxk
        exact ⟨x.2, by rw [← this]; exact hx⟩
      rw [this]
    rw [none1 cl hk, none1 cl' (fun ⟨v, hv⟩ => hk ⟨v, hp.mem_iff.2 hv⟩)]

end Prom

namespace Prom

theorem varNames_sorted_perm : ∀ (vl : List Str) (acc r : List Str), varNames vl acc = some r →
    acc.Pairwise (fun x y => strLe x y = true) →
    r.Pairwise (fun x y => strLe x y = true) ∧ r.Perm (acc ++ vl.map (dollar :: ·)) := by
  intro vl
  induction vl with
  | nil => intro acc r h hs; simp [varNames] at h; subst h; exact ⟨hs, by simp⟩
  | cons n t ih =>
    intro acc r h hs
    unfold varNames at h
    split at h
    · cases h
    · split at h
      · cases h
      · cases hs' : setInsert acc (dollar :: n) with
        | none => rw [hs'] at h; cases h
        | some acc' =>
          rw [hs'] at h
          simp only [] at h
          obtain ⟨_, rfl⟩ := (setInsert_eq_some _ _ _).1 hs'
          obtain ⟨h1, h2⟩ := ih _ _ h (insertBy_pairwise strLe_trans' strLe_total' _ hs)
          refine ⟨h1, h2.trans ?_⟩
          simp only [List.map_cons]
          exact (List.Perm.append_right _ (insertBy_perm strLe (dollar :: n) acc)).trans
            (by simpa using (List.perm_middle (a := dollar :: n) (l₁ := acc) (l₂ := List.map (dollar :: ·) t)).symm)

/-- the name set (and success) of the variable-label loop does not depend on the order of the
    variable labels -/
theorem varNames_perm_invariant (vl vl' : List Str) (acc : List Str) (hp : vl.Perm vl')
    (hs : acc.Pairwise (fun x y => strLe x y = true)) : varNames vl acc = varNames vl' acc := by
  have hiff := varNames_isSome_iff vl acc
  have hiff' := varNames_isSome_iff vl' acc
  have hcond : ((∀ n ∈ vl, isValidLabelName n = true) ∧ vl.Nodup ∧ ∀ n ∈ vl, n ∉ acc ∧ (dollar :: n) ∉ acc) ↔
      ((∀ n ∈ vl', isValidLabelName n = true) ∧ vl'.Nodup ∧ ∀ n ∈ vl', n ∉ acc ∧ (dollar :: n) ∉ acc) := by
    have hm : ∀ n, n ∈ vl ↔ n ∈ vl' := fun n => hp.mem_iff
    constructor
    · rintro ⟨a, b, c⟩; exact ⟨fun n h => a n ((hm n).2 h), hp.nodup_iff.1 b, fun n h => c n ((hm n).2 h)⟩
    · rintro ⟨a, b, c⟩; exact ⟨fun n h => a n ((hm n).1 h), hp.nodup_iff.2 b, fun n h => c n ((hm n).1 h)⟩
  cases h1 : varNames vl acc with
  | none =>
    cases h2 : varNames vl' acc with
    | none => rfl
    | some r' =>
      exfalso
      have : (varNames vl acc).isSome = true := hiff.2 (hcond.2 (hiff'.1 (by rw [h2]; rfl)))
      rw [h1] at this; cases this
  | some r =>
    cases h2 : varNames vl' acc with
    | none =>
      exfalso
      have : (varNames vl' acc).isSome = true := hiff'.2 (hcond.1 (hiff.1 (by rw [h1]; rfl)))
      rw [h2] at this; cases this
    | some r' =>
      obtain ⟨s1, p1⟩ := varNames_sorted_perm vl acc r h1 hs
      obtain ⟨s2, p2⟩ := varNames_sorted_perm vl' acc r' h2 hs
      have : r.Perm r' := p1.trans ((List.Perm.append_left acc (hp.map _)).trans p2.symm)
      rw [sorted_perm_eq s1 s2 this]

end Prom
