import Prom.Model.Desc
import Prom.Lemmas.Sort
import Prom.Lemmas.Sep
/- Helper lemmas about `Desc.new` (C09, C15). -/
namespace Prom

theorem mem_insertBy {α : Type} (le : α → α → Bool) (a x : α) (l : List α) :
    x ∈ insertBy le a l ↔ x = a ∨ x ∈ l := by
  rw [(insertBy_perm le a l).mem_iff]; simp

theorem contains_iff_mem (l : List Str) (x : Str) : l.contains x = true ↔ x ∈ l := by
  simp

theorem setInsert_eq_none (s : List Str) (x : Str) : setInsert s x = none ↔ x ∈ s := by
  unfold setInsert; split <;> simp_all

theorem setInsert_eq_some (s r : List Str) (x : Str) :
    setInsert s x = some r ↔ x ∉ s ∧ r = insertBy strLe x s := by
  unfold setInsert; split <;> simp_all [eq_comm]

/-- what the first loop of `Desc::new` computes: membership of the resulting set -/
theorem constNames_mem : ∀ (cl : List (Str × Str)) (acc r : List Str), constNames cl acc = some r →
    ∀ x, x ∈ r ↔ x ∈ acc ∨ x ∈ cl.map (·.1) := by
  intro cl
  induction cl with
  | nil => intro acc r h x; simp [constNames] at h; subst h; simp
  | cons p t ih =>
    intro acc r h x
    obtain ⟨k, v⟩ := p
    unfold constNames at h
    split at h
    · cases h
    · cases hs : setInsert acc k with
      | none => rw [hs] at h; cases h
      | some acc' =>
        rw [hs] at h
        simp only [] at h
        obtain ⟨_, rfl⟩ := (setInsert_eq_some _ _ _).1 hs
        rw [ih _ _ h x, mem_insertBy]
        simp only [List.map_cons, List.mem_cons]
        constructor
        · rintro ((h1 | h1) | h1)
          · exact Or.inr (Or.inl h1)
          · exact Or.inl h1
          · exact Or.inr (Or.inr h1)
        · rintro (h1 | h1 | h1)
          · exact Or.inl (Or.inr h1)
          · exact Or.inl (Or.inl h1)
          · exact Or.inr h1

/-- the first loop succeeds exactly when every const label name is valid and none repeats -/
theorem constNames_isSome_iff : ∀ (cl : List (Str × Str)) (acc : List Str),
    (constNames cl acc).isSome = true ↔
      (∀ p ∈ cl, isValidLabelName p.1 = true) ∧ (cl.map (·.1)).Nodup ∧ ∀ p ∈ cl, p.1 ∉ acc := by
  intro cl
  induction cl with
  | nil => intro acc; simp [constNames]
  | cons p t ih =>
    intro acc
    obtain ⟨k, v⟩ := p
    unfold constNames
    by_cases hv : isValidLabelName k = true
    · simp only [hv, Bool.not_true, Bool.false_eq_true, if_false]
      cases hs : setInsert acc k with
      | none =>
        have := (setInsert_eq_none _ _).1 hs
        simp only [Option.isSome_none, Bool.false_eq_true, false_iff]
        intro ⟨_, _, h3⟩
        exact h3 (k, v) (by simp) this
      | some acc' =>
        obtain ⟨hk, rfl⟩ := (setInsert_eq_some _ _ _).1 hs
        simp only []
        rw [ih]
        simp only [List.mem_cons, List.map_cons, List.nodup_cons, forall_eq_or_imp, hv, true_and, hk,
          not_false_eq_true, mem_insertBy, not_or]
        constructor
        · rintro ⟨h1, h2, h3⟩
          refine ⟨h1, ⟨?_, h2⟩, fun p hp => (h3 p hp).2⟩
          intro hmem
          rw [List.mem_map] at hmem
          obtain ⟨q, hq, hqk⟩ := hmem
          exact (h3 q hq).1 hqk
        · rintro ⟨h1, ⟨h2, h3⟩, h4⟩
          refine ⟨h1, h3, fun p hp => ⟨?_, h4 p hp⟩⟩
          intro e
          exact h2 (List.mem_map.2 ⟨p, hp, e⟩)
    · have hv' : isValidLabelName k = false := by simpa using hv
      simp only [hv', Bool.not_false, if_true, Option.isSome_none, Bool.false_eq_true, false_iff]
      intro ⟨h1, _⟩
      exact hv (h1 (k, v) (by simp))

theorem varNames_mem : ∀ (vl : List Str) (acc r : List Str), varNames vl acc = some r →
    ∀ x, x ∈ r ↔ x ∈ acc ∨ x ∈ vl.map (dollar :: ·) := by
  intro vl
  induction vl with
  | nil => intro acc r h x; simp [varNames] at h; subst h; simp
  | cons n t ih =>
    intro acc r h x
    unfold varNames at h
    split at h
    · cases h
    · split at h
      · cases h
      · cases hs : setInsert acc (dollar :: n) with
        | none => rw [hs] at h; cases h
        | some acc' =>
          rw [hs] at h
          simp only [] at h
          obtain ⟨_, rfl⟩ := (setInsert_eq_some _ _ _).1 hs
          rw [ih _ _ h x, mem_insertBy]
          simp only [List.map_cons, List.mem_cons]
          constructor
          · rintro ((h1 | h1) | h1)
            · exact Or.inr (Or.inl h1)
            · exact Or.inl h1
            · exact Or.inr (Or.inr h1)
          · rintro (h1 | h1 | h1)
            · exact Or.inl (Or.inr h1)
            · exact Or.inl (Or.inl h1)
            · exact Or.inr h1

/-- the variable-label loop succeeds exactly when every name is valid, none repeats, none is
    already in the set unprefixed (a const label) or `$`-prefixed -/
theorem varNames_isSome_iff : ∀ (vl : List Str) (acc : List Str),
    (varNames vl acc).isSome = true ↔
      (∀ n ∈ vl, isValidLabelName n = true) ∧ vl.Nodup ∧ ∀ n ∈ vl, n ∉ acc ∧ (dollar :: n) ∉ acc := by
  intro vl
  induction vl with
  | nil => intro acc; simp [varNames]
  | cons n t ih =>
    intro acc
    unfold varNames
    by_cases hv : isValidLabelName n = true
    · simp only [hv, Bool.not_true, Bool.false_eq_true, if_false]
      by_cases hc : acc.contains n = true
      · simp only [hc, if_true, Option.isSome_none, Bool.false_eq_true, false_iff]
        intro ⟨_, _, h3⟩
        exact (h3 n (by simp)).1 ((contains_iff_mem _ _).1 hc)
      · simp only [hc, Bool.false_eq_true, if_false]
        have hc' : n ∉ acc := fun h => hc ((contains_iff_mem _ _).2 h)
        cases hs : setInsert acc (dollar :: n) with
        | none =>
          have := (setInsert_eq_none _ _).1 hs
          simp only [Option.isSome_none, Bool.false_eq_true, false_iff]
          intro ⟨_, _, h3⟩
          exact (h3 n (by simp)).2 this
        | some acc' =>
          obtain ⟨hk, rfl⟩ := (setInsert_eq_some _ _ _).1 hs
          simp only []
          rw [ih]
          simp only [List.mem_cons, List.nodup_cons, forall_eq_or_imp, hv, true_and, hk, hc',
            not_false_eq_true, mem_insertBy, not_or, and_self]
          constructor
          · rintro ⟨h1, h2, h3⟩
            refine ⟨h1, ⟨?_, h2⟩, fun m hm => ⟨(h3 m hm).1.2, (h3 m hm).2.2⟩⟩
            intro hmem
            have := (h3 n hmem).2.1
            exact this rfl
          · rintro ⟨h1, ⟨h2, h3⟩, h4⟩
            refine ⟨h1, h3, fun m hm => ⟨⟨?_, (h4 m hm).1⟩, ⟨?_, (h4 m hm).2⟩⟩⟩
            · intro e
              -- m = dollar :: n is impossible: m is a valid label name
              have hvm := h1 m hm
              subst e
              simp [isValidLabelName, isValidIdent, labelStart, isAsciiAlpha, dollar] at hvm
            · intro e
              injection e with _ e2
              subst e2
              exact h2 hm
    · have hv' : isValidLabelName n = false := by simpa using hv
      simp only [hv', Bool.not_false, if_true, Option.isSome_none, Bool.false_eq_true, false_iff]
      intro ⟨h1, _⟩
      exact hv (h1 n (by simp))

/-- a valid label name does not start with `$` -/
theorem valid_not_dollar {n : Str} (h : isValidLabelName n = true) : ∀ m, n ≠ dollar :: m := by
  intro m e
  subst e
  simp [isValidLabelName, isValidIdent, labelStart, isAsciiAlpha, dollar] at h

end Prom
