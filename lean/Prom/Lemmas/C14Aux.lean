import Prom.Props.C07
import Prom.Lemmas.GatheredNames
/-
C14 — A gathered family never mixes metric types.

The full statement is FALSE of the code (known finding K2): neither the descriptor id nor the
dimension hash mentions the metric type, so a counter m{k="1"} and a gauge m{k="2"} with the same
help are both admitted, end up in one family, and the family's declared type is the type of
whichever collector the hash map yields first. `C14_full_false` proves this on the model with the
concrete witness (replayed on the real code by the `reg` corpus); `homogeneous_partial` is the
property under the hypothesis that collectors sharing a name have the same kind.
-/
/- Helper lemmas and auxiliary definitions for Props/C14.lean (kept apart from the property theorems). -/
namespace Prom.C14
open Prom

/-- collectors that share a name have the same kind, and every collected sample carries a value of
    its family's type (true for every library collector) -/
def Homogeneous (collected : List Family) : Prop :=
  (∀ f ∈ collected, ∀ s ∈ f.samples, s.val.kind = f.ty) ∧
  (∀ f ∈ collected, ∀ g ∈ collected, f.samples ≠ [] → g.samples ≠ [] → f.name = g.name → f.ty = g.ty)

/-- invariant of the merge phase -/
def MInv (all acc : List Family) : Prop :=
  ∀ g ∈ acc, (∀ s ∈ g.samples, s.val.kind = g.ty) ∧
    ∀ f ∈ all, f.samples ≠ [] → f.name = g.name → f.ty = g.ty

theorem merged_inv_aux (all : List Family) (hh : Homogeneous all) : ∀ (rest acc : List Family),
    (∀ f ∈ rest, f ∈ all) → MInv all acc →
    MInv all (rest.foldl (fun acc f => if f.samples.isEmpty then acc else famInsert f acc) acc) := by
  intro rest
  induction rest with
  | nil => intro acc _ h; simpa using h
  | cons f r ih =>
    intro acc hsub hinv
    simp only [List.foldl_cons]
    have hf : f ∈ all := hsub f (by simp)
    have hr : ∀ x ∈ r, x ∈ all := fun x hx => hsub x (by simp [hx])
    split
    · exact ih acc hr hinv
    · rename_i hne
      have hne' : f.samples ≠ [] := by simpa using hne
      apply ih _ hr
      intro g hg
      rcases famInsert_mem f acc g hg with rfl | hg | ⟨g0, hg0, hn, rfl⟩
      · exact ⟨hh.1 g hf, fun f' hf' hne2 hn2 => hh.2 f' hf' g hf hne2 hne' hn2⟩
      · exact hinv g hg
      · obtain ⟨h1, h2⟩ := hinv g0 hg0
        refine ⟨?_, h2⟩
        intro s hs
        simp only [List.mem_append] at hs
        rcases hs with hs | hs
        · exact h1 s hs
        · have : f.ty = g0.ty := h2 f hf hne' hn.symm
          simp only []
          rw [← this]
          exact hh.1 f hf s hs

/-! ### families without samples do not take part in the merge -/

/-- a fold that skips the elements satisfying `p` is the fold over the others -/
theorem foldl_skip_filter {α β : Type} (p : α → Bool) (g : α → β → β) : ∀ (l : List α) (acc : β),
    l.foldl (fun acc a => if p a then acc else g a acc) acc =
      (l.filter fun a => !p a).foldl (fun acc a => if p a then acc else g a acc) acc := by
  intro l
  induction l with
  | nil => intro acc; rfl
  | cons a t ih =>
    intro acc
    by_cases hp : p a = true
    · simp only [List.foldl_cons, hp, if_true, List.filter_cons, Bool.not_true, Bool.false_eq_true, if_false]
      exact ih acc
    · have hp' : p a = false := by simpa using hp
      simp only [List.foldl_cons, hp', Bool.false_eq_true, if_false, List.filter_cons, Bool.not_false, if_true]
      exact ih _

/-- the merge phase does not see the families without samples -/
theorem merged_filter_nonempty (collected : List Family) :
    C07.merged collected = C07.merged (collected.filter fun f => !f.samples.isEmpty) :=
  foldl_skip_filter (fun f : Family => f.samples.isEmpty) famInsert collected []

/-- per name one type among the collected families THAT HAVE A SAMPLE: `ty n` is the type under the
    name `n` (families without samples may have any type) -/
def NonemptyTyped (ty : Str → MType) (collected : List Family) : Prop :=
  ∀ c ∈ collected, c.samples ≠ [] → c.ty = ty c.name

/-- the pairwise formulation: two collected families with samples and the same name have the same type -/
def NonemptySameType (collected : List Family) : Prop :=
  ∀ f ∈ collected, ∀ g ∈ collected, f.samples ≠ [] → g.samples ≠ [] → f.name = g.name → f.ty = g.ty

/-- the two formulations agree -/
theorem nonemptySameType_iff (collected : List Family) :
    NonemptySameType collected ↔ ∃ ty, NonemptyTyped ty collected := by
  constructor
  · intro h
    refine ⟨fun n => match collected.find? (fun c => !c.samples.isEmpty && c.name == n) with
      | some c => c.ty | none => .counter, ?_⟩
    intro c hc hne
    cases hf : collected.find? (fun x => !x.samples.isEmpty && x.name == c.name) with
    | none =>
      have := List.find?_eq_none.1 hf c hc
      simp [hne] at this
    | some c' =>
      have hc' := List.mem_of_find?_eq_some hf
      have hp := List.find?_some hf
      simp only [Bool.and_eq_true, Bool.not_eq_eq_eq_not, Bool.not_true, List.isEmpty_eq_false_iff, ne_eq,
        beq_iff_eq] at hp
      simp only [hf]
      exact h c hc c' hc' hne hp.1 hp.2.symm
  · rintro ⟨ty, h⟩ f hf g hg hnf hng hn
    rw [h f hf hnf, h g hg hng, hn]

theorem NonemptyTyped.perm {ty : Str → MType} {c c' : List Family} (hp : c.Perm c') (h : NonemptyTyped ty c) :
    NonemptyTyped ty c' := fun x hx => h x (hp.mem_iff.2 hx)

/-- under `NonemptyTyped ty`, a merged family has the type of its name -/
theorem merged_ty {ty : Str → MType} {collected : List Family} (hh : NonemptyTyped ty collected) :
    ∀ g ∈ C07.merged collected, g.ty = ty g.name := by
  intro g hg
  obtain ⟨c0, hc0, hne, hn, _, hty⟩ := C07.merged_attrs collected g hg
  rw [← hty, hh c0 hc0 hne, hn]

end Prom.C14
