import Prom.Props.C07
/-
C14 — A gathered family never mixes metric types.

The full statement is FALSE of the code (known finding K2): neither the descriptor id nor the
dimension hash mentions the metric type, so a counter m{k="1"} and a gauge m{k="2"} with the same
help are both admitted, end up in one family, and the family's declared type is the type of
whichever collector the hash map yields first. `C14_full_false` proves this on the model with the
concrete witness (replayed on the real code by the `reg` corpus); `homogeneous_partial` is the
property under the hypothesis that collectors sharing a name have the same kind.
-/
/- Helper lemmas and auxiliary definitions for Props/C14.lean (kept apart from the property theorems). -/
namespace Prom.C14
open Prom

/-- collectors that share a name have the same kind, and every collected sample carries a value of
    its family's type (true for every library collector) -/
def Homogeneous (collected : List Family) : Prop :=
  (∀ f ∈ collected, ∀ s ∈ f.samples, s.val.kind = f.ty) ∧
  (∀ f ∈ collected, ∀ g ∈ collected, f.samples ≠ [] → g.samples ≠ [] → f.name = g.name → f.ty = g.ty)

/-- invariant of the merge phase -/
def MInv (all acc : List Family) : Prop :=
  ∀ g ∈ acc, (∀ s ∈ g.samples, s.val.kind = g.ty) ∧
    ∀ f ∈ all, f.samples ≠ [] → f.name = g.name → f.ty = g.ty

theorem merged_inv_aux (all : List Family) (hh : Homogeneous all) : ∀ (rest acc : List Family),
    (∀ f ∈ rest, f ∈ all) → MInv all acc →
    MInv all (rest.foldl (fun acc f => if f.samples.isEmpty then acc else famInsert f acc) acc) := by
  intro rest
  induction rest with
  | nil => intro acc _ h; simpa using h
  | cons f r ih =>
    intro acc hsub hinv
    simp only [List.foldl_cons]
    have hf : f ∈ all := hsub f (by simp)
    have hr : ∀ x ∈ r, x ∈ all := fun x hx => hsub x (by simp [hx])
    split
    · exact ih acc hr hinv
    · rename_i hne
      have hne' : f.samples ≠ [] := by simpa using hne
      apply ih _ hr
      intro g hg
      rcases famInsert_mem f acc g hg with rfl | hg | ⟨g0, hg0, hn, rfl⟩
      · exact ⟨hh.1 g hf, fun f' hf' hne2 hn2 => hh.2 f' hf' g hf hne2 hne' hn2⟩
      · exact hinv g hg
      · obtain ⟨h1, h2⟩ := hinv g0 hg0
        refine ⟨?_, h2⟩
        intro s hs
        simp only [List.mem_append] at hs
        rcases hs with hs | hs
        · exact h1 s hs
        · have : f.ty = g0.ty := h2 f hf hne' hn.symm
          simp only []
          rw [← this]
          exact hh.1 f hf s hs

end Prom.C14
