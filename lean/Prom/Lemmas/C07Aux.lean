import Prom.Lemmas.Gather
/-
C07 — gather() is complete, canonically ordered and deterministic.
`collected` is the concatenation of what the registered collectors return, in the (arbitrary)
iteration order of the collector hash map.
-/
/- Helper lemmas and auxiliary definitions for Props/C07.lean (kept apart from the property theorems). -/
namespace Prom.C07
open Prom

/-- the merge phase of `gather` (before sorting / prefixing) -/
def merged (collected : List Family) : List Family :=
  collected.foldl (fun acc f => if f.samples.isEmpty then acc else famInsert f acc) []

theorem merged_sorted_aux (collected : List Family) : ∀ acc : List Family,
    (acc.map (·.name)).Pairwise (· < ·) →
    ((collected.foldl (fun acc f => if f.samples.isEmpty then acc else famInsert f acc) acc).map (·.name)).Pairwise (· < ·) := by
  induction collected with
  | nil => intro acc h; simpa
  | cons f r ih =>
    intro acc h
    simp only [List.foldl_cons]
    split
    · exact ih acc h
    · exact ih _ (famInsert_sorted f acc h)

theorem merged_samples_aux (n : Str) (collected : List Family) : ∀ acc : List Family,
    (samplesOf n (collected.foldl (fun acc f => if f.samples.isEmpty then acc else famInsert f acc) acc)).Perm
      (samplesOf n acc ++ samplesOf n collected) := by
  induction collected with
  | nil => intro acc; simp [samplesOf]
  | cons f r ih =>
    intro acc
    simp only [List.foldl_cons]
    rw [samplesOf_cons]
    split
    · rename_i he
      have : f.samples = [] := by simpa using he
      simp only [this, ite_self, List.nil_append]
      exact ih acc
    · refine (ih _).trans ?_
      rw [← List.append_assoc]
      exact List.Perm.append_right _ (famInsert_samples f n acc)

/-- no empty family is returned -/
theorem merged_nonempty_aux (collected : List Family) : ∀ acc : List Family, (∀ g ∈ acc, g.samples ≠ []) →
    ∀ g ∈ collected.foldl (fun acc f => if f.samples.isEmpty then acc else famInsert f acc) acc, g.samples ≠ [] := by
  induction collected with
  | nil => intro acc h; simpa using h
  | cons f r ih =>
    intro acc h
    simp only [List.foldl_cons]
    split
    · exact ih acc h
    · rename_i hne
      apply ih
      intro g hg
      rcases famInsert_mem f acc g hg with rfl | hg | ⟨g0, hg0, _, rfl⟩
      · simpa using hne
      · exact h g hg
      · have := h g0 hg0
        simp [this]

end Prom.C07
