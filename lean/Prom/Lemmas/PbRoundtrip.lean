import Prom.Lemmas.C13Aux
/-
The generic wire round trip (C13): for any writer table and any schema that agree, whatever the
table-driven writer produces for a message of any shape and nesting is read back by the independent
schema-driven reader as the same fields, in write order.
-/
namespace Prom.C13
open Prom Prom.Pb

/-! ### what `Compatible` provides -/

def FieldAgrees (sfs : List SField) (wf : WField) : Prop :=
  wf.num < 536870912 ∧ ∃ sf, sfs.find? (·.num == wf.num) = some sf ∧ sf.name = wf.name ∧ kindCompat wf.kind sf.kind = true

def Agrees (tbl : List (String × List WField)) (sch : List (String × List SField)) : Prop :=
  ∀ name wfs, lookupMsg tbl name = some wfs → ∃ sfs, lookupMsg sch name = some sfs ∧ ∀ wf ∈ wfs, FieldAgrees sfs wf

theorem find_of_nodup : ∀ (sfs : List SField), (sfs.map (·.num)).Nodup → ∀ s ∈ sfs, sfs.find? (·.num == s.num) = some s := by
  intro sfs
  induction sfs with
  | nil => intro _ s hs; cases hs
  | cons a r ih =>
    intro hnd s hs
    simp only [List.map_cons, List.nodup_cons] at hnd
    rcases List.mem_cons.1 hs with rfl | hs
    · simp
    · have hne : ¬ (a.num = s.num) := fun e => hnd.1 (e ▸ List.mem_map.2 ⟨s, hs, rfl⟩)
      have : (a.num == s.num) = false := by simpa using hne
      simp only [List.find?_cons, this]
      exact ih hnd.2 s hs

theorem agrees_of_compatible (tbl : List (String × List WField)) (sch : List (String × List SField))
    (h : Compatible tbl sch = true) : Agrees tbl sch := by
  intro name wfs hl
  unfold lookupMsg at hl
  cases hf : tbl.find? (fun x => x.1 == name) with
  | none => rw [hf] at hl; cases hl
  | some p =>
    rw [hf] at hl
    have hp2 : p.2 = wfs := by simpa using hl
    have hmem := List.mem_of_find?_eq_some hf
    have hname : p.1 = name := by simpa using List.find?_some hf
    unfold Compatible at h
    simp only [Bool.and_eq_true] at h
    have hall := h.2
    have hp := List.all_eq_true.1 hall p hmem
    obtain ⟨pn, pw⟩ := p
    simp only at hname hp2 hp
    subst hname; subst hp2
    cases hs : lookupMsg sch pn with
    | none => rw [hs] at hp; cases hp
    | some sfs =>
      rw [hs] at hp
      simp only [Bool.and_eq_true, decide_eq_true_eq] at hp
      obtain ⟨⟨⟨⟨_, _⟩, hnd⟩, hw⟩, _⟩ := hp
      refine ⟨sfs, rfl, ?_⟩
      intro wf hwf
      have := List.all_eq_true.1 hw wf hwf
      simp only [Bool.and_eq_true, decide_eq_true_eq, List.any_eq_true] at this
      obtain ⟨⟨⟨_, _⟩, hlt⟩, s, hs', ⟨⟨⟨hn, hnum⟩, _⟩, hk⟩⟩ := this
      have hnum' : s.num = wf.num := by simpa using hnum
      have hn' : s.name = wf.name := by simpa using hn
      refine ⟨hlt, s, ?_, hn', hk⟩
      rw [← hnum']
      exact find_of_nodup sfs hnd s hs'

/-! ### the fields as the reader returns them: write order, at every level -/

def canonV (tbl : List (String × List WField)) : Nat → WField → PVal → PVal
  | d + 1, wf, .msg fs => match wf.kind with
    | .msg sub => match lookupMsg tbl sub with
      | some wfs => .msg ((emitOrder wfs fs).map fun p => (p.1.name, canonV tbl d p.1 p.2))
      | none => .msg fs
    | _ => .msg fs
  | _, _, v => v

def canon (tbl : List (String × List WField)) (d : Nat) (name : String) (fs : Fields) : Fields :=
  match lookupMsg tbl name with
  | some wfs => (emitOrder wfs fs).map fun p => (p.1.name, canonV tbl d p.1 p.2)
  | none => fs

/-! ### small facts -/

theorem varint_ne_nil (n : Nat) : varint n ≠ [] := by
  unfold varint varintFuel
  split <;> simp

theorem takeExact_append (b rest : List UInt8) : takeExact b.length (b ++ rest) = some (b, rest) := by
  simp [takeExact]

theorem wireType_lt (k : FKind) : wireType k < 8 := by cases k <;> simp [wireType]

theorem kc_wire {a b : FKind} (h : kindCompat a b = true) : wireType b = wireType a := by
  cases a <;> cases b <;> simp [kindCompat] at h <;> simp [wireType]

theorem kc_str {k : FKind} (h : kindCompat .str k = true) : k = .str := by cases k <;> simp [kindCompat] at h <;> rfl
theorem kc_double {k : FKind} (h : kindCompat .double k = true) : k = .double := by cases k <;> simp [kindCompat] at h <;> rfl
theorem kc_uint {k : FKind} (h : kindCompat .uint64 k = true) : k = .uint64 := by cases k <;> simp [kindCompat] at h <;> rfl
theorem kc_int {k : FKind} (h : kindCompat .int64 k = true) : k = .int64 := by cases k <;> simp [kindCompat] at h <;> rfl
theorem kc_enum {a : String} {k : FKind} (h : kindCompat (.enum a) k = true) : ∃ b, k = .enum b := by
  cases k <;> simp [kindCompat] at h; exact ⟨_, rfl⟩
theorem kc_msg {a : String} {k : FKind} (h : kindCompat (.msg a) k = true) : k = .msg a := by
  cases k <;> simp [kindCompat] at h; rw [h]

theorem varint_rt (n : Nat) (rest : List UInt8) (h : n < 2 ^ 64) : readVarint 10 (varint n ++ rest) = some (n, rest) := by
  apply varint_roundtrip_fuel 9 n rest
  have : (2 : Nat) ^ 64 ≤ 128 ^ 10 := by decide
  omega

theorem fixed64_rt (b : UInt64) (rest : List UInt8) : readFixed64 (fixed64 b ++ rest) = some (b, rest) := by
  have hlt : b.toNat < 2 ^ 64 := b.toNat_lt
  unfold fixed64
  simp only [List.cons_append, List.nil_append, readFixed64]
  rw [toUInt8_toNat _ (by omega), toUInt8_toNat _ (by omega), toUInt8_toNat _ (by omega), toUInt8_toNat _ (by omega),
    toUInt8_toNat _ (by omega), toUInt8_toNat _ (by omega), toUInt8_toNat _ (by omega), toUInt8_toNat _ (by omega)]
  have : b.toNat % 256 + 256 * (b.toNat / 256 % 256 + 256 * (b.toNat / 65536 % 256 + 256 * (b.toNat / 16777216 % 256 +
      256 * (b.toNat / 4294967296 % 256 + 256 * (b.toNat / 1099511627776 % 256 + 256 * (b.toNat / 281474976710656 % 256 +
      256 * (b.toNat / 72057594037927936 % 256))))))) = b.toNat := by omega
  rw [this]
  simp

theorem decFields_nonempty (decP : SField → List UInt8 → Option (PVal × List UInt8)) (sfs : List SField) (fuel : Nat)
    (bytes : List UInt8) (h : bytes ≠ []) :
    decFields decP sfs (fuel + 1) bytes =
      match readVarint 10 bytes with
      | none => none
      | some (t, r) =>
        match sfs.find? (·.num == t / 8) with
        | none => none
        | some sf =>
          if t % 8 != wireType sf.kind then none else
          match decP sf r with
          | none => none
          | some (v, r') =>
            match decFields decP sfs fuel r' with
            | some rest => some ((sf.name, v) :: rest)
            | none => none := by
  cases bytes with
  | nil => exact absurd rfl h
  | cons a t => rfl

theorem flattenOpt_cons (x : Option (List UInt8)) (xs : List (Option (List UInt8))) (bytes : List UInt8)
    (h : flattenOpt (x :: xs) = some bytes) : ∃ a b, x = some a ∧ flattenOpt xs = some b ∧ bytes = a ++ b := by
  unfold flattenOpt at h
  simp only [List.foldr_cons] at h
  cases x with
  | none => simp [optAppend] at h
  | some a =>
    cases hb : List.foldr optAppend (some []) xs with
    | none => rw [hb] at h; simp [optAppend] at h
    | some b =>
      rw [hb] at h
      refine ⟨a, b, rfl, ?_, ?_⟩
      · unfold flattenOpt; exact hb
      · simpa [optAppend] using h.symm

/-! ### the round trip, by induction on the nesting depth -/

def FieldRT (tbl : List (String × List WField)) (sch : List (String × List SField)) (d : Nat) : Prop :=
  ∀ (wf : WField) (v : PVal) (bytes rest : List UInt8) (sf : SField),
    encField tbl d wf v = some bytes → bytes.length < 2 ^ 64 → kindCompat wf.kind sf.kind = true →
    ∃ payload, bytes = tag wf.num wf.kind ++ payload ∧ decPayload sch d sf (payload ++ rest) = some (canonV tbl d wf v, rest)

theorem list_rt (tbl : List (String × List WField)) (sch : List (String × List SField)) (d : Nat)
    (hF : FieldRT tbl sch d) (wfs : List WField) (sfs : List SField) (hag : ∀ wf ∈ wfs, FieldAgrees sfs wf) :
    ∀ (l : List (WField × PVal)) (bytes : List UInt8), (∀ p ∈ l, p.1 ∈ wfs) →
      flattenOpt (l.map fun p => encField tbl d p.1 p.2) = some bytes → bytes.length < 2 ^ 64 →
      ∀ fuel, l.length < fuel →
        decFields (decPayload sch d) sfs fuel bytes = some (l.map fun p => (p.1.name, canonV tbl d p.1 p.2)) ∧
        l.length ≤ bytes.length := by
  intro l
  induction l with
  | nil =>
    intro bytes _ h _ fuel hf
    have : bytes = [] := by simpa [flattenOpt] using h.symm
    subst this
    cases fuel with
    | zero => omega
    | succ f => exact ⟨rfl, Nat.le_refl _⟩
  | cons p l ih =>
    intro bytes hmem h hlen fuel hf
    simp only [List.map_cons] at h
    obtain ⟨a, b, ha, hb, rfl⟩ := flattenOpt_cons _ _ _ h
    obtain ⟨hnum, sf, hfind, hname, hk⟩ := hag p.1 (hmem p (by simp))
    have hla : a.length < 2 ^ 64 := by simp only [List.length_append] at hlen; omega
    have hlb : b.length < 2 ^ 64 := by simp only [List.length_append] at hlen; omega
    obtain ⟨payload, rfl, hdec⟩ := hF p.1 p.2 a b sf ha hla hk
    cases fuel with
    | zero => omega
    | succ fuel =>
      obtain ⟨ihd, ihl⟩ := ih b (fun q hq => hmem q (by simp [hq])) hb hlb fuel (by simp only [List.length_cons] at hf; omega)
      have hne : tag p.1.num p.1.kind ++ payload ++ b ≠ [] := by
        unfold tag
        intro e
        have := List.append_eq_nil_iff.1 e
        have := List.append_eq_nil_iff.1 this.1
        exact varint_ne_nil _ this.1
      have hw := wireType_lt p.1.kind
      have htag : readVarint 10 (tag p.1.num p.1.kind ++ payload ++ b) = some (p.1.num * 8 + wireType p.1.kind, payload ++ b) := by
        unfold tag
        rw [List.append_assoc]
        exact varint_rt _ _ (by omega)
      have hdiv : (p.1.num * 8 + wireType p.1.kind) / 8 = p.1.num := by omega
      have hmod : (p.1.num * 8 + wireType p.1.kind) % 8 = wireType sf.kind := by rw [kc_wire hk]; omega
      constructor
      · rw [decFields_nonempty _ _ _ _ hne, htag]
        simp only [hdiv, hfind, hmod, bne_self_eq_false, Bool.false_eq_true, if_false, hdec, ihd, List.map_cons, hname]
      · have : 0 < (tag p.1.num p.1.kind).length := by
          unfold tag
          exact List.length_pos_iff.2 (varint_ne_nil _)
        simp only [List.length_append, List.length_cons]
        omega

theorem field_rt (tbl : List (String × List WField)) (sch : List (String × List SField)) (hag : Agrees tbl sch) :
    ∀ d, FieldRT tbl sch d := by
  intro d
  induction d with
  | zero =>
    intro wf v bytes rest sf henc hlen hk
    cases v with
    | msg fs => simp [encField] at henc
    | str b =>
      simp only [encField] at henc
      split at henc
      · rename_i hkind
        rw [hkind] at hk
        have hs := kc_str hk
        have e := (Option.some.inj henc).symm
        subst e
        refine ⟨varint b.length ++ b, by simp [List.append_assoc], ?_⟩
        have hbl : b.length < 2 ^ 64 := by simp only [List.length_append] at hlen; omega
        unfold decPayload
        simp only [hs, List.append_assoc, varint_rt _ _ hbl, takeExact_append, Option.map_some, canonV]
      · cases henc
    | double bits =>
      simp only [encField] at henc
      split at henc
      · rename_i hkind
        rw [hkind] at hk
        have hs := kc_double hk
        have e := (Option.some.inj henc).symm
        subst e
        refine ⟨fixed64 bits, rfl, ?_⟩
        unfold decPayload
        simp only [hs, fixed64_rt, Option.map_some, canonV]
      · cases henc
    | uint n =>
      simp only [encField] at henc
      split at henc
      · rename_i hkind
        rw [hkind] at hk
        have hs := kc_uint hk
        have e := (Option.some.inj henc).symm
        subst e
        refine ⟨varint n.toNat, rfl, ?_⟩
        unfold decPayload
        simp only [hs, varint_rt _ _ n.toNat_lt, Option.map_some, canonV, UInt64.ofNat_toNat, Nat.toUInt64]
      · cases henc
    | int n =>
      simp only [encField] at henc
      split at henc
      · rename_i hkind
        rw [hkind] at hk
        have hs := kc_int hk
        have e := (Option.some.inj henc).symm
        subst e
        refine ⟨varint n.toNat, rfl, ?_⟩
        unfold decPayload
        simp only [hs, varint_rt _ _ n.toNat_lt, Option.map_some, canonV, UInt64.ofNat_toNat, Nat.toUInt64]
      · cases henc
    | enum n =>
      simp only [encField] at henc
      split at henc
      · rename_i en hkind
        rw [hkind] at hk
        obtain ⟨en', hs⟩ := kc_enum hk
        have e := (Option.some.inj henc).symm
        subst e
        refine ⟨varint n.toNat, rfl, ?_⟩
        unfold decPayload
        simp only [hs, varint_rt _ _ n.toNat_lt, Option.map_some, canonV, UInt64.ofNat_toNat, Nat.toUInt64]
      · cases henc
  | succ d ih =>
    intro wf v bytes rest sf henc hlen hk
    cases v with
    | msg fs =>
      simp only [encField] at henc
      split at henc
      · rename_i sub hkind
        rw [hkind] at hk
        have hs := kc_msg hk
        split at henc
        · cases henc
        · rename_i wfs hlk
          split at henc
          · rename_i body hbody
            have e := (Option.some.inj henc).symm
            subst e
            obtain ⟨sfs, hsl, hfa⟩ := hag sub wfs hlk
            have hbl : body.length < 2 ^ 64 := by simp only [List.length_append] at hlen; omega
            have hmem : ∀ p ∈ emitOrder wfs fs, p.1 ∈ wfs := by
              intro p hp
              unfold emitOrder at hp
              obtain ⟨w, hw, hp⟩ := List.mem_flatMap.1 hp
              obtain ⟨q, _, rfl⟩ := List.mem_map.1 hp
              exact hw
            obtain ⟨hd, _⟩ := list_rt tbl sch d ih wfs sfs hfa (emitOrder wfs fs) body hmem hbody hbl (body.length + 1) (by
              have := (list_rt tbl sch d ih wfs sfs hfa (emitOrder wfs fs) body hmem hbody hbl ((emitOrder wfs fs).length + 1) (by omega)).2
              omega)
            refine ⟨varint body.length ++ body, by simp [List.append_assoc], ?_⟩
            unfold decPayload
            simp only [hs, hsl, List.append_assoc, varint_rt _ _ hbl, takeExact_append, hd, Option.map_some, canonV, hkind, hlk]
          · cases henc
      · cases henc
    | str b =>
      simp only [encField] at henc
      split at henc
      · rename_i hkind
        rw [hkind] at hk
        have hs := kc_str hk
        have e := (Option.some.inj henc).symm
        subst e
        refine ⟨varint b.length ++ b, by simp [List.append_assoc], ?_⟩
        have hbl : b.length < 2 ^ 64 := by simp only [List.length_append] at hlen; omega
        unfold decPayload
        simp only [hs, List.append_assoc, varint_rt _ _ hbl, takeExact_append, Option.map_some, canonV]
      · cases henc
    | double bits =>
      simp only [encField] at henc
      split at henc
      · rename_i hkind
        rw [hkind] at hk
        have hs := kc_double hk
        have e := (Option.some.inj henc).symm
        subst e
        refine ⟨fixed64 bits, rfl, ?_⟩
        unfold decPayload
        simp only [hs, fixed64_rt, Option.map_some, canonV]
      · cases henc
    | uint n =>
      simp only [encField] at henc
      split at henc
      · rename_i hkind
        rw [hkind] at hk
        have hs := kc_uint hk
        have e := (Option.some.inj henc).symm
        subst e
        refine ⟨varint n.toNat, rfl, ?_⟩
        unfold decPayload
        simp only [hs, varint_rt _ _ n.toNat_lt, Option.map_some, canonV, UInt64.ofNat_toNat, Nat.toUInt64]
      · cases henc
    | int n =>
      simp only [encField] at henc
      split at henc
      · rename_i hkind
        rw [hkind] at hk
        have hs := kc_int hk
        have e := (Option.some.inj henc).symm
        subst e
        refine ⟨varint n.toNat, rfl, ?_⟩
        unfold decPayload
        simp only [hs, varint_rt _ _ n.toNat_lt, Option.map_some, canonV, UInt64.ofNat_toNat, Nat.toUInt64]
      · cases henc
    | enum n =>
      simp only [encField] at henc
      split at henc
      · rename_i en hkind
        rw [hkind] at hk
        obtain ⟨en', hs⟩ := kc_enum hk
        have e := (Option.some.inj henc).symm
        subst e
        refine ⟨varint n.toNat, rfl, ?_⟩
        unfold decPayload
        simp only [hs, varint_rt _ _ n.toNat_lt, Option.map_some, canonV, UInt64.ofNat_toNat, Nat.toUInt64]
      · cases henc

end Prom.C13
