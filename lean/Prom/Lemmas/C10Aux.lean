import Prom.Model.Conc
/-
C10 — Concurrent use of a metric vector is linearizable.

Subject: the step machine `Conc.vStep` over the critical sections of the children lock (read lock /
unlock, write lock / unlock), child creation and updates through handles. Any list of accepted
items is a run: any number of threads, programs and interleavings. Each operation takes effect inside
its last critical section (the lookup of a hit, the insert/remove/clear under the write lock, the
reads of a collect under the read lock), i.e. at a step of the operation itself.
-/
/- Helper lemmas and auxiliary definitions for Props/C10.lean (kept apart from the property theorems). -/
namespace Prom.C10
open Prom Prom.Conc

/-- keys pairwise distinct, child ids in range -/
def VInv (s : VSt) : Prop :=
  (s.children.map (·.1)).Nodup ∧ ∀ p ∈ s.children, p.2 < s.vals.length

theorem vLookup_none {s : VSt} {k : String} (h : vLookup s k = none) : ∀ p ∈ s.children, p.1 ≠ k := by
  unfold vLookup at h
  simp [List.find?_eq_none] at h
  intro p hp e
  exact h p.1 p.2 hp e

end Prom.C10
