import Prom.Lemmas.Guard
/-
C10 — Concurrent use of a metric vector is linearizable.

Subject: the step machine `Conc.vStep` over the critical sections of the children lock (read lock /
unlock, write lock / unlock), child creation and updates through handles. Any list of accepted
items is a run: any number of threads, programs and interleavings. The machine touches the
vector's content only through `vEff`, i.e. by performing one operation of the sequential
specification `VSpec.apply` and recording it in the commit log.
-/
/- Helper lemmas and auxiliary definitions for Props/C10.lean (kept apart from the property theorems). -/
namespace Prom.C10
open Prom Prom.Conc

/-- run the sequential specification over a commit log, checking every recorded result -/
def specRunV : VSpec → List VLin → Option VSpec
  | s, [] => some s
  | s, l :: r => if (s.apply l.op).2 = l.res then specRunV (s.apply l.op).1 r else none

theorem specRunV_append (s : VSpec) (l : List VLin) (x : VLin) :
    specRunV s (l ++ [x]) = (specRunV s l).bind fun s' => specRunV s' [x] := by
  induction l generalizing s with
  | nil => simp [specRunV]
  | cons a r ih =>
    simp only [List.cons_append, specRunV]
    split
    · exact ih _
    · rfl

def VLinInv (s : VSt) : Prop := specRunV {} s.lin = some s.spec

/-- what an accepted item does to the vector's content and the commit log: nothing, or exactly one
    operation of the sequential specification, recorded -/
inductive VTrans (s s' : VSt) : Prop
  | frame (hs : s'.spec = s.spec) (hl : s'.lin = s.lin)
  | eff (t i : Nat) (op : VOp) (hs : s'.spec = (vEff s t i op).1.spec) (hl : s'.lin = (vEff s t i op).1.lin)

theorem vTrans_linInv {s s' : VSt} (hi : VLinInv s) (h : VTrans s s') : VLinInv s' := by
  cases h with
  | frame hs hl => unfold VLinInv; rw [hs, hl]; exact hi
  | eff t i op hs hl =>
    unfold VLinInv at hi ⊢
    rw [hs, hl]
    simp only [vEff, specRunV_append, hi, Option.bind_some, specRunV, if_true]

theorem vTrans_lin_mono {s s' : VSt} (h : VTrans s s') : s.lin <+: s'.lin := by
  cases h with
  | frame hs hl => rw [hl]; exact List.prefix_refl _
  | eff t i op hs hl => rw [hl]; exact List.prefix_append _ _

/-- identifying a location as a child's cell changes neither the threads, nor the vector's content, nor the
    commit log (only `binding`) -/
theorem bindChild_ok {s s1 : VSt} {loc : String} {c : Nat} (h : bindChild s loc c = .ok s1) :
    s1.ths = s.ths ∧ s1.spec = s.spec ∧ s1.lin = s.lin := by
  unfold bindChild at h
  split at h
  · rw [guard_ok] at h; obtain ⟨_, h⟩ := h
    cases h; exact ⟨rfl, rfl, rfl⟩
  · rw [guard_ok] at h; obtain ⟨_, h⟩ := h
    cases h; exact ⟨rfl, rfl, rfl⟩

/-- the effect of one specification operation depends on the content and the log only -/
theorem vEff_congr {s s1 : VSt} (hs : s1.spec = s.spec) (hl : s1.lin = s.lin) (t i : Nat) (op : VOp) :
    (vEff s1 t i op).1.spec = (vEff s t i op).1.spec ∧ (vEff s1 t i op).1.lin = (vEff s t i op).1.lin ∧
    (vEff s1 t i op).1.ths = s1.ths := by
  simp only [vEff, hs, hl, and_self]

/-- the `fetch_add` form of a handle update commits exactly `.inc c` -/
theorem vIncAdd_trans {s s' : VSt} {e : Ev} {th : Th VPc} {c : Nat} (h : vIncAdd s e th c = .ok s') :
    VTrans s s' := by
  unfold vIncAdd at h
  rw [guard_ok] at h; obtain ⟨_, h⟩ := h
  rw [guard_ok] at h; obtain ⟨_, h⟩ := h
  split at h
  · cases h
  · next s1 hb =>
    obtain ⟨_, hs, hl⟩ := bindChild_ok hb
    cases h
    exact .eff e.tid th.idx (.inc c) (vEff_congr hs hl _ _ _).1 (vEff_congr hs hl _ _ _).2.1

/-- the load of a handle update written as a loop is a stutter -/
theorem vIncLoad_trans {s s' : VSt} {e : Ev} {th : Th VPc} {c : Nat} (h : vIncLoad s e th c = .ok s') :
    VTrans s s' := by
  unfold vIncLoad at h
  rw [guard_ok] at h; obtain ⟨_, h⟩ := h
  rw [guard_ok] at h; obtain ⟨_, h⟩ := h
  split at h
  · cases h
  · next s1 hb =>
    obtain ⟨_, hs, hl⟩ := bindChild_ok hb
    cases h
    exact .frame hs hl

/-- the compare-exchange of a handle update written as a loop commits exactly `.inc c` (success) or is a
    stutter (failure) -/
theorem vIncCas_trans {s s' : VSt} {e : Ev} {th : Th VPc} {c : Nat} {cur : UInt64}
    (h : vIncCas s e th c cur = .ok s') : VTrans s s' := by
  unfold vIncCas at h
  rw [guard_ok] at h; obtain ⟨_, h⟩ := h
  split at h
  · cases h
  · next s1 hb =>
    obtain ⟨_, hs, hl⟩ := bindChild_ok hb
    split at h
    · rw [guard_ok] at h; obtain ⟨_, h⟩ := h
      cases h
      exact .eff e.tid th.idx (.inc c) (vEff_congr hs hl _ _ _).1 (vEff_congr hs hl _ _ _).2.1
    · rw [guard_ok] at h; obtain ⟨_, h⟩ := h
      cases h
      exact .frame hs hl

/-- exactly what an accepted `fetch_add` of a handle update is and does -/
theorem vIncAdd_spec {s s' : VSt} {e : Ev} {th : Th VPc} {c : Nat} (h : vIncAdd s e th c = .ok s') :
    e.k = "A" ∧ ordGe e.ord "Relaxed" = true ∧ e.a = 1 ∧ e.res = s.spec.vals.getD c 0 ∧
    (∃ s1, bindChild s e.loc c = .ok s1) ∧
    s'.spec = (s.spec.apply (.inc c)).1 ∧ s'.lin = s.lin ++ [⟨e.tid, th.idx, .inc c, .unit⟩] ∧
    s'.ths = s.ths.set e.tid { th with pc := none, retv := some "" } := by
  unfold vIncAdd at h
  rw [guard_ok] at h; obtain ⟨hg, h⟩ := h
  rw [guard_ok] at h; obtain ⟨hv, h⟩ := h
  simp only [Bool.and_eq_true, beq_iff_eq] at hg hv
  split at h
  · cases h
  · next s1 hb =>
    obtain ⟨hths, hs, hl⟩ := bindChild_ok hb
    cases h
    refine ⟨hg.1.1, hg.1.2, hg.2, hv, ⟨s1, hb⟩, ?_, ?_, ?_⟩
    · show (s1.spec.apply (.inc c)).1 = _
      rw [hs]
    · show s1.lin ++ _ = _
      rw [hl]; rfl
    · show s1.ths.set _ _ = _
      rw [hths]

/-- exactly what an accepted load of a handle update (written as a loop) is and does -/
theorem vIncLoad_spec {s s' : VSt} {e : Ev} {th : Th VPc} {c : Nat} (h : vIncLoad s e th c = .ok s') :
    e.k = "L" ∧ ordGe e.ord "Relaxed" = true ∧ e.res = s.spec.vals.getD c 0 ∧
    (∃ s1, bindChild s e.loc c = .ok s1) ∧
    s'.spec = s.spec ∧ s'.lin = s.lin ∧
    s'.ths = s.ths.set e.tid { th with pc := some (.incCas c e.res) } := by
  unfold vIncLoad at h
  rw [guard_ok] at h; obtain ⟨hg, h⟩ := h
  rw [guard_ok] at h; obtain ⟨hv, h⟩ := h
  simp only [Bool.and_eq_true, beq_iff_eq] at hg hv
  split at h
  · cases h
  · next s1 hb =>
    obtain ⟨hths, hs, hl⟩ := bindChild_ok hb
    cases h
    refine ⟨hg.1, hg.2, hv, ⟨s1, hb⟩, hs, hl, ?_⟩
    show s1.ths.set _ _ = _
    rw [hths]

/-- exactly what an accepted compare-exchange of a handle update (written as a loop) is and does -/
theorem vIncCas_spec {s s' : VSt} {e : Ev} {th : Th VPc} {c : Nat} {cur : UInt64}
    (h : vIncCas s e th c cur = .ok s') :
    e.k = "C" ∧ ordGe e.ord "Relaxed" = true ∧ e.a = cur ∧ e.b = cur + 1 ∧
    (∃ s1, bindChild s e.loc c = .ok s1) ∧
    ((e.ok = true ∧ s.spec.vals.getD c 0 = cur ∧ e.res = cur ∧
        s'.spec = (s.spec.apply (.inc c)).1 ∧ s'.lin = s.lin ++ [⟨e.tid, th.idx, .inc c, .unit⟩] ∧
        s'.ths = s.ths.set e.tid { th with pc := none, retv := some "" }) ∨
     (e.ok = false ∧ e.res = s.spec.vals.getD c 0 ∧ s'.spec = s.spec ∧ s'.lin = s.lin ∧
        s'.ths = s.ths.set e.tid { th with pc := some (.incRetry c e.res) })) := by
  unfold vIncCas at h
  rw [guard_ok] at h; obtain ⟨hg, h⟩ := h
  simp only [Bool.and_eq_true, beq_iff_eq] at hg
  split at h
  · cases h
  · next s1 hb =>
    obtain ⟨hths, hs, hl⟩ := bindChild_ok hb
    refine ⟨hg.1.1.1, hg.1.1.2, hg.1.2, hg.2, ⟨s1, hb⟩, ?_⟩
    split at h
    · next hok =>
      rw [guard_ok] at h; obtain ⟨hv, h⟩ := h
      simp only [Bool.and_eq_true, beq_iff_eq] at hv
      cases h
      refine .inl ⟨hok, hv.1, hv.2, ?_, ?_, ?_⟩
      · show (s1.spec.apply (.inc c)).1 = _
        rw [hs]
      · show s1.lin ++ _ = _
        rw [hl]; rfl
      · show s1.ths.set _ _ = _
        rw [hths]
    · next hok =>
      rw [guard_ok] at h; obtain ⟨hv, h⟩ := h
      simp only [beq_iff_eq] at hv
      cases h
      refine .inr ⟨by simpa using hok, hv, hs, hl, ?_⟩
      show s1.ths.set _ _ = _
      rw [hths]

theorem vStep_trans {s s' : VSt} {e : Ev} (h : vStep s e = .ok s') : VTrans s s' := by
  unfold vStep at h
  split at h
  · cases h
  · next th hth =>
    split at h
    · cases h
    · next pc hpc =>
      simp only at h
      split at h
      · -- start
        next op =>
        split at h
        · rw [guard_ok] at h; obtain ⟨_, h⟩ := h
          rw [guard_ok] at h; obtain ⟨_, h⟩ := h
          split at h
          · cases h; exact .eff e.tid _ _ rfl rfl
          · cases h; exact .frame rfl rfl
        · split at h
          · rw [guard_ok] at h; obtain ⟨_, h⟩ := h
            rw [guard_ok] at h; obtain ⟨_, h⟩ := h
            cases h; exact .eff e.tid _ _ rfl rfl
          · split at h
            · -- rm: pre-check under the read lock
              rw [guard_ok] at h; obtain ⟨_, h⟩ := h
              rw [guard_ok] at h; obtain ⟨_, h⟩ := h
              split at h
              · cases h; exact .eff e.tid _ _ rfl rfl
              · cases h; exact .frame rfl rfl
            · split at h
              · -- reset: emptiness pre-check under the read lock
                rw [guard_ok] at h; obtain ⟨_, h⟩ := h
                rw [guard_ok] at h; obtain ⟨_, h⟩ := h
                split at h
                · cases h; exact .eff e.tid _ _ rfl rfl
                · cases h; exact .frame rfl rfl
              · split at h
                · rw [guard_ok] at h; obtain ⟨_, h⟩ := h
                  rw [guard_ok] at h; obtain ⟨_, h⟩ := h
                  cases h; exact .eff e.tid _ _ rfl rfl
                · cases h
      · -- rheld
        rw [guard_ok] at h; obtain ⟨_, h⟩ := h
        split at h
        · cases h; exact .frame rfl rfl
        · cases h; exact .frame rfl rfl
      · -- needW
        rw [guard_ok] at h; obtain ⟨_, h⟩ := h
        rw [guard_ok] at h; obtain ⟨_, h⟩ := h
        split at h
        · cases h; exact .eff e.tid _ _ rfl rfl
        · cases h
      · -- wheld
        rw [guard_ok] at h; obtain ⟨_, h⟩ := h
        cases h; exact .frame rfl rfl
      · -- incChild
        split at h
        · exact vIncLoad_trans h
        · exact vIncAdd_trans h
      · -- incCas
        exact vIncCas_trans h
      · -- incRetry
        split at h
        · exact vIncLoad_trans h
        · exact vIncCas_trans h
      · -- collecting
        split at h
        · rw [guard_ok] at h; obtain ⟨_, h⟩ := h
          cases h; exact .frame rfl rfl
        · rw [guard_ok] at h; obtain ⟨_, h⟩ := h
          rw [guard_ok] at h; obtain ⟨_, h⟩ := h
          split at h
          · cases h
          · cases h; exact .frame rfl rfl
      · -- rmRheld
        rw [guard_ok] at h; obtain ⟨_, h⟩ := h
        split at h
        · cases h; exact .frame rfl rfl
        · cases h; exact .frame rfl rfl
      · -- rmNeedW
        rw [guard_ok] at h; obtain ⟨_, h⟩ := h
        rw [guard_ok] at h; obtain ⟨_, h⟩ := h
        cases h; exact .eff e.tid _ _ rfl rfl

theorem vItem_trans {s s' : VSt} {it : Item} (h : vItem s it = .ok s') : VTrans s s' := by
  cases it with
  | ev e => exact vStep_trans h
  | call t i op =>
    simp only [vItem] at h
    repeat' split at h
    all_goals first
      | (cases h; done)
      | (cases h; exact .frame rfl rfl)
  | ret t i v =>
    simp only [vItem] at h
    repeat' split at h
    all_goals first
      | (cases h; done)
      | (cases h; exact .frame rfl rfl)
  | other x => simp [vItem] at h

/-- keys pairwise distinct, child ids in range -/
def SpecInv (s : VSpec) : Prop :=
  (s.map.map (·.1)).Nodup ∧ ∀ p ∈ s.map, p.2 < s.vals.length

theorem lookup_none {s : VSpec} {k : String} (h : s.lookup k = none) : ∀ p ∈ s.map, p.1 ≠ k := by
  unfold VSpec.lookup at h
  simp [List.find?_eq_none] at h
  intro p hp e
  exact h p.1 p.2 hp e

theorem lookup_some {s : VSpec} {k : String} {c : Nat} (h : s.lookup k = some c) : (k, c) ∈ s.map := by
  unfold VSpec.lookup at h
  simp only [Option.map_eq_some_iff] at h
  obtain ⟨p, hp, hc⟩ := h
  have hm := List.mem_of_find?_eq_some hp
  have hk := List.find?_some hp
  simp only [beq_iff_eq] at hk
  obtain ⟨a, b⟩ := p
  simp only at hk hc; subst hk; subst hc; exact hm

/-- every operation of the specification keeps keys pairwise distinct and child ids valid -/
theorem apply_specInv (s : VSpec) (op : VOp) (hi : SpecInv s) : SpecInv (s.apply op).1 := by
  obtain ⟨h1, h2⟩ := hi
  cases op with
  | getOrCreate k =>
    simp only [VSpec.apply]
    split
    · exact ⟨h1, h2⟩
    · next hl =>
      refine ⟨?_, ?_⟩
      · simp only [List.map_append, List.map_cons, List.map_nil]
        rw [List.nodup_append]
        refine ⟨h1, by simp, ?_⟩
        intro a ha b hb hab
        simp at hb; subst hb
        obtain ⟨p, hp, hpa⟩ := List.mem_map.1 ha
        exact lookup_none hl p hp (hpa.trans hab)
      · intro p hp
        simp only [List.length_append, List.length_cons, List.length_nil]
        rcases List.mem_append.1 hp with hp | hp
        · have := h2 p hp; omega
        · simp at hp; subst hp; simp
  | remove k =>
    simp only [VSpec.apply]
    split
    · refine ⟨?_, fun p hp => h2 p (List.mem_filter.1 hp).1⟩
      exact List.Nodup.sublist (List.Sublist.map _ List.filter_sublist) h1
    · exact ⟨h1, h2⟩
  | reset => exact ⟨by simp [VSpec.apply], by simp [VSpec.apply]⟩
  | keys => exact ⟨h1, h2⟩
  | inc c => exact ⟨h1, by simpa [VSpec.apply] using h2⟩
  | read c => exact ⟨h1, h2⟩

/-- resetting a vector that has no children changes nothing (and returns the usual unit result): this
    is why a `reset` may commit under the READ lock when it sees an empty map -/
theorem reset_empty (s : VSpec) (h : s.map.isEmpty = true) : s.apply .reset = (s, .unit) := by
  obtain ⟨m, v⟩ := s
  simp only [List.isEmpty_iff] at h
  subst h
  rfl

end Prom.C10
