import Prom.Lemmas.C17Aux
/-
C17 — helper lemmas for the bucket helper functions `linear_buckets` / `exponential_buckets`
(`Model/Histogram.lean`: `linearBuckets`, `exponentialBuckets`; panic-explicit versions in
`Model/Fallible.lean`). The property theorems are in `Props/C17.lean`.
-/
namespace Prom.C17
open Prom

/-- the push loop of `exponential_buckets` pushes exactly `n` values -/
theorem expLoop_length (factor : UInt64) : ∀ (n : Nat) (next : UInt64), (expLoop factor n next).length = n := by
  intro n
  induction n with
  | zero => intro _; rfl
  | succ k ih => intro next; simp only [expLoop, List.length_cons, ih]

/-- the first value pushed is the current `next` -/
theorem expLoop_head (factor : UInt64) (n : Nat) (next : UInt64) :
    (expLoop factor (n + 1) next)[0]? = some next := rfl

/-- entry `i + 1` of the loop's output is entry `i` of the loop started one multiplication later -/
theorem expLoop_getElem?_succ (factor : UInt64) (n : Nat) (next : UInt64) (i : Nat) :
    (expLoop factor (n + 1) next)[i + 1]? = (expLoop factor n (f64Mul next factor))[i]? := rfl

/-- each entry is the previous one times `factor` (`next *= factor`) -/
theorem expLoop_step (factor : UInt64) : ∀ (n : Nat) (next : UInt64) (i : Nat) (a : UInt64),
    i + 1 < n → (expLoop factor n next)[i]? = some a → (expLoop factor n next)[i + 1]? = some (f64Mul a factor) := by
  intro n
  induction n with
  | zero => intro _ i _ h; omega
  | succ k ih =>
    intro next i a hi ha
    cases i with
    | zero =>
      have : a = next := by
        rw [expLoop_head] at ha
        exact (Option.some.inj ha).symm
      subst this
      cases k with
      | zero => omega
      | succ k' => rfl
    | succ j =>
      rw [expLoop_getElem?_succ] at ha ⊢
      exact ih _ j a (by omega) ha

/-- `x <= 0.0` in terms of the order key: `x` is a number (not NaN) that is negative or a zero -/
theorem f64Le_zero_iff (x : UInt64) : f64Le x f64Zero = true ↔ f64IsNaN x = false ∧ f64Key x ≤ 0 := by
  have hz : f64IsNaN f64Zero = false := by decide
  have hk : f64Key f64Zero = 0 := by decide
  simp only [f64Le, hz, hk, Bool.not_false, Bool.and_true, Bool.and_eq_true, Bool.not_eq_true',
    decide_eq_true_eq]

/-- a NaN compares `<=` to nothing -/
theorem f64Le_nan_left (x y : UInt64) (h : f64IsNaN x = true) : f64Le x y = false := by
  simp [f64Le, h]

/-- the capacity request of a bucket vector (`8 * count` bytes) never overflows for
    `count ≤ isize::MAX / 8 = 2^60 - 1` -/
theorem vecWithCapacityP_ok (count : Nat) (h : count < 2 ^ 60) : vecWithCapacityP 8 count = .ok () := by
  unfold vecWithCapacityP isizeMax
  rw [if_pos (by omega)]

theorem vecWithCapacityP_panic (count : Nat) (h : 2 ^ 60 ≤ count) : vecWithCapacityP 8 count = .panic := by
  unfold vecWithCapacityP isizeMax
  rw [if_neg (by omega)]

end Prom.C17
