/- Parsing helpers for the line protocol (hex strings, hex f64, lists). -/
namespace Prom

def hexVal (c : Char) : Option Nat :=
  if '0' ≤ c ∧ c ≤ '9' then some (c.toNat - '0'.toNat)
  else if 'a' ≤ c ∧ c ≤ 'f' then some (c.toNat - 'a'.toNat + 10)
  else if 'A' ≤ c ∧ c ≤ 'F' then some (c.toNat - 'A'.toNat + 10)
  else none

def parseHexNat (s : String) : Option Nat :=
  if s.isEmpty then none else
  s.toList.foldl (fun acc c => match acc, hexVal c with
    | some a, some v => some (a * 16 + v)
    | _, _ => none) (some 0)

def parseF64 (s : String) : Option UInt64 := (parseHexNat s).map (·.toUInt64)

/-- comma separated list; "-" or "" is the empty list -/
def splitList (s : String) : List String :=
  if s == "-" || s.isEmpty then [] else s.splitOn ","

def parseF64List (s : String) : Option (List UInt64) := (splitList s).mapM parseF64
def parseNatList (s : String) : Option (List Nat) := (splitList s).mapM (·.toNat?)

/-- hex-encoded bytes ("-" = empty) -/
def parseHexBytes (s : String) : Option (List UInt8) :=
  if s == "-" then some [] else
  let rec go : List Char → Option (List UInt8)
    | [] => some []
    | [_] => none
    | a :: b :: r => match hexVal a, hexVal b, go r with
      | some x, some y, some t => some ((x * 16 + y).toUInt8 :: t)
      | _, _, _ => none
  go s.toList

def hexDigit (n : Nat) : Char := if n < 10 then Char.ofNat (48 + n) else Char.ofNat (87 + n)
def showHexBytes (bs : List UInt8) : String :=
  if bs.isEmpty then "-" else
  String.ofList (bs.flatMap fun b => [hexDigit (b.toNat / 16), hexDigit (b.toNat % 16)])

def showU64Hex (b : UInt64) : String :=
  let ds := (Nat.toDigits 16 b.toNat)
  String.ofList (List.replicate (16 - ds.length) '0' ++ ds)

def joinWith (sep : String) (xs : List String) : String :=
  if xs.isEmpty then "-" else sep.intercalate xs

/-- key=value fields of a request line -/
def field (fs : List String) (k : String) : Option String :=
  fs.findSome? fun f => if f.startsWith (k ++ "=") then some ((f.drop (k.length + 1)).toString) else none

end Prom

namespace Prom
/-- list of hex strings joined by ',' ("-" = empty list; "~" = empty string element) -/
def parseHexList (s : String) : Option (List (List UInt8)) :=
  if s == "-" then some [] else
  (s.splitOn ",").mapM fun x => if x == "~" then some [] else parseHexBytes x

def showHexElem (b : List UInt8) : String := if b.isEmpty then "~" else showHexBytes b
def showHexList (l : List (List UInt8)) : String :=
  if l.isEmpty then "-" else ",".intercalate (l.map showHexElem)

/-- list of `k:v` pairs of hex strings -/
def parseHexPairs (s : String) : Option (List (List UInt8 × List UInt8)) :=
  if s == "-" then some [] else
  (s.splitOn ",").mapM fun x => match x.splitOn ":" with
    | [k, v] => match (if k == "~" then some [] else parseHexBytes k), (if v == "~" then some [] else parseHexBytes v) with
      | some k, some v => some (k, v)
      | _, _ => none
    | _ => none

def showHexPairs (l : List (List UInt8 × List UInt8)) : String :=
  if l.isEmpty then "-" else ",".intercalate (l.map fun p => showHexElem p.1 ++ ":" ++ showHexElem p.2)
end Prom
