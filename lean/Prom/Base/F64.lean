/-
IEEE-754 binary64 *order* modelled bit-exactly on the 64-bit pattern.
No `Float` occurs in any definition used by a theorem about ordering; `Float`
is used only by the executable addition (`f64Add`), which theorems treat as a
parameter.
-/
namespace Prom

/-- NaN: exponent all ones, mantissa non-zero. -/
def f64IsNaN (b : UInt64) : Bool :=
  (b &&& 0x7FFFFFFFFFFFFFFF) > 0x7FF0000000000000

/-- sign bit set -/
def f64Neg (b : UInt64) : Bool := b ≥ 0x8000000000000000

/-- magnitude bits -/
def f64Mag (b : UInt64) : Nat := (b &&& 0x7FFFFFFFFFFFFFFF).toNat

/-- order key: sign-magnitude read as an integer; `-0` and `+0` both map to 0. -/
def f64Key (b : UInt64) : Int :=
  if f64Neg b then - (f64Mag b : Int) else (f64Mag b : Int)

/-- IEEE `a <= b` (false when either side is NaN). -/
def f64Le (a b : UInt64) : Bool :=
  !f64IsNaN a && !f64IsNaN b && decide (f64Key a ≤ f64Key b)

/-- IEEE `a < b`. -/
def f64Lt (a b : UInt64) : Bool :=
  !f64IsNaN a && !f64IsNaN b && decide (f64Key a < f64Key b)

/-- IEEE `a >= b`. -/
def f64Ge (a b : UInt64) : Bool := f64Le b a
/-- IEEE `a > b`. -/
def f64Gt (a b : UInt64) : Bool := f64Lt b a

def f64PosInf : UInt64 := 0x7FF0000000000000
def f64NegInf : UInt64 := 0xFFF0000000000000
def f64Zero : UInt64 := 0

/-- `is_sign_positive() && is_infinite()` -/
def f64IsPosInf (b : UInt64) : Bool := b == f64PosInf

/-- executable IEEE addition (Lean `Float` is binary64). Parameter of theorems. -/
def f64Add (a b : UInt64) : UInt64 := (Float.ofBits a + Float.ofBits b).toBits
def f64Mul (a b : UInt64) : UInt64 := (Float.ofBits a * Float.ofBits b).toBits
def f64OfNat (n : Nat) : UInt64 := (Float.ofNat n).toBits
def f64NegOp (a : UInt64) : UInt64 := a ^^^ 0x8000000000000000

/-- canonical text of a bit pattern for the line protocol (all NaNs identified). -/
def f64Show (b : UInt64) : String :=
  if f64IsNaN b then "nan" else
    let ds := (Nat.toDigits 16 b.toNat)
    String.ofList (List.replicate (16 - ds.length) '0' ++ ds)

end Prom
