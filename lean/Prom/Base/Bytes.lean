/-
Strings are modelled as their UTF-8 byte lists (a Rust `String` *is* a byte vector that is
valid UTF-8; `==`, `Ord` and hashing of strings are byte-wise). `Base/Utf8` proves the two
facts about UTF-8 the models rely on (no byte is 0xFF; ASCII bytes only come from ASCII chars).
-/
namespace Prom

abbrev Str := List UInt8

/-- byte-wise lexicographic `<=` (Rust `str::cmp`): core's lexicographic order on `List UInt8` -/
def strLe (a b : Str) : Bool := decide (a ≤ b)
def strLt (a b : Str) : Bool := decide (a < b)

/-- insertion into a list sorted by `le` (stable: after every element `x` with `le x a`) -/
def insertBy {α} (le : α → α → Bool) (a : α) : List α → List α
  | [] => [a]
  | b :: r => if le b a then b :: insertBy le a r else a :: b :: r

/-- stable insertion sort (models `sort`/`sort_by`; also BTreeSet/BTreeMap iteration when keys are
    unique): folding from the left keeps equal elements in input order -/
def stableSortBy {α} (le : α → α → Bool) (l : List α) : List α :=
  l.foldl (fun acc a => insertBy le a acc) []

def strOfString (s : String) : Str := s.toUTF8.toList

end Prom
