import Prom.Base.Bytes
/- FNV-1a 64 exactly as the `fnv` crate's `FnvHasher` (`write` = fold over bytes). -/
namespace Prom

def fnvOffset : UInt64 := 0xcbf29ce484222325
def fnvPrime : UInt64 := 0x100000001b3
def fnvStep (h : UInt64) (b : UInt8) : UInt64 := (h ^^^ b.toUInt64) * fnvPrime
/-- state after `write(bytes)` starting from state `h` -/
def fnvWrite (h : UInt64) (bs : List UInt8) : UInt64 := bs.foldl fnvStep h
def fnv1a (bs : List UInt8) : UInt64 := fnvWrite fnvOffset bs

theorem fnvWrite_append (h : UInt64) (a b : List UInt8) :
    fnvWrite (fnvWrite h a) b = fnvWrite h (a ++ b) := by
  simp [fnvWrite, List.foldl_append]

/-- separator-terminated encoding of a list of byte strings: what the code feeds the hasher
    (`write(v); write_u8(SEP)` per element) -/
def sepEnc (sep : UInt8) (l : List Str) : List UInt8 := l.flatMap (· ++ [sep])

end Prom
