import Prom.Drv.Hist
import Prom.Drv.Desc
import Prom.Drv.Vec
import Prom.Drv.Reg
import Prom.Drv.Local
import Prom.Drv.Timer
import Prom.Drv.Fall
import Prom.Drv.Conc
import Prom.Drv.Text
import Prom.Drv.Pb
import Prom.Drv.C16
import Prom.Drv.Macro
import Prom.Drv.SM
/- Line-protocol driver: one request per line on stdin, one result per line on stdout. -/
open Prom Prom.Drv

structure DState where
  dummy : Nat := 0
  vec : VecSt := {}
  reg : RegSt := {}
  loc : LocalSt := {}
  tw : TW := {}

def step (st : DState) (line : String) : DState × String :=
  match line.trimAscii.toString.splitOn " " with
  | ["case"] => ({}, "case")
  | "hist" :: args => (st, histHandle args)
  | "desc" :: args => (st, descHandle args)
  | "macro" :: args => (st, macroHandle args)
  | "sm" :: args => (st, smHandle args)
  | "text" :: args => (st, textHandle args)
  | "pb" :: args => (st, pbHandle args)
  | "catom" :: args => (st, concHandle "catom" args)
  | "cvec" :: args => (st, concHandle "cvec" args)
  | "chist" :: args => (st, concHandle "chist" args)
  | "creg" :: args => (st, concHandle "creg" args)
  | "fall" :: "lin" :: args => (st, clsOfText (histHandle ("lin" :: args)))
  | "fall" :: "exp" :: args => (st, clsOfText (histHandle ("exp" :: args)))
  | "fall" :: args => (st, fallHandle args)
  | "timer" :: args => let (v, o) := timerHandle st.tw args; ({ st with tw := v }, o)
  | "local" :: args => let (v, o) := localHandle st.loc args; ({ st with loc := v }, o)
  | "reg" :: "gathertext" :: args => (st, gatherTextHandle st.reg args)
  | "reg" :: "raw" :: args => (st, rawHandle args)
  | "reg" :: args => let (v, o) := regHandle st.reg args; ({ st with reg := v }, o)
  | "vec" :: args => let (v, o) := vecHandle st.vec args; ({ st with vec := v }, o)
  | _ => (st, "bad-op")

partial def loop (h : IO.FS.Stream) (out : IO.FS.Stream) (st : DState) : IO Unit := do
  let line ← h.getLine
  if line.isEmpty then return ()
  let (st', o) := step st line
  out.putStrLn o
  loop h out st'

def main : IO Unit := do
  let out ← IO.getStdout
  loop (← IO.getStdin) out {}
